#!/bin/bash
# Run once after a fresh restore, offline: verifies the toolchain and warms the Go build cache.
set -e
cd "$(dirname "$0")/.."
export GOFLAGS=-mod=mod GOPROXY=off GOSUMDB=off GOTOOLCHAIN=local GOWORK=off
command -v tlc >/dev/null
command -v go >/dev/null
command -v python3 >/dev/null
cp /repo/ociregistry/go.sum harness/go.sum 2>/dev/null || true
(cd harness && go build -tags verif -o /dev/null .)
echo setup ok
