#!/usr/bin/env python3
"""usage: store_seeded.py <id> <round-note> <confirm-line> <detected-by,comma-separated or -> [<detection-note>]
Copies /tmp/mut/out-<id>/{patch.diff,demo_test.go,meta.json} to /verif/seeded/<id>/ and completes meta.json with what
was confirmed (tools/confirm_mutant.sh) and which check detected the change (tools/trymutant.sh)."""
import json, os, shutil, sys

mid, author, confirmed, det = sys.argv[1:5]
note = sys.argv[5] if len(sys.argv) > 5 else ""
src = f"/tmp/mut/out-{mid}"
dst = f"/verif/seeded/{mid}"
os.makedirs(dst, exist_ok=True)
for f in ("patch.diff", "demo_test.go"):
    shutil.copy(os.path.join(src, f), os.path.join(dst, f))
meta = json.load(open(os.path.join(src, "meta.json")))
meta["author"] = author
meta["confirmed"] = confirmed
meta["confirmed_how"] = "tools/confirm_mutant.sh"
meta["detected_by"] = [] if det == "-" else det.split(",")
if note:
    meta["detection_note"] = note
meta["detection_how"] = "tools/trymutant.sh <patch> quick <checks>"
json.dump(meta, open(os.path.join(dst, "meta.json"), "w"), indent=1)
print("stored", dst)
