#!/bin/bash
# usage: regress_seeded.sh <parallelism> <id-glob>...   e.g. regress_seeded.sh 3 'C01-*' 'C14-*'
# Re-tries stored seeded defects against the check(s) recorded in their meta.json (quick tier) and prints
# one line per defect: <id> <check> exit=<n>.  Defects recorded as not detected are skipped.
P=$1; shift
cd /verif/seeded
for g in "$@"; do ls -d $g; done | sort -u | while read id; do
  python3 - "$id" <<'PY'
import json,sys
m=json.load(open('/verif/seeded/%s/meta.json'%sys.argv[1]))
d=m.get('detected_by') or []
if d:
    import re
    c=re.match(r'(C\d\d)',d[0])
    if c: print(sys.argv[1], c.group(1))
PY
done | xargs -P $P -L 1 bash -c 'r=$(/verif/tools/trymutant.sh /verif/seeded/$0/patch.diff quick $1 2>&1 | grep -E "^==|patch does not apply|does not build" | head -1); echo "$0 $1 $r"'
