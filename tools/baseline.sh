#!/bin/bash
# Runs the repository's pinned test suite (the command of /root/.vp/BASELINE.json) with the
# verif build tag OFF and checks the result against the baseline's list of passing tests.
# usage: baseline.sh [repo-dir]
REPO=${1:-/repo}
export GOPROXY=off GOSUMDB=off GOTOOLCHAIN=local
unset GOFLAGS
out=$(mktemp)
for m in ./cmd/ocisrv ./internal/ci ./ociregistry ./ociregistry/internal/conformance; do
  (cd $REPO/$m && gw=$(go env GOWORK); MF=""; if [ -z "$gw" ] || [ "$gw" = off ]; then MF="-mod=mod"; fi; go test $MF -json -vet=off -count=1 -timeout 25m ./...) >> $out 2>&1
done
python3 - $out <<'PY'
import json,sys
passed=set(); failed=set()
for l in open(sys.argv[1]):
    try: e=json.loads(l)
    except Exception: continue
    if e.get('Test') and e.get('Action') in('pass','fail'):
        (passed if e['Action']=='pass' else failed).add(e['Package']+'::'+e['Test'])
base=set(json.load(open('/root/.vp/BASELINE.json'))['stable_pass']) if __import__('os').path.exists('/root/.vp/BASELINE.json') else set()
missing=sorted(base-passed)
print('passed=%d failed=%d baseline=%d baseline_missing=%d'%(len(passed),len(failed),len(base),len(missing)))
for m in missing[:20]: print('  MISSING',m)
for f in sorted(failed)[:20]: print('  FAILED',f)
sys.exit(1 if missing or failed else 0)
PY
rc=$?; rm -f $out; exit $rc
