#!/bin/bash
# usage: trymutant.sh <patch.diff> <tier> <check-id>...
# Applies the patch in a scratch worktree of /repo (never /repo itself), runs the named checks against it
# (VERIF_REPO), prints their verdict lines, and removes the worktree.
set -u
P=$(readlink -f "$1"); TIER=$2; shift 2
W=$(mktemp -d /tmp/mutw.XXXXXX); rmdir $W
git -C /repo worktree add -q --detach $W HEAD || exit 2
( cd $W && git apply "$P" ) || { echo "patch does not apply"; git -C /repo worktree remove --force $W; exit 2; }
( cd $W/ociregistry && GOFLAGS=-mod=mod GOWORK=off GOPROXY=off GOSUMDB=off GOTOOLCHAIN=local go build ./... ) || { echo "does not build"; git -C /repo worktree remove --force $W; exit 2; }
cd /verif
for c in "$@"; do
  out=$(VERIF_REPO=$W VERIF_EVIDENCE_DIR=/verif/.work/evidence-trials ./check $c $TIER 2>&1); rc=$?
  echo "== $c exit=$rc"; echo "$out" | grep -E "VIOLATION|rejected event|KNOWN-FINDING|MACHINERY|done:" | cut -c1-260 | head -8
done
git -C /repo worktree remove --force $W
