#!/bin/bash
# usage: confirm_mutant.sh <out-dir with patch.diff demo_test.go meta.json>
# Confirms in a scratch worktree: the change builds, the repository's 388-test baseline still passes with it,
# the demonstration fails with the change and passes without it.  Prints one summary line.
D=$(readlink -f "$1")
W=$(mktemp -d /tmp/mutc.XXXXXX); rmdir $W
git -C /repo worktree add -q --detach $W HEAD || exit 2
export GOPROXY=off GOSUMDB=off GOTOOLCHAIN=local; unset GOFLAGS
dir=$(head -1 $D/demo_test.go | grep -o 'ociregistry[A-Za-z/_]*\|cmd/[a-z]*' | head -1)
[ -z "$dir" ] && dir=ociregistry/ocimem
run_demo() { cp $D/demo_test.go $W/$dir/zz_demo_test.go; (cd $W/$dir && go test -count=1 -run "$(grep -o '^func Test[A-Za-z0-9_]*' $D/demo_test.go | sed 's/func //' | paste -sd'|')" . >/tmp/demo.$$ 2>&1); rc=$?; rm -f $W/$dir/zz_demo_test.go; return $rc; }
run_demo; clean=$?
(cd $W && git apply $D/patch.diff) || { echo "$D: PATCH DOES NOT APPLY"; git -C /repo worktree remove --force $W; exit 1; }
(cd $W/ociregistry && go build ./...) || { echo "$D: DOES NOT BUILD"; git -C /repo worktree remove --force $W; exit 1; }
base=$(/verif/tools/baseline.sh $W | head -1)
run_demo; mutated=$?
echo "$(basename $D): demo_on_HEAD_exit=$clean demo_with_change_exit=$mutated baseline_with_change: $base (demo dir $dir)"
git -C /repo worktree remove --force $W
