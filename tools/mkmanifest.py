#!/usr/bin/env python3
"""Writes MANIFEST.json from the table below (one entry per property that has a check)."""
import json, os
HERE = os.path.dirname(os.path.dirname(os.path.abspath(__file__)))
TRUST = 'TLC 1.8.0 and the Json/IOUtils community modules; the harness (Go) for concretising abstract values and projecting results (its own sha256/JSON rendering); Go toolchain'
CHECKS = {
 'C01': dict(engine='OciRegistry', design='5/C01',
   text='Reads, range reads and refused pushes of the reference model OciRegistry are checked exhaustively by TLC over small contents (0/1/2 bytes, every range pair, every push path); the same histories plus seeded-random ones (0..3-byte contents with NUL/UTF-8 fragments, a 16 KiB block content, a 140 KiB manifest) run through seven-plus stacks (mem, client/server, +debug, +select, +sub, +unify, two hops) and TLC validates every read event (content the bytes hash to, byte count, reader descriptor, slice) against the model.',
   note='Corrupted-response clause (third sentence) is decided by the client fault family (see C18 entry) once built; until then it is not claimed here. Bounds as C02; ranges on block contents at block boundaries. ' + TRUST,
   technique='TLA+ reference model + TLC; recorded executions of every stack validated against it by TLC'),
 'C03': dict(engine='OciRegistry', design='5/C03',
   text='Every history is executed through client->server stacks (one and two hops, with ocidebug, under option sets omit-digest / no-link / page sizes / max page size / no single POST) and each client-side call is validated by TLC as a step of the reference model that ocimem itself is validated against; after every call the state of the in-memory registry behind the last server must equal the model state, and the calls a recording backend saw must be exactly the handler-table image of the client call (operator BackendOK).',
   note='Well-formed names; uploads driven as the BlobWriter contract says (wrong offsets: C04); HEAD resolves compare the status class; mount size may be 0; a lying descriptor size over HTTP only has to fail. ' + TRUST,
   technique='TLA+ reference model + handler table in TLA+; traces of real client/server stacks with a recording backend validated by TLC'),
 'C04': dict(engine='OciClientWriter', design='5/C04',
   text='The client upload writer (buffering, PATCH at the acknowledged offset, final PUT, status GET) composed with the registry session model is a TLA+ module (OciClientWriter); TLC checks exhaustively, for every partition of up to 4 bytes into writes, every chunk-size hint and every close/resume pattern, that a contract-following caller is never refused and that a successful commit stores exactly the concatenation of the written bytes, and for an arbitrary caller that a refused (416) step leaves the session unchanged and a failing call stores nothing. TLC-generated caller scenarios and seeded-random upload-heavy histories (wrong offsets, wrong digests, several sessions, block contents) run on mem, one and two HTTP hops (with byte-sized chunk minimums), ocidebug and the unifier; every Write/Close/Resume/Size/Commit result and the blob read back is validated by TLC against that model.',
   note='Excluded as the property says: resume by asking after exactly one byte. No use of a writer after Commit / Cancel over HTTP. Byte-sized chunk boundaries over HTTP use a backend wrapper reporting ChunkSize 1..3. ' + TRUST,
   technique='TLA+ model of client writer + registry sessions checked with TLC; TLC-generated upload scenarios replayed on real stacks; traces validated by TLC'),
 'C07': dict(engine='OciError', design='5/C07',
   text='TLC exhaustively checks the OciError laws (StatusPerTable, IsPreserved, Code/DetailPreserved, first-hop message rule, MessageFixedPoint, HEAD rule) over the whole case domain - 18 codes x leaf/message shapes x wrappings x sampled statuses x carrier kinds x 0-3 hops - in a design mode without exceptions and in a model of the current code whose deviations are confined to named cells. Every exported case and seeded-random error trees are executed on real 3-hop ociclient->ociserver stacks behind each Interface method as carrier; each recorded case (errors.Is vector, status, code, detail, tokenised message at every level, raw wire taps) is validated by TLC against OciErrorTrace.',
   note='Sampled statuses (5 quick, 10 thorough, random 400-599); joined errors judged on the primary identity; messages modelled as token sequences; K2 and K2b (the status-416 rule of httpError.Is) are listed known findings identified by relaxation constants. ' + TRUST,
   technique='TLA+ error-algebra model checked with TLC; TLC-exported cases replayed on real multi-hop stacks; recorded traces validated by TLC'),
 'C08': dict(engine='OciMemConc', design='5/C08',
   text='An implementation-shaped TLA+ model of ocimem (one step per critical section; Buffer.Commit in two steps) with an embedded linearizability monitor is checked by TLC over all interleavings (Linearizable, StoredMatchesKey, TagNeverFalselyMissing); every schedule of the model is replayed on the real ocimem with verif yield hooks as scheduler gates; seeded stress batches (2-5 goroutines, shared upload session, directly and through ociserver) run under the Go race detector; for every recorded history (invocation/response events ordered by a global atomic sequence number) TLC searches a placement of linearization points of the sequential specification OciRegistry (LinTrace.tla).',
   note='Data-race freedom is what the race detector observes on the schedules run (TLA+ has no Go memory model). K3 (Commit check/store window, API-level) is a listed known finding identified by the relaxation K3_CommitTwoPhase. ' + TRUST,
   technique='TLA+ concurrent model with linearizability monitor (TLC); model schedules replayed with yield-point hooks; linearizability of recorded histories decided by TLC; Go race detector'),
 'C20': dict(engine='OciFuncs', design='5/C20',
   text='TLC exhaustively checks OciFuncs: own-field-only (pairwise over the case family and per table over all 2^18 field subsets), totality, nil table = empty table, exactly one yield. TLC exports every case of 18 methods x {each field alone, all but one, all, none} x constructor x nil/non-nil table with its predicted outcome; each case, plus seeded-random tables and arguments, is executed on a real *ociregistry.Funcs built by reflection, and every recorded call (stubs run with arguments, constructor calls, result and error identity/class, iterator yields, panics) is validated by TLC as what Call/Effects prescribe.',
   note='Delegation is observed through recording stubs and tagged values and through errors.Is / interface identity; the method name handed to the constructor is outside the property (recorded as an observation). ' + TRUST,
   technique='TLA+ function-table model checked with TLC; TLC-exported cases executed by reflection on the real Funcs; recorded events validated by TLC'),
 'C14': dict(engine='OciRegistry', design='5/C14',
   text='TLC checks on the reference model, for every history over the small universes, the step properties TagStable, TaggedStays, ClosureKept (no step removes content reachable from a tag) and TaggedPresent in immutable-tags mode. Histories generated by TLC (including walks confined to pushes/deletes around one tagged closure) and seeded-random ones run on ocimem in immutable-tags mode (directly and behind a client/server hop) and through ocifilter.ReadOnly / Immutable over a pre-populated registry; after every call the projected state of the registry underneath must equal the model state (WrapApply / WrapProps in RegTrace.tla), so a moved or lost tag, a deleted protected item or a write through the read-only wrapper is rejected at the step where it happens.',
   note='"remains retrievable" read as an action property (DESIGN 5/C14, O1); references of a manifest are those of its bytes under the media type it is stored with; the concurrent clause relies on the C08 machinery. ' + TRUST,
   technique='TLA+ action properties model-checked with TLC; real ocimem/wrapper executions validated against the model by TLC with per-step state snapshots'),
 'C02': dict(engine='OciRegistry', design='5/C02',
   text='TLC exhaustively checks the reference model OciRegistry (all interleavings of pushes, deletes, tags, uploads over small universes, both tag modes) for its invariants; TLC-generated and seeded-random histories are executed on the real ocimem and every recorded call (arguments, projected result, full state snapshot) is validated by TLC as a step of that model. Bounded exhaustive for the design, sampled-but-model-judged for the code.',
   note='Bounds: MC universes of 1-2 repositories, 2-3 blobs, 3-5 manifests x 3 media types, 1-2 tags, 1 upload session; traces over 4 repositories / 21 contents / 4 tags. ' + TRUST,
   technique='TLA+ reference model checked with TLC; TLC-generated scenarios replayed on ocimem; recorded traces validated against the model with TLC'),
}
NOT_YET = 'check not built yet in this round (planned in DESIGN.md section 5)'
ALL = ['C%02d' % i for i in range(1, 21)]
m = dict(version=1,
  setup_cmd='./tools/setup.sh',
  hooks=dict(guard='verif', enable='go build -tags verif (the harness is built with the tag by every check)',
             baseline_off_cmd='/verif/tools/baseline.sh /repo', source_commits=['4bf9b87'], add_only=True),
  engines=[dict(name='OciFuncs', path='spec/OciFuncs.tla', serves_properties=['C20'], kind_free_text='function-table semantics; MC over all field subsets; trace validation of reflective calls'), dict(name='OciError', path='spec/OciError.tla', serves_properties=['C07'], kind_free_text='TLA+ error algebra across client/server hops; OciErrorTrace validates recorded cases'), dict(name='OciMemConc', path='spec/OciMemConc.tla', serves_properties=['C08'], kind_free_text='implementation-shaped concurrent model of ocimem with linearizability monitor; LinTrace.tla decides linearizability of recorded histories against OciRegistry'), dict(name='OciClientWriter', path='spec/OciClientWriter.tla', serves_properties=['C04'], kind_free_text='TLA+ model of the HTTP client upload writer over registry sessions; MC configs honest/any; OciClientWriterGen generates caller scenarios'), dict(name='OciRegistry', path='spec/OciRegistry.tla', serves_properties=['C01', 'C02', 'C03', 'C14'], kind_free_text='TLA+ reference model of the registry Interface; RegTrace.tla validates recorded executions; OciRegistryGen.tla generates histories')],
  checks=[], not_applicable=[],
  notes='All verdicts come from executions of the real code that TLC rejects against a TLA+ specification; see DESIGN.md.')
for pid in ALL:
    c = CHECKS.get(pid)
    if not c:
        m['not_applicable'].append(dict(property_id=pid, reason=NOT_YET))
        continue
    m['checks'].append(dict(property_id=pid, quick_cmd='./check %s quick' % pid, thorough_cmd='./check %s thorough' % pid,
        evidence_file='evidence/%s.json' % pid, replay_cmd_template='./check %s --replay {path}' % pid, engine=c['engine'],
        level_claimed=dict(category='model_checking', text=c['text'], design_ref=c['design']), level_note=c['note'], technique=c['technique']))
json.dump(m, open(os.path.join(HERE, 'MANIFEST.json'), 'w'), indent=1)
print('checks:', [c['property_id'] for c in m['checks']])
