#!/usr/bin/env python3
"""Writes MANIFEST.json from the table below (one entry per property that has a check)."""
import json, os
HERE = os.path.dirname(os.path.dirname(os.path.abspath(__file__)))
TRUST = 'TLC 1.8.0 and the Json/IOUtils community modules; the harness (Go) for concretising abstract values and projecting results (its own sha256/JSON rendering); Go toolchain'
CHECKS = {
 'C01': dict(engine='OciRegistry', design='5/C01',
   text='Reads, range reads and refused pushes of the reference model OciRegistry are checked exhaustively by TLC over small contents (0/1/2 bytes, every range pair, every push path); the same histories plus seeded-random ones (0..3-byte contents with NUL/UTF-8 fragments, a 16 KiB block content, a 140 KiB manifest) run through seven-plus stacks (mem, client/server, +debug, +select, +sub, +unify, two hops) and TLC validates every read event (content the bytes hash to, byte count, reader descriptor, slice) against the model.',
   note='Corrupted-response clause (third sentence) is decided by the client fault family (see C18 entry) once built; until then it is not claimed here. Bounds as C02; ranges on block contents at block boundaries. ' + TRUST,
   technique='TLA+ reference model + TLC; recorded executions of every stack validated against it by TLC'),
 'C03': dict(engine='OciRegistry', design='5/C03',
   text='Every history is executed through client->server stacks (one and two hops, with ocidebug, under option sets omit-digest / no-link / page sizes / max page size / no single POST) and each client-side call is validated by TLC as a step of the reference model that ocimem itself is validated against; after every call the state of the in-memory registry behind the last server must equal the model state, and the calls a recording backend saw must be exactly the handler-table image of the client call (operator BackendOK).',
   note='Well-formed names; uploads driven as the BlobWriter contract says (wrong offsets: C04); HEAD resolves compare the status class; mount size may be 0; a lying descriptor size over HTTP only has to fail. ' + TRUST,
   technique='TLA+ reference model + handler table in TLA+; traces of real client/server stacks with a recording backend validated by TLC'),
 'C02': dict(engine='OciRegistry', design='5/C02',
   text='TLC exhaustively checks the reference model OciRegistry (all interleavings of pushes, deletes, tags, uploads over small universes, both tag modes) for its invariants; TLC-generated and seeded-random histories are executed on the real ocimem and every recorded call (arguments, projected result, full state snapshot) is validated by TLC as a step of that model. Bounded exhaustive for the design, sampled-but-model-judged for the code.',
   note='Bounds: MC universes of 1-2 repositories, 2-3 blobs, 3-5 manifests x 3 media types, 1-2 tags, 1 upload session; traces over 4 repositories / 21 contents / 4 tags. ' + TRUST,
   technique='TLA+ reference model checked with TLC; TLC-generated scenarios replayed on ocimem; recorded traces validated against the model with TLC'),
}
NOT_YET = 'check not built yet in this round (planned in DESIGN.md section 5)'
ALL = ['C%02d' % i for i in range(1, 21)]
m = dict(version=1,
  setup_cmd='./tools/setup.sh',
  hooks=dict(guard='verif', enable='go build -tags verif (the harness is built with the tag by every check)',
             baseline_off_cmd='/verif/tools/baseline.sh /repo', source_commits=[], add_only=True),
  engines=[dict(name='OciRegistry', path='spec/OciRegistry.tla', serves_properties=['C01', 'C02', 'C03'], kind_free_text='TLA+ reference model of the registry Interface; RegTrace.tla validates recorded executions; OciRegistryGen.tla generates histories')],
  checks=[], not_applicable=[],
  notes='All verdicts come from executions of the real code that TLC rejects against a TLA+ specification; see DESIGN.md.')
for pid in ALL:
    c = CHECKS.get(pid)
    if not c:
        m['not_applicable'].append(dict(property_id=pid, reason=NOT_YET))
        continue
    m['checks'].append(dict(property_id=pid, quick_cmd='./check %s quick' % pid, thorough_cmd='./check %s thorough' % pid,
        evidence_file='evidence/%s.json' % pid, replay_cmd_template='./check %s --replay {path}' % pid, engine=c['engine'],
        level_claimed=dict(category='model_checking', text=c['text'], design_ref=c['design']), level_note=c['note'], technique=c['technique']))
json.dump(m, open(os.path.join(HERE, 'MANIFEST.json'), 'w'), indent=1)
print('checks:', [c['property_id'] for c in m['checks']])
