#!/usr/bin/env python3
"""Writes MANIFEST.json from the table below (one entry per property that has a check)."""
import json, os
HERE = os.path.dirname(os.path.dirname(os.path.abspath(__file__)))
TRUST = 'TLC 1.8.0 and the Json/IOUtils community modules; the harness (Go) for concretising abstract values and projecting results (its own sha256/JSON rendering); Go toolchain'
CHECKS = {
 'C02': dict(engine='OciRegistry', design='5/C02',
   text='TLC exhaustively checks the reference model OciRegistry (all interleavings of pushes, deletes, tags, uploads over small universes, both tag modes) for its invariants; TLC-generated and seeded-random histories are executed on the real ocimem and every recorded call (arguments, projected result, full state snapshot) is validated by TLC as a step of that model. Bounded exhaustive for the design, sampled-but-model-judged for the code.',
   note='Bounds: MC universes of 1-2 repositories, 2-3 blobs, 3-5 manifests x 3 media types, 1-2 tags, 1 upload session; traces over 4 repositories / 21 contents / 4 tags. ' + TRUST,
   technique='TLA+ reference model checked with TLC; TLC-generated scenarios replayed on ocimem; recorded traces validated against the model with TLC'),
}
NOT_YET = 'check not built yet in this round (planned in DESIGN.md section 5)'
ALL = ['C%02d' % i for i in range(1, 21)]
m = dict(version=1,
  setup_cmd='./tools/setup.sh',
  hooks=dict(guard='verif', enable='go build -tags verif (the harness is built with the tag by every check)',
             baseline_off_cmd='/verif/tools/baseline.sh /repo', source_commits=[], add_only=True),
  engines=[dict(name='OciRegistry', path='spec/OciRegistry.tla', serves_properties=['C02'], kind_free_text='TLA+ reference model of the registry Interface; RegTrace.tla validates recorded executions; OciRegistryGen.tla generates histories')],
  checks=[], not_applicable=[],
  notes='All verdicts come from executions of the real code that TLC rejects against a TLA+ specification; see DESIGN.md.')
for pid in ALL:
    c = CHECKS.get(pid)
    if not c:
        m['not_applicable'].append(dict(property_id=pid, reason=NOT_YET))
        continue
    m['checks'].append(dict(property_id=pid, quick_cmd='./check %s quick' % pid, thorough_cmd='./check %s thorough' % pid,
        evidence_file='evidence/%s.json' % pid, replay_cmd_template='./check %s --replay {path}' % pid, engine=c['engine'],
        level_claimed=dict(category='model_checking', text=c['text'], design_ref=c['design']), level_note=c['note'], technique=c['technique']))
json.dump(m, open(os.path.join(HERE, 'MANIFEST.json'), 'w'), indent=1)
print('checks:', [c['property_id'] for c in m['checks']])
