#!/bin/bash
# usage: mutant_round.sh <id>:<check>[,<check>...] ...    (ids like C05-1; outputs expected in /tmp/mut/out-<id>)
# Confirms each seeded defect and tries the named checks (quick) against it; appends to /tmp/mut/round.txt
for m in "$@"; do
  id=${m%%:*}; cs=${m##*:}
  [ -d /tmp/mut/out-$id ] || { echo "$id: no output dir"; continue; }
  /verif/tools/confirm_mutant.sh /tmp/mut/out-$id | cut -c1-150
  /verif/tools/trymutant.sh /tmp/mut/out-$id/patch.diff quick ${cs//,/ } 2>&1 | grep -E "^==|done:" | cut -c1-150
done 2>&1 | tee -a /tmp/mut/round.txt
