"""C10: the auth transport only uses tokens that are sufficient, fresh and its own (spec/OciAuth.tla:
TokenOwn, TokenFresh, CachedCovers, FreshCoversChallenge, NoNeedlessAcquire, TokenRequestScope).
See authcommon.py."""
import authcommon


def run(ctx):
    return authcommon.run(ctx, 'C10')


def replay(ctx, path):
    return authcommon.replay(ctx, 'C10', path)
