"""C13: a sub-registry view is confined to its prefix and equals the restricted registry."""
import os

import filtercommon as fc
import vlib

REPOS = 'foo,foo/a,foo/b,fooey'
PREFIXES_Q = ['a', 'pfx/sub', 'org,team', 'a,a']     # 'p,q' = Sub(Sub(backend, p), q)
PREFIXES_T = ['a', 'pfx/sub', 'org,team', 'a,a', 'foo', 'a/b/c', 'x-1.y_z/q0', 'x,y/z,w']


def run(ctx):
    quick = ctx.tier == 'quick'
    vlib.model_check(ctx, 'OciFilterMC.tla', 'OciFilterMC_c13_quick.cfg' if quick else 'OciFilterMC_c13_thorough.cfg', workers=fc.MC_WORKERS,
                     what='Sub(backend, "foo") over backend repositories foo, foo/a, foo/b, fooey: every populated subset x every method x 164 caller '
                          'strings (segments a . .. "" A, up to 3, plus names aimed at the siblings) x 3 context scopes, listings from every start point; %s'
                          % ('1 call deep' if quick else '2 calls deep, both tag modes'))
    vh = vlib.build_harness(ctx)
    cases = fc.gen_cases(ctx, 'OciFilterGen_c13_quick.cfg' if quick else 'OciFilterGen_c13_thorough.cfg')
    lists = [c for c in cases if all(o['op'] == 'ListRepos' for o in c['ops'])]
    flt = [c for c in cases if c.get('faults')]
    names = [c for c in cases if c not in lists and c not in flt]
    td = ctx.sub('traces')
    traces = []
    # the refusing-backend cases run over a backend that also has repositories OUTSIDE the prefix
    # named like the view-relative names
    for nm, cs, repos in (('names', names, REPOS), ('lists', lists, REPOS), ('faults', flt, REPOS + ',a,b')):
        cp = fc.write_cases(ctx, cs, 'c13-%s.jsonl' % nm)
        t = os.path.join(td, 'tlc-%s.ndjson' % nm)
        fc.run_filter(ctx, vh, t, cases=cp, repos=repos, prefix='foo', kinds='sub')
        traces.append(t)
    nrand = 48 if quick else 2000
    prefixes = PREFIXES_Q if quick else PREFIXES_T
    per = max(1, nrand // len(prefixes))
    i = 0
    for p in prefixes:
        left = per
        while left > 0:
            k = min(400, left)
            t = os.path.join(td, 'rand%d.ndjson' % i)
            fc.run_filter(ctx, vh, t, n=k, steps=30 if quick else 40, seed=ctx.seed * 1000 + i, kinds='sub', prefix=p,
                          conc=300 if quick else 3000)
            traces.append(t)
            left -= k
            i += 1
    for t in traces:
        fc.count_ops(ctx, t)
    ctx.cov['tlc_cases'] = len(cases)
    ctx.cov['prefixes'] = ['foo'] + prefixes
    ctx.cov['samples'] = [dict(tlc_case_ops=names[0]['ops'][:2], scope=names[0]['scope']),
                          dict(hostile=fc.sample_events(traces[0], 2, lambda e: '..' in e.get('r', '') and e['backend'])),
                          dict(listing=fc.sample_events(traces[-1], 2, lambda e: e['op'] == 'ListRepos' and e.get('start')))]
    vlib.judge_traces(ctx, 'OciFilterTrace', 'OciFilterTrace.cfg', traces, shard_lines=1500 if quick else 6000, label='Sub vs OciFilter')
    need = ['sub:backend-refused', 'sub:concurrent-calls', 'sub:ListRepos', 'sub:MountBlob', 'sub:Write', 'sub:Commit', 'sub:GetBlob', 'sub:Referrers']
    missing = [k for k in need if not ctx.cov['per_op'].get(k)]
    if missing:
        raise vlib.Machinery('the batch never exercised: %s' % ', '.join(missing))
    ctx.assumptions += ['concurrent use of one view: 8 goroutines, each call judged on its own (the backend saw that call\'s scope rewritten and that call\'s name prefixed); scheduling is the Go runtime\'s, not enumerated',
                        'repository-name validity is decided by OciRef!IsRepository (the C17 grammar) on the bytes of each name; the header only encodes strings as bytes',
                        'a repository-typed scope with the empty name may stay empty or become "prefix/" (it names no repository either way)',
                        'the backend is ocimem (validated against OciRegistry by C02), which answers an invalid name with an error',
                        'harness digest/JSON rendering; TLC + community modules']
    return vlib.finish(ctx, rule='every call made through Sub(rec(mem), prefix) is one trace event (call, projected result, backend calls, the scope each backend '
                       'call carried) followed by a snapshot of the in-memory registry over ALL backend repositories, siblings of the prefix included; TLC '
                       'accepts iff the event is the SubApply step of OciFilter and satisfies Confined, EqualsRestriction (the step OciRegistry makes on the '
                       'backend restricted to the prefix and renamed), ListingExact (from the start point in stripped space) and ScopesRewritten')


def replay(ctx, path):
    return fc.replay_filter(ctx, path)
