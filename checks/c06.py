"""C06: the server is total and protocol-conformant on arbitrary HTTP requests (OciWire.tla).

1. TLC evaluates the router / handler table of OciWire on the whole enumerated domain (every
   method x query shape x path of <= 4 (quick) / <= 5 (thorough) tokens after /v2/, over a
   17-token alphabet whose classes are computed by the recognisers; every request kind x backend
   answer x header class x body x option set) and checks Total, StatusAgreesWithCode,
   SuccessHeaders, BackendArgsValid, AllClosed on it; the same run exports cases with the
   predicted response (direction A).
2. The harness turns every exported case, and seeded-random / byte-mutated request lines with
   random headers, bodies, backend scripts and options, into one in-process ServeHTTP call on
   ociserver.New(scripted recording backend, options) and logs what came back.
3. TLC (OciWireTrace) re-classifies every logged request from its characters, evaluates the
   specification and rejects any logged response it does not allow (direction B)."""
import copy
import json
import os
import random
import re
import shutil
import tempfile
import time

import vlib

MODULE = 'OciWireTrace'
CFG = 'OciWireTrace.cfg'
METHODS = 7


def validate_trace(ctx, module, cfg, trace, consts=None, timeout=900, first_line=2):
    """vlib.validate_trace with small JVMs (16 single-worker validations run side by side) and
    up to three attempts when TLC neither accepted nor rejected the trace (on a heavily loaded
    machine a JVM was seen to die without output).  Same result shape."""
    last = ''
    for attempt in range(3):
        d = ctx.specdir()
        with open(trace) as f:
            hdr = json.loads(f.readline())
        open(os.path.join(d, 'TraceHdr.tla'), 'w').write(vlib.tlaval.header_module('TraceHdr', hdr))
        c = vlib.cfg_with(ctx, d, cfg, consts) if consts else cfg
        jt = tempfile.mkdtemp(prefix='jt-', dir=ctx.work)
        r = vlib.run_tlc(ctx, d, module + '.tla', c, workers=1, timeout=timeout,
                         env={'TRACE_FILE': os.path.abspath(trace),
                              'JAVA_TOOL_OPTIONS': (os.environ.get('JAVA_TOOL_OPTIONS', '') + ' -Djava.io.tmpdir=' + jt +
                                                    ' -Xss64m -Xmx3g -XX:ParallelGCThreads=2 -XX:CICompilerCount=2').strip()})
        shutil.rmtree(d, ignore_errors=True)
        shutil.rmtree(jt, ignore_errors=True)
        out = r['out']
        if r['ok']:
            return dict(accepted=True, states=r.get('distinct', 0), generated=r.get('generated', 0))
        if 'Postcondition' in out and 'is false' in out and 'depth' in r:
            return dict(accepted=False, line=first_line + r['depth'] - 1, states=r.get('distinct', 0))
        last = 'rc=%s wall=%.1fs\n%s\n...%s' % (r['rc'], r['wall'], vlib.tlc_errors(out), out[-1500:])
        if 'Attempted' in out or 'nonexistent' in out or 'arsing' in vlib.tlc_errors(out) or 'Assert' in out:
            break          # deterministic: an error of the specification itself on this trace
        ctx.log('trace validation of %s gave no verdict (attempt %d), retrying' % (os.path.basename(trace), attempt + 1))
        time.sleep(2 + 3 * attempt)
    raise vlib.Machinery('trace validation %s on %s broke:\n%s' % (module, trace, last))


vlib.validate_trace = validate_trace     # judge_traces / classify look it up in vlib


def export_cases(ctx, cfg, timeout, what, nq):
    """One TLC run: INVARIANT Check = the five properties on every enumerated request + the
    PrintT export.  The MBT lines stay raw JSON text (the harness reads them)."""
    last = ''
    for attempt in range(3):
        d = ctx.specdir()
        text = open(os.path.join(d, cfg)).read()
        text, n = re.subn(r'\bSeed = \d+', 'Seed = %d' % (ctx.seed % 1000003), text)
        if n != 1:
            raise vlib.Machinery('no Seed constant in ' + cfg)
        mycfg = cfg.replace('.cfg', '_seed.cfg')
        open(os.path.join(d, mycfg), 'w').write(text)
        r = vlib.run_tlc(ctx, d, 'OciWireMC.tla', mycfg, workers=vlib.NCPU, timeout=timeout)
        shutil.rmtree(d, ignore_errors=True)
        if r['ok'] and 'distinct' in r:
            break
        last = vlib.tlc_errors(r['out'])
        if r.get('timeout') or 'violated' in r['out'] or 'Attempted' in r['out'] or 'arsing' in last or 'Assert' in r['out'] or 'is false' in r['out']:
            raise vlib.Machinery('model check OciWireMC/%s did not pass:\n%s' % (cfg, last))
        ctx.log('OciWireMC %s gave no result (attempt %d), retrying' % (cfg, attempt + 1))
        time.sleep(3)
    else:
        raise vlib.Machinery('model check OciWireMC/%s did not run:\n%s' % (cfg, last))
    lines = []
    for line in r['out'].splitlines():
        m = vlib.MBT.match(line.strip())
        if m:
            lines.append(vlib.unquote_tla(m.group(1)))
    r['out'] = ''
    lines = sorted(set(lines))
    random.Random(ctx.seed).shuffle(lines)
    ctx.cov['states'] += r['distinct']
    ctx.cov['transitions'] += r['generated']
    ctx.cov['model_runs'].append(dict(module='OciWireMC.tla', cfg=cfg, distinct=r['distinct'], generated=r['generated'],
                                      depth=r.get('depth'), wall_s=round(r['wall'], 1), cases_exported=len(lines), what=what))
    ctx.log('model OciWireMC %s: %d states, %d cases exported, %.1fs' % (cfg, r['distinct'], len(lines), r['wall']))
    if not lines:
        raise vlib.Machinery('OciWireMC exported no cases')
    return lines, r['distinct']


def run_wire(ctx, vh, out, cases=None, n=0, seed=1, replay=None):
    args = ['wire', '-out', out, '-n', str(n), '-seed', str(seed)]
    if cases:
        args += ['-cases', cases]
    if replay:
        args += ['-replay', replay]
    o = vlib.run_harness(ctx, vh, args)
    return json.loads(o.strip().splitlines()[-1])


def text(codes):
    return bytes(c & 255 for c in codes).decode('latin-1')


def readable(e):
    """A logged event with character codes shown as text (for the evidence samples)."""
    def dec(x):
        if isinstance(x, list) and x and all(isinstance(i, int) for i in x):
            return text(x)
        if isinstance(x, list):
            return [dec(i) for i in x]
        if isinstance(x, dict):
            return {k: dec(v) for k, v in x.items() if k != 'bytes'}
        return x
    return dec(e)


def scan(ctx, trace):
    """per-op counts and a few samples"""
    want = {}
    samples = {}
    with open(trace) as f:
        f.readline()
        for l in f:
            if l.startswith('{"op":"reset"') or '"op":"reset"' in l[:40]:
                continue
            e = json.loads(l)
            op = e.get('op')
            ctx.cov['per_op'][op] = ctx.cov['per_op'].get(op, 0) + 1
            if op != 'req':
                continue
            k = 'tlc:' + e['want']['kind'] if 'want' in e else 'random'
            want[k] = want.get(k, 0) + 1
            key = None
            if 'want' in e and e['want']['kind'] in ('BlobGet', 'TagsList') and e['out']['status'] in (200, 206) and e['want']['kind'] not in samples:
                key = e['want']['kind']
            elif 'want' in e and e['want']['mode'] == 'reject' and 'reject' not in samples:
                key = 'reject'
            elif 'want' not in e and e['out']['calls'] and 'random' not in samples:
                key = 'random'
            if key:
                samples[key] = readable(e)
    ctx.cov['per_kind'] = want
    return samples


def canary(ctx, trace):
    """Corrupts one output field of an accepted scenario; TLC must reject it (otherwise the trace
    specification does not constrain that field: machinery failure)."""
    hdr, scen = vlib.split_scenarios(trace)

    def find(pred):
        for s in scen:
            for l in s:
                if '"op":"req"' in l:
                    e = json.loads(l)
                    if pred(e):
                        return s, l, e
        raise vlib.Machinery('canary: no suitable event')
    w = lambda e, k: 'want' in e and e['want']['kind'] == k

    def m_status(e): e['out']['status'] = 201
    def m_unclosed(e): e['out']['objs'][0]['closes'] = 0
    def m_noloc(e): e['out']['hdr']['loc'] = dict(has=False, v=[])
    def m_clen(e): e['out']['hdr']['clen']['v'] = [57, 57]
    def m_map(e): e['out']['status'] = 400
    def m_nwh(e): e['out']['nwh'] = 2
    def m_long(e): e['out']['nbody'] += 60
    def m_crange(e): e['out']['crp']['end'] += 1
    def m_nojson(e): e['out']['err'] = dict(json=False, code='')
    def m_code(e): e['out']['err']['code'] = 'NAME_UNKNOWN'
    def m_repo(e): e['out']['calls'][0]['repo'] = [70, 111, 111]
    def m_tag(e):
        for c in e['out']['calls']:
            c['tag'] = [45, 120]
    picks = [
        ('status', lambda e: w(e, 'ManifestGet') and e['out']['status'] == 200, m_status),
        ('reader-not-closed', lambda e: w(e, 'ManifestGet') and e['out']['status'] == 200, m_unclosed),
        ('location-missing', lambda e: w(e, 'StartUpload') and e['out']['status'] == 202, m_noloc),
        ('content-length', lambda e: w(e, 'BlobGet') and e['out']['status'] in (200, 206) and not any(o['rfailed'] for o in e['out']['objs']), m_clen),
        ('content-range-inconsistent', lambda e: e['out']['status'] == 206 and not any(o['rfailed'] for o in e['out']['objs']), m_crange),
        ('two-status-lines', lambda e: e['out']['status'] == 200 and e['out']['nwh'] == 1, m_nwh),
        ('error-document-after-aborted-body', lambda e: any(o['rfailed'] for o in e['out']['objs']), m_long),
        ('404-as-400', lambda e: 'want' in e and e['want']['mode'] == 'reject' and e['out']['status'] == 404, m_map),
        ('error-body-not-json', lambda e: e['out']['status'] == 404, m_nojson),
        ('code-disagrees-with-status', lambda e: e['out']['status'] == 403, m_code),
        ('invalid-repository-to-backend', lambda e: w(e, 'BlobDelete'), m_repo),
        ('invalid-tag-to-backend-random-case', lambda e: 'want' not in e and any(c['fn'] in ('GetTag', 'ResolveTag', 'DeleteTag') for c in e['out']['calls']), m_tag),
    ]
    d = ctx.sub('canary')
    for name, pred, mut in picks:
        s, l, e = find(pred)
        e2 = copy.deepcopy(e)
        mut(e2)
        s2 = [json.dumps(e2, separators=(',', ':')) if x is l else x for x in s]
        p = os.path.join(d, name + '.ndjson')
        vlib.write_trace(p, hdr, [s2])
        if vlib.validate_trace(ctx, MODULE, CFG, p)['accepted']:
            raise vlib.Machinery('canary %s: a corrupted trace was accepted' % name)
        p0 = os.path.join(d, name + '-orig.ndjson')
        vlib.write_trace(p0, hdr, [s])
        if not vlib.validate_trace(ctx, MODULE, CFG, p0)['accepted']:
            raise vlib.Machinery('canary %s: the uncorrupted scenario is not accepted' % name)
    ctx.notes.append('canary: %d corrupted events rejected (%s)' % (len(picks), ', '.join(n for n, _, _ in picks)))
    ctx.log('canary: %d corruptions rejected, originals accepted' % len(picks))


def run(ctx):
    quick = ctx.tier == 'quick'
    ctx.notes = []
    # 1. the table on the whole enumerated domain + export of the cases
    if quick:
        lines, st = export_cases(ctx, 'OciWireMC_quick.cfg', 400, nq=8,
                                 what='4 prefixes x token sequences of length <= 4 over 17 tokens, each state evaluated for 7 methods x 8 query shapes '
                                      '(shapes = states x 56), + 5 000 handler cases (kind x backend answers x headers x bodies x options): '
                                      'Total, StatusAgreesWithCode, SuccessHeaders, BackendArgsValid, AllClosed, RepoSegmentwise (<= 3 tokens)')
        shapes = st * METHODS * 8
    else:
        lines, st = export_cases(ctx, 'OciWireMC_thorough.cfg', 1500, nq=8,
                                 what='token sequences of length <= 5 over 17 tokens, each state evaluated for 7 methods x 8 query shapes (shapes = states x 56), '
                                      '+ all handler cases: Total, StatusAgreesWithCode, SuccessHeaders, BackendArgsValid, AllClosed, RepoSegmentwise (<= 4 tokens)')
        shapes = st * METHODS * 8
        l2, st2 = export_cases(ctx, 'OciWireMC_queries.cfg', 900, nq=163,
                               what='token sequences of length <= 3, each state evaluated for 7 methods x 163 query shapes (n, last, digest, mount, from: '
                                    'absent / empty / malformed / ok, and an undecodable query string)')
        shapes += st2 * METHODS * 163
        lines += l2
    cf = os.path.join(ctx.sub('cases'), 'cases.jsonl')
    open(cf, 'w').write('\n'.join(lines) + '\n')
    # 2. the real server: the exported cases, then seeded-random and mutated requests
    vh = vlib.build_harness(ctx)
    trace = os.path.join(ctx.sub('traces'), 'wire.ndjson')
    nrand = 3000 if quick else 60000
    st = run_wire(ctx, vh, trace, cases=cf, n=nrand, seed=ctx.seed)
    ctx.log('harness: %d ServeHTTP calls (%d TLC cases, %d random), %d panics' % (st['cases'], len(lines), nrand, st['panics']))
    samples = scan(ctx, trace)
    ctx.cov['samples'] = [dict(tlc_exported_case=readable(json.loads(lines[0])))] + [dict(recorded_event=v, which=k) for k, v in sorted(samples.items())]
    # 3. TLC judges every recorded response
    vlib.judge_traces(ctx, MODULE, CFG, [trace], shard_lines=min(30000, max(1500, 2 * st["cases"] // vlib.NCPU + 2)), label='ociserver vs OciWire')
    if not quick or os.environ.get('VERIF_CANARY'):
        canary(ctx, trace)
    ctx.assumptions += [
        'requests reach the handler as http.Request values built directly (URL.Path, RawQuery, headers, ContentLength, body): the net/http wire parser is not part of the subject',
        'query values are what net/url.ParseQuery decodes from the raw query that was sent; the Link header is taken apart with net/url; the JSON error list and listings are read with encoding/json',
        'honest backend: a reader serves exactly the bytes its descriptor announces; item names are valid UTF-8; descriptors carry well-formed digests',
        'the sha256 digest of a request body is computed by the harness (Go crypto/sha256); the JSON class of the six table bodies is part of the case, any other body is "other" (manifest PUT then only has to satisfy the universal clauses when the body is parsed)',
        'numerals of 10 or more digits (n, Range, Content-Range) are not evaluated (TLC integers are 32 bit): such requests only have to satisfy the universal clauses',
        'a Range header other than bytes=A-B / bytes=A- with A <= B may be ignored or refused (universal clauses only); WriteError is left at its default; LocationsForDescriptor is exercised with a function that ignores its isManifest argument (returns one location, several, none, or an error)',
        'a manifest PUT addressed by a well-formed digest that is not the sha256 digest of the body is refused with status 400 (DIGEST_INVALID today) - also when it is the TRUE sha384 / sha512 digest of the body: the handler computes sha256 only; modelled as the code is',
        'TLC and the Json/IOUtils community modules',
    ]
    return vlib.finish(ctx, rule='one ServeHTTP call per scenario; TLC splits the logged path at "/", classifies every segment with the OciRef recognisers and the '
                       'base64url/UTF-8 recognisers of OciWire, evaluates Respond(request, backend script, options) and accepts the event iff the logged response is '
                       'one the specification allows: for every request no panic, a JSON OCI error body on every non-2xx, standard code <=> its status, Content-Length '
                       '= body length, only valid repository / tag / digest arguments in backend calls, every reader / writer closed; for rejected requests a status '
                       'of one of the defects present; for well-formed requests exact status, mandated headers (Location, Docker-Content-Digest, Content-Length, Range, '
                       'Content-Range, OCI-Chunk-Min-Length, Link, Content-Type, OCI-Subject), body length, listed items, backend calls with arguments, write / commit / close counts',
                       extra=dict(requests_run=st['cases'], tlc_cases=len(lines), random_cases=nrand, request_shapes_evaluated_by_tlc=shapes, notes=ctx.notes))


def replay(ctx, path):
    vh = vlib.build_harness(ctx)
    out = os.path.join(ctx.sub('replay'), 'trace.ndjson')
    run_wire(ctx, vh, out, replay=path)
    before = len(ctx.violations)
    vlib.judge_traces(ctx, MODULE, CFG, [out], label='replay')
    for k in ctx.known:
        print('KNOWN-FINDING: property=%s %s: %s' % (ctx.pid, k['id'], k['what']))
    if len(ctx.violations) > before:
        vlib.report_violations(ctx, before)
        return 1
    print('replay accepted: the stored scenario no longer violates %s' % ctx.pid)
    return 0
