"""C12: access-checking / selecting wrappers never let a rejected repository through."""
import os

import filtercommon as fc
import vlib

REPOS = 'r1,r2,r3,r4'


def run(ctx):
    quick = ctx.tier == 'quick'
    # 1. the wrapper semantics and its properties, exhaustively over the small universe
    vlib.model_check(ctx, 'OciFilterMC.tla', 'OciFilterMC_c12_quick.cfg' if quick else 'OciFilterMC_c12_thorough.cfg', workers=fc.MC_WORKERS,
                     what='AccessChecker and Select over a 4-repository backend: every populated subset x every call of every method '
                          '(18 Interface methods + BlobWriter methods, mounts in all 4 directions, listings from every start point) x every '
                          'policy table over the entries of the repositories involved (ok / %s) x every allow set; %s'
                          % ('1 error identity' if quick else '3 error identities', '1 call deep' if quick else '2 calls deep, both tag modes'))
    # 2. direction A: cases enumerated by TLC, executed on the real wrappers
    vh = vlib.build_harness(ctx)
    cases = fc.gen_cases(ctx, 'OciFilterGen_c12_quick.cfg' if quick else 'OciFilterGen_c12_thorough.cfg')
    cp = fc.write_cases(ctx, cases, 'c12.jsonl')
    td = ctx.sub('traces')
    traces = []
    t = os.path.join(td, 'tlc.ndjson')
    fc.run_filter(ctx, vh, t, cases=cp, repos=REPOS)
    traces.append(t)
    # 3. direction B: seeded-random histories under seeded-random table policies / allow sets
    nrand = 48 if quick else 2100
    i = 0
    while nrand > 0:
        k = min(500, nrand)
        t = os.path.join(td, 'rand%d.ndjson' % i)
        fc.run_filter(ctx, vh, t, n=k, steps=30 if quick else 40, seed=ctx.seed * 1000 + i, kinds='checker,select,tree')
        traces.append(t)
        nrand -= k
        i += 1
    for t in traces:
        fc.count_ops(ctx, t)
    ctx.cov['tlc_cases'] = len(cases)
    ctx.cov['samples'] = [dict(tlc_case={k: cases[0][k] for k in ('kind', 'pop', 'pol', 'allow')}, first_ops=cases[0]['ops'][:3]),
                          dict(rejected=fc.sample_events(traces[-1], 2, lambda e: e.get('ok') is False and not e['backend'] and e['cons'])),
                          dict(listing=fc.sample_events(traces[0], 2, lambda e: e['op'] == 'ListRepos' and len(e['cons']) > 2))]
    vlib.judge_traces(ctx, 'OciFilterTrace', 'OciFilterTrace.cfg', traces, shard_lines=1500 if quick else 6000, label='AccessChecker/Select vs OciFilter')
    need = ['checker:scripted-listing', 'select:scripted-listing', 'checker:ill-formed-name', 'select:ill-formed-name', 'checker:backend-refused', 'tree:ListRepos', 'tree:rejected', 'checker:listing-failed-with-name', 'select:listing-failed-with-name', 'checker:rejected', 'select:rejected', 'checker:MountBlob', 'checker:ListRepos', 'select:ListRepos', 'checker:Write', 'checker:Commit']
    missing = [k for k in need if not ctx.cov['per_op'].get(k)]
    if missing:
        raise vlib.Machinery('the batch never exercised: %s' % ', '.join(missing))
    ctx.assumptions += ['policies are pure functions of (name, kind), given as tables the specification evaluates itself',
                        'the backend is ocimem (itself validated against OciRegistry by C02); the recorder and the scope-capturing shim only log and delegate',
                        "a policy error is identified by the text of the value the harness's policy returned (each identity has its own)",
                        'harness digest/JSON rendering; TLC + community modules']
    return vlib.finish(ctx, rule='every call made through AccessChecker(rec(mem), table) / Select(rec(mem), allow) is one trace event carrying the call, its projected '
                       'result, the policy consultations in order, the calls the recording backend received, the context scope of each, followed by a snapshot of '
                       'the in-memory registry over all repositories (the rejected ones hold content too); TLC accepts the trace iff each event is the '
                       'CheckedApply step of OciFilter: consultations exactly as predicted, a rejected call = first failing consultation\'s own error, no backend '
                       'call, state unchanged; an allowed call = the single identical backend call and the result of OciRegistry; listings = the backend\'s '
                       'listing minus the items whose Read check fails')


def replay(ctx, path):
    return fc.replay_filter(ctx, path)
