"""C03: HTTP client + server (with logging wrapper, server options, second hop) are transparent."""
import os

import regcommon as rc
import vlib

STRICT = {'K1_DeclaredTypeGoverns': False, 'F12_PushBlobUncoded': False}
STACKS_Q = 'http(mem);http:redir(mem);http(small:2(mem));debug(http(debug(mem)));http:omitdigest+nolink+page2(http(mem));http:nosingle+page1+max3(mem)'
UP_STACKS = 'http(mem);debug(http(debug(mem)));http(http(mem));http:nosingle(small:2(mem))'
STACKS_T = STACKS_Q + ';http:redir(mem);http(http:redir+omitdigest(mem));http:page3+nolink(mem);http:omitdigest(mem);http(debug(http:nosingle(mem)));http:page2+max2(http:page1(mem))'


def run(ctx):
    quick = ctx.tier == 'quick'
    vlib.model_check(ctx, 'OciRegistryMC.tla', 'OciRegistryMC_quick.cfg', what='reference model behind the wire')
    rc.reg_check(ctx, STACKS_Q if quick else STACKS_T, STRICT, n_tlc=10 if quick else 200, n_rand=30 if quick else 700,
                 cover='OciRegistryCover_all.cfg', cover_sample=250 if quick else 4000, uploads=40 if quick else 400,
                 profiles=('all', 'range'), tlc_cfg='OciRegistryGenNoUp.cfg', honest=True, label='client/server stacks vs OciRegistry')
    # any caller of the upload calls (resume at any offset, data travelling with the closing PUT, wrong digests):
    # the error codes of refusals have to come through the wire as well
    vh = vlib.build_harness(ctx)
    t = os.path.join(ctx.sub('traces'), 'rand-upload.ndjson')
    rc.run_reg(ctx, vh, t, stacks=UP_STACKS, n=16 if quick else 500, steps=40, profile='upload')
    rc.count_ops(ctx, t)
    vlib.judge_traces(ctx, 'RegTrace', 'RegTrace.cfg', [t], strict=STRICT, label='any caller of the upload calls vs OciClientWriter/OciRegistry')
    ctx.assumptions += ['well-formed names only (C06/C17 cover the rest)', 'a writer is not used again after Commit over HTTP; Cancel is not followed by further use over HTTP',
                        'HEAD-based resolves: status class only; mount size may be 0; a lying descriptor size over HTTP only has to fail',
                        'harness digest/JSON rendering; TLC + community modules']
    return vlib.finish(ctx, rule='each history runs through every stack; every client-side call is validated by TLC as a step of OciRegistry '
                       '(same success/failure, code, descriptor, bytes as the reference model that ocimem itself is validated against in C02), a snapshot of the '
                       'in-memory registry behind the last server is compared with the model state after every call, and the calls a recording backend saw during '
                       'each client-side call must be exactly the handler-table image of that call (BackendOK in RegTrace.tla)')


def replay(ctx, path):
    return rc.replay_reg(ctx, path, strict=STRICT)
