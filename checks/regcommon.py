"""Shared by the checks that bind OciRegistry to a registry stack (C01 C02 C03 C04 C14)."""
import json
import os

import vlib


def gen_scenarios(ctx, n, depth=24, seed=None, cfg='OciRegistryGen.cfg'):
    """TLC-generated histories over the small universe (random walks of OciRegistryGen)."""
    seed = ctx.seed if seed is None else seed
    scen, r = vlib.generate(ctx, 'OciRegistryGen.tla', cfg,
                            simulate='num=%d' % n, extra=['-depth', str(depth + 4), '-seed', str(seed)])
    if not scen:
        raise vlib.Machinery('TLC generated no scenarios:\n' + vlib.tlc_errors(r['out']))
    return scen


WIRE_PROBE = [dict(op='RawStatus', r='r1', u='u1'), dict(op='RawPatch', r='r1', u='u1', data=[], off=-2),
              dict(op='GetBlob', r='r1', c='b1'), dict(op='GetBlob', r='r1', c='b2'), dict(op='GetBlobRange', r='r1', c='b2', o0=1, o1=2)]


def cover_scenarios(ctx, cfg, sample=None, probe=None):
    """Transition coverage of the reference model (OciRegistryCover): one history per (state, operation)
    pair of the small universe; `sample` draws a seeded subset."""
    import random
    scen, r = vlib.generate(ctx, 'OciRegistryCover.tla', cfg, workers=1, timeout=900)
    if not scen:
        raise vlib.Machinery('no coverage scenarios:\n' + vlib.tlc_errors(r['out']))
    ctx.cov.setdefault('transition_cover', []).append(dict(cfg=cfg, states=r.get('distinct'), transitions=len(scen)))
    if sample and sample < len(scen):
        rnd = random.Random(ctx.seed)
        scen = rnd.sample(scen, sample)
    if probe:
        # the abstract state reached may hide a difference inside the implementation (a stale flag):
        # every covered transition is followed by calls that observe the item it touched
        scen = [dict(s, ops=s['ops'] + probe) for s in scen]
    return scen


def write_scenarios(ctx, scen, name='scen.jsonl'):
    p = os.path.join(ctx.sub('scen'), name)
    with open(p, 'w') as f:
        for s in scen:
            f.write(json.dumps(s) + '\n')
    return p


def run_reg(ctx, vh, out, stacks='mem', scen=None, n=0, steps=30, seed=None, profile='all', imm='both', extra=()):
    args = ['reg', '-out', out, '-stacks', stacks, '-n', str(n), '-steps', str(steps),
            '-seed', str(ctx.seed if seed is None else seed), '-profile', profile, '-imm', imm] + list(extra)
    if scen:
        args += ['-scen', scen]
    o = vlib.run_harness(ctx, vh, args)
    return json.loads(o.strip().splitlines()[-1])


def sample_events(trace, n=6, skip_snap=True):
    out = []
    with open(trace) as f:
        f.readline()
        for l in f:
            if skip_snap and '"op":"snap"' in l:
                continue
            out.append(json.loads(l))
            if len(out) >= n:
                break
    return out


def count_ops(ctx, trace):
    with open(trace) as f:
        f.readline()
        for l in f:
            i = l.find('"op":"')
            if i < 0:
                continue
            j = l.find('"', i + 6)
            op = l[i + 6:j]
            ctx.cov['per_op'][op] = ctx.cov['per_op'].get(op, 0) + 1


def replay_reg(ctx, path, module='RegTrace', cfg='RegTrace.cfg', strict=None):
    """Re-executes the scenario stored in a replay file on the current tree and re-validates."""
    vh = vlib.build_harness(ctx)
    out = os.path.join(ctx.sub('replay'), 'trace.ndjson')
    vlib.run_harness(ctx, vh, ['reg', '-replay', path, '-out', out])
    before = len(ctx.violations)
    vlib.judge_traces(ctx, module, cfg, [out], strict=strict, label='replay')
    for k in ctx.known:
        print('KNOWN-FINDING: property=%s %s: %s' % (ctx.pid, k['id'], k['what']))
    if len(ctx.violations) > before:
        vlib.report_violations(ctx, before)
        return 1
    print('replay accepted: the stored scenario no longer violates %s' % ctx.pid)
    return 0


def reg_check(ctx, stacks, strict, n_tlc, n_rand, steps=40, profiles=('all',), tlc_cfg='OciRegistryGen.cfg', honest=False,
              label='', per_file=400, cover=None, cover_sample=None, uploads=0, wire=0, extra_gen=()):
    """Common body: TLC-generated histories + seeded-random ones on the given stacks, then
    trace validation against OciRegistry via RegTrace."""
    vh = vlib.build_harness(ctx)
    td = ctx.sub('traces')
    traces = []
    scen = gen_scenarios(ctx, n_tlc, cfg=tlc_cfg)
    for cfg, n, depth in extra_gen:
        scen += gen_scenarios(ctx, n, depth=depth, cfg=cfg)
    if cover:
        # one history per (state, operation) pair of the model-checked universe
        scen += cover_scenarios(ctx, cover, sample=cover_sample)
    if uploads:
        # caller-level upload scenarios of a contract-following caller, chosen by TLC from the client-writer model
        up, _ = vlib.generate(ctx, 'OciClientWriterGen.tla', 'OciClientWriterGenHonest.cfg', simulate='num=%d' % uploads,
                              extra=['-depth', '16', '-seed', str(ctx.seed)])
        scen += up
    sp = write_scenarios(ctx, scen)
    t1 = os.path.join(td, 'tlc.ndjson')
    run_reg(ctx, vh, t1, stacks=stacks, scen=sp, extra=['-honest'] if honest else [])
    traces.append(t1)
    if wire:
        # one history per (session state, wire-level upload request) pair, sent as plain HTTP requests
        scenw = cover_scenarios(ctx, 'OciRegistryCover_wire.cfg', sample=wire if wire > 0 else None, probe=WIRE_PROBE)
        tw = os.path.join(td, 'wire.ndjson')
        run_reg(ctx, vh, tw, stacks='http(mem);http:nosingle(debug(mem))', scen=write_scenarios(ctx, scenw, 'scenw.jsonl'))
        traces.append(tw)
    i = 0
    left = n_rand
    while left > 0:
        for prof in profiles:
            if left <= 0:
                break
            k = min(per_file, left, max(1, -(-n_rand // len(profiles))))
            t = os.path.join(td, 'rand%d.ndjson' % i)
            # every other batch runs without the per-call snapshots (a snapshot lists and resolves everything,
            # which refreshes whatever an implementation keeps between calls before it could go stale)
            run_reg(ctx, vh, t, stacks=stacks, n=k, steps=steps, seed=ctx.seed * 1000 + i, profile=prof,
                    extra=(['-honest'] if honest else []) + (['-snap=false'] if (i + ctx.seed) % 2 == 1 else []))
            traces.append(t)
            left -= k
            i += 1
    for t in traces:
        count_ops(ctx, t)
    ctx.cov['samples'] = [dict(tlc_generated_scenario=scen[0]['ops'][:8]), dict(recorded_events=sample_events(traces[-1], 4))]
    ctx.cov['stacks'] = stacks.split(';')
    vlib.judge_traces(ctx, 'RegTrace', 'RegTrace.cfg', traces, strict=strict, label=label)
    return traces
