"""C11: credentials stay confined and the auth flow is bounded and non-intrusive (spec/OciAuth.tla:
PasswordOnlyToRealmOrBasicChallenger, NoBasicOnFirstRequest, RefreshOnlyToRealm, HostConfinement,
AtMostTwoAttempts, FreshToken401Becomes403, CallerRequestUntouched, BodyClosedOnEveryPath, OnlyKnownSchemes).
See authcommon.py."""
import authcommon


def run(ctx):
    return authcommon.run(ctx, 'C11')


def replay(ctx, path):
    return authcommon.replay(ctx, 'C11', path)
