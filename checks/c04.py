"""C04: chunked and resumable uploads commit exactly the bytes written; wrong offsets are refused."""
import os

import regcommon as rc
import vlib

UP_PROBE = [dict(op='Write', r='r1', u='u1', data=[1]), dict(op='UpSize', r='r1', u='u1'), dict(op='GetBlob', r='r1', c='b1'), dict(op='GetBlob', r='r1', c='b2')]
WIRE_PROBE = [dict(op='RawStatus', r='r1', u='u1'), dict(op='RawPatch', r='r1', u='u1', data=[], off=-2), dict(op='GetBlob', r='r1', c='b1'), dict(op='GetBlob', r='r1', c='b2')]
STRICT = {'K1_DeclaredTypeGoverns': False, 'F12_PushBlobUncoded': False}
HTTP_Q = 'http(small:1(mem));http(small:2(mem));http(mem);http(http(small:1(mem)))'
HTTP_T = HTTP_Q + ';http(small:3(mem));http(http(mem));debug(http(debug(small:2(mem))))'
DIRECT = 'mem;unify(mem,mem)'


def run(ctx):
    quick = ctx.tier == 'quick'
    vlib.model_check(ctx, 'OciClientWriterMC.tla', 'OciClientWriterMC_honest.cfg',
                     what='client writer, contract-following caller: all partitions of <= 4 bytes, hints {default,1,2,3}, every close/resume pattern: NeverRefused, CommitIsConcatenation, ServerOffsetAgrees')
    vlib.model_check(ctx, 'OciClientWriterMC.tla', 'OciClientWriterMC_any.cfg',
                     what='client writer, any caller (resume at any offset): WrongOffsetKeepsUpload, FailureStoresNothing, CommitStoresBuffer')
    vlib.model_check(ctx, 'OciRegistryMC.tla', 'OciRegistryMC_wireq.cfg' if quick else 'OciRegistryMC_wire.cfg', timeout=1500,
                     what='registry-side sessions driven by interface calls and by the wire-level upload requests (PATCH / closing PUT at any offset or without '
                          'Content-Range, status GET): FailedCallStoresNothing, OnlyPushedAppears, RefusedKeepsUploads, CommitStoresSession')
    if not quick:
        vlib.model_check(ctx, 'OciRegistryMC.tla', 'OciRegistryMC_up.cfg', timeout=1500, what='registry-side sessions: offsets, dead sessions, commit')
    vh = vlib.build_harness(ctx)
    td = ctx.sub('traces')
    traces = []
    # caller-level scenarios chosen by TLC from the client-writer model, on every HTTP stack
    scen, _ = vlib.generate(ctx, 'OciClientWriterGen.tla', 'OciClientWriterGen.cfg', simulate='num=%d' % (60 if quick else 1500),
                            extra=['-depth', '16', '-seed', str(ctx.seed)])
    sp = rc.write_scenarios(ctx, scen)
    t = os.path.join(td, 'tlc-http.ndjson')
    rc.run_reg(ctx, vh, t, stacks=HTTP_Q if quick else HTTP_T, scen=sp)
    traces.append(t)
    # one history per (session state, wire-level upload request) pair, sent as plain HTTP requests
    scenw = rc.cover_scenarios(ctx, 'OciRegistryCover_wire.cfg', sample=1200 if quick else None, probe=WIRE_PROBE)
    t = os.path.join(td, 'tlc-wire.ndjson')
    rc.run_reg(ctx, vh, t, stacks='http(mem)' if quick else 'http(mem);http(small:1(mem));http:nosingle(debug(mem))', scen=rc.write_scenarios(ctx, scenw, 'scenw.jsonl'))
    traces.append(t)
    # registry-level scenarios (OciRegistryGen with sessions) on the direct stacks
    scen2 = rc.gen_scenarios(ctx, 20 if quick else 400)
    # one history per (session state, operation) pair: commit / delete / commit again, resume after a refusal, ...
    scen2 += rc.cover_scenarios(ctx, 'OciRegistryCover_up.cfg', sample=2500 if quick else None, probe=UP_PROBE)
    t = os.path.join(td, 'tlc-direct.ndjson')
    rc.run_reg(ctx, vh, t, stacks=DIRECT, scen=rc.write_scenarios(ctx, scen2, 'scen2.jsonl'))
    traces.append(t)
    # seeded-random upload-heavy histories (any offsets, several sessions, block contents) everywhere
    t = os.path.join(td, 'rand-http.ndjson')
    rc.run_reg(ctx, vh, t, stacks=HTTP_Q if quick else HTTP_T, n=25 if quick else 600, steps=40, profile='upload')
    traces.append(t)
    t = os.path.join(td, 'rand-direct.ndjson')
    rc.run_reg(ctx, vh, t, stacks=DIRECT + ';select(mem);sub(mem)', n=25 if quick else 600, steps=40, profile='upload')
    traces.append(t)
    for t in traces:
        rc.count_ops(ctx, t)
    ctx.cov['samples'] = [dict(tlc_generated_upload=scen[0]['ops'][:10]), dict(recorded_events=rc.sample_events(traces[0], 5))]
    vlib.judge_traces(ctx, 'RegTrace', 'RegTrace.cfg', traces, strict=STRICT, label='uploads vs OciClientWriter/OciRegistry')
    ctx.assumptions += ['resume with offset -1 after exactly one received byte is excluded (the property excludes it)',
                        'a writer is not used again after Commit over HTTP; Cancel is not followed by further use over HTTP',
                        'wire-level upload requests (any offset, with or without Content-Range, status GET, closing PUT with a body) are sent as plain HTTP requests to stacks with exactly one HTTP hop',
                        'byte-sized chunk boundaries over HTTP are reached with a backend wrapper whose writers report ChunkSize 1..3']
    return vlib.finish(ctx, rule='every Write/Close/Resume/Size/Commit result and the blob read back after commit is one trace event; over HTTP the client writer model '
                       '(buffering, flush as PATCH at the acknowledged offset, final PUT, status GET) composed with the registry session model must produce exactly the '
                       'logged result, including 416 RANGE_INVALID for data at a wrong offset with the session unchanged and DIGEST_INVALID storing nothing')


def replay(ctx, path):
    return rc.replay_reg(ctx, path, strict=STRICT)
