"""C19: credential lookup from Docker-style config files is a deterministic function of the
file and the helper outputs, with fixed precedence (spec/OciAuthFile.tla).

1. TLC checks the laws (Deterministic over every key visiting order, Precedence,
   CollisionFails, AuthDecodesExactly, LookupOrderIrrelevant) on the model, exhaustively over
   the small universe of OciAuthFileMC, and exports every configuration with the specified
   answers (direction A).
2. The harness renders configurations (TLC's and seeded-random ones over more hosts, key forms
   and odd base64) to config files, loads each 20 times with ociauth.LoadWithEnv (fresh decode:
   Go's map order varies), queries hosts in rotating orders and logs every result; helper
   behaviours (full answers, tokens, nothing found, missing binary, errors, JSON answers with
   members left out, answers that depend on the host) come from a scripted HelperRunner and, for
   a subset, from real docker-credential-* programs - through a wrapped ExecHelperWithEnv and
   through the DEFAULT runner LoadWithEnv makes itself, several hosts (forwards, a repeat, then
   backwards) on one ConfigFile value.
3. TLC validates every logged load and lookup against Lookup(cfg, host) (direction B)."""
import concurrent.futures as cf
import json
import os
import random
import re

import vlib

STRICT = {'F13_TableErrorTextVaries': False, 'Diagnose': False}
MODULE, CFG = 'OciAuthFileTrace', 'OciAuthFileTrace.cfg'


def model_and_cases(ctx, cfg, what, timeout):
    """One TLC run: checks the laws and exports the configurations."""
    cases, r = vlib.generate(ctx, 'OciAuthFileMC.tla', cfg, workers=vlib.NCPU, timeout=timeout)
    if not r['ok'] or 'distinct' not in r:
        raise vlib.Machinery('model check OciAuthFileMC/%s did not pass:\n%s' % (cfg, vlib.tlc_errors(r['out'])))
    if not cases:
        raise vlib.Machinery('TLC exported no configurations')
    ctx.cov['states'] += r['distinct']
    ctx.cov['transitions'] += r['generated']
    ctx.cov['model_runs'].append(dict(module='OciAuthFileMC.tla', cfg=cfg, distinct=r['distinct'], generated=r['generated'],
                                      depth=r.get('depth'), wall_s=round(r['wall'], 1), what=what,
                                      configurations_exported=len(cases)))
    ctx.log('model OciAuthFileMC %s: %d distinct / %d generated, %d configurations, %.1fs' % (
        cfg, r['distinct'], r['generated'], len(cases), r['wall']))
    return cases


def uses_helper(c):
    return bool(c['cfg']['credsStore']) or any(h['helper'] for h in c['cfg']['credHelpers'])


PARTIAL = {'useronly', 'secretonly', 'emptyobj', 'urlonly', 'extra', 'mixed'}


def has_partial(c):
    return any(v['kind'] in PARTIAL for v in c['cfg']['helpers'].values())


def write_cases(ctx, cases, name):
    p = os.path.join(ctx.sub('cases'), name)
    with open(p, 'w') as f:
        for c in cases:
            f.write(json.dumps(dict(cfg=c['cfg'], hosts=c['hosts'])) + '\n')
    return p


def run_authfile(ctx, vh, out, cases=None, n=0, seed=1, decodes=20, mode='inject', replay=None):
    args = ['authfile', '-out', out, '-n', str(n), '-seed', str(seed), '-decodes', str(decodes), '-mode', mode,
            '-dir', ctx.sub('files')]
    if cases:
        args += ['-cases', cases]
    if replay:
        args += ['-replay', replay]
    o = vlib.run_harness(ctx, vh, args)
    return json.loads(o.strip().splitlines()[-1])


def tally(ctx, trace):
    """Coverage counters only (no judging)."""
    po = ctx.cov['per_op']
    with open(trace) as f:
        f.readline()
        for l in f:
            e = json.loads(l)
            k = e['op']
            if k == 'load':
                k = 'load:' + ('ok' if e['ok'] else 'refused')
            elif k == 'lookup':
                k = 'lookup:' + (e['class'] if not e['ok'] else ('entry' if e['user'] or e['refresh'] or e['access'] or e['pass'] else 'nothing'))
            po[k] = po.get(k, 0) + 1


def text_of(bs):
    return ''.join(chr(b) if 32 <= b < 127 else '\\x%02x' % b for b in bs)


def sample_of(c):
    """A readable rendering of an exported case for the evidence file."""
    out = dict(keys=[text_of(a['key']) for a in c['cfg']['auths']], credsStore=c['cfg']['credsStore'],
               credHelpers={text_of(h['host']): h['helper'] for h in c['cfg']['credHelpers']},
               helpers={k: v['kind'] for k, v in c['cfg']['helpers'].items()}, order_sensitive_table=c['sens'])
    out['specified'] = {text_of(x['host']): (dict(user=text_of(x['res']['user']), password=text_of(x['res']['pass']),
                                                 refresh=text_of(x['res']['refresh']), access=text_of(x['res']['access']))
                                            if x['res']['ok'] else 'fails: ' + x['res']['kind'])
                        for x in c['expect']}
    return out


REJECT = re.compile(r'^<<"REJECT", (\d+)>>$', re.M)
CAP = 6   # rejected scenarios handed to vlib.judge_traces (replay files); the others are counted


def diagnose(ctx, path, consts):
    """One TLC pass over a trace file in Diagnose mode -> the set of rejected line numbers."""
    d = ctx.specdir()
    c = dict(STRICT, Diagnose=True)
    c.update(consts)
    cfg = vlib.cfg_with(ctx, d, CFG, c)
    r = vlib.run_tlc(ctx, d, MODULE + '.tla', cfg, workers=1, env={'TRACE_FILE': os.path.abspath(path)})
    if not r['ok']:
        raise vlib.Machinery('diagnostic trace validation of %s broke:\n%s' % (path, vlib.tlc_errors(r['out'])))
    ctx.cov['events_validated'] += r.get('distinct', 0)
    return sorted(int(x) for x in REJECT.findall(r['out']))


def diagnose_scenarios(ctx, hdr, scen, consts):
    """-> indices of the scenarios TLC rejects (sharded over the cores, one pass each)."""
    sd = ctx.sub('diag')
    shard_lines = max(4000, sum(len(s) for s in scen) // vlib.NCPU + 1)   # one JVM per core at most
    shards, cur, n = [], [], 0
    for i, s in enumerate(scen):
        cur.append(i)
        n += len(s)
        if n >= shard_lines:
            shards.append(cur)
            cur, n = [], 0
    if cur:
        shards.append(cur)

    def work(k):
        idx = shards[k]
        p = os.path.join(sd, 'shard%03d.ndjson' % k)
        vlib.write_trace(p, hdr, [scen[i] for i in idx])
        bad = diagnose(ctx, p, consts)
        out = []
        line = 1   # the header
        for i in idx:
            lo, hi = line + 1, line + len(scen[i])
            hit = [b for b in bad if lo <= b <= hi]
            if hit:
                out.append((i, hit[0] - lo + 1))
            line = hi
        return out
    with cf.ThreadPoolExecutor(max_workers=vlib.NCPU) as ex:
        res = list(ex.map(work, range(len(shards))))
    return [x for r in res for x in r]


def judge(ctx, traces, label):
    """vlib.judge_traces isolates rejected scenarios by re-running TLC once per rejection, which
    takes minutes when a defect shows in hundreds of configurations.  Here one Diagnose pass
    lists every rejected scenario; the same pass under each known-finding relaxation classifies
    them; up to CAP remaining ones (distinct rejected events first) go through
    vlib.judge_traces in the standard mode for isolation and replay files."""
    # short single-worker runs: the C2 compiler and 16 GC threads per JVM cost more than they give
    os.environ['JAVA_TOOL_OPTIONS'] = (os.environ.get('JAVA_TOOL_OPTIONS', '') + ' -XX:TieredStopAtLevel=1 -XX:ParallelGCThreads=2').strip()
    hdr, scen = None, []
    for t in traces:
        h, sc = vlib.split_scenarios(t)
        hdr = hdr or h
        scen += sc
    rejected = diagnose_scenarios(ctx, hdr, scen, {})
    ctx.cov['traces_validated_against_impl'] += len(scen) - len(rejected)
    ctx.log('%s: %d scenarios accepted, %d rejected' % (label, len(scen) - len(rejected), len(rejected)))
    if not rejected:
        return
    known = vlib.load_known(ctx.pid)
    for k in known + ([dict(all=True)] if len(known) > 1 else []):
        if not rejected:
            break
        consts = {x['relaxation']: True for x in known} if k.get('all') else {k['relaxation']: True}
        sub = [scen[i] for i, _ in rejected]
        still = {rejected[j][0] for j, _ in diagnose_scenarios(ctx, hdr, sub, consts)}
        if len(still) < len(rejected):
            for x in (known if k.get('all') else [k]):
                if x['id'] not in [y['id'] for y in ctx.known]:
                    ctx.known.append(x)
        rejected = [(i, at) for i, at in rejected if i in still]
    if not rejected:
        return
    # a sample with distinct rejected events first
    seen, first, rest = set(), [], []
    for i, at in rejected:
        e = json.loads(scen[i][at - 1])
        sig = (e.get('op'), e.get('class'), e.get('ok'), e.get('msg', '')[:24])
        (rest if sig in seen else first).append(i)
        seen.add(sig)
    pick = (first + rest)[:CAP]
    sd = ctx.sub('rejected')
    files = []
    for i in pick:
        p = os.path.join(sd, 'scenario%d.ndjson' % i)
        vlib.write_trace(p, hdr, [scen[i]])
        files.append(p)
    before = len(ctx.violations)
    vlib.judge_traces(ctx, MODULE, CFG, files, strict=dict(STRICT, Diagnose=False), label=label + ' (rejected sample)')
    ctx.cov['traces_validated_against_impl'] -= 0
    if len(ctx.violations) - before != len(pick):
        raise vlib.Machinery('the diagnostic pass rejected %d sampled scenarios, the standard pass %d' % (len(pick), len(ctx.violations) - before))
    ctx.cov['rejected_scenarios'] = len(rejected)
    if len(rejected) > len(pick):
        ctx.notes.append('%d scenarios rejected in all; replay files written for %d of them' % (len(rejected), len(pick)))
        print('  (%d scenarios rejected in all; replay files written for %d of them)' % (len(rejected), len(pick)))


def run(ctx):
    quick = ctx.tier == 'quick'
    if quick:
        cases = model_and_cases(ctx, 'OciAuthFileMC_quick.cfg', '<=3 of 6 key forms for h1 x 4 credential kinds (the empty entry {} included), h2 key and helper setup in 4 combinations; '
                                '4 tables x per-host helper {absent, empty, A} x store on/off x 5x5 helper behaviours; 2 tables x per-host helper {absent, h1:A, h2:A} x '
                                '11x11 helper behaviours (answers with members left out)', 300)
    else:
        cases = model_and_cases(ctx, 'OciAuthFileMC_thorough.cfg', '<=3 of 6 key forms for h1 x 9 credential kinds (empty and email-only entries, undecodable auth fields included), '
                                'h2 key on/off, 3 helper setups; helper family as in quick', 600)
        # sensitivity control: with the two table tests in the order authfile.go had them (F13) TLC must
        # find a visiting order that changes the answer
        d = ctx.specdir()
        r = vlib.run_tlc(ctx, d, 'OciAuthFileMC.tla', 'OciAuthFileMC_f13.cfg', timeout=300)
        if 'Invariant InvDeterministic is violated' not in r['out']:
            raise vlib.Machinery('the model no longer detects the F13 order dependence:\n' + vlib.tlc_errors(r['out']))
        ctx.cov['model_runs'].append(dict(module='OciAuthFileMC.tla', cfg='OciAuthFileMC_f13.cfg', wall_s=round(r['wall'], 1),
                                          what='control: ambiguity test before collision test -> Deterministic violated (expected)'))
        ctx.log('control OciAuthFileMC_f13.cfg: Deterministic violated as expected (%.1fs)' % r['wall'])
    rnd = random.Random(ctx.seed)
    partial = [c for c in cases if uses_helper(c) and has_partial(c)]   # helper answers with members left out
    if quick:
        sens = [c for c in cases if c['sens']]
        helper = [c for c in cases if uses_helper(c) and not c['sens'] and not has_partial(c)]
        rest = [c for c in cases if not c['sens'] and not uses_helper(c)]
        chosen = (rnd.sample(sens, min(400, len(sens))) + rnd.sample(helper, min(200, len(helper)))
                  + rnd.sample(partial, min(150, len(partial))) + rnd.sample(rest, min(150, len(rest))))
    else:
        chosen = rnd.sample(cases, min(9000, len(cases)))   # (all of them are model-checked; a seeded sample is executed)
    # with real helper programs, through the wrapped and the default runner alternately
    others = [c for c in chosen if uses_helper(c) and not has_partial(c)]
    execs = rnd.sample(partial, min(60 if quick else 500, len(partial))) + rnd.sample(others, min(40 if quick else 700, len(others)))
    vh = vlib.build_harness(ctx)
    td = ctx.sub('traces')
    traces = []
    per = 4000
    for i in range(0, len(chosen), per):
        t = os.path.join(td, 'tlc%d.ndjson' % i)
        run_authfile(ctx, vh, t, cases=write_cases(ctx, chosen[i:i + per], 'cases%d.jsonl' % i))
        traces.append(t)
    t = os.path.join(td, 'exec.ndjson')
    run_authfile(ctx, vh, t, cases=write_cases(ctx, execs, 'exec.jsonl'), decodes=2 if quick else 4, mode='exec')
    traces.append(t)
    nrand = 200 if quick else 3000
    i = 0
    while nrand > 0:
        t = os.path.join(td, 'rand%d.ndjson' % i)
        run_authfile(ctx, vh, t, n=min(1500, nrand), seed=ctx.seed * 1000 + i)
        traces.append(t)
        nrand -= 1500
        i += 1
    for t in traces:
        tally(ctx, t)
    ctx.log('probed %d TLC configurations (%d also with real helper programs) and %d random ones: %s' % (
        len(chosen), len(execs), 200 if quick else 3000, ctx.cov['per_op']))
    ctx.cov['samples'] = [dict(tlc_exported_configuration=sample_of(c)) for c in (chosen[0], chosen[len(chosen) // 2])]
    with open(traces[-1]) as f:
        f.readline()
        ctx.cov['samples'].append(dict(recorded_events=[json.loads(f.readline()) for _ in range(4)]))
    judge(ctx, traces, 'ociauth config file vs OciAuthFile')
    ctx.assumptions += [
        'the harness renders the abstract configuration to JSON with encoding/json and the scripted helpers answer as their behaviour record says',
        'Go randomises map iteration per map (20 fresh decodes per configuration sample the orders; the model covers all of them)',
        'file-level strings are ASCII (so that the JSON round trip is exact); bytes inside base64 are arbitrary',
        'TLC and the Json/IOUtils community modules']
    return vlib.finish(ctx, rule='every LoadWithEnv and every EntryForRegistry call is one trace event (entry fields, failure class by '
                       'errors.Is / identity with the helper\'s own error, error text, helper invocations); TLC accepts a lookup iff it '
                       'equals Lookup(cfg, host) of OciAuthFile and its error text is the same in all 20 decodes of the configuration')


def replay(ctx, path):
    vh = vlib.build_harness(ctx)
    out = os.path.join(ctx.sub('replay'), 'trace.ndjson')
    run_authfile(ctx, vh, out, replay=path, decodes=200)
    before = len(ctx.violations)
    judge(ctx, [out], 'replay')
    for k in ctx.known:
        print('KNOWN-FINDING: property=%s %s: %s' % (ctx.pid, k['id'], k['what']))
    if len(ctx.violations) > before:
        vlib.report_violations(ctx, before)
        return 1
    print('replay accepted: the stored scenario no longer violates %s' % ctx.pid)
    return 0
