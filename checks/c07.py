"""C07: errors keep their identity, status, detail and message across the wire (OciError.tla).

1. TLC checks the laws on the model over the whole case domain: once for the design (every law
   without exception) and once for the model of the current code (laws hold outside the named
   cells, and inside a cell the deviation is exactly the named one).
2. TLC exports every case of the domain (direction A); the harness builds the real error, lets a
   Funcs backend return it from the carrier method below 3 real ociclient->ociserver hops and
   records what the error looks like at every level and what each client saw on the wire.
   The domain includes a status sweep (every own status 400..599 around a no-code and a
   custom-code error, on all three HEAD carriers and two body carriers even in the quick tier).
   It also includes custom codes that are case variants of tabled codes, and listings whose
   backend iterator yields 1-2 items and THEN the error (page sizes 1, 2 and the default).
   Size classes: messages of 1900..6000 bytes and details listing 1..90 digests (error bodies below
   and above net/http's 2048-byte buffer, up to just below the client's 8 KiB limit) on every carrier.
   Writer carriers: the error is raised by the backend's BlobWriter (Write reached through PushBlob's
   closing PUT, through Write-then-Commit, through an overflowing Write's PATCH; Close; Commit).
   HTTP wrappers come in two forms: made with a nil response and made from a response; and ORIGIN
   cases put a non-conforming registry (plain http handler answering e.g. 404 + DENIED) at the far end.
   The thorough tier adds seeded-random trees (nested wrappers, several joined codes, random
   statuses 400..599, random messages and JSON details) over all 18 carriers.
3. TLC validates every recorded case against OciErrorTrace.
   Pass A runs with the relaxations of the listed known findings switched on: whatever is
   rejected there is a violation.  Pass B switches one relaxation off at a time on the
   cases pass A accepted: a rejection means that known finding is present."""
import concurrent.futures as cf
import json
import os

import vlib

RELAX = ['K2_Status416ImpliesRangeInvalid', 'K2b_Wrapped416LosesRangeInvalid']
HEAD = ['ResolveBlob', 'ResolveManifest', 'ResolveTag']
BODY = ['GetBlob', 'GetBlobRange', 'GetManifest', 'GetTag', 'PushBlob', 'PushBlobChunked',
        'PushBlobChunkedResume', 'MountBlob', 'PushManifest', 'DeleteBlob', 'DeleteManifest', 'DeleteTag',
        'Repositories', 'Tags', 'Referrers']
WRITER = ['WPushBlob', 'WWriteCommit', 'WWritePatch', 'WClose', 'WCommit']
HOPS = 3


def relax_consts(ctx):
    on = {k['relaxation'] for k in vlib.load_known(ctx.pid)}
    return {r: (r in on) for r in RELAX}


# ------------------------------------------------------------------ batching of events
def walk(n):
    yield n
    for k in n.get('kids', []):
        yield from walk(k)


def batch_key(e):
    """Only decides which cases share a scenario (so that cases likely to be rejected for one
    reason sit together and cost one TLC re-run); it has no influence on any verdict."""
    nodes = list(walk(e['err']))
    if e['carrier'] == 'PushBlobChunkedResume':
        return 'resume'
    if e.get('nitems', 0) > 0:
        return 'listitems'
    if e['carrier'] in WRITER:
        return 'writer'
    if e.get('origin'):
        return 'origin'
    if any(t['t'] == 'E' for n in nodes for t in n['msg']) or any(n['k'] == 'http' and not n['kids'] for n in nodes):
        return 'emptyish'
    if any(n['k'] == 'http' and n['status'] == 416 for n in nodes):
        return 'wrap416'
    if any(n['code'] == 'BLOB_UPLOAD_INVALID' for n in nodes):
        return 'bui'
    if len({n['code'] for n in nodes if n['k'] in ('std', 'new')}) > 1:
        return 'multi'
    return ''


def regroup(src, dst, chunk=450):
    """Rewrites a trace with reset lines placed by batch_key; returns {key: n}."""
    groups = {}
    with open(src) as f:
        hdr = f.readline().rstrip('\n')
        for line in f:
            line = line.rstrip('\n')
            if not line or '"op":"reset"' in line[:40]:
                continue
            e = json.loads(line)
            key = batch_key(e) if e.get('op') == 'case' else 'panic'
            # a label that lets the runner's report tell kinds of rejected events apart (not read by the spec)
            e['msg'] = '%s/%s' % (key or 'plain', e['carrier'] if e['carrier'] in HEAD + WRITER + ['PushBlobChunkedResume'] else 'body carrier')
            groups.setdefault(key, []).append(json.dumps(e, separators=(',', ':')))
    with open(dst, 'w') as f:
        f.write(hdr + '\n')
        for key in sorted(groups):
            lines = groups[key]
            step = chunk if key == '' else 4 * chunk
            for i in range(0, len(lines), step):
                f.write(json.dumps({'op': 'reset', 'group': '%s-%d' % (key or 'plain', i // step)}, separators=(',', ':')) + '\n')
                for l in lines[i:i + step]:
                    f.write(l + '\n')
    return {k or 'plain': len(v) for k, v in groups.items()}


def case_ids(lines):
    out = set()
    for l in lines:
        if '"op":"reset"' in l[:40]:
            continue
        try:
            out.add(json.loads(l).get('id'))
        except ValueError:
            pass
    return out


# ------------------------------------------------------------------------------ judging
def judge(ctx, traces, label):
    # many short single-worker TLC runs side by side: keep each JVM small
    if 'ParallelGCThreads' not in os.environ.get('JAVA_TOOL_OPTIONS', ''):
        os.environ['JAVA_TOOL_OPTIONS'] = (os.environ.get('JAVA_TOOL_OPTIONS', '') + ' -XX:ParallelGCThreads=2 -XX:CICompilerCount=2 -Xmx4g').strip()
    relax = relax_consts(ctx)
    before = len(ctx.violations)
    vlib.judge_traces(ctx, 'OciErrorTrace', 'OciErrorTrace.cfg', traces, strict=relax, shard_lines=450, label=label + ' (pass A)')
    known = [k for k in vlib.load_known(ctx.pid) if k.get('relaxation') in RELAX]
    if not known:
        return
    # pass B: on the scenarios that hold no violation, which known findings are needed?
    bad = set()
    for v in ctx.violations[before:]:
        with open(v['replay']) as f:
            bad |= case_ids(f.read().splitlines()[1:])
    d = ctx.sub('passB')
    for t in traces:
        hdr, scen = vlib.split_scenarios(t)
        keep = [s for s in scen if not (case_ids(s) & bad) and not s[0].startswith('{"op":"reset","group":"plain')]
        if not keep:
            continue
        p = os.path.join(d, 'B-' + os.path.basename(t))
        vlib.write_trace(p, hdr, keep)
        todo = [k for k in known if k['id'] not in [x['id'] for x in ctx.known]]

        def without(k):
            consts = dict(relax)
            consts[k['relaxation']] = False
            return vlib.validate_trace(ctx, 'OciErrorTrace', 'OciErrorTrace.cfg', p, consts=consts)
        with cf.ThreadPoolExecutor(max_workers=4) as ex:
            res = list(ex.map(without, todo))
        for k, r in zip(todo, res):
            if not r['accepted']:
                ctx.known.append(k)
                ctx.notes.append('%s first needed at: %s' % (k['id'], open(p).read().splitlines()[r['line'] - 1][:400]))


def count(ctx, trace):
    with open(trace) as f:
        f.readline()
        for l in f:
            i = l.find('"carrier":"')
            if i < 0:
                continue
            c = l[i + 11:l.find('"', i + 11)]
            ctx.cov['per_op'][c] = ctx.cov['per_op'].get(c, 0) + 1


def model(ctx, cfg, what):
    """One retry: on a heavily loaded machine a TLC JVM has been seen to die without output."""
    try:
        return vlib.model_check(ctx, 'OciErrorMC.tla', cfg, what=what)
    except vlib.Machinery as e:
        ctx.log('model check %s failed once, retrying: %s' % (cfg, str(e)[:200]))
        return vlib.model_check(ctx, 'OciErrorMC.tla', cfg, what=what)


def run(ctx):
    quick = ctx.tier == 'quick'
    sfx = '' if quick else '_thorough'
    what = 'statuses {400,404,416,429,500}' if quick else 'statuses {400,401,403,404,416,418,429,500,503,599}'
    kinds = 'GET and HEAD carriers' if quick else '5 carrier kinds'
    model(ctx, 'OciErrorMC_%s.cfg' % ctx.tier, 'both modes in one run - design: every law without exception; impl (model of the current code): the laws '
          'outside the named cells K2/K2b/stutter and exactly the named deviation inside; %s x 0..3 hops; %s' % (kinds, what))
    gen, _ = vlib.generate(ctx, 'OciErrorMC.tla', 'OciErrorMC_gen%s.cfg' % sfx)
    if not gen:
        raise vlib.Machinery('TLC exported no cases')
    # concrete carriers for the abstract kinds (quick: 1 of 15 body carriers + 1 of 3 HEAD carriers per tree, rotating)
    cases = []
    nb = nh = 0
    nsweep = norigin = 0
    for g in gen:
        if g['kind'] == 'LIST':
            # listings whose backend yields items and THEN the error: all three listing carriers
            for c in ['Tags', 'Repositories', 'Referrers']:
                cases.append(dict(id=len(cases), carrier=c, hops=HOPS, err=g['err'], nitems=g['nitems'], page=g['page'], origin=False))
            continue
        if g['kind'] == 'ORIGIN':
            # a non-conforming origin registry at the far end (status disagreeing with the table), body carriers
            lst = BODY if not quick else [BODY[(3 * norigin + i) % 15] for i in range(3)]
            norigin += 1
            for c in lst:
                cases.append(dict(id=len(cases), carrier=c, hops=HOPS, err=g['err'], nitems=0, page=0, origin=True))
            continue
        if g['kind'] == 'WRITER':
            # the backend's BlobWriter fails (Write via closing PUT / Commit / PATCH, Close, Commit)
            for c in WRITER:
                cases.append(dict(id=len(cases), carrier=c, hops=HOPS, err=g['err'], nitems=0, page=0, origin=False))
            continue
        if g['kind'] == 'HEAD':
            if quick and not (g.get('sweep') or g.get('size')) and any(n['k'] == 'http' and n.get('resp') for n in walk(g['err'])):
                continue    # quick: wrappers made from a response run on a body carrier only
            lst = HEAD if (not quick or g.get('sweep') or g.get('size')) else [HEAD[nh % 3]]
            nh += 1
        else:
            lst = BODY if not quick else [BODY[(nb + nb // 15) % 15]]
            if g.get('size'):
                lst = BODY          # size classes (bodies below/above 2 KiB, up to ~7 KiB): every carrier, also in quick
            elif quick and g.get('sweep'):
                # status sweep (every own status 400..599): two body carriers besides the three HEAD ones
                lst = [BODY[(2 * nsweep) % 15], BODY[(2 * nsweep + 1) % 15]]
                nsweep += 1
            nb += 1
        for c in lst:
            cases.append(dict(id=len(cases), carrier=c, hops=HOPS, err=g['err'], nitems=0, page=0, origin=False))
    cd = ctx.sub('cases')
    cfile = os.path.join(cd, 'cases.jsonl')
    with open(cfile, 'w') as f:
        for c in cases:
            f.write(json.dumps(c) + '\n')
    vh = vlib.build_harness(ctx)
    td = ctx.sub('traces')
    raw = os.path.join(td, 'raw-tlc.ndjson')
    vlib.run_harness(ctx, vh, ['errors', '-cases', cfile, '-out', raw])
    traces = [os.path.join(td, 'tlc.ndjson')]
    groups = regroup(raw, traces[0])
    ctx.log('%d TLC-exported cases executed (%d trees); batches %s' % (len(cases), nb, groups))
    nrand = 300 if quick else 24000
    i = 0
    while nrand > 0:
        n = min(6000, nrand)
        raw = os.path.join(td, 'raw-rand%d.ndjson' % i)
        vlib.run_harness(ctx, vh, ['errors', '-n', str(n), '-seed', str(ctx.seed * 1000 + i), '-hops', str(HOPS), '-out', raw])
        t = os.path.join(td, 'rand%d.ndjson' % i)
        regroup(raw, t)
        traces.append(t)
        nrand -= n
        i += 1
    for t in traces:
        count(ctx, t)
    with open(traces[0]) as f:
        f.readline()
        evs = [json.loads(l) for l in f.readlines()[1:40:13]]
    ctx.cov['samples'] = [dict(tlc_exported_case=cases[len(cases) // 2]), dict(recorded_events=evs[:2])]
    judge(ctx, traces, 'error hops vs OciError')
    ctx.assumptions += [
        'the code->status table of the specification is the one documented in ociregistry/error.go (the OCI distribution spec itself assigns no statuses)',
        'harness tables: texts of status prefixes (net/http.StatusText), code prefixes, base texts; JSON details compared as JSON values (encoding/json)',
        'joined errors: only the identity MarshalError documents it picks (first Error in errors.As order) must survive; the others may be lost',
        'hop counts 1..3 are observed as the three levels of one 3-hop stack (each level is the error returned by a real ociclient)',
        'TLC and the Json/IOUtils community modules']
    return vlib.finish(ctx, rule='per case the real error value is returned by a Funcs backend below 3 real client/server hops; the errors.Is vector, '
                       'HTTPError status, Error code/detail and tokenised message at every level and the raw response under every client are one '
                       'trace event; TLC accepts it iff it satisfies StatusPerTable, IsPreserved, DetailPreserved, the first-hop message rule and '
                       'MessageFixedPoint of OciError (HEAD carriers: status and status-derived representative)',
                       extra=dict(notes=ctx.notes))


def replay(ctx, path):
    vh = vlib.build_harness(ctx)
    out = os.path.join(ctx.sub('replay'), 'trace.ndjson')
    vlib.run_harness(ctx, vh, ['errors', '-replay', path, '-out', out])
    before = len(ctx.violations)
    judge(ctx, [out], 'replay')
    for k in ctx.known:
        print('KNOWN-FINDING: property=%s %s: %s' % (ctx.pid, k['id'], k['what']))
    if len(ctx.violations) > before:
        vlib.report_violations(ctx, before)
        return 1
    print('replay accepted: the stored scenario no longer violates %s' % ctx.pid)
    return 0
