"""C08: ocimem is race-free and linearizable under concurrent use."""
import json
import os
import subprocess

import regcommon as rc
import vlib

STRICT = {'K1_DeclaredTypeGoverns': False, 'F12_PushBlobUncoded': False, 'K3_CommitTwoPhase': False}

# the model's programs (spec/OciMemConcMC.tla, ProgRB) as calls on the real registry:
# m1 = img and m2 = idx pushed under an opaque media type (no references needed),
# the upload session holds <<1>> = content b1; Write <<2>> makes it b2.
SETUP = [dict(op='PushManifest', r='r1', t='t1', c='img', mt='other'), dict(op='PushBlobChunked', r='r1', u='u1'),
         dict(op='Write', r='r1', u='u1', data=[1])]
PROGS = dict(w=[dict(op='PushManifest', r='r1', t='t1', c='idx', mt='other'), dict(op='DeleteManifest', r='r1', c='img')],
             r=[dict(op='GetTag', r='r1', t='t1'), dict(op='GetBlob', r='r1', c='b1')],
             u=[dict(op='Commit', r='r1', u='u1', dd='b1')],
             v=[dict(op='Write', r='r1', u='u1', data=[2]), dict(op='GetBlob', r='r1', c='b1')])
FINAL = [dict(op='GetBlob', r='r1', c='b1'), dict(op='GetTag', r='r1', t='t1'), dict(op='UpSize', r='r1', u='u1')]
# ProgCC: two committers on one upload with a write in between, and read-backs of both blobs
SETUP_CC = [dict(op='PushBlobChunked', r='r1', u='u1'), dict(op='Write', r='r1', u='u1', data=[1])]
PROGS_CC = dict(a=[dict(op='Commit', r='r1', u='u1', dd='b1')], b=[dict(op='Write', r='r1', u='u1', data=[2])],
                c=[dict(op='Commit', r='r1', u='u1', dd='b2')],
                r=[dict(op='GetBlob', r='r1', c='b1'), dict(op='GetBlob', r='r1', c='b2')])
FINAL_CC = [dict(op='GetBlob', r='r1', c='b1'), dict(op='GetBlob', r='r1', c='b2'), dict(op='UpSize', r='r1', u='u1')]


def run_conc(ctx, vh, args, racelog=None):
    env = dict(os.environ)
    if racelog:
        env['GORACE'] = 'halt_on_error=1 exitcode=66 log_path=%s' % racelog
    p = subprocess.run([vh, 'conc'] + args, capture_output=True, text=True, env=env, timeout=3000)
    return p


def run(ctx):
    quick = ctx.tier == 'quick'
    # 1. the implementation-shaped model with the linearizability monitor, all interleavings
    vlib.model_check(ctx, 'OciMemConcMC.tla', 'OciMemConcMC_cur.cfg', workers=4,
                     what='current code shape (GetTag one step, commit snapshots): Linearizable, StoredMatchesKey, TagNeverFalselyMissing over all interleavings of re-tag+delete, GetTag, Commit, Write')
    vlib.model_check(ctx, 'OciMemConcMC.tla', 'OciMemConcMC_k3.cfg', workers=4,
                     what='with read-back of the committed blob; the reference lets Commit take effect in two steps (known finding K3)')
    vlib.model_check(ctx, 'OciMemConcMC.tla', 'OciMemConcMC_cc.cfg', workers=4,
                     what='two committers on one upload with a write in between (commit lock held across check and store)')
    # 2. every schedule of that model replayed on the real ocimem with the yield hooks as gates
    scheds, _ = vlib.generate(ctx, 'OciMemConcMC.tla', 'OciMemConcGen.cfg', workers=1, timeout=600)
    if not scheds:
        raise vlib.Machinery('no schedules generated')
    if quick:
        step = max(1, len(scheds) // 160)
        off = ctx.seed % step
        scheds = scheds[off::step]
    scheds_cc, _ = vlib.generate(ctx, 'OciMemConcMC.tla', 'OciMemConcGenCC.cfg', workers=1, timeout=600)
    if not scheds_cc:
        raise vlib.Machinery('no two-committer schedules generated')
    sd = ctx.sub('sched')
    sp = os.path.join(sd, 'sched.jsonl')
    with open(sp, 'w') as f:
        for s in scheds:
            f.write(json.dumps(dict(imm=False, setup=SETUP, progs=PROGS, sched=s['sched'], final=FINAL)) + '\n')
        for s in scheds_cc:
            f.write(json.dumps(dict(imm=False, setup=SETUP_CC, progs=PROGS_CC, sched=s['sched'], final=FINAL_CC)) + '\n')
    scheds = scheds + scheds_cc
    vh = vlib.build_harness(ctx)
    td = ctx.sub('traces')
    t_dir = os.path.join(td, 'directed.ndjson')
    p = run_conc(ctx, vh, ['-mode', 'directed', '-sched', sp, '-out', t_dir])
    if p.returncode != 0:
        raise vlib.Machinery('directed replay failed: ' + p.stderr[-2000:])
    traces = [t_dir]
    # 3. stress under the race detector: goroutines over a tiny key space, directly and over HTTP
    vhr = vlib.build_harness(ctx, race=True)
    racelog = os.path.join(td, 'race')
    nst = 45 if quick else 1500
    runs = [('stress', 'mem', nst), ('stress', 'http(mem)', nst // 3),
            # readers of every kind against writers of every kind, unrecorded: only the race detector watches
            ('racesweep', 'mem;http(mem)', 25 if quick else 400)]
    for i, (mode, stacks, n) in enumerate(runs):
        t = os.path.join(td, 'stress%d.ndjson' % i)
        p = run_conc(ctx, vhr, ['-mode', mode, '-n', str(n), '-g', '5', '-ops', '8', '-seed', str(ctx.seed * 100 + i),
                                '-stacks', stacks, '-out', t], racelog=racelog)
        if p.returncode == 66:
            os.makedirs(os.path.join(vlib.VERIF, 'replays'), exist_ok=True)
            rp = os.path.join(vlib.VERIF, 'replays', 'C08-race-%d.txt' % ctx.seed)
            with open(rp, 'w') as f:
                for fn in sorted(os.listdir(td)):
                    if fn.startswith('race'):
                        f.write(open(os.path.join(td, fn)).read())
                f.write('\ncommand: vh-race conc -mode %s -n %d -g 5 -ops 8 -seed %d -stacks %s\n' % (mode, n, ctx.seed * 100 + i, stacks))
            ctx.violations.append(dict(replay=rp, event='DATA RACE reported by the Go race detector (report in the replay file)', module='race', sig='race'))
            continue
        if p.returncode == 67:
            # the unrecorded sweep met a call that never returned
            os.makedirs(os.path.join(vlib.VERIF, 'replays'), exist_ok=True)
            rp = os.path.join(vlib.VERIF, 'replays', 'C08-hang-%d.txt' % ctx.seed)
            with open(rp, 'w') as f:
                f.write(p.stderr[-2000:])
                f.write('\ncommand: vh-race conc -mode %s -n %d -g 5 -ops 8 -seed %d -stacks %s\n' % (mode, n, ctx.seed * 100 + i, stacks))
            ctx.violations.append(dict(replay=rp, event='a call on the registry never returned while other goroutines were using it (deadlock; details in the replay file)', module='hang', sig='hang'))
            continue
        if p.returncode != 0:
            raise vlib.Machinery('stress run failed (exit %d): %s' % (p.returncode, p.stderr[-2000:]))
        if mode == 'stress':
            traces.append(t)
    ctx.cov['samples'] = [dict(tlc_schedule=scheds[0]['sched']), dict(recorded_events=rc.sample_events(traces[-1], 6, skip_snap=False))]
    ctx.cov['schedules_replayed'] = len(scheds)
    # 4. TLC searches a linearization of every recorded history
    vlib.judge_traces(ctx, 'LinTrace', 'LinTrace.cfg', traces, strict=STRICT, shard_lines=1500, label='histories vs OciRegistry (linearizability)')
    ctx.assumptions += ['data-race freedom is what the Go race detector observes on the schedules run (TLA+ has no Go memory model)',
                        'real-time order from a global atomic sequence number taken at invocation and at return']
    return vlib.finish(ctx, rule='all interleavings of the model at critical-section granularity are replayed on the real ocimem with the yield hooks as scheduler gates; '
                       'seeded stress batches of 2-5 goroutines x up to 8 calls over one repository / 2 blobs / 3 manifests / 1 tag / 1 shared upload session run under -race '
                       'directly and through ociserver; TLC accepts a history iff it can place a linearization point of the sequential specification inside every call')


def replay(ctx, path):
    if path.endswith('.txt'):
        print(open(path).read()[-3000:])
        print('re-run the stress command in the file with the race-enabled harness to reproduce')
        return run(ctx)
    vh = vlib.build_harness(ctx)
    out = os.path.join(ctx.sub('replay'), 'trace.ndjson')
    # a stored history is re-executed as a directed schedule is not possible in general: re-validate it instead
    before = len(ctx.violations)
    vlib.judge_traces(ctx, 'LinTrace', 'LinTrace.cfg', [path], strict=STRICT, label='stored history')
    for k in ctx.known:
        print('KNOWN-FINDING: property=%s %s: %s' % (ctx.pid, k['id'], k['what']))
    if len(ctx.violations) > before:
        vlib.report_violations(ctx, before)
        return 1
    return 0
