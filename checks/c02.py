"""C02: the in-memory registry follows the reference semantics (OciRegistry.tla)."""
import os

import ocitest_stage
import regcommon as rc
import vlib

UP_PROBE = [dict(op='Write', r='r1', u='u1', data=[1]), dict(op='UpSize', r='r1', u='u1'), dict(op='GetBlob', r='r1', c='b1'), dict(op='GetBlob', r='r1', c='b2')]
STRICT = {'K1_DeclaredTypeGoverns': False, 'F12_PushBlobUncoded': False}


def run(ctx):
    quick = ctx.tier == 'quick'
    # 1. the reference model itself: exhaustive over the small universes
    vlib.model_check(ctx, 'OciRegistryMC.tla', 'OciRegistryMC_quick.cfg', what='1 repo, 2 blobs, 3 manifests x 3 media types, 1 tag, both tag modes')
    if not quick:
        vlib.model_check(ctx, 'OciRegistryMC.tla', 'OciRegistryMC_thorough.cfg', what='1 repo, 2 blobs, 4 manifests, 2 tags')
        vlib.model_check(ctx, 'OciRegistryMC.tla', 'OciRegistryMC_up.cfg', what='2 repos, 3 blobs, 1 upload session, mounts')
    # 2. histories chosen by TLC, and seeded-random ones over a larger universe, on the real ocimem
    vh = vlib.build_harness(ctx)
    scen = rc.gen_scenarios(ctx, 40 if quick else 1500)
    # one blob in two repositories: push / mount / re-push under another media type / delete / read
    scen += rc.gen_scenarios(ctx, 60 if quick else 1500, depth=10, cfg='OciRegistryGenBlobs.cfg')
    # transition coverage: one history per (state, operation) pair of the model-checked universe
    scen += rc.cover_scenarios(ctx, 'OciRegistryCover_all.cfg', sample=1200 if quick else 60000)
    scen += rc.cover_scenarios(ctx, 'OciRegistryCover_broken.cfg', sample=300 if quick else None)
    scen += rc.cover_scenarios(ctx, 'OciRegistryCover_dual.cfg', sample=500 if quick else None)
    # a tagged image with a layer nothing else names and a subject stored beside it: every delete out of those states
    scen += rc.cover_scenarios(ctx, 'OciRegistryCover_subj.cfg')
    scen += rc.cover_scenarios(ctx, 'OciRegistryCover_up.cfg', sample=500 if quick else None, probe=UP_PROBE)
    sp = rc.write_scenarios(ctx, scen)
    td = ctx.sub('traces')
    traces = []
    t1 = os.path.join(td, 'tlc.ndjson')
    rc.run_reg(ctx, vh, t1, stacks='mem', scen=sp)
    traces.append(t1)
    # histories without the snapshots: a snapshot lists and resolves everything after every call, which would
    # refresh whatever an implementation keeps between calls (a cached listing, say) before it could go stale;
    # here only the calls of the history itself look at the registry (tag churn: push / delete tag / list / resolve)
    tagwalks = rc.gen_scenarios(ctx, 150 if quick else 3000, depth=14, cfg='OciRegistryGenTags.cfg')
    t2 = os.path.join(td, 'tlc-nosnap.ndjson')
    rc.run_reg(ctx, vh, t2, stacks='mem', scen=rc.write_scenarios(ctx, tagwalks + scen[:200 if quick else 5000], 'nosnap.jsonl'), extra=['-snap=false'])
    traces.append(t2)
    t3 = os.path.join(td, 'rand-nosnap.ndjson')
    rc.run_reg(ctx, vh, t3, stacks='mem', n=100 if quick else 3000, steps=40, seed=ctx.seed * 1000 + 500, extra=['-snap=false'])
    traces.append(t3)
    nrand = 150 if quick else 6000
    per = 1500
    i = 0
    while nrand > 0:
        t = os.path.join(td, 'rand%d.ndjson' % i)
        rc.run_reg(ctx, vh, t, stacks='mem', n=min(per, nrand), steps=40, seed=ctx.seed * 1000 + i)
        traces.append(t)
        nrand -= per
        i += 1
    for t in traces:
        rc.count_ops(ctx, t)
    ctx.cov['samples'] = [dict(tlc_generated_scenario=scen[0]['ops'][:8]), dict(recorded_events=rc.sample_events(traces[-1], 5))]
    # 3. TLC validates every recorded execution against the reference model
    vlib.judge_traces(ctx, 'RegTrace', 'RegTrace.cfg', traces, strict=STRICT, label='ocimem vs OciRegistry')
    if not quick:
        # the content pusher of package ocitest (its completion loop and push order are a TLA+ module of their own,
        # OciTestContent): every call it makes on ocimem is validated as a step of OciRegistry, and the final state
        # against the content it was given.  Contents naming a blob id that does not exist are left out: the pusher
        # panics on them (DESIGN 9.6), which no listed property speaks about.
        ocitest_stage.stage(ctx, quick, badblobs=False)
    ctx.assumptions += ['digest<->content mapping and JSON rendering of manifests by the harness (Go crypto/sha256, encoding/json)',
                        'TLC and the Json/IOUtils community modules']
    return vlib.finish(ctx, rule='every call of every history (TLC random walks over the 2-repository/8-content universe; seeded-random '
                       'histories over 4 repositories, 21 contents, 4 tags) is one trace event with arguments and projected result, plus '
                       'a full-state snapshot after each call; TLC accepts the trace iff each is a step of OciRegistry')


def replay(ctx, path):
    if ocitest_stage.is_replay_of_stage(path):
        return ocitest_stage.replay(ctx, path)
    return rc.replay_reg(ctx, path, strict=STRICT)
