"""C16: concurrent unified reads (ociunify, ReadConcurrent) are leak-free for every answer order and cancellation.

Model: OciUnifyConc.tla (PlusCal, translated with pcal): main, two senders, two environment members
(ok/fail x normal/returns-only-after-cancellation x reader Close ok/error), a caller that cancels at any point and closes the
returned reader at any later point.  TLC checks all interleavings of all 52 configurations for
ReturnsFirstSuccess, ErrorOnlyIfBothFailOrCancelled, WinnerCtxLiveUntilClose, ResolveCancelsAtReturn
(invariants) and LoserClosed, NoBlockedGoroutine, AllCtxReleased, CallReturns (liveness under weak
fairness).  Direction A: TLC prints every complete environment schedule (OciUnifyConcGen); the harness
replays each on the real code for each entry point with gated fake members.  Direction B: the recorded
observations are validated by TLC against the model (OciUnifyConcTrace)."""
import concurrent.futures as cf
import json
import os
import re
import time

import vlib

MODULE, CFG = 'OciUnifyConcTrace', 'OciUnifyConcTrace.cfg'
ENTRIES = {'reader': 3, 'resolve': 2}


def run_conc(ctx, vh, out, sched=None, n=1, entries='all', part=0, parts=1, replay=None, seed=None, racelog=None, variants=None):
    args = ['unifyconc', '-out', out, '-n', str(n), '-entries', entries, '-part', str(part), '-parts', str(parts),
            '-seed', str(ctx.seed if seed is None else seed)]
    if variants:
        args += ['-variants', variants]
    if sched:
        args += ['-sched', sched]
    if replay:
        args += ['-replay', replay]
    # a data race does not stop the run: the detector's report goes to a file and becomes an event
    env = {'GORACE': 'halt_on_error=0 exitcode=0 log_path=' + racelog} if racelog else None
    o = vlib.run_harness(ctx, vh, args, timeout=3000, env=env)
    return json.loads(o.strip().splitlines()[-1])


def dedupe(ctx, traces, out):
    """Runs with identical recorded text are validated once (validation is a function of the text)."""
    # the kind of a failing member's error and error messages are not read by the specification
    # (a failure is a failure): runs that differ only there are validated once, too
    strip = re.compile(r'"errkind":\[[^\]]*\],?|"spin":\d+,?|"nest":\[[^\]]*\],?|"desc":\[[^\]]*\],?|"msg":"(?:[^"\\]|\\.)*",?')
    strip2 = re.compile(r'"content":\[[^\]]*\],?|"clen":\[[^\]]*\],?')
    seen = {}
    uniq = {}
    hdr = None
    for t in traces:
        h, scen = vlib.split_scenarios(t)
        hdr = hdr or h
        for s in scen:
            k = '\n'.join(s)
            key = strip.sub('', k)
            if '"op":"readobs"' not in k:
                # the content's length is only read by the specification where the caller reads
                key = strip2.sub('', key)
            rep = seen.setdefault(key, k)
            uniq[rep] = uniq.get(rep, 0) + 1
    vlib.write_trace(out, hdr, [k.split('\n') for k in uniq])
    return uniq


def add_race_events(td, trace):
    """Reports of the race detector (thorough tier) become `race` events, for which the
    specification has no step: the scenario holding one is rejected by TLC."""
    n = 0
    for f in sorted(os.listdir(td)):
        if not f.startswith('race.'):
            continue
        text = open(os.path.join(td, f), errors='replace').read()
        if 'DATA RACE' not in text:
            continue
        n += text.count('WARNING: DATA RACE')
        hdr, scen = vlib.split_scenarios(trace)
        scen.append([scen[0][0], json.dumps(dict(op='race', msg=text[:1500]))])
        vlib.write_trace(trace, hdr, scen)
    return n


def count(ctx, uniq):
    sit = ctx.cov.setdefault('situations', {})
    for text, mult in uniq.items():
        kinds = None
        for l in text.split('\n'):
            e = json.loads(l)
            op = e['op']
            if op == 'reset':
                for i, nk in enumerate(e['nest']):
                    if nk:
                        kk = 'member %d is itself a unifier (%s)' % (i, 'sequential' if nk.startswith('seq') else 'concurrent')
                        sit[kk] = sit.get(kk, 0) + mult
                for k, d, o in zip(e['content'], e['desc'], e['out']):
                    if o == 'ok':
                        kk = 'succeeding member answers with %s content, %s descriptor' % (k, d)
                        sit[kk] = sit.get(kk, 0) + mult
                kinds = [k for k, o in zip(e['errkind'], e['out']) if o == 'fail']
                for k in kinds:
                    sit['failing member error kind: ' + k] = sit.get('failing member error kind: ' + k, 0) + mult
                if e['acts'] and e['acts'][0] in ('rel0', 'rel1') and e['out'][int(e['acts'][0][3])] == 'fail' \
                        and e['errkind'][int(e['acts'][0][3])] in ('canceled', 'deadline') and e['variant'] == 'settle':
                    kk = 'a failing member answered first with its own context.Canceled/DeadlineExceeded'
                    sit[kk] = sit.get(kk, 0) + mult
            if op == 'tau':
                continue
            if op == 'reset':
                if e['variant'] == 'both':
                    sit['runs with both answers ready at the same instant'] = sit.get('runs with both answers ready at the same instant', 0) + mult
                if e['variant'] == 'race':
                    sit['runs with the cancellation racing the winning answer'] = sit.get('runs with the cancellation racing the winning answer', 0) + mult
                k = 'runs of ' + e['entry']
            elif op == 'ret':
                k = 'returned ' + e['ret']
            elif op == 'act':
                k = 'environment: ' + e['a']
            elif op == 'readobs':
                k = 'caller read the reader to EOF before closing' if e['kind'] == 'read' else 'caller read a piece of the reader'
            elif op == 'reset' and False:
                pass
            elif op == 'closed':
                k = 'reader Close returned its error to the caller' if e['closeerr'] else 'reader closed cleanly'
            elif op == 'final':
                k = 'quiescence reached' if e['leaked'] == 0 else 'goroutines left inside ociunify'
            else:
                k = op
            sit[k] = sit.get(k, 0) + mult
            ctx.cov['per_op'][op] = ctx.cov['per_op'].get(op, 0) + mult


def once_more(fn, *a, **kw):
    """A TLC process that dies without a word (killed from outside) is started once more."""
    try:
        return fn(*a, **kw)
    except vlib.Machinery as e:
        if str(e).rstrip().endswith(':'):
            return fn(*a, **kw)
        raise


def judge(ctx, traces, **kw):
    nv, nk = len(ctx.violations), len(ctx.known)
    try:
        return vlib.judge_traces(ctx, MODULE, CFG, traces, **kw)
    except vlib.Machinery as e:
        if not str(e).rstrip().endswith(':'):
            raise
        del ctx.violations[nv:]
        del ctx.known[nk:]
        return vlib.judge_traces(ctx, MODULE, CFG, traces, **kw)


def run(ctx):
    quick = ctx.tier == 'quick'
    with cf.ThreadPoolExecutor(max_workers=3) as ex:
        # 1. the design, all interleavings, safety and liveness
        fmc = ex.submit(once_more, vlib.model_check, ctx, 'OciUnifyConc.tla', 'OciUnifyConcMC.cfg', 4, 600,
                        '52 configurations (outcomes x member modes x reader/resolve style x Close of each reader ok/error), all interleavings incl. caller cancel/close at any point; '
                        '8 invariant clauses and 4 liveness properties under weak fairness')
        # 2. direction A: every complete environment schedule of the model
        time.sleep(0.2)   # Ctx.sub numbers its directories without a lock
        fgen = ex.submit(once_more, vlib.generate, ctx, 'OciUnifyConcGen.tla', 'OciUnifyConcGen.cfg')
        fvh = ex.submit(vlib.build_harness, ctx, not quick)
        fmc.result()
        scheds, r = fgen.result()
        vh = fvh.result()
    ctx.log('harness built')
    if not r['ok'] or len(scheds) < 1000:
        raise vlib.Machinery('schedule generation did not complete (%d schedules):\n%s' % (len(scheds), vlib.tlc_errors(r['out'])))
    ctx.cov['states'] += r.get('distinct', 0)
    ctx.cov['transitions'] += r.get('generated', 0)
    ctx.cov['model_runs'].append(dict(module='OciUnifyConcGen.tla', cfg='OciUnifyConcGen.cfg', distinct=r.get('distinct'), generated=r.get('generated'),
                                      wall_s=round(r['wall'], 1), what='%d distinct complete environment schedules exported' % len(scheds)))
    ctx.cov['schedules_exported_by_tlc'] = len(scheds)
    nall = len(scheds)
    allscheds = scheds
    if quick:
        # every schedule in which the caller does not read; of those in which it reads (a piece / to EOF, at every
        # position between the return and Close) one in six, which ones rotating with the seed; thorough: all
        scheds = [s for i, s in enumerate(scheds) if not ({'read', 'readpart'} & set(s['acts'])) or (i + ctx.seed) % 6 == 0]
    ctx.cov['schedules_replayed'] = len(scheds)
    ctx.log('%d of %d exported schedules replayed' % (len(scheds), nall))
    sd = ctx.sub('sched')
    # 3. replay on the real code: every schedule x every entry point of its style x {settle, burst}
    # quick: each schedule once, on one entry point of its style (which one rotates with the schedule and the seed);
    # thorough: on all entry points, under the race detector, 50 times (8 times for the many schedules that only differ
    # in where the caller reads)
    td = ctx.sub('traces')
    parts = 4 if quick else min(16, vlib.NCPU)
    ent = 'one' if quick else 'all'
    isread = lambda s: bool({'read', 'readpart'} & set(s['acts']))
    groups = [('a', scheds, 1, None)] if quick else [('a', [s for s in scheds if not isread(s)], 50, None), ('b', [s for s in scheds if isread(s)], 8, None)]
    # the caller's cancellation racing with the winning answer: schedules (reader style, no reads) in which a successful
    # member's return is directly followed by `cancel`; the cancellation is fired by a busy-waiting goroutine on the
    # member's signal, with 40 different delays, many times over
    def racy(s):
        a = s['acts']
        return s['style'] == 'reader' and not isread(s) and any(
            a[i] in ('rel0', 'rel1') and a[i + 1] == 'cancel' and s['out'][int(a[i][3])] == 'ok' for i in range(len(a) - 1))
    rs = [s for s in allscheds if racy(s)]
    rs = [rs[(ctx.seed * 7 + k * max(1, len(rs) // 8)) % len(rs)] for k in range(8)] if quick else rs
    groups.append(('r', rs, 60 if quick else 120, 'race'))
    # both answers ready at the same instant: schedules (reader style, both members succeed, mode normal) that start with
    # the two members returning; the fake members meet at a spin barrier just before they return
    bs = [s for s in allscheds if s['style'] == 'reader' and not isread(s) and s['out'] == ['ok', 'ok'] and s['mode'] == ['normal', 'normal']
          and set(s['acts'][:2]) == {'rel0', 'rel1'} and 'cancel' not in s['acts']]
    groups.append(('s', bs[:4] if quick else bs, 100 if quick else 100, 'both'))
    traces = []
    nruns = expect = 0
    for name, group, reps, variants in groups:
        sp = os.path.join(sd, 'sched_%s.jsonl' % name)
        with open(sp, 'w') as f:
            for s in group:
                f.write(json.dumps(s) + '\n')
        outs = [os.path.join(td, 'conc_%s%02d.ndjson' % (name, p)) for p in range(parts)]
        with cf.ThreadPoolExecutor(max_workers=parts) as ex:
            futs = [ex.submit(run_conc, ctx, vh, outs[p], sp, reps, 'all' if variants else ent, p, parts, None, None,
                              None if quick else os.path.join(td, 'race'), variants) for p in range(parts)]
            nruns += sum(f.result()['scenarios'] for f in futs)
        traces += outs
        expect += sum((ENTRIES[s['style']] if variants else (1 if quick else ENTRIES[s['style']]) * 2) for s in group) * reps
    ctx.log('executed %d runs on the real code' % nruns)
    if nruns != expect:
        raise vlib.Machinery('harness executed %d of %d runs' % (nruns, expect))
    ut = os.path.join(td, 'unique.ndjson')
    uniq = dedupe(ctx, traces, ut)
    count(ctx, uniq)
    races = add_race_events(td, ut)
    ctx.cov['data_race_reports'] = races
    ctx.cov['runs_executed'] = nruns
    ctx.cov['distinct_recorded_runs'] = len(uniq)
    ctx.cov['race_detector'] = not quick
    sit = ctx.cov['situations']
    for need in tuple('runs of ' + e for e in ('GetBlob', 'GetBlobRange', 'GetManifest', 'ResolveBlob', 'ResolveManifest')) + ('returned ok0', 'returned ok1', 'returned err', 'returned cancelled', 'environment: close', 'environment: cancel', 'reader Close returned its error to the caller', 'reader closed cleanly', 'member 0 is itself a unifier (sequential)', 'member 1 is itself a unifier (sequential)', 'member 0 is itself a unifier (concurrent)', 'member 1 is itself a unifier (concurrent)', 'succeeding member answers with empty content, full descriptor', 'succeeding member answers with empty content, bare descriptor', 'succeeding member answers with one content, full descriptor', 'succeeding member answers with four content, bare descriptor', 'caller read the reader to EOF before closing', 'caller read a piece of the reader', 'a failing member answered first with its own context.Canceled/DeadlineExceeded', 'quiescence reached'):
        if not sit.get(need):
            raise vlib.Machinery('the batch never reached the situation %r' % need)
    first = next(iter(uniq)).split('\n')
    ctx.cov['samples'] = [dict(tlc_exported_schedules=scheds[:3]), dict(recorded_run=[json.loads(l) for l in first if '"tau"' not in l])]
    # 4. TLC validates every distinct recorded run against the model
    judge(ctx, [ut], shard_lines=5000 if quick else 8000, label='ociunify concurrent reads vs OciUnifyConc')
    ctx.assumptions += ['fake members built on ociregistry.Funcs: a call parks on a gate (or on its context), records the context it was given, is either plain or itself an ociunify.New(fake, sibling failing at once) of either policy, answers with 0, 1 or 4 bytes of content under a full or a bare (no digest, no media type) descriptor and hands out a close-counting reader whose Close returns a scripted error or nil',
                        'goroutines still inside ociunify are counted from runtime.Stack (frames or creator in package ociunify) after waiting up to 5 s for them to finish',
                        'each internal step of the model (main, sender) is one channel operation of the code; what lies between sets monotone flags only',
                        'TLC, pcal and the Json/IOUtils community modules']
    return vlib.finish(ctx, rule='TLC exports every complete environment schedule of OciUnifyConc (outcomes x modes x style x order of member returns, caller cancel, '
                       'caller close); each is replayed on ociunify.New(fake0, fake1, ReadConcurrent) for GetBlob, GetBlobRange, GetManifest (reader style) or '
                       'ResolveBlob, ResolveManifest (resolve style), once waiting for the system to react after each action and once not; schedules in which the caller cancels right behind a successful answer are in addition run many times with the cancellation fired by a busy-waiting goroutine on a signal the member gives just before it returns (40 delays); the trace holds the actions '
                       'performed and the observations (answer returned and by which member - the error of a failing member is generic, not-found, or its own context.Canceled / DeadlineExceeded -, context state of the members main heard from, reader close counts, '
                       'after the caller read a piece / to EOF: context of the chosen member unchanged and reader not closed, after Close: the context of the member was live inside the Close of its own reader, closed once, the scripted Close error of the reader passed through, context cancelled whatever Close returned, at quiescence: every reader/context and the number of goroutines inside ociunify); TLC accepts '
                       'a run iff some behaviour of the model with that order of environment actions shows exactly these observations')


def replay(ctx, path):
    vh = vlib.build_harness(ctx, race=True)
    rd = ctx.sub('replay')
    out = os.path.join(rd, 'trace.ndjson')
    # schedule-dependent defects need not show on every run: repeat, under the race detector
    run_conc(ctx, vh, out, n=100, replay=path, racelog=os.path.join(rd, 'race'))
    ut = os.path.join(rd, 'unique.ndjson')
    dedupe(ctx, [out], ut)
    add_race_events(rd, ut)
    before = len(ctx.violations)
    judge(ctx, [ut], label='replay')
    if len(ctx.violations) > before:
        vlib.report_violations(ctx, before)
        return 1
    print('replay accepted (100 repetitions): the stored schedule no longer violates %s' % ctx.pid)
    return 0
