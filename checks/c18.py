"""C18: the HTTP client survives any server response (OciClientFaults.tla); also the corrupted-read
clause of C01 (`corrupt_clause`, called by checks/c01.py).

The model: every client operation as a state machine over requests sent and responses received,
the environment answering with any member of a class alphabet; TLC checks AlwaysReturns,
ProgressPerRequest, NoPanicState, CorruptNeverCleanEOF exhaustively and exports every response
script (direction A).  The harness serves each script from a scripted http.RoundTripper to a real
ociclient for the list page sizes -1, 0, 1, 2, and seeded-random scripts over wider header/body
alphabets; TLC validates every recorded call, request and outcome against the machine (direction B)."""
import concurrent.futures as cf
import json
import os
import random
import threading

import vlib

MODULE, CFG = 'OciClientFaultsTrace', 'OciClientFaultsTrace.cfg'
STRICT = {}
FAMILIES = ('single', 'read', 'range', 'list', 'upload')
TOP = {'ResolveBlob', 'ResolveManifest', 'ResolveTag', 'GetBlob', 'GetManifest', 'GetTag', 'GetBlobRange', 'DeleteBlob', 'DeleteManifest',
       'DeleteTag', 'MountBlob', 'PushManifest', 'PushBlob', 'PushBlobChunked', 'Resume', 'Repositories', 'Tags', 'Referrers'}
READS = ('GetBlob', 'GetManifest', 'GetTag', 'GetBlobRange')


def serialize_sub(ctx):
    """Ctx.sub numbers scratch directories with an unlocked counter; TLC runs are started from threads here."""
    if getattr(ctx, '_c18_locked', False):
        return
    lock = threading.Lock()
    orig = ctx.sub

    def sub(name):
        with lock:
            return orig(name)
    ctx.sub = sub
    ctx._c18_locked = True


def tlc_retry(fn, tries=3):
    """On the loaded machine a TLC run occasionally dies without a verdict: retry such a run (and only such a run)."""
    for i in range(tries):
        try:
            return fn()
        except vlib.Machinery as e:
            tail = str(e).split('\n', 1)[1] if '\n' in str(e) else ''
            if i == tries - 1 or 'rror' in tail or 'violated' in tail:
                raise


def model(ctx, cfg, what, timeout=900):
    return tlc_retry(lambda: vlib.model_check(ctx, 'OciClientFaultsMC.tla', cfg, timeout=timeout, what=what))


def canary_model(ctx, cfg, invariant, what):
    """A deviation parameter set to what the code did before a repair / what a mutant does: the design model
    must then reach a panic state (the property checks are not vacuous)."""
    d = ctx.specdir()
    r = None
    for _ in range(3):
        r = vlib.run_tlc(ctx, d, 'OciClientFaultsMC.tla', cfg, timeout=600)
        if r['out'].strip():
            break
    if r['ok'] or ('Invariant %s is violated' % invariant) not in r['out']:
        raise vlib.Machinery('canary %s: expected a violation of %s:\n%s' % (cfg, invariant, vlib.tlc_errors(r['out'])))
    ctx.cov.setdefault('canaries', []).append('%s: %s' % (cfg, what))
    ctx.log('canary %s: %s violated as expected (%.1fs)' % (cfg, invariant, r['wall']))


def export(ctx, cfg, what):
    """Model-checks an export configuration (the same invariants) and returns the response scripts it printed."""
    def once():
        scen, r = vlib.generate(ctx, 'OciClientFaultsMC.tla', cfg, workers=max(2, vlib.NCPU // 2), timeout=900)
        if not r['ok'] or 'distinct' not in r:
            raise vlib.Machinery('model check %s did not pass:\n%s' % (cfg, vlib.tlc_errors(r['out']) if r['out'].strip() else ''))
        return scen, r
    scen, r = tlc_retry(once)
    if not scen:
        raise vlib.Machinery('TLC exported no scripts from %s' % cfg)
    # TLC's workers print in any order: fix the order (the harness rotates the page sizes by position)
    # and spread the operations over the validation shards
    scen.sort(key=lambda s: json.dumps(s, sort_keys=True))
    random.Random(ctx.seed).shuffle(scen)
    ctx.cov['states'] += r['distinct']
    ctx.cov['transitions'] += r['generated']
    ctx.cov['model_runs'].append(dict(module='OciClientFaultsMC.tla', cfg=cfg, distinct=r['distinct'], generated=r['generated'], depth=r.get('depth'),
                                      wall_s=round(r['wall'], 1), what='%s; %d response scripts exported' % (what, len(scen))))
    return scen


def top_call(s):
    for e in s['ev']:
        if e['t'] == 'call':
            return e['c']['name']
    return ''


def write_scen(ctx, scen, name):
    p = os.path.join(ctx.sub('scen'), name)
    with open(p, 'w') as f:
        for s in scen:
            f.write(json.dumps(s, separators=(',', ':')) + '\n')
    return p


def run_faults(ctx, vh, out, scen=None, n=0, seed=None, replay=None, only=None):
    args = ['faults', '-out', out, '-seed', str(ctx.seed if seed is None else seed), '-n', str(n)]
    if scen:
        args += ['-scen', scen]
    if replay:
        args += ['-replay', replay]
    if only:
        args += ['-only', ','.join(only)]
    o = vlib.run_harness(ctx, vh, args, timeout=3000)
    return json.loads(o.strip().splitlines()[-1])


def count(ctx, trace):
    steps = ctx.cov.setdefault('requests_per_call', {})
    name, nrt = None, 0
    with open(trace) as f:
        f.readline()
        for l in f:
            i = l.find('"op":"')
            op = l[i + 6:l.find('"', i + 6)]
            if op == 'call':
                j = l.find('"name":"')
                name = l[j + 8:l.find('"', j + 8)]
                nrt = 0
                ctx.cov['per_op'][name] = ctx.cov['per_op'].get(name, 0) + 1
            elif op == 'rt':
                nrt += 1
            elif op in ('ret', 'panic', 'hang') and name:
                k = '%s:%s' % (name, nrt if nrt < 4 else '4+')
                steps[k] = steps.get(k, 0) + 1
                if op != 'ret':
                    ctx.cov['per_op'][op] = ctx.cov['per_op'].get(op, 0) + 1


def samples(trace, want=('GetTag', 'Repositories', 'Resume')):
    out = []
    hdr, scen = vlib.split_scenarios(trace)
    seen = set()
    for s in scen:
        ev = [json.loads(l) for l in s]
        if len(ev) < 4 or len(ev) > 9:
            continue
        nm = ev[1].get('name')
        if nm in want and nm not in seen:
            seen.add(nm)
            for e in ev:
                if e['op'] == 'rt':
                    e['q'].pop('url', None)
            out.append(ev)
        if len(seen) == len(want):
            break
    return out


def canary_trace(ctx, traces):
    """Machinery self-test: accepted scenarios with one output field corrupted must be rejected by TLC at that line."""
    picks = {}
    hdr = None
    for t in traces:
        hdr, scen = vlib.split_scenarios(t)
        for s in scen:
            ev = [json.loads(l) for l in s]
            if any(e['op'] in ('panic', 'hang') for e in ev):
                continue
            if len(ev) >= 4 and ev[1].get('name') == 'Repositories' and ev[-1]['op'] == 'ret' and ev[-1]['ok'] and ev[-1]['n'] > 0 and 'list' not in picks:
                picks['list'] = s
            if len(ev) == 6 and ev[1].get('name') in ('GetBlob', 'GetManifest') and ev[4].get('name') == 'ReadAll' and not ev[5]['ok'] \
                    and ev[2]['r']['bend'] == 'eof' and 'read' not in picks:
                picks['read'] = s
            if len(ev) >= 4 and ev[1].get('name') == 'PushBlobChunked' and ev[3]['op'] == 'ret' and ev[3]['ok'] and 'start' not in picks:
                picks['start'] = s[:4]
        if len(picks) == 3:
            break
    if len(picks) < 3:
        ctx.cov['canary'] = 'skipped: no suitable accepted scenarios (%s)' % sorted(picks)
        return
    d = ctx.sub('canary')
    good = os.path.join(d, 'good.ndjson')
    vlib.write_trace(good, hdr, list(picks.values()))
    if not vlib.validate_trace(ctx, MODULE, CFG, good)['accepted']:
        ctx.cov['canary'] = 'skipped: the picked scenarios themselves are rejected on this tree'
        return

    def corrupt(kind):
        s = [json.loads(l) for l in picks[kind]]
        if kind == 'list':
            s[-1]['n'] += 1                       # one more item delivered than the pages held
        elif kind == 'read':
            s[-1]['ok'] = True                    # a clean EOF on a corrupted body
        else:
            s[2]['q']['m'] = 'PUT'                # a different request than the machine sends
        return [json.dumps(e) for e in s], {'list': len(s), 'read': len(s), 'start': 3}[kind]

    def one(kind):
        lines, at = corrupt(kind)
        p = os.path.join(d, 'bad-%s.ndjson' % kind)
        vlib.write_trace(p, hdr, [lines])
        return kind, at, vlib.validate_trace(ctx, MODULE, CFG, p)
    with cf.ThreadPoolExecutor(max_workers=3) as ex:
        for kind, at, r in ex.map(one, ('list', 'read', 'start')):
            if r['accepted'] or r.get('line') != at + 1:
                raise vlib.Machinery('canary: a trace with a corrupted %s event was not rejected at the corrupted line (%s, expected line %d)' % (kind, r, at + 1))
    ctx.cov['canary'] = 'corrupted item count, corrupted read outcome (clean EOF on a corrupted body) and corrupted request method each rejected by TLC at the corrupted line'


def is_faults_trace(path):
    """Does this trace / replay file belong to the `faults` harness command (so that replay() here applies)?"""
    try:
        with open(path) as f:
            return '"defaultN"' in f.readline()
    except OSError:
        return False


# ------------------------------------------------------------------------------ the corrupted-read clause
def corrupt_clause(ctx, quick):
    """C01, third sentence: only the corrupted-content part.  Model check of CorruptNeverCleanEOF over the read
    operations, its response scripts through the real client, validation.  Returns the validated trace files."""
    serialize_sub(ctx)
    model(ctx, 'OciClientFaultsMC_corrupt.cfg',
          'GetBlob/GetManifest/GetTag/GetBlobRange then read to the end, against every combination of Content-Length {absent,0,1,2,3,big} x digest header '
          '{absent,empty,malformed,right,right in sha512,of the wrong bytes,of other bytes,of the big content} x body {exact,wrong bytes,short,long,empty; big: '
          'exact,wrong,short,long} x stream end {EOF,reset}, the HEAD fallback of a digest-less big manifest included; and responses framed by HTTP/1.1 (complete and 206 range '
          'responses with Content-Length / Content-Range) whose connection closes after 0, 1, half, all but one, all of the announced bytes: CorruptNeverCleanEOF, '
          'ShortNeverCleanEOF (no read, range reads included, ends cleanly short of the announced length), NoPanicState, RankDecreases')
    scen = export(ctx, 'OciClientFaultsMC_export_corrupt_quick.cfg' if quick else 'OciClientFaultsMC_export_corrupt.cfg',
                  'response scripts of the read operations')
    vh = vlib.build_harness(ctx)
    td = ctx.sub('traces-corrupt')
    t0 = os.path.join(td, 'tlc-reads.ndjson')
    res = run_faults(ctx, vh, t0, scen=write_scen(ctx, scen, 'reads.jsonl'))
    if res['scenarios'] != len(scen) and not res.get('stopped'):
        raise vlib.Machinery('harness executed %d of %d read scripts' % (res['scenarios'], len(scen)))
    t1 = os.path.join(td, 'rand-reads.ndjson')
    run_faults(ctx, vh, t1, n=5000 if quick else 150000, seed=ctx.seed * 1000 + 7, only=READS)
    traces = [t0, t1]
    for t in traces:
        count(ctx, t)
    ctx.cov.setdefault('samples', []).append(dict(corrupted_read=samples(t0, want=('GetTag',))[:1]))
    vlib.judge_traces(ctx, MODULE, CFG, traces, strict=STRICT, shard_lines=2500 if quick else 6000, label='client reads vs OciClientFaults (corrupted content)')
    ctx.assumptions += ['corrupted-read clause for range reads: only "too short" is required (a body that stops before the length the response announced must end in '
                        'an error); wrong bytes cannot be detected for a slice; more bytes than the whole blob may or must fail (constant StrictRangeTooLong = FALSE: '
                        'ociclient misses it when the last bytes arrive together with io.EOF, as net/http delivers them for a Content-Length-framed body)',
                        'a response of stream-end class "trunc" is rendered as an HTTP/1.1 wire image (announced Content-Length, fewer or as many body bytes, then '
                        'the connection closes) and parsed by net/http\'s own http.ReadResponse, so the client sees exactly what a real transport reports '
                        '(io.ErrUnexpectedEOF for a short body); the other classes are handed over as *http.Response values directly',
                        'independent sha256/sha384/sha512 in the harness map the bytes delivered and the digests reported to catalogue contents']
    return traces


# ------------------------------------------------------------------------------ C18
def run(ctx):
    quick = ctx.tier == 'quick'
    serialize_sub(ctx)
    with cf.ThreadPoolExecutor(max_workers=6 if quick else 12) as ex:
        fb = ex.submit(vlib.build_harness, ctx)
        # 1. the design model: every operation x every response sequence of the class alphabets x page sizes
        fm = ex.submit(model, ctx, 'OciClientFaultsMC.cfg' if quick else 'OciClientFaultsMC_thorough.cfg',
                       'all operations (single request, POST->PUT push, chunked upload with PATCH*/PUT, resume, paging, large-manifest GET->HEAD) x '
                       'response sequences over {status classes} x {header classes} x {body classes} x page sizes {-1,0,1,2}: '
                       + ('AlwaysReturns as RankDecreases (every step lowers a rank) + no deadlock before the end' if quick else 'AlwaysReturns (temporal, weak fairness)')
                       + ', ProgressPerRequest, NoRequestAfterTransportError, NoPanicState, CorruptNeverCleanEOF, no stuck state', 1500)
        # 2. the response scripts, exported by TLC
        fu = ex.submit(export, ctx, 'OciClientFaultsMC_export_uperr.cfg',
                       'upload operations (POST, PATCH, PUT, status GET, mount) x well-formed OCI error bodies of all 15 standard codes x {status of the code, 500}, '
                       'each followed by one more call on the writer')
        fs = ex.submit(export, ctx, 'OciClientFaultsMC_export_status.cfg',
                       'every request of every operation x every status of 1xx-5xx (100-103, 2xx, 300-308 with and without Location, 400-418, 421-431, 451, 500-511, '
                       '401 with WWW-Authenticate), request bodies not rewindable (PushBlob from a plain io.Reader, a Write overflowing a non-empty chunk)')
        fr = ex.submit(export, ctx, 'OciClientFaultsMC_export_relist.cfg',
                       'listings whose consecutive pages repeat items (the same page again, the last item first, backwards, the start argument first), '
                       'page sizes 1 and 2, with and without Link')
        if quick:
            fe = [fu, fs, fr, ex.submit(export, ctx, 'OciClientFaultsMC_export_quick.cfg', 'all operation families, thinned alphabets')]
        else:
            fe = [fu, fs, fr] + [ex.submit(export, ctx, 'OciClientFaultsMC_x%s.cfg' % f, 'family %s, alphabets thinned after the first response' % f) for f in FAMILIES]
        fc = []
        if not quick:
            fc = [ex.submit(canary_model, ctx, 'OciClientFaultsMC_f4.cfg', 'NoPanicState',
                            'page size rule "only 0 defaults" (the code before the F4 repair): items[len-1] on an empty page'),
                  ex.submit(canary_model, ctx, 'OciClientFaultsMC_noloc.cfg', 'NoPanicState', 'Location dereferenced without a check'),
                  ex.submit(canary_model, ctx, 'OciClientFaultsMC_alloc.cfg', 'NoPanicState', 'a resumed writer allocates the chunk size the server named')]
        scen = []
        for f in fe:
            scen += f.result()
        vh = fb.result()
        for f in fc:
            f.result()
        fm.result()
    tops = {top_call(s) for s in scen}
    if tops != TOP:
        raise vlib.Machinery('exported scripts do not cover every operation: missing %s' % sorted(TOP - tops))
    # 3. every script on the real client (page sizes -1, 0, 1, 2), plus seeded-random scripts over wider alphabets
    td = ctx.sub('traces')
    traces = []
    t0 = os.path.join(td, 'tlc-scripts.ndjson')
    res = run_faults(ctx, vh, t0, scen=write_scen(ctx, scen, 'scripts.jsonl'))
    if res['scenarios'] != len(scen) and not res.get('stopped'):
        raise vlib.Machinery('harness executed %d of %d scripts' % (res['scenarios'], len(scen)))
    traces.append(t0)
    nrand = 2500 if quick else 40000
    per = 30000
    i = 0
    while nrand > 0:
        t = os.path.join(td, 'rand%d.ndjson' % i)
        run_faults(ctx, vh, t, n=min(per, nrand), seed=ctx.seed * 1000 + i)
        traces.append(t)
        nrand -= per
        i += 1
    for t in traces:
        count(ctx, t)
    ctx.cov['scripts_exported_by_tlc'] = len(scen)
    ctx.cov['samples'] = [dict(tlc_exported_script=scen[len(scen) // 2]), dict(recorded_scenarios=samples(t0))]
    # 4. TLC validates every recorded call / request / outcome against the machines
    with cf.ThreadPoolExecutor(max_workers=1) as ex:
        fc = ex.submit(canary_trace, ctx, traces[:1]) if not quick else None
        vlib.judge_traces(ctx, MODULE, CFG, traces, strict=STRICT, shard_lines=2500 if quick else 8000, label='ociclient vs OciClientFaults')
        if fc:
            fc.result()
    ctx.assumptions += ['the scripted http.RoundTripper stands for the network: it hands the client *http.Response values directly (any status, header '
                        'bytes, Content-Length field and body, including combinations a real HTTP/1.1 parser would refuse)',
                        'redirects are followed by net/http inside the client: the specification lets a 301/302/303/307/308 with a Location either be '
                        'followed or reach the client as the final response, and does not bound the hops (net/http does)',
                        'header/body values the classes do not interpret (class "rand": arbitrary bytes) leave the target of the next request, or whether a '
                        'listing body decodes to no entries, open in the specification',
                        'numbers are logged clamped to +-2^30 (TLC integers)',
                        'hang observer: the scripted transport never blocks and a correct call takes milliseconds, so a call that has not returned after 15 s of wall time '
                        '(chosen for a machine at load 100+) is logged as {"op":"hang"}, its goroutine is left behind and the next scenario gets a fresh client; '
                        'the harness stops after 4 hangs (what is recorded suffices for the verdict)',
                        'the constants 128 KiB (in-memory threshold), 8 KiB (error body limit), 64 KiB (default chunk) are unexported in ociclient and '
                        'mirrored in the harness header',
                        'TLC and the Json/IOUtils community modules']
    return vlib.finish(ctx, rule='every call is validated as Begin ; Exchange* ; Return of its machine: each request the transport saw must be the request the '
                       'machine sends next (method, path class, n/last/digest query, Range/Content-Range numbers, Content-Length, target of the last Location/Link), '
                       'each response moves the machine as its class says, an error response may cost at most 8 KiB+1 body bytes, no request follows a transport '
                       'failure (so a script of n responses is asked at most n+1 times), and the outcome (ok/error, items delivered, bytes written, descriptor, '
                       'bytes read and clean-EOF or error) must be the machine\'s; a panic or a hang (no return within the watchdog period) has no step')


def replay(ctx, path):
    serialize_sub(ctx)
    vh = vlib.build_harness(ctx)
    out = os.path.join(ctx.sub('replay'), 'trace.ndjson')
    run_faults(ctx, vh, out, replay=path)
    before = len(ctx.violations)
    vlib.judge_traces(ctx, MODULE, CFG, [out], strict=STRICT, label='replay')
    for k in ctx.known:
        print('KNOWN-FINDING: property=%s %s: %s' % (ctx.pid, k['id'], k['what']))
    if len(ctx.violations) > before:
        vlib.report_violations(ctx, before)
        return 1
    print('replay accepted: the stored scenario no longer violates %s' % ctx.pid)
    return 0
