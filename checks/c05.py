"""C05: listings are complete, ordered, duplicate-free and paginate losslessly, through any
stack of ocimem / client+server hops / Select / Sub / unify / debug; iterators stop when told.

1. TLC checks spec/OciList.tla over every configuration of OciListMC (stack shape, contents,
   start point, page sizes, server limit, Link on/off, consumer stop point - all chosen in the
   initial state of ONE run) and exports a seed-dependent sample of them.
2. harness `list` executes the exported configurations and seeded-random larger ones on the
   real packages, with a recording handler in front of every ociserver and a consumer that
   declines at its k-th call.  Every listing VALUE is obtained once and run several times
   (as configured, completely, early-stopped).  Universes of 10001 / 10003 items (beyond
   ociserver's internal page bound) are listed with page sizes 1000..20000; their calls are
   recorded as runs of consecutive ranks and judged against the closed form `Big`, which
   TLC proves equal to the stream model on all small cases.
3. TLC validates every recorded listing (page requests + consumer calls) against
   Observed(Stream(stack, start), k) and evaluates the OciList properties on the recorded calls."""
import json
import os
import threading
import time

import vlib

MODULE, CFG = 'OciListTrace', 'OciListTrace.cfg'


def tlc_mc(ctx, cfg, timeout, what):
    """Model check + export in one run.  A TLC that dies without a verdict (seen rarely on a
    heavily loaded machine) is retried up to 3 times; a reported error is not."""
    last = None
    for attempt in range(3):
        d = ctx.specdir()
        r = vlib.run_tlc(ctx, d, 'OciListMC.tla', cfg, timeout=timeout, env={'C05_SEED': str(ctx.seed)})
        out = r['out']
        if r['ok'] and 'distinct' in r:
            ctx.cov['states'] += r['distinct']
            ctx.cov['transitions'] += r['generated']
            ctx.cov['model_runs'].append(dict(module='OciListMC.tla', cfg=cfg, distinct=r['distinct'], generated=r['generated'],
                                              depth=r.get('depth'), wall_s=round(r['wall'], 1), what=what))
            ctx.log('model OciListMC.tla %s: %d distinct / %d generated, depth %s, %.1fs' % (cfg, r['distinct'], r['generated'], r.get('depth'), r['wall']))
            cfgs = []
            for line in out.splitlines():
                m = vlib.MBT.match(line.strip())
                if m:
                    cfgs.append(json.loads(vlib.unquote_tla(m.group(1))))
            return r, cfgs
        last = '\n'.join(l for l in out.splitlines() if not l.startswith('<<"MBT"'))
        if 'is violated' in last or 'Error:' in last and 'unexpected exception' not in last or r.get('timeout'):
            break
        ctx.log('TLC ended without a verdict (attempt %d), retrying' % (attempt + 1))
    raise vlib.Machinery('model check OciListMC.tla/%s did not pass:\n%s' % (cfg, vlib.tlc_errors(last or '')))


def stats(ctx, traces):
    """Counts what the batch exercised (also the guard against a vacuous run)."""
    st = dict(cases=0, by_kind={}, by_src={}, with_http=0, two_hops=0, multi_page=0, link_followed=0, last_fallback=0,
              declined=0, errors=0, context_done_before_first_request=0, context_done_between_pages=0, context_done_other=0, referrers_unified_across_media_types=0, **{'debug_error_after_items:' + k: 0 for k in ('repos', 'tags', 'refs')}, huge=0, huge_runs=0, huge_page_over_10000=0, paged_value_run_again=0, sub_with_start=0, unify=0, select=0, debug=0, escaped_start=0, requests=0, consumer_calls=0)
    samples = []
    for t in traces:
        with open(t) as f:
            for line in f:
                if '"op":"biglist"' in line:
                    e = json.loads(line)
                    st['huge'] += 1
                    st['huge_runs'] += len(e['passes'])
                    if e['node']['n'] > 10000:
                        st['huge_page_over_10000'] += 1
                    continue
                if '"op":"list"' not in line:
                    continue
                e = json.loads(line)
                if e['more'] and len([r for r in e['reqs'] if r['hop'] == max(q['hop'] for q in e['reqs'])]) >= 2:
                    st['paged_value_run_again'] += 1
                st['cases'] += 1
                st['by_kind'][e['kind']] = st['by_kind'].get(e['kind'], 0) + 1
                st['by_src'][e['src']] = st['by_src'].get(e['src'], 0) + 1
                stack = e['stack']
                reqs = e['reqs']
                st['requests'] += len(reqs)
                st['consumer_calls'] += len(e['calls'])
                if reqs:
                    st['with_http'] += 1
                if stack.count('http') >= 2:
                    st['two_hops'] += 1
                top = max([r['hop'] for r in reqs], default=0)
                tr = [r for r in reqs if r['hop'] == top]
                if len(tr) >= 2:
                    st['multi_page'] += 1
                    if tr[0]['link']:
                        st['link_followed'] += 1
                    else:
                        st['last_fallback'] += 1
                if e['k'] and len(e['calls']) == e['k']:
                    st['declined'] += 1
                if e['calls'] and e['calls'][-1]['e'] == 'err':
                    st['errors'] += 1
                cs = e['calls']
                if e['cut'] >= 0 and cs and cs[-1]['e'] == 'err' and 'CONTEXT' in cs[-1]['is']:
                    st['context_done_before_first_request' if e['cut'] == 0 else ('context_done_between_pages' if len(cs) >= 2 else 'context_done_other')] += 1
                if e['kind'] == 'refs' and 'unify' in stack and 'mem:alt' in stack and stack.count('mem') > stack.count('mem:alt'):
                    st['referrers_unified_across_media_types'] += 1
                for run in [e] + e['more']:
                    cs = run['calls']
                    if 'debug' in stack and len(cs) >= 2 and cs[-1]['e'] == 'err':
                        st['debug_error_after_items:' + e['kind']] += 1
                if 'sub' in stack and e['kind'] == 'repos' and e['a'] > 0:
                    st['sub_with_start'] += 1
                for w in ('unify', 'select', 'debug'):
                    if w in stack:
                        st[w] += 1
                if any(ch in e['start'] for ch in '+&% ?#='):
                    st['escaped_start'] += 1
                if len(samples) < 3 and len(reqs) >= 2 and e['k'] and e['kind'] != 'refs' and e['a'] > 0 and len(e['calls']) >= 2:
                    samples.append(dict(stack=stack, kind=e['kind'], start=e['start'], k=e['k'], a=e['a'],
                                        requests=[{k: r[k] for k in ('hop', 'n', 'last', 'cnt', 'link', 'linklast', 'code')} for r in reqs],
                                        consumer_calls=[c['name'] or c['is'] for c in e['calls']]))
    ctx.cov['per_op'] = dict([('list:' + k, v) for k, v in st['by_kind'].items()] + [('page_request', st['requests']), ('consumer_call', st['consumer_calls'])])
    ctx.cov['exercised'] = st
    ctx.cov['samples'] = samples
    return st


def guard(ctx, st):
    """A batch in which the code never did what the property is about proves nothing (only
    meaningful once the batch has been accepted: a defect may be the reason)."""
    need = ('multi_page', 'link_followed', 'last_fallback', 'declined', 'errors', 'sub_with_start', 'unify', 'select', 'two_hops', 'escaped_start',
            'paged_value_run_again', 'huge', 'huge_page_over_10000',
            'context_done_before_first_request', 'context_done_between_pages', 'referrers_unified_across_media_types',
            'debug_error_after_items:repos', 'debug_error_after_items:tags', 'debug_error_after_items:refs')
    missing = [k for k in need if not st[k]]
    if missing:
        raise vlib.Machinery('the batch never exercised: %s' % ', '.join(missing))


def canary(ctx, trace):
    """Corrupts one recorded output of an accepted listing at a time; TLC must reject each."""
    with open(trace) as f:
        hdr = f.readline().rstrip('\n')
        ev = None
        for line in f:
            if '"op":"list"' in line:
                e = json.loads(line)
                if len(e['reqs']) >= 2 and e['reqs'][0]['link'] and len(e['calls']) >= 2 and e['more'] and e['more'][0]['calls'] and e['more'][0]['reqs']:
                    ev = e
                    break
    if ev is None:
        raise vlib.Machinery('canary: no paged listing in the trace')

    def mut(name, f):
        e = json.loads(json.dumps(ev))
        f(e)
        p = os.path.join(ctx.sub('canary'), name + '.ndjson')
        vlib.write_trace(p, hdr, [['{"op":"reset"}', json.dumps(e)]])
        return vlib.validate_trace(ctx, MODULE, CFG, p)['accepted']
    if not mut('intact', lambda e: None):
        raise vlib.Machinery('canary: the intact listing is rejected in isolation')
    muts = dict(item=lambda e: e['calls'][1].__setitem__('x', e['calls'][1]['x'] + 1),
                dropped_call=lambda e: e['calls'].pop(),
                page_count=lambda e: e['reqs'][0].__setitem__('cnt', e['reqs'][0]['cnt'] - 1),
                request_last=lambda e: e['reqs'][1].__setitem__('last', e['reqs'][1]['last'] + 1),
                link_target=lambda e: e['reqs'][0].__setitem__('linklast', e['reqs'][0]['linklast'] - 2),
                call_after_stop=lambda e: e.__setitem__('after', 1),
                second_run_item=lambda e: e['more'][0]['calls'].pop(0),
                second_run_request=lambda e: e['more'][0]['reqs'].pop())
    for name, f in muts.items():
        if mut(name, f):
            raise vlib.Machinery('canary: a listing with a corrupted %s is accepted' % name)
    ctx.cov['canary'] = 'rejected: ' + ', '.join(muts)


def run(ctx):
    quick = ctx.tier == 'quick'
    td = ctx.sub('traces')
    # The harness build and the seeded-random / large-universe cases do not depend on TLC's
    # export: they run beside the model check.
    side = {}

    def random_cases():
        try:
            vh = vlib.build_harness(ctx)
            out = []
            nrand = 700 if quick else 6000
            per = 2000
            i = 0
            while nrand > 0:
                t = os.path.join(td, 'rand%d.ndjson' % i)
                args = ['list', '-n', str(min(per, nrand)), '-seed', str(ctx.seed * 1000 + i), '-maxu', '24' if quick or i % 2 else '40', '-out', t]
                if i == 0:
                    # also universes beyond ociserver's internal page bound of 10000 (compact events)
                    args += ['-big', '1003' if quick else '2005', '-huge']
                vlib.run_harness(ctx, vh, args)
                out.append(t)
                nrand -= per
                i += 1
            side['vh'], side['traces'] = vh, out
        except BaseException as e:  # re-raised in the main thread
            side['error'] = e

    th = threading.Thread(target=random_cases)
    th.start()
    try:
        r, cfgs = tlc_mc(ctx, 'OciListMC_quick.cfg' if quick else 'OciListMC_thorough.cfg', 600 if quick else 3000,
                         what='all configurations (stack x contents x start x page sizes x server limit x Link x stop point) as initial states')
    finally:
        th.join()
    if 'error' in side:
        raise side['error']
    if not cfgs:
        raise vlib.Machinery('OciListMC exported no configuration')
    # consecutive cases on the same stack share the built stack
    cfgs.sort(key=lambda c: (c['kind'], json.dumps(c['node'], sort_keys=True)))
    vh = side['vh']
    cp = os.path.join(td, 'cfgs.jsonl')
    with open(cp, 'w') as f:
        for c in cfgs:
            f.write(json.dumps(c) + '\n')
    t1 = os.path.join(td, 'tlc.ndjson')
    vlib.run_harness(ctx, vh, ['list', '-cfgs', cp, '-seed', str(ctx.seed), '-out', t1])
    traces = [t1] + side['traces']
    st = stats(ctx, traces)
    ctx.log('executed %d listings (%d exported by TLC), %d page requests, %d consumer calls' % (
        st['cases'], len(cfgs), st['requests'], st['consumer_calls']))
    vlib.judge_traces(ctx, MODULE, CFG, traces, shard_lines=1400 if quick else 4000, label='listings vs OciList')
    if not ctx.violations:
        guard(ctx, st)
        if not quick:
            canary(ctx, t1)
    ctx.cov['tlc_exported_configurations'] = len(cfgs)
    ctx.assumptions += [
        'byte order of names = rank computed by the harness (sort.Strings); names valid per ociref, except in a quarter of the random tag cases, whose tag names carry URL / query / Link metacharacters and are listed by an overlay on the in-memory registry (ocimem refuses them)',
        'referrers: ociclient.Referrers sends one request and does not page (modelled as the code does it); artifactType filtering not exercised',
        'ociunify: sequential read policy; no unifier below a unifier, and for referrers at most one member with HTTP hops (request order of concurrent members is not determined)',
        'Select/Sub for tags and referrers admit/rename the listed repository only (C12/C13 cover the rest)',
        'contents do not change during a listing (C08 covers concurrency)',
        'consumer contexts: cancelled / past their deadline only between consumer calls (never while a request is in flight); before the listing exists only on stacks without a unifier',
        'referrers held by two unified registries under different media types: same bytes pushed as image manifest and as index (the only descriptor attribute ocimem lets differ for one digest)',
        'sources that fail part-way are harness-made (lFailing: DENIED on reaching an element >= at); what such a source lists at all is the part before that element',
        'universes > 10^4 items: one hop over ocimem only, items t00001.., calls recorded as runs of consecutive ranks (lossless), model = closed form Big (checked equal to Stream by TLC on the small sweep)',
        'TLC + community modules; harness JSON projection'
    ]
    return vlib.finish(ctx, rule='every listing executed on the real stack is one trace step: the page requests seen by the recording handler of each hop '
                       '(n, last, item count, Link and its target, error code) and the consumer calls must equal Observed(Stream(stack, start), k) of '
                       'spec/OciList.tla, no call may follow a decline or an error, and PagingLossless, NoDuplicates, Ascending, StrictlyAfterStart, '
                       'ErrorOnlyWithCause, BoundedRequests are evaluated by TLC on the recorded calls')


def replay(ctx, path):
    vh = vlib.build_harness(ctx)
    out = os.path.join(ctx.sub('replay'), 'trace.ndjson')
    vlib.run_harness(ctx, vh, ['list', '-replay', path, '-out', out])
    before = len(ctx.violations)
    vlib.judge_traces(ctx, MODULE, CFG, [out], label='replay')
    if len(ctx.violations) > before:
        vlib.report_violations(ctx, before)
        return 1
    print('replay accepted: the stored listing no longer violates %s' % ctx.pid)
    return 0
