"""C17: reference parsing is a total, exact partition consistent with the validators (OciRef.tla).

1. TLC checks the laws of OciRef on the model (every string of <= 4 / <= 5 symbols over a 12 / 13
   symbol alphabet, strings with one macro symbol, tables of valid / invalid parts) and, in the
   same run, exports every enumerated case with the specification's verdict (direction A).
2. The harness runs every exported string, and seeded-random / byte-mutated strings, through
   ociref, the ociserver router (recording backend) and the ociclient request constructor
   (recording transport), logging character codes in and out.
3. TLC (OciRefTrace) re-evaluates the grammar on every logged string and rejects any logged
   output that differs (direction B); on the random strings it also checks the model's laws."""
import collections
import json
import os
import random
import re
import shutil
import subprocess
import tempfile
import time

import vlib

MODULE = 'OciRefTrace'
CFG = 'OciRefTrace.cfg'
S_FIELD = re.compile(r'"s":\[([0-9,]*)\]')


def export_cases(ctx, cfg, timeout):
    """One TLC run: INVARIANT MCLaws (the laws, on the model) + its PrintT conjunct (the export).
    Like vlib.generate, but the MBT lines are kept as raw JSON text (the thorough tier exports
    4*10^5 cases; parsing them all in python is pointless since the harness reads them)."""
    d = ctx.specdir()
    r = vlib.run_tlc(ctx, d, 'OciRefMC.tla', cfg, workers=vlib.NCPU, timeout=timeout)
    if not r['ok'] or 'distinct' not in r:
        raise vlib.Machinery('model check OciRefMC/%s did not pass:\n%s' % (cfg, vlib.tlc_errors(r['out'])))
    lines = []
    for line in r['out'].splitlines():
        m = vlib.MBT.match(line.strip())
        if m:
            lines.append(vlib.unquote_tla(m.group(1)))
    r['out'] = ''
    lines.sort(key=lambda x: (len(x), x))
    ctx.cov['states'] += r['distinct']
    ctx.cov['transitions'] += r['generated']
    ctx.cov['model_runs'].append(dict(module='OciRefMC.tla', cfg=cfg, distinct=r['distinct'], generated=r['generated'],
                                      depth=r.get('depth'), wall_s=round(r['wall'], 1), cases_exported=len(lines),
                                      what='laws PredicatesTotal, AtMostOneHostedSplit, PartitionExact, PrintParse, '
                                           'CodeRuleIsSplitRule, DigestTagDisjoint, RouterAgrees on every enumerated string'))
    ctx.log('model OciRefMC %s: %d distinct states, %d cases exported, %.1fs' % (cfg, r['distinct'], len(lines), r['wall']))
    if not lines:
        raise vlib.Machinery('OciRefMC exported no cases')
    return lines


def validate_trace(ctx, module, cfg, trace, consts=None, timeout=900, first_line=2):
    """vlib.validate_trace with (a) small JVMs (a validation run is single-worker; 16 of them
    run side by side) and (b) a retry when TLC neither accepted nor rejected the trace: on a
    heavily loaded machine a JVM was seen to die without output.  Same result shape."""
    last = ''
    for attempt in range(3):
        d = ctx.specdir()
        with open(trace) as f:
            hdr = json.loads(f.readline())
        open(os.path.join(d, 'TraceHdr.tla'), 'w').write(vlib.tlaval.header_module('TraceHdr', hdr))
        c = vlib.cfg_with(ctx, d, cfg, consts) if consts else cfg
        jt = tempfile.mkdtemp(prefix='jt-', dir=ctx.work)      # run_tlc's env argument replaces its own JAVA_TOOL_OPTIONS
        r = vlib.run_tlc(ctx, d, module + '.tla', c, workers=1, timeout=timeout,
                         env={'TRACE_FILE': os.path.abspath(trace),
                              'JAVA_TOOL_OPTIONS': (os.environ.get('JAVA_TOOL_OPTIONS', '') + ' -Djava.io.tmpdir=' + jt +
                                                    ' -Xss64m -Xmx3g -XX:ParallelGCThreads=2 -XX:CICompilerCount=2').strip()})
        shutil.rmtree(d, ignore_errors=True)
        shutil.rmtree(jt, ignore_errors=True)
        out = r['out']
        if r['ok']:
            return dict(accepted=True, states=r.get('distinct', 0), generated=r.get('generated', 0))
        if 'Postcondition' in out and 'is false' in out and 'depth' in r:
            return dict(accepted=False, line=first_line + r['depth'] - 1, states=r.get('distinct', 0))
        last = 'rc=%s wall=%.1fs\n%s\n...%s' % (r['rc'], r['wall'], vlib.tlc_errors(out), out[-1500:])
        if 'Assert' in out or 'specification error' in out or 'arsing' in vlib.tlc_errors(out):
            break          # deterministic: an error of the specification itself
        ctx.log('trace validation of %s gave no verdict (attempt %d), retrying: rc=%s %s' % (
            os.path.basename(trace), attempt + 1, r['rc'], ' | '.join(out.strip().splitlines()[-3:])[:300]))
        time.sleep(2 + 3 * attempt)
    raise vlib.Machinery('trace validation %s on %s broke:\n%s' % (module, trace, last))


vlib.validate_trace = validate_trace     # judge_traces / classify look it up in vlib


def build_harness(ctx):
    """vlib.build_harness; if the shared harness package does not compile (another family's
    file being edited), build a private copy holding only main.go and ref.go."""
    try:
        return vlib.build_harness(ctx)
    except vlib.Machinery as e:
        ctx.log('shared harness build failed, building main.go + ref.go only: %s' % str(e).splitlines()[2:3])
    hd = os.path.join(ctx.work, 'harness-c17')
    os.makedirs(hd, exist_ok=True)
    for f in ('main.go', 'ref.go', 'go.mod', 'go.sum'):
        shutil.copy(os.path.join(vlib.HARNESS, f), hd)
    gm = open(os.path.join(hd, 'go.mod')).read().replace('/repo/ociregistry', vlib.REPO + '/ociregistry')
    open(os.path.join(hd, 'go.mod'), 'w').write(gm)
    out = os.path.join(ctx.work, 'vh-c17')
    p = subprocess.run(['go', 'build', '-tags', 'verif', '-o', out, '.'], cwd=hd, env=dict(os.environ, **vlib.GOENV),
                       capture_output=True, text=True)
    if p.returncode != 0:
        raise vlib.Machinery('harness build failed:\n' + p.stdout + p.stderr)
    return out


def split_cases(lines):
    """-> (short flat strings, everything else); only to report and sample."""
    short, rest = [], []
    for l in lines:
        m = S_FIELD.search(l)
        n = 0 if not m or not m.group(1) else m.group(1).count(',') + 1
        (short if l.startswith('{"kind":"str"') and n <= 8 else rest).append(l)
    return short, rest


def run_ref(ctx, vh, out, cases=None, n=0, seed=1, level=2, lightmax=-1, replay=None):
    args = ['ref', '-out', out, '-n', str(n), '-seed', str(seed), '-level', str(level), '-lightmax', str(lightmax)]
    if cases:
        args += ['-cases', cases]
    if replay:
        args += ['-replay', replay]
    o = vlib.run_harness(ctx, vh, args)
    return json.loads(o.strip().splitlines()[-1])


def count_ops(ctx, trace):
    with open(trace) as f:
        f.readline()
        for l in f:
            if '"op":"panic"' in l:
                op = 'panic'
            else:
                i = l.find('"op":"')
                if i < 0:
                    continue
                op = l[i + 6:l.find('"', i + 6)]
            ctx.cov['per_op'][op] = ctx.cov['per_op'].get(op, 0) + 1


def show(codes):
    return bytes(codes).decode('latin-1')


def sample_events(trace, want=('ref', 'route', 'client'), skip=0):
    out = []
    seen = set()
    with open(trace) as f:
        f.readline()
        for k, l in enumerate(f):
            if k < skip:
                continue
            e = json.loads(l)
            if e.get('op') in want and e['op'] not in seen:
                seen.add(e['op'])
                if 's' in e:
                    e['_s_as_text'] = show(e['s'])
                if 'path' in e and e['op'] == 'route':
                    e['_path_as_text'] = show(e['path'])
                out.append(e)
            if len(seen) == len(want):
                break
    return out


def canary(ctx, trace):
    """Corrupts one output field of an accepted scenario; TLC must reject it (else the trace
    specification is not constraining that field: machinery failure)."""
    d = ctx.sub('canary')
    # the tail of the trace (macro / parts cases and random strings) is enough to pick from
    with open(trace) as f:
        hdr0 = f.readline()
        tail = collections.deque(f, 30000)
    small = os.path.join(d, 'tail.ndjson')
    with open(small, 'w') as f:
        f.write(hdr0)
        f.writelines(tail)
    hdr, scen = vlib.split_scenarios(small)
    scen = [s for s in scen if '"op":"reset"' in s[0]]
    rnd = random.Random(ctx.seed)
    picks = {}
    for s in scen:
        for l in s:
            e = json.loads(l)
            if e.get('op') == 'ref' and e['rel']['ok'] and e['rel']['ref'][0] and 'tagflip' not in picks:
                picks['tagflip'] = (s, l, 'tag')
            if e.get('op') == 'ref' and e['rel']['ok'] and 'str' not in picks and len(e['rel']['str']) > 2:
                picks['str'] = (s, l, 'relstr')
            if e.get('op') == 'print' and e['back']['ok'] and 'back' not in picks:
                picks['back'] = (s, l, 'back')
            if e.get('op') == 'route' and e['call'] == 'GetTag' and 'route' not in picks:
                picks['route'] = (s, l, 'route')
            # (a request is only constrained when the arguments were valid: pick one whose path is the plain concatenation)
            if e.get('op') == 'client' and e['sent'] and 'client' not in picks and \
                    e['path'] == [47, 118, 50, 47] + e['repo'] + [47, 109, 97, 110, 105, 102, 101, 115, 116, 115, 47] + e['ref']:
                picks['client'] = (s, l, 'client')
        if len(picks) == 5:
            break
    if len(picks) < 5:
        raise vlib.Machinery('canary: no suitable events found (%s)' % sorted(picks))
    for name, (s, l, how) in sorted(picks.items()):
        e = json.loads(l)
        if how == 'tag':
            e['tag'] = not e['tag']
        elif how == 'relstr':
            e['rel']['str'][rnd.randrange(len(e['rel']['str']))] ^= 1
        elif how == 'back':
            e['back']['ref'][1] = e['back']['ref'][1] + [97]
        elif how == 'route':
            e['ref'] = e['ref'] + [97]
        elif how == 'client':
            e['path'] = e['path'][:-1]
        s2 = [json.dumps(e, separators=(',', ':')) if x is l else x for x in s]
        p = os.path.join(d, name + '.ndjson')
        vlib.write_trace(p, hdr, [s2])
        r = vlib.validate_trace(ctx, MODULE, CFG, p)
        if r['accepted']:
            raise vlib.Machinery('canary %s: a corrupted trace was accepted' % name)
        p0 = os.path.join(d, name + '-orig.ndjson')
        vlib.write_trace(p0, hdr, [s])
        if not vlib.validate_trace(ctx, MODULE, CFG, p0)['accepted']:
            raise vlib.Machinery('canary %s: the uncorrupted scenario is not accepted' % name)
    ctx.notes.append('canary: 5 corrupted events (predicate flipped, printed string byte changed, round-trip repository extended, backend argument extended, client path truncated) rejected')
    ctx.log('canary: 5 corruptions rejected, originals accepted')


def run(ctx):
    quick = ctx.tier == 'quick'
    # 1. laws on the model + export of the cases (one TLC run)
    lines = export_cases(ctx, 'OciRefMC_quick.cfg' if quick else 'OciRefMC_thorough.cfg', timeout=240 if quick else 540)
    short, rest = split_cases(lines)
    cf = os.path.join(ctx.sub('cases'), 'cases.jsonl')
    open(cf, 'w').write('\n'.join(short) + '\n' + '\n'.join(rest) + '\n')
    # 2. the real code: the exported cases (the short plain strings, the bulk, with the light
    #    event set in the quick tier), then seeded-random and mutated strings
    vh = build_harness(ctx)
    trace = os.path.join(ctx.sub('traces'), 'ref.ndjson')
    st = run_ref(ctx, vh, trace, cases=cf, n=1500 if quick else 40000, seed=ctx.seed, level=2, lightmax=8)
    nstr, nev = st['strings'], st['events']
    traces = [trace]
    count_ops(ctx, trace)
    ctx.log('harness: %d strings, %d events (%d TLC cases: %d short, %d macro/parts)' % (nstr, nev, len(lines), len(short), len(rest)))
    def case_sample(pred):
        for l in rest + short:
            if len(l) < 1500:
                c = json.loads(l)
                if pred(c):
                    c['_s_as_text'] = show(c['s'])
                    return c
        return None
    ctx.cov['samples'] = [x for x in [
        dict(tlc_exported_case=case_sample(lambda c: c['kind'] == 'parts' and c['v']['abs']['ok'] and c['v']['abs']['ref'][2] and c['v']['abs']['ref'][3])),
        dict(tlc_exported_case=case_sample(lambda c: c['kind'] == 'str' and c['v']['rel']['ok'] and not c['v']['abs']['ok'] and len(c['s']) > 2)),
        dict(tlc_exported_case=case_sample(lambda c: c['kind'] == 'str' and c['v']['valid'][0])),
        dict(recorded_events=sample_events(trace, skip=len(short))),
        dict(recorded_random_events=sample_events(trace, skip=max(0, nev - 3000)))] if list(x.values())[0]]
    # 3. TLC judges every recorded output against the grammar
    vlib.judge_traces(ctx, MODULE, CFG, traces, shard_lines=min(40000, max(6000, nev // vlib.NCPU + 1)), label='ociref/ociserver/ociclient vs OciRef')
    if not quick or os.environ.get('VERIF_CANARY'):
        canary(ctx, trace)
    ctx.assumptions += [
        'strings are compared as byte sequences; the harness only converts between Go strings and lists of byte values',
        'digest algorithms: what go-digest v1.0.0 Validate accepts in this binary (sha256/sha384/sha512, all linked in); any other algorithm name is invalid',
        'router clause: method GET, empty query, URL.Path set directly (no escaping layer); the upload-id codec of GET .../blobs/uploads/<id> is not modelled',
        'client clause is one-directional: valid repository and tag/digest => exactly the expected request; otherwise only "no panic, and nothing sent => error"',
        'TLC and the Json/IOUtils community modules',
    ]
    return vlib.finish(ctx, rule='each string is one scenario: a ref event (4 predicates of ociref, 3 deprecated wrappers of ociregistry, ParseRelative, '
                       'Parse, String of both results), route events (GET with the string as tag/digest of manifests, digest of blobs and '
                       'referrers, repository of tags/list and manifests: first backend call, arguments, call count, status) and client events; '
                       'TLC recomputes OciRef!Verdict / Route on the logged character codes and accepts the trace iff every output agrees; a '
                       'panic is an event without an action',
                       extra=dict(strings_run=nstr, tlc_cases=len(lines), notes=ctx.notes))


def replay(ctx, path):
    vh = build_harness(ctx)
    out = os.path.join(ctx.sub('replay'), 'trace.ndjson')
    run_ref(ctx, vh, out, replay=path)
    before = len(ctx.violations)
    vlib.judge_traces(ctx, MODULE, CFG, [out], label='replay')
    for k in ctx.known:
        print('KNOWN-FINDING: property=%s %s: %s' % (ctx.pid, k['id'], k['what']))
    if len(ctx.violations) > before:
        vlib.report_violations(ctx, before)
        return 1
    print('replay accepted: the stored scenario no longer violates %s' % ctx.pid)
    return 0
