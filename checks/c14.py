"""C14: read-only wrapper, immutable wrapper, and ocimem's immutable-tags mode hold for every history."""
import os

import regcommon as rc
import vlib

STRICT = {'K1_DeclaredTypeGoverns': False, 'F12_PushBlobUncoded': False}


def run(ctx):
    quick = ctx.tier == 'quick'
    vlib.model_check(ctx, 'OciRegistryMC.tla', 'OciRegistryMC_quick.cfg',
                     what='TagStable, TaggedStays, ClosureKept, TaggedPresent in immutable-tags mode, all histories over 2 blobs / 3 manifests x 3 types / 1 tag')
    vlib.model_check(ctx, 'OciRegistryMC.tla', 'OciRegistryMC_broken.cfg',
                     what='the same properties when a tagged index names unreadable bytes as an image manifest ahead of a real one (the reachability walk cannot be completed)')
    if not quick:
        vlib.model_check(ctx, 'OciRegistryMC.tla', 'OciRegistryMC_thorough.cfg', timeout=1500, what='4 manifests incl. a child declared under an opaque type, 2 tags')
    vh = vlib.build_harness(ctx)
    td = ctx.sub('traces')
    traces = []
    # (1) ocimem in immutable-tags mode, directly and behind a client/server hop
    scen = [s for s in rc.gen_scenarios(ctx, 20 if quick else 400) if s['imm']]
    # walks confined to pushes and deletes of a tagged closure (1 repository, 1 tag, 2 blobs, image / index /
    # index-with-opaquely-declared-child / image-with-subject): dense in "delete something a tag reaches"
    scen += rc.gen_scenarios(ctx, 40 if quick else 2000, cfg='OciRegistryGenImm.cfg')
    # two repositories sharing blobs through MountBlob: a delete in one repository must leave what a tag of the
    # other one reaches (content included) as it was
    scen += rc.gen_scenarios(ctx, 40 if quick else 1000, cfg='OciRegistryGenImmMount.cfg')
    # one history per (state, operation) pair of the closure universe: every "delete something a tag reaches"
    scen += rc.cover_scenarios(ctx, 'OciRegistryCover_imm.cfg', sample=1800 if quick else None)
    # the same for the universe with the index that names unreadable bytes as an image manifest
    scen += rc.cover_scenarios(ctx, 'OciRegistryCover_broken.cfg', sample=700 if quick else None)
    # and for the universe where the same bytes are stored both as a blob and as a manifest
    scen += rc.cover_scenarios(ctx, 'OciRegistryCover_dual.cfg', sample=2000 if quick else None)
    # a tagged image with a layer nothing else names and a subject stored beside it: every delete out of those states
    scen += rc.cover_scenarios(ctx, 'OciRegistryCover_subj.cfg')
    sp = rc.write_scenarios(ctx, scen)
    t = os.path.join(td, 'tlc-imm.ndjson')
    rc.run_reg(ctx, vh, t, stacks='mem', scen=sp)
    traces.append(t)
    t = os.path.join(td, 'rand-imm.ndjson')
    rc.run_reg(ctx, vh, t, stacks='mem;http(mem)', n=40 if quick else 1200, steps=50, profile='manifest', imm='true', extra=['-honest'])
    traces.append(t)
    # (2) the wrappers over a pre-populated mutable registry
    t = os.path.join(td, 'wrappers.ndjson')
    rc.run_reg(ctx, vh, t, stacks='ro(mem);immw(mem);http(ro(mem));http(immw(http(mem)));ro(funcs(mem));immw(funcs(mem))', n=30 if quick else 800, steps=50,
               imm='false', extra=['-honest', '-pre', '25'])
    traces.append(t)
    # (2a) every (state of a mutable registry, call) pair - dangling tags included - with the state built underneath
    # and the call made through the wrappers, followed by reads of the tag
    wscen = rc.cover_scenarios(ctx, 'OciRegistryCover_mut.cfg', sample=700 if quick else None,
                               probe=[dict(op='ResolveTag', r='r1', t='t1'), dict(op='GetTag', r='r1', t='t1'), dict(op='ResolveManifest', r='r1', c='img')])
    for sc in wscen:
        sc['pre'] = len(sc['ops']) - 4      # everything but the covered call and the three reads
    wscen = [sc for sc in wscen if sc['pre'] > 0]
    t = os.path.join(td, 'wrappers-cover.ndjson')
    rc.run_reg(ctx, vh, t, stacks='ro(mem);immw(mem);http(immw(mem))', scen=rc.write_scenarios(ctx, wscen, 'wscen.jsonl'), imm='false')
    traces.append(t)
    # (2b) two callers racing through the immutable wrapper: every interleaving of the calls it makes on the registry
    # (OciImmwConc), replayed behind a gate
    vlib.model_check(ctx, 'OciImmwConc.tla', 'OciImmwConc.cfg', workers=1,
                     what='two concurrent tagged pushes through ocifilter.Immutable, all interleavings of resolve / push / resolve-again over 6 scenarios: NothingDeleted, OkMeansTagged')
    sched, _ = vlib.generate(ctx, 'OciImmwConc.tla', 'OciImmwConc.cfg', workers=1, timeout=300)
    if len(sched) < 60:
        raise vlib.Machinery('OciImmwConc exported only %d schedules' % len(sched))
    t = os.path.join(td, 'immw-race.ndjson')
    vlib.run_harness(ctx, vh, ['immwrace', '-scen', rc.write_scenarios(ctx, sched, 'immw.jsonl'), '-out', t, '-reps', '1' if quick else '5'])
    traces.append(t)
    # (3) the concurrent clause: goroutines contend on ocimem in immutable-tags mode (large manifests pushed to one
    # tag at the same moment, deletes against pushes); TLC searches a linearization of each history (LinTrace)
    import subprocess
    tc = os.path.join(td, 'conc-imm.ndjson')
    p = subprocess.run([vh, 'conc', '-mode', 'stress', '-n', str(45 if quick else 900), '-g', '5', '-ops', '6', '-imm', 'true',
                        '-seed', str(ctx.seed * 7 + 1), '-stacks', 'mem', '-out', tc], capture_output=True, text=True, timeout=3000)
    if p.returncode != 0:
        raise vlib.Machinery('concurrent run failed: ' + p.stderr[-2000:])
    for t in traces:
        rc.count_ops(ctx, t)
    ctx.cov['samples'] = [dict(tlc_generated_scenario=scen[0]['ops'][:8]), dict(recorded_events=rc.sample_events(traces[-1], 4))]
    vlib.judge_traces(ctx, 'RegTrace', 'RegTrace.cfg', traces, strict=STRICT, label='immutable modes vs OciRegistry')
    vlib.judge_traces(ctx, 'LinTrace', 'LinTrace.cfg', [tc], strict=dict(STRICT, K3_CommitTwoPhase=False), shard_lines=1500,
                      label='concurrent immutable-tags histories (linearizability)')
    ctx.assumptions += ['"remains retrievable" is read as: no step removes content reachable from a tag through manifests read under the media type they are stored with (DESIGN 5/C14, O1)',
                        'concurrent callers through the Immutable wrapper: only that nothing is deleted or replaced and that a successful push leaves its tag in place is required (the wrapper cannot keep a tag from moving inside its check-push-check window; the property claims that for the immutable-tags mode)',
                        'the concurrent clause: seeded contention histories on ocimem in immutable-tags mode, linearizability decided by TLC (LinTrace); deeper in C08']
    return vlib.finish(ctx, rule='histories of tagged/untagged pushes, re-pushes under other media types, indexes of images, subjects, deletes, mounts and uploads; after every call the '
                       'projected state of the registry underneath must equal the model state, so a moved or lost tag, a deleted protected blob/manifest, or a write through the '
                       'read-only wrapper is rejected at the step where it happens')


def replay(ctx, path):
    return rc.replay_reg(ctx, path, strict=STRICT)
