"""Shared by C12 and C13: the OciFilter family (spec/OciFilter*.tla, harness/filter.go)."""
import json
import os

import vlib

MC_WORKERS = 4      # few, long-running initial states: more workers only contend


def gen_cases(ctx, cfg):
    cases, r = vlib.generate(ctx, 'OciFilterGen.tla', cfg, workers=1)
    if not cases:
        raise vlib.Machinery('TLC exported no cases from %s:\n%s' % (cfg, vlib.tlc_errors(r['out'])))
    return cases


def write_cases(ctx, cases, name):
    p = os.path.join(ctx.sub('cases'), name)
    with open(p, 'w') as f:
        for c in cases:
            if isinstance(c.get('pol'), list):      # the empty function <<>> leaves TLC as []
                c = dict(c, pol={})
            if isinstance(c.get('pol'), dict) and '#select' in c['pol']:     # Select's policy is its allow set
                c = dict(c, pol={})
            if isinstance(c.get('faults'), list):
                c = dict(c, faults={})
            if c.get('tree'):
                c = dict(c, tree=[dict(n, pol={}) if isinstance(n.get('pol'), list) else n for n in c['tree']])
            f.write(json.dumps(c) + '\n')
    return p


def run_filter(ctx, vh, out, cases=None, n=0, steps=30, seed=None, kinds='checker,select', prefix='', repos='', conc=0):
    args = ['filter', '-out', out, '-n', str(n), '-steps', str(steps), '-seed', str(ctx.seed if seed is None else seed),
            '-kinds', kinds, '-prefix', prefix]
    if cases:
        args += ['-cases', cases, '-repos', repos]
    if conc:
        args += ['-conc', str(conc)]
    o = vlib.run_harness(ctx, vh, args)
    return json.loads(o.strip().splitlines()[-1])


def count_ops(ctx, trace):
    """events per wrapper kind / method, rejected calls, hostile names: for the evidence file"""
    per = ctx.cov['per_op']
    kind = '-'
    faults = set()
    scripted = False
    with open(trace) as f:
        repos = set(json.loads(f.readline())['repos'])
        for l in f:
            if '"op":"snap"' in l:
                per['snap'] = per.get('snap', 0) + 1
                continue
            e = json.loads(l)
            if e['op'] == 'reset':
                kind = e['kind']
                faults = {x[0] for x in e.get('faults', [])}
                scripted = e.get('scripted', False)
                per['scenarios:' + kind] = per.get('scenarios:' + kind, 0) + 1
                continue
            if e['op'] == 'cscope':
                per['sub:concurrent-observations'] = per.get('sub:concurrent-observations', 0) + 1
                per['sub:concurrent-calls'] = per.get('sub:concurrent-calls', 0) + e['count']
                continue
            if e.get('via') != 'wrapper':
                per['backend-direct'] = per.get('backend-direct', 0) + 1
                continue
            k = '%s:%s' % (kind, e['op'])
            per[k] = per.get(k, 0) + 1
            if scripted and e['op'] == 'ListRepos':
                per[kind + ':scripted-listing'] = per.get(kind + ':scripted-listing', 0) + 1
            if kind != 'sub' and e['op'] != 'ListRepos' and any(n not in repos for n in ([e.get('r', '')] + ([e['from']] if e['op'] == 'MountBlob' else []))):
                per[kind + ':ill-formed-name'] = per.get(kind + ':ill-formed-name', 0) + 1
            if faults and e['op'] in faults and e.get('backend'):
                per[kind + ':backend-refused'] = per.get(kind + ':backend-refused', 0) + 1
            if e['op'] == 'ListRepos' and e.get('errwith'):
                per[kind + ':listing-failed-with-name'] = per.get(kind + ':listing-failed-with-name', 0) + 1
            if kind != 'sub' and e['op'] != 'skip' and not e['backend'] and e['op'] not in ('UpSize', 'Close'):
                per[kind + ':rejected'] = per.get(kind + ':rejected', 0) + 1


def sample_events(trace, n=4, want=lambda e: True):
    out = []
    with open(trace) as f:
        f.readline()
        for l in f:
            if '"via":"wrapper"' not in l:
                continue
            e = json.loads(l)
            if want(e):
                out.append({k: e[k] for k in ('op', 'r', 'from', 'ok', 'code', 'cons', 'backend', 'bscopes', 'scope', 'items', 'start') if k in e and e[k] not in ('', [])})
            if len(out) >= n:
                break
    return out


def replay_filter(ctx, path):
    vh = vlib.build_harness(ctx)
    out = os.path.join(ctx.sub('replay'), 'trace.ndjson')
    vlib.run_harness(ctx, vh, ['filter', '-replay', path, '-out', out])
    before = len(ctx.violations)
    vlib.judge_traces(ctx, 'OciFilterTrace', 'OciFilterTrace.cfg', [out], label='replay')
    if len(ctx.violations) > before:
        vlib.report_violations(ctx, before)
        return 1
    print('replay accepted: the stored scenario no longer violates %s' % ctx.pid)
    return 0
