"""Shared machinery of C10 and C11 (specification family OciAuth: spec/OciAuth.tla).

1. TLC checks the property's invariants on the model exhaustively (OciAuthMC_*.cfg).
2. Scenarios - a credential configuration per host, calls with required/desired scope and body
   kind, and every answer of the scripted registries and token servers - come from TLC
   (-simulate walks of the model, OciAuthGen) and from the harness's seeded generator (more
   shapes of challenge headers, batches of calls on one transport, real-time token expiry).
3. The harness (command `auth`) runs them against the real ociauth.NewStdTransport and logs
   every message half, configuration lookup and call begin/end.
4. TLC validates every log against OciAuthTrace.  The transport's decisions between messages are
   silent model steps, so acceptance is a high-water mark of the consumed line (the state-graph
   diameter rule of vlib.validate_trace does not hold with silent steps): validate_hw below
   replaces vlib.validate_trace while vlib.judge_traces runs."""
import json
import os
import re
import shutil
import tempfile
import threading
import time

import tlaval
import vlib

MODULE, CFG = 'OciAuthTrace', 'OciAuthTrace.cfg'

CLAIMS = {
    'C10': dict(inv='C10Inv', consts={'Check10': True, 'Check11': False},
                names=['TokenOwn', 'TokenFresh', 'CachedCovers', 'FreshCoversChallenge', 'NoNeedlessAcquire', 'TokenRequestScope']),
    'C11': dict(inv='C11Inv', consts={'Check10': False, 'Check11': True},
                names=['PasswordOnlyToRealmOrBasicChallenger', 'NoBasicOnFirstRequest', 'RefreshOnlyToRealm', 'HostConfinement',
                       'AtMostTwoAttempts', 'FreshToken401Becomes403', 'CallerRequestUntouched', 'BodyClosedOnEveryPath', 'OnlyKnownSchemes']),
}

MC_QUICK = [('OciAuthMC_quick.cfg', '2 hosts x 3 configurations (refresh/basic, refresh+password/static, none/failing lookup), 1 realm, '
             '1 resource scope, 2 sequential calls, 2 tokens, lifetimes {none, 2 ticks}, clock <= 2')]
MC_THOROUGH = MC_QUICK + [
    ('OciAuthMC_calls3.cfg', 'as quick with 3 sequential calls'),
    ('OciAuthMC_wide.cfg', '2 realms, 2 resource scopes, all challenge offer sets (Basic+Bearer, Bearer+unknown, missing realm), '
     'all body kinds and statuses, 2 configurations, 2 calls'),
    ('OciAuthMC_time.cfg', 'half-second ticks, lifetimes {none, 1 s}, clock <= 4, 3 calls, 2 tokens (reaches: a later-issued token expired '
     'behind an earlier-issued live one and needed again - witness ExpiredBehindLive in OciAuthMC), refresh-token host + credential-less host'),
    ('OciAuthMC_conc.cfg', '2 calls in progress together on one transport (per-host lock), 2 configurations, no expiry'),
]


def specdir(ctx):
    """A private scratch copy of spec/ (unique name also when called from several threads)."""
    d = tempfile.mkdtemp(prefix='auth-spec-', dir=ctx.work)
    for f in os.listdir(vlib.SPEC):
        if f.startswith('OciAuth') and (f.endswith('.tla') or f.endswith('.cfg')) and not f.startswith('OciAuthFile'):
            shutil.copy(os.path.join(vlib.SPEC, f), d)
    return d


# ------------------------------------------------------------------ model checking
def mc_one(ctx, pid, cfg, what, timeout):
    """One exhaustive run with the property's own invariants (retried when TLC dies silently)."""
    claim = CLAIMS[pid]
    last = None
    for attempt in range(3):
        d = specdir(ctx)
        text = open(os.path.join(d, cfg)).read()
        text, n = re.subn(r'INVARIANT Inv\b', 'INVARIANT %s\nINVARIANT LockSane' % claim['inv'], text)
        if n != 1:
            raise vlib.Machinery('%s: INVARIANT Inv not found' % cfg)
        name = cfg.replace('.cfg', '_%s.cfg' % pid)
        open(os.path.join(d, name), 'w').write(text)
        r = vlib.run_tlc(ctx, d, 'OciAuthMC.tla', name, workers=max(2, vlib.NCPU // 2), timeout=timeout)
        shutil.rmtree(d, ignore_errors=True)
        if r['ok'] and 'distinct' in r:
            return dict(module='OciAuthMC.tla', cfg=cfg, invariant=claim['inv'], distinct=r['distinct'], generated=r['generated'],
                        depth=r.get('depth'), wall_s=round(r['wall'], 1), what=what)
        last = r
        if 'violated' in r['out'] or 'Error:' in r['out'] or r.get('timeout'):
            break
    raise vlib.Machinery('model check OciAuthMC/%s (%s) did not pass:\n%s' % (cfg, claim['inv'], vlib.tlc_errors(last['out'])))


class ModelRuns(threading.Thread):
    """The exhaustive runs proceed while the harness and the trace validation work."""

    def __init__(self, ctx, pid, runs, timeout):
        super().__init__(daemon=True)
        self.ctx, self.pid, self.runs, self.timeout = ctx, pid, runs, timeout
        self.done, self.err, self.cancelled = [], None, False

    def run(self):
        try:
            for cfg, what in self.runs:
                if self.cancelled:
                    return
                self.done.append(mc_one(self.ctx, self.pid, cfg, what, self.timeout))
        except Exception as e:   # noqa: reported by finish_models
            self.err = e

    def finish(self):
        self.join()
        if self.err:
            raise self.err if isinstance(self.err, vlib.Machinery) else vlib.Machinery('model checking failed: %r' % (self.err,))
        for m in self.done:
            self.ctx.cov['states'] += m['distinct']
            self.ctx.cov['transitions'] += m['generated']
            self.ctx.cov['model_runs'].append(m)
            self.ctx.log('model OciAuthMC %s [%s]: %d distinct / %d generated, depth %s, %.1fs' % (
                m['cfg'], m['invariant'], m['distinct'], m['generated'], m['depth'], m['wall_s']))


# ------------------------------------------------------------------ trace validation
HW = re.compile(r'<<"highwater", (\d+), (\d+)>>')
LVAL = re.compile(r'^/\\ l = (\d+)$', re.M)
INVV = re.compile(r'Invariant (\w+) is violated')


def validate_hw(ctx, module, cfg, trace, consts=None, timeout=900, first_line=2):
    """Validates one trace file against OciAuthTrace.  -> dict(accepted, line, states); `line`
    is the 1-based line that no behaviour of the specification could consume (or, when a
    property invariant was violated, the line whose consumption produced the violating state)."""
    last = None
    for attempt in range(3):
        d = specdir(ctx)
        with open(trace) as f:
            hdr = json.loads(f.readline())
        open(os.path.join(d, 'TraceHdr.tla'), 'w').write(tlaval.header_module('TraceHdr', hdr))
        c = vlib.cfg_with(ctx, d, cfg, consts) if consts else cfg
        r = vlib.run_tlc(ctx, d, module + '.tla', c, workers=1, timeout=timeout, env={'TRACE_FILE': os.path.abspath(trace)})
        shutil.rmtree(d, ignore_errors=True)
        out = r['out']
        m = HW.search(out)
        if r['ok'] and m and m.group(1) == m.group(2):
            return dict(accepted=True, states=r.get('distinct', 0), generated=r.get('generated', 0))
        if m and 'Postcondition' in out and 'is false' in out and int(m.group(1)) < int(m.group(2)):
            return dict(accepted=False, line=int(m.group(1)), states=r.get('distinct', 0))
        iv = INVV.search(out)
        ls = LVAL.findall(out)
        if iv and ls:
            ctx.notes.append('invariant %s violated while validating %s' % (iv.group(1), os.path.basename(trace)))
            return dict(accepted=False, line=max(first_line, int(ls[-1]) - 1), states=r.get('distinct', 0), invariant=iv.group(1))
        last = out
        try:
            with open(os.path.join(vlib.VERIF, '.work', 'last_tlc_failure_auth.log'), 'w') as f:
                f.write(out)
        except OSError:
            pass
        if 'Attempted' in out or 'nonexistent' in out or 'Parse Error' in out or 'semantic' in out.lower() or r.get('timeout'):
            break   # deterministic: no point retrying
    raise vlib.Machinery('trace validation %s on %s broke:\n%s' % (module, trace, vlib.tlc_errors(last or '')))


def judge(ctx, traces, consts, label):
    orig = vlib.validate_trace
    vlib.validate_trace = validate_hw
    try:
        return vlib.judge_traces(ctx, MODULE, CFG, traces, strict=consts, shard_lines=3000, label=label)
    finally:
        vlib.validate_trace = orig


# ------------------------------------------------------------------ harness
def run_auth(ctx, vh, out, seed=1, n=0, ntimed=0, maxtick=10, scen=None, replay=None, retries=3):
    args = ['auth', '-out', out, '-seed', str(seed), '-n', str(n), '-ntimed', str(ntimed), '-maxtick', str(maxtick), '-retries', str(retries)]
    if os.environ.get('VERIF_AUTH_NILHDR'):   # opt-in: see "nil Header" in run_rest's assumptions
        args += ['-nilhdr']
    if scen:
        args += ['-scen', scen]
    if replay:
        args += ['-replay', replay]
    o = vlib.run_harness(ctx, vh, args, timeout=900)
    return json.loads(o.strip().splitlines()[-1])


def tally(ctx, trace):
    """Coverage counters only (no judging): which model actions the recorded runs exercised."""
    po = ctx.cov['per_op']

    def inc(k, by=1):
        po[k] = po.get(k, 0) + by
    with open(trace) as f:
        f.readline()
        for line in f:
            e = json.loads(line)
            op = e['op']
            if op == 'reset':
                inc('scenario:' + e['src'] + (':timed' if e['timed'] else ''))
                for k in e['cfg'].values():
                    inc('cfg:' + k)
                slots = {}
                clock, host_of, asked, granted = 0, {}, {}, {}
                continue
            # the shape TokenFresh needs: on one host a token granted LATER has expired (by more than the
            # "may" band: at or past its stated lifetime) while one granted EARLIER still has more than a
            # second left, and a call now requires a scope that only the expired one covers
            if op == 'tick':
                clock = e['t']
            elif op == 'begin':
                host_of[e['c']] = e['h']
                toks = granted.get(e['h'], [])
                need = set(e['req'])
                for j, (exp_j, sc_j) in enumerate(toks):
                    if clock >= exp_j and need <= sc_j and any(exp_i - clock > 2 and not need <= sc_i for exp_i, sc_i in toks[:j]) \
                            and not any(exp_k > clock and need <= sc_k for exp_k, sc_k in toks):
                        inc('shape:expired-token-behind-live-one-needed-again')
                        break
            elif op == 'tokreq':
                asked[e['c']] = set(e['scope'])
            elif op == 'tokresp' and e['kind'] == 'grant':
                granted.setdefault(host_of.get(e['c'], '?'), []).append((clock + (e['life'] or 120), asked.get(e['c'], set())))
            if op == 'begin':
                slots[e['c']] = 0
                inc('begin:body=' + e['body'])
                inc('begin:request-shape=%d' % e.get('shape', 0))
                if e.get('hosthdr', '') and e.get('hosthdr', '') != e.get('urlhost', ''):
                    inc('begin:host-header-names-another-host')
                if sum(1 for v in slots.values() if v >= 0) > 1:
                    inc('begin:concurrent')
            elif op == 'end':
                slots[e['c']] = -1
                inc('end:' + str(e['status']))
            elif op == 'regreq':
                slots[e['c']] = slots.get(e['c'], 0) + 1
                inc('regreq:%d:%s' % (slots[e['c']], e['cred']['k']))
            elif op == 'regresp':
                if e['status'] == 401:
                    inc('regresp:401:' + '+'.join(sorted(set(o['scheme'] + ('(norealm)' if o['scheme'] == 'bearer' and o['realm'] == '-' else '')
                                                             for o in e['offers']))) or 'regresp:401:nothing')
                else:
                    inc('regresp:%d' % e['status'])
            elif op == 'tokreq':
                inc('tokreq:%s:%s' % (e['method'], e['cred']['k']))
                if e['kept']:
                    inc('tokreq:challenge-text-kept')
            elif op == 'tokresp':
                inc('tokresp:' + e['kind'] + (':life' if e['life'] else '') + (':newrt' if e['rt'] else ''))
                if e.get('delay'):
                    inc('tokresp:delayed-past-a-cached-token-expiry')
            else:
                inc(op)


NEEDED = {
    'C10': ['regreq:1:bearer', 'regreq:2:bearer', 'regreq:1:static', 'tokreq:POST:refresh', 'tokreq:GET:none', 'tokresp:grant', 'tokresp:grant:life',
            'tokresp:e401', 'tick', 'tokreq:challenge-text-kept', 'shape:expired-token-behind-live-one-needed-again', 'tokresp:delayed-past-a-cached-token-expiry'],
    'C11': ['regreq:2:basic', 'regreq:1:basic', 'tokreq:GET:basic', 'tokreq:POST:refresh', 'tokresp:e404', 'cfglookup', 'end:403', 'end:-1',
            'begin:body=plain', 'begin:body=getbody', 'regresp:401:other', 'regresp:401:bad', 'regresp:401:basic+bearer', 'tokresp:grant:newrt', 'begin:host-header-names-another-host', 'begin:request-shape=1', 'begin:request-shape=2', 'begin:request-shape=3'],
}


def samples(trace, k=16):
    """The first recorded scenario that holds a token request and a tick (readable evidence)."""
    cur, best = [], []
    with open(trace) as f:
        f.readline()
        for line in f:
            e = json.loads(line)
            if e['op'] == 'reset':
                if any(x['op'] == 'tokreq' for x in cur) and any(x['op'] == 'tick' for x in cur):
                    return cur[:k]
                best = best or cur
                cur = []
                e = dict(op='reset', cfg=e['cfg'], names=e.get('names', {}), timed=e['timed'], src=e['src'])
            for drop in ('ms', 'hdrs' if e['op'] != 'regresp' else 'ms', 'diff', 'bodies', 'same'):
                e.pop(drop, None)
            cur.append(e)
    return (cur or best)[:k]


def canary(ctx, trace, consts, pid):
    """Corrupts one recorded field of an accepted trace; TLC must reject it at that line."""
    with open(trace) as f:
        lines = f.read().splitlines()
    hit = None
    for i, l in enumerate(lines[:4000]):
        e = json.loads(l)
        if pid == 'C10' and e['op'] == 'regreq' and e['cred']['k'] == 'bearer':
            e['cred']['id'] += 1
            hit = (i, e)
            break
        if pid == 'C11' and e['op'] == 'tokreq' and e['cred']['k'] in ('basic', 'refresh'):
            e['to'] = 'rb' if e['to'] == 'ra' else 'ra'
            hit = (i, e)
            break
    if not hit:
        raise vlib.Machinery('canary: no event to corrupt')
    i, e = hit
    p = os.path.join(ctx.sub('canary'), 'canary.ndjson')
    with open(p, 'w') as f:
        f.write('\n'.join(lines[:i] + [json.dumps(e)] + lines[i + 1:min(len(lines), i + 200)]) + '\n')
    r = validate_hw(ctx, MODULE, CFG, p, consts=consts)
    if r['accepted'] or r['line'] != i + 1:
        raise vlib.Machinery('canary: corrupted line %d was not rejected (%r)' % (i + 1, r))
    ctx.cov['canary'] = 'line %d corrupted (%s), rejected at line %d' % (i + 1, 'bearer id + 1' if pid == 'C10' else 'token realm swapped', r['line'])


# ------------------------------------------------------------------ the check
def run(ctx, pid):
    quick = ctx.tier == 'quick'
    claim = CLAIMS[pid]
    models = ModelRuns(ctx, pid, MC_QUICK if quick else MC_THOROUGH, 600 if quick else 1500)
    models.start()
    try:
        return run_rest(ctx, pid, models)
    except BaseException:
        models.cancelled = True   # (the run in progress ends by itself; no further one is started)
        raise


def run_rest(ctx, pid, models):
    quick = ctx.tier == 'quick'
    claim = CLAIMS[pid]
    vh = vlib.build_harness(ctx)
    walks = []
    for attempt in range(3):   # (a loaded machine occasionally kills a JVM without output)
        try:
            walks, _ = vlib.generate(ctx, 'OciAuthGen.tla', 'OciAuthGen.cfg', simulate='num=%d' % (100 if quick else 1500), timeout=600,
                                     extra=['-depth', '150', '-seed', str(ctx.seed)])
        except vlib.Machinery:
            if attempt == 2:
                raise
        if walks:
            break
    if not walks:
        raise vlib.Machinery('TLC generated no scenarios')
    sp = os.path.join(ctx.sub('scen'), 'walks.jsonl')
    with open(sp, 'w') as f:
        for w in walks:
            f.write(json.dumps(w) + '\n')
    td = ctx.sub('traces')
    traces = []
    t = os.path.join(td, 'tlc.ndjson')
    s1 = run_auth(ctx, vh, t, seed=ctx.seed, scen=sp)
    traces.append(t)
    t = os.path.join(td, 'rand.ndjson')
    s2 = run_auth(ctx, vh, t, seed=ctx.seed, n=250 if quick else 6000, ntimed=80 if quick else 1200, maxtick=10 if quick else 16)
    traces.append(t)
    for t in traces:
        tally(ctx, t)
    stats = dict(tlc_walks=s1, seeded=s2)
    ctx.log('harness: %s' % json.dumps(stats))
    total = s1['scenarios'] + s2['scenarios']
    dropped = s1['dropped'] + s2['dropped']
    if s1['timed'] + s2['timed'] - dropped < 10:
        raise vlib.Machinery('%d of %d real-time scenarios could not be run inside their timing windows (machine too loaded)' % (dropped, s1['timed'] + s2['timed']))
    ctx.cov['samples'] = [dict(tlc_walk=walks[0]['ops'][:6], cfg=walks[0]['cfg']), dict(recorded_events=samples(traces[1]))]
    ctx.cov['harness'] = stats
    ctx.cov['claimed_invariants'] = claim['names']
    judge(ctx, traces, claim['consts'], 'ociauth transport vs OciAuth (%s observables)' % pid)
    # an accepted batch in which an action the property depends on never occurred proves nothing
    missing = [k for k in NEEDED[pid] if not ctx.cov['per_op'].get(k)]
    if missing and not ctx.violations:
        raise vlib.Machinery('the recorded runs never exercised: %s' % ', '.join(missing))
    if not quick and not ctx.violations:
        canary(ctx, traces[1], claim['consts'], pid)
    models.finish()
    ctx.assumptions += [
        'the scripted RoundTripper is a well-behaved transport: it consumes and closes the request body it is given, also when it fails; '
        'a request whose URL has no http(s) scheme or no host is refused without being counted as a message',
        'real-time scenarios: every event of a step lies within [50, 450] ms of its half-second tick, otherwise the run is discarded and repeated '
        '(decided on timestamps only); %d run(s) repeated, %d scenario(s) dropped' % (s1['reruns'] + s2['reruns'], dropped),
        'a cached token within one second of its expiry may or may not be reused (the specification\'s "may" band); lifetimes are whole seconds 1..3 or unstated (60 s)',
        'hand-built requests with a nil Header are used only in scenarios scripted so that the transport never has an Authorization header to add: '
        'the unchanged transport panics otherwise (assignment to entry in nil map in setAuthorization); VERIF_AUTH_NILHDR=1 uses them everywhere. '
        'Requests with a pre-set Authorization header are not used',
        'token servers do not redirect; token and refresh-token strings are unique per scenario',
        'which of several usable challenges in one 401 is taken is left open by the specification',
        'TLC and the Json/IOUtils community modules']
    rule = ('every configuration lookup, call begin/end and message half (registry and token requests with destination, credential identity and '
            'tokenised scope; scripted answers) of %d scenarios is one trace event; TLC accepts a log iff some placement of the silent '
            'decision steps of OciAuth reproduces it with ' % total)
    rule += ('every bearer token presented and every token-request scope equal to the model\'s' if pid == 'C10' else
             'every password, refresh token, destination, attempt count, final status, caller-request comparison and body-close count equal to the model\'s')
    return vlib.finish(ctx, rule=rule)


def replay(ctx, pid, path):
    vh = vlib.build_harness(ctx)
    out = os.path.join(ctx.sub('replay'), 'trace.ndjson')
    s = run_auth(ctx, vh, out, replay=path, retries=12)
    if s['scenarios'] == 0:
        raise vlib.Machinery('replay: the scenario could not be run inside its timing windows')
    before = len(ctx.violations)
    judge(ctx, [out], CLAIMS[pid]['consts'], 'replay')
    for k in ctx.known:
        print('KNOWN-FINDING: property=%s %s: %s' % (ctx.pid, k['id'], k['what']))
    if len(ctx.violations) > before:
        vlib.report_violations(ctx, before)
        return 1
    print('replay accepted: the stored scenario no longer violates %s' % ctx.pid)
    return 0
