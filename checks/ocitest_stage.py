"""Stage of C02: the content pusher of package ocitest (ocitest.go: RegistryContent / RepoContent, PushContent,
PushRepoContent, completedManifests) against its model (spec/OciTestContent.tla) and the registry reference
model (OciRegistry, through RegTrace): spec/OciTestTrace.tla.

    stage(ctx, quick)    model-check OciTestContent, export contents, run the harness, judge the traces
    replay(ctx, path)    re-execute the contents stored in a replay file and re-validate

Alone:  python3 checks/ocitest_stage.py quick|thorough     (or: --replay <file>)"""
import concurrent.futures as cf
import json
import os
import random
import sys

HERE = os.path.dirname(os.path.abspath(__file__))
sys.path.insert(0, os.path.join(os.path.dirname(HERE), 'lib'))
sys.path.insert(0, HERE)
import vlib

MODULE, CFG = 'OciTestTrace', 'OciTestTrace.cfg'
STRICT = {'K1_DeclaredTypeGoverns': False, 'F12_PushBlobUncoded': False}
LABEL = 'ocitest content pusher vs OciRegistry'

# bytes of the blob identifiers of the TLC-exported contents (b3: the empty blob)
TLC_BLOBS = {'b1': 'blob one', 'b2': '{"two":2}', 'b3': ''}

MC_QUICK = [('OciTestContentMC_live.cfg', 'termination as a liveness property: up to 2 manifests, every subject relation, 2 blob sets, 1 tag'),
            ('OciTestContentMC_subj3.cfg', '3 manifests, every subject relation (none/self/chain/fork/cycle/unknown id/blob id), all blobs or one missing, 3 tag bindings')]
MC_THOROUGH = [('OciTestContentMC_tiny.cfg', 'up to 2 manifests, every subject relation, every set of 3 blobs, every binding of 2 tags'),
               ('OciTestContentMC_subj4.cfg', '4 manifests, all 2401 subject relations, all blobs or one missing, 3 tag bindings'),
               ('OciTestContentMC_all3.cfg', 'up to 3 manifests, every subject relation, every set of 3 blobs, every binding of 2 tags')]


def _obj(x):
    """TLC's ToJson renders an empty function as []."""
    return x if isinstance(x, dict) else {}


def tlc_case(c, repo='r1'):
    """A content exported by TLC -> one repository of a harness case."""
    mans = {}
    for m, x in _obj(c['mans']).items():
        mans[m] = dict(config=x['config'], layers=list(x['layers']), subject=x['subject'], ann=m)
    return dict(blobs={b: TLC_BLOBS[b] for b in c['blobs']}, mans=mans, tags=dict(_obj(c['tags'])))


def export_cases(ctx, quick, badblobs):
    cfg = 'OciTestContentMC_genquick.cfg' if quick else 'OciTestContentMC_gen.cfg'
    conts, _ = vlib.generate(ctx, 'OciTestContentMC.tla', cfg, workers=1, timeout=600)
    if not conts:
        raise vlib.Machinery('TLC exported no contents')
    if not badblobs:
        # the model's outcome "panic": a manifest that can be computed names a blob the content lacks
        conts = [c for c in conts if c['outcome'] != 'panic']
    rnd = random.Random(ctx.seed)
    want = 160 if quick else 6000
    if len(conts) > want:
        # every outcome class keeps its share; the rest is a seeded sample
        by = {}
        for c in conts:
            by.setdefault(c['outcome'], []).append(c)
        pick = []
        for k in sorted(by):
            pick += rnd.sample(by[k], min(len(by[k]), max(10, want * len(by[k]) // len(conts))))
        conts = pick
    cases = [dict(src='tlc', repos={'r1': tlc_case(c)}) for c in conts]
    # two exported contents side by side in one registry content (PushContent visits them in map order)
    for _ in range(len(conts) // 6):
        a, b = rnd.choice(conts), rnd.choice(conts)
        cases.append(dict(src='tlc2', repos={'r1': tlc_case(a), 'r2': tlc_case(b)}))
    ctx.cov.setdefault('ocitest', {})['tlc_contents'] = dict(exported=len(conts), cases=len(cases),
                                                            outcomes={k: sum(1 for c in conts if c['outcome'] == k) for k in sorted({c['outcome'] for c in conts})})
    return cases


def write_cases(ctx, cases, per):
    d = ctx.sub('ocitest-cases')
    files = []
    for i in range(0, len(cases), per):
        p = os.path.join(d, 'cases%03d.jsonl' % (i // per))
        with open(p, 'w') as f:
            for c in cases[i:i + per]:
                f.write(json.dumps(c) + '\n')
        files.append(p)
    return files


def stage(ctx, quick, badblobs=True):
    """badblobs: also contents whose manifests name a config/layer identifier that is not a blob of the content (HEAD
    panics on them: rejected unless KNOWN_FINDINGS.jsonl lists the relaxation OT1_PanicOnUnknownBlob for this property)."""
    ex = cf.ThreadPoolExecutor(max_workers=4)
    # 1. the model of the pusher, exhaustively (in the background: TLC uses what the rest leaves idle)
    mcs = [ex.submit(vlib.model_check, ctx, 'OciTestContentMC.tla', cfg, vlib.NCPU if not quick else 4, 900, what)
           for cfg, what in (MC_QUICK if quick else MC_THOROUGH)]
    build = ex.submit(vlib.build_harness, ctx)
    # 2. contents chosen by TLC (every small content) and seeded-random larger ones, pushed by the real code
    cases = export_cases(ctx, quick, badblobs)
    vh = build.result()
    td = ctx.sub('ocitest-traces')
    traces = []
    for i, p in enumerate(write_cases(ctx, cases, 400)):
        t = os.path.join(td, 'tlc%03d.ndjson' % i)
        vlib.run_harness(ctx, vh, ['ocitest', '-cases', p, '-out', t])
        traces.append(t)
    nrand = 120 if quick else 4000
    per = 60 if quick else 250
    i = 0
    while nrand > 0:
        t = os.path.join(td, 'rand%03d.ndjson' % i)
        k = min(per, nrand)
        vlib.run_harness(ctx, vh, ['ocitest', '-n', str(k), '-seed', str(ctx.seed * 1000 + i), '-out', t] + (['-badblobs'] if badblobs else []))
        traces.append(t)
        nrand -= k
        i += 1
    per_op = ctx.cov['per_op']
    outcomes = {}
    for t in traces:
        with open(t) as f:
            f.readline()
            for l in f:
                j = l.find('"op":"')
                op = l[j + 6:l.find('"', j + 6)]
                per_op[op] = per_op.get(op, 0) + 1
                if op in ('expect', 'panic'):
                    e = json.loads(l)
                    k = 'panic' if op == 'panic' else ('ok' if e['ok'] else e['errkind'])
                    outcomes[k] = outcomes.get(k, 0) + 1
    ctx.cov.setdefault('ocitest', {})['outcomes_observed'] = outcomes
    with open(traces[-1]) as f:
        f.readline()
        first = json.loads(f.readline())
    ctx.cov['samples'] = list(ctx.cov['samples']) + [dict(ocitest_content=first.get('case'))]
    # 3. TLC validates every recorded push and judges the outcome
    n = vlib.judge_traces(ctx, MODULE, CFG, traces, strict=STRICT, shard_lines=1500 if quick else 4000, label=LABEL)
    for m in mcs:
        m.result()
    ex.shutdown()
    ctx.assumptions += ['ocitest: manifests carry a media type (the image manifest type); identifiers are plain tokens without commas or quotes',
                        'ocitest: the harness reads manifest bytes with its own JSON reader to fill the catalogue (config/layers/subject digests -> content ids)']
    return n


def replay(ctx, path):
    vh = vlib.build_harness(ctx)
    out = os.path.join(ctx.sub('replay'), 'trace.ndjson')
    vlib.run_harness(ctx, vh, ['ocitest', '-replay', path, '-out', out])
    before = len(ctx.violations)
    vlib.judge_traces(ctx, MODULE, CFG, [out], strict=STRICT, label='replay')
    for k in ctx.known:
        print('KNOWN-FINDING: property=%s %s: %s' % (ctx.pid, k['id'], k['what']))
    if len(ctx.violations) > before:
        vlib.report_violations(ctx, before)
        return 1
    print('replay accepted: the stored scenario no longer violates %s' % ctx.pid)
    return 0


def is_replay_of_stage(path):
    """True if the replay file was written by this stage (its catalogue says so)."""
    try:
        with open(path) as f:
            return json.loads(f.readline()).get('catmeta', {}).get('kind') == 'ocitest'
    except (OSError, ValueError):
        return False


def main(argv):
    if len(argv) >= 3 and argv[1] == '--replay':
        ctx = vlib.Ctx('C02', 'quick')
        try:
            return replay(ctx, argv[2])
        except vlib.Machinery as e:
            print('MACHINERY-FAILURE C02: %s' % e)
            return 2
        finally:
            ctx.cleanup()
    tier = argv[1] if len(argv) > 1 else 'quick'
    ctx = vlib.Ctx('C02', tier)
    try:
        stage(ctx, tier == 'quick', badblobs='nobadblobs' not in argv)
        return vlib.finish(ctx, rule='ocitest stage alone: every call PushContent makes is a validated step of OciRegistry; the expect event judges the outcome')
    except vlib.Machinery as e:
        print('MACHINERY-FAILURE C02: %s' % e)
        ctx.cleanup()
        return 2


if __name__ == '__main__':
    sys.exit(main(sys.argv))
