"""Stage of C02: the content pusher of package ocitest (ocitest.go: RegistryContent / RepoContent, PushContent,
PushRepoContent, completedManifests) against its model (spec/OciTestContent.tla) and the registry reference
model (OciRegistry, through RegTrace): spec/OciTestTrace.tla.

    stage(ctx, quick)    model-check OciTestContent, export contents, run the harness, judge the traces
    replay(ctx, path)    re-execute the contents stored in a replay file and re-validate

Alone:  python3 checks/ocitest_stage.py quick|thorough     (or: --replay <file>)"""
import concurrent.futures as cf
import contextlib
import json
import os
import random
import shutil
import sys
import tempfile
import time

HERE = os.path.dirname(os.path.abspath(__file__))
sys.path.insert(0, os.path.join(os.path.dirname(HERE), 'lib'))
sys.path.insert(0, HERE)
import vlib

MODULE, CFG = 'OciTestTrace', 'OciTestTrace.cfg'
STRICT = {'K1_DeclaredTypeGoverns': False, 'F12_PushBlobUncoded': False}
LABEL = 'ocitest content pusher vs OciRegistry'

# bytes of the blob identifiers of the TLC-exported contents (b3: the empty blob)
TLC_BLOBS = {'b1': 'blob one', 'b2': '{"two":2}', 'b3': ''}

MC_QUICK = [('OciTestContentMC_live.cfg', 'termination as a liveness property: up to 2 manifests, every subject relation, 2 blob sets, 1 tag'),
            ('OciTestContentMC_subj3.cfg', '3 manifests, every subject relation (none/self/chain/fork/cycle/unknown id/blob id), all blobs or one missing, 3 tag bindings')]
MC_THOROUGH = [('OciTestContentMC_live.cfg', MC_QUICK[0][1]),
               ('OciTestContentMC_tiny.cfg', 'up to 2 manifests, every subject relation, every set of 3 blobs, every binding of 2 tags'),
               ('OciTestContentMC_subj3.cfg', MC_QUICK[1][1])]
# (OciTestContentMC_subj4.cfg - 4 manifests, all 2401 subject relations, 531,643 states - and OciTestContentMC_mix3.cfg - 3 manifests,
# 3 blob sets, every binding of 2 tags, 274,927 states - pass (2-5 min each) but are kept out of the tier: on a loaded machine they
# ran into the model-check timeout, which the runner has to report as a machinery failure of the whole check)
# (OciTestContentMC_all3.cfg - up to 3 manifests, every set of blobs, every binding of two tags: 663,812 states - is not part of a tier)


def _validate_trace(ctx, module, cfg, trace, consts=None, timeout=900, first_line=2):
    """vlib.validate_trace with small JVMs (a validation run is single-worker and many run side by side, next to the
    model-checking runs of this stage) and a retry when TLC gives no verdict at all: on a heavily loaded machine a JVM
    was seen to die without output (same wrapper as checks/c17.py).  Same result shape."""
    last = ''
    for attempt in range(3):
        d = ctx.specdir()
        with open(trace) as f:
            hdr = json.loads(f.readline())
        open(os.path.join(d, 'TraceHdr.tla'), 'w').write(vlib.tlaval.header_module('TraceHdr', hdr))
        c = vlib.cfg_with(ctx, d, cfg, consts) if consts else cfg
        jt = tempfile.mkdtemp(prefix='jt-', dir=ctx.work)      # run_tlc's env argument replaces its own JAVA_TOOL_OPTIONS
        r = vlib.run_tlc(ctx, d, module + '.tla', c, workers=1, timeout=timeout,
                         env={'TRACE_FILE': os.path.abspath(trace),
                              'JAVA_TOOL_OPTIONS': (os.environ.get('JAVA_TOOL_OPTIONS', '') + ' -Djava.io.tmpdir=' + jt +
                                                    ' -Xss64m -Xmx3g -XX:ParallelGCThreads=2 -XX:CICompilerCount=2').strip()})
        shutil.rmtree(d, ignore_errors=True)
        shutil.rmtree(jt, ignore_errors=True)
        out = r['out']
        if r['ok']:
            return dict(accepted=True, states=r.get('distinct', 0), generated=r.get('generated', 0))
        if 'Postcondition' in out and 'is false' in out and 'depth' in r:
            return dict(accepted=False, line=first_line + r['depth'] - 1, states=r.get('distinct', 0))
        last = 'rc=%s wall=%.1fs\n%s\n...%s' % (r['rc'], r['wall'], vlib.tlc_errors(out), out[-1500:])
        if 'Attempted' in out or 'nonexistent' in out or 'Parse Error' in out or 'semantic' in out.lower() or 'StackOverflow' in out:
            break          # deterministic: the specification cannot evaluate this trace
        ctx.log('trace validation of %s gave no verdict (attempt %d), retrying: rc=%s' % (os.path.basename(trace), attempt + 1, r['rc']))
        time.sleep(2 + 3 * attempt)
    raise vlib.Machinery('trace validation %s on %s broke:\n%s' % (module, trace, last))


@contextlib.contextmanager
def _small_jvms():
    """judge_traces / classify look validate_trace up in vlib: swapped for the duration of this stage only."""
    saved = vlib.validate_trace
    vlib.validate_trace = _validate_trace
    try:
        yield
    finally:
        vlib.validate_trace = saved


def _obj(x):
    """TLC's ToJson renders an empty function as []."""
    return x if isinstance(x, dict) else {}


def tlc_case(c, repo='r1'):
    """A content exported by TLC -> one repository of a harness case."""
    mans = {}
    for m, x in _obj(c['mans']).items():
        mans[m] = dict(config=x['config'], layers=list(x['layers']), subject=x['subject'], ann=m)
    return dict(blobs={b: TLC_BLOBS[b] for b in c['blobs']}, mans=mans, tags=dict(_obj(c['tags'])))


def export_cases(ctx, quick, badblobs):
    cfg = 'OciTestContentMC_genquick.cfg' if quick else 'OciTestContentMC_gen.cfg'
    conts, _ = vlib.generate(ctx, 'OciTestContentMC.tla', cfg, workers=1, timeout=1800)
    if not conts:
        raise vlib.Machinery('TLC exported no contents')
    if not badblobs:
        # the model's outcome "panic": a manifest that can be computed names a blob the content lacks
        conts = [c for c in conts if c['outcome'] != 'panic']
    rnd = random.Random(ctx.seed)
    want = 160 if quick else 8000
    if len(conts) > want:
        # every outcome class keeps its share; the rest is a seeded sample
        by = {}
        for c in conts:
            by.setdefault(c['outcome'], []).append(c)
        pick = []
        for k in sorted(by):
            pick += rnd.sample(by[k], min(len(by[k]), max(10, want * len(by[k]) // len(conts))))
        conts = pick
    cases = [dict(src='tlc', repos={'r1': tlc_case(c)}) for c in conts]
    # two exported contents side by side in one registry content (PushContent visits them in map order)
    for _ in range(len(conts) // 6):
        a, b = rnd.choice(conts), rnd.choice(conts)
        cases.append(dict(src='tlc2', repos={'r1': tlc_case(a), 'r2': tlc_case(b)}))
    ctx.cov.setdefault('ocitest', {})['tlc_contents'] = dict(exported=len(conts), cases=len(cases),
                                                            outcomes={k: sum(1 for c in conts if c['outcome'] == k) for k in sorted({c['outcome'] for c in conts})})
    return cases


def write_cases(ctx, cases, per):
    d = ctx.sub('ocitest-cases')
    files = []
    for i in range(0, len(cases), per):
        p = os.path.join(d, 'cases%03d.jsonl' % (i // per))
        with open(p, 'w') as f:
            for c in cases[i:i + per]:
                f.write(json.dumps(c) + '\n')
        files.append(p)
    return files


def stage(ctx, quick, badblobs=True):
    """badblobs: also contents whose manifests name a config/layer identifier that is not a blob of the content (HEAD
    panics on them: rejected unless KNOWN_FINDINGS.jsonl lists the relaxation OT1_PanicOnUnknownBlob for this property)."""
    ex = cf.ThreadPoolExecutor(max_workers=6)
    # 1. the model of the pusher, exhaustively (in the background: TLC uses what the rest leaves idle)
    mcs = [ex.submit(vlib.model_check, ctx, 'OciTestContentMC.tla', cfg, 4 if quick else max(4, vlib.NCPU // 2), 1500, what)
           for cfg, what in (MC_QUICK if quick else MC_THOROUGH)]
    build = ex.submit(vlib.build_harness, ctx)
    # 2. contents chosen by TLC (every small content) and seeded-random larger ones, pushed by the real code
    cases = export_cases(ctx, quick, badblobs)
    vh = build.result()
    td = ctx.sub('ocitest-traces')
    traces = []
    for i, p in enumerate(write_cases(ctx, cases, 400)):
        t = os.path.join(td, 'tlc%03d.ndjson' % i)
        vlib.run_harness(ctx, vh, ['ocitest', '-cases', p, '-out', t])
        traces.append(t)
    nrand = 120 if quick else 2500
    per = 80     # per file; the harness keeps the catalogue of a file small (it is one TLA+ expression)
    i = 0
    while nrand > 0:
        t = os.path.join(td, 'rand%03d.ndjson' % i)
        o = vlib.run_harness(ctx, vh, ['ocitest', '-n', str(min(per, nrand)), '-seed', str(ctx.seed * 1000 + i), '-out', t] + (['-badblobs'] if badblobs else []))
        traces.append(t)
        # the harness stops early when the catalogue of the file is full
        nrand -= max(1, json.loads(o.strip().splitlines()[-1])['scenarios'])
        i += 1
    per_op = ctx.cov['per_op']
    outcomes = {}
    for t in traces:
        with open(t) as f:
            f.readline()
            for l in f:
                j = l.find('"op":"')
                op = l[j + 6:l.find('"', j + 6)]
                per_op[op] = per_op.get(op, 0) + 1
                if op in ('expect', 'panic'):
                    e = json.loads(l)
                    k = 'panic' if op == 'panic' else ('ok' if e['ok'] else e['errkind'])
                    outcomes[k] = outcomes.get(k, 0) + 1
    ctx.cov.setdefault('ocitest', {})['outcomes_observed'] = outcomes
    with open(traces[-1]) as f:
        f.readline()
        first = json.loads(f.readline())
    ctx.cov['samples'] = list(ctx.cov['samples']) + [dict(ocitest_content=first.get('case'))]
    # 3. TLC validates every recorded push and judges the outcome
    with _small_jvms():
        n = vlib.judge_traces(ctx, MODULE, CFG, traces, strict=STRICT, shard_lines=1500 if quick else 4000, label=LABEL)
    for m in mcs:
        m.result()
    ex.shutdown()
    ctx.assumptions += ['ocitest: manifests carry a media type (the image manifest type); identifiers are plain tokens without commas or quotes',
                        'ocitest: the harness reads manifest bytes with its own JSON reader to fill the catalogue (config/layers/subject digests -> content ids)']
    return n


def replay(ctx, path):
    vh = vlib.build_harness(ctx)
    out = os.path.join(ctx.sub('replay'), 'trace.ndjson')
    vlib.run_harness(ctx, vh, ['ocitest', '-replay', path, '-out', out])
    before = len(ctx.violations)
    with _small_jvms():
        vlib.judge_traces(ctx, MODULE, CFG, [out], strict=STRICT, label='replay')
    for k in ctx.known:
        print('KNOWN-FINDING: property=%s %s: %s' % (ctx.pid, k['id'], k['what']))
    if len(ctx.violations) > before:
        vlib.report_violations(ctx, before)
        return 1
    print('replay accepted: the stored scenario no longer violates %s' % ctx.pid)
    return 0


def is_replay_of_stage(path):
    """True if the replay file was written by this stage (its catalogue says so)."""
    try:
        with open(path) as f:
            return json.loads(f.readline()).get('catmeta', {}).get('kind') == 'ocitest'
    except (OSError, ValueError):
        return False


def main(argv):
    if len(argv) >= 3 and argv[1] == '--replay':
        ctx = vlib.Ctx('C02', 'quick')
        try:
            return replay(ctx, argv[2])
        except vlib.Machinery as e:
            print('MACHINERY-FAILURE C02: %s' % e)
            return 2
        finally:
            ctx.cleanup()
    tier = argv[1] if len(argv) > 1 else 'quick'
    ctx = vlib.Ctx('C02', tier)
    try:
        stage(ctx, tier == 'quick', badblobs='nobadblobs' not in argv)
        return vlib.finish(ctx, rule='ocitest stage alone: every call PushContent makes is a validated step of OciRegistry; the expect event judges the outcome')
    except vlib.Machinery as e:
        print('MACHINERY-FAILURE C02: %s' % e)
        ctx.cleanup()
        return 2


if __name__ == '__main__':
    sys.exit(main(sys.argv))
