"""C01: content integrity - bytes served for a digest are the bytes pushed, on every stack."""
import regcommon as rc
import vlib

STRICT = {'K1_DeclaredTypeGoverns': False, 'F12_PushBlobUncoded': False}
STACKS_Q = 'mem;http(mem);debug(http(debug(mem)));select(mem);sub(mem);unify(mem,mem);http(http(mem));http(funcsnr(mem))'
STACKS_T = STACKS_Q + ';funcs(mem);http(funcs(mem));unifyc(mem,mem);http(sub(http(mem)));http(unify(mem,http(mem)));http:omitdigest(mem)'


def run(ctx):
    quick = ctx.tier == 'quick'
    vlib.model_check(ctx, 'OciRegistryMC.tla', 'OciRegistryMC_quick.cfg', what='reference model: reads return stored content, ranges are slices, refused pushes store nothing')
    if not quick:
        vlib.model_check(ctx, 'OciRegistryMC.tla', 'OciRegistryMC_up.cfg', what='uploads, mounts, all range pairs on 0/1/2-byte blobs')
    rc.reg_check(ctx, STACKS_Q if quick else STACKS_T, STRICT, n_tlc=8 if quick else 200, n_rand=24 if quick else 800,
                 cover='OciRegistryCover_all.cfg', cover_sample=200 if quick else 4000, wire=300 if quick else -1,
                 profiles=('range', 'all', 'upload'), tlc_cfg='OciRegistryGenNoUp.cfg',
                 # walks of pushes, deletes and range reads at every boundary pair (ends before, at, one past and beyond the blob's end)
                 extra_gen=[('OciRegistryGenRange.cfg', 12 if quick else 300, 18)], honest=True, label='all stacks vs OciRegistry (content)')
    # third sentence of the property: corrupted content read through the client never ends in a clean EOF
    # (client fault family: model check of CorruptNeverCleanEOF, its response scripts through the real client, validation)
    import c18
    c18.corrupt_clause(ctx, quick)
    ctx.assumptions += ['independent sha256 in the harness maps bytes read to catalogue contents', 'ranges on block contents fall on block boundaries']
    return vlib.finish(ctx, rule='contents of length 0,1,2,3 (NUL, UTF-8 fragments), a 16 KiB block content and a 140 KiB manifest are pushed by every path '
                       '(monolithic, chunked, single POST, plain-HTTP PATCH/PUT requests at any offset, mount, manifest by tag/digest, wrong digest/size declared) and read back completely and by ranges at every boundary through '
                       'every stack; each read event carries the content the bytes hash to, the byte count, the reader descriptor and (for ranges) the slice, and TLC '
                       'requires them to be what OciRegistry says')


def replay(ctx, path):
    import c18
    if c18.is_faults_trace(path):
        return c18.replay(ctx, path)
    return rc.replay_reg(ctx, path, strict=STRICT)
