"""C20: the function-table registry ociregistry.Funcs is total (OciFuncs.tla).

Direction A: TLC checks OwnFieldOnly / totality over the case family and exports every case with
its predicted outcome; the harness builds one *Funcs value per case by reflection and calls the
method.  Direction B: every recorded call is validated by TLC against OciFuncs (OciFuncsTrace)."""
import concurrent.futures as cf
import json
import os
import threading

import vlib

MODULE, CFG = 'OciFuncsTrace', 'OciFuncsTrace.cfg'
STRICT = {'StrictErrName': False}
KINDS = ('delegate', 'custom', 'unsupported')


def export_cases(ctx):
    """TLC model-checks the case families and prints every realizable case with the predicted outcome:
    the field-set family with generated arguments, and the argument-profile family (special values)."""
    cases = []
    for cfg, what in (('OciFuncsMC.cfg', '18 methods x {each field alone, all but one, all, none} x constructor x nil/non-nil table: '
                                         'OwnFieldOnly (pairwise over the family, and per case), totality, nil = empty, one yield; exported per stub result mode '
                                         '(value, value+error, zero values, zero+error, iterator with errors mid-stream) and constructor kind (fresh error, nil, same value, by argument, panic)'),
                      ('OciFuncsMC_args.cfg', '18 methods x {each field alone, all, none, all but the own} x constructor (and the nil table) x the '
                                              'product of special argument values per parameter (156 profiles), and x {cancelled, expired, nil} context: outcome independent of arguments')):
        cs, r = vlib.generate(ctx, 'OciFuncsMC.tla', cfg, workers=1, timeout=300)
        if not r['ok'] or 'distinct' not in r:
            raise vlib.Machinery('model check %s did not pass:\n' % cfg + vlib.tlc_errors(r['out']))
        if not cs:
            raise vlib.Machinery('TLC exported no cases from %s:\n' % cfg + vlib.tlc_errors(r['out']))
        ctx.cov['states'] += r['distinct']
        ctx.cov['transitions'] += r['generated']
        ctx.cov['model_runs'].append(dict(module='OciFuncsMC.tla', cfg=cfg, distinct=r['distinct'], generated=r['generated'],
                                          depth=r.get('depth'), wall_s=round(r['wall'], 1), what='%s; %d cases exported' % (what, len(cs))))
        for c in cs:
            c.setdefault('av', [])
            c.setdefault('cx', 'live')
            c.setdefault('ck', 'tag' if c['custom'] else 'none')
        cases += cs
    if not any(c['av'] for c in cases) or {c['cx'] for c in cases} != {'live', 'cancelled', 'expired', 'nil'}:
        raise vlib.Machinery('the cases with special argument values / contexts were not all exported')
    # every (method, outcome kind) must be there, or the batch proves nothing about it
    seen = {(c['m'], c['pred']) for c in cases}
    methods = sorted({c['m'] for c in cases})
    missing = [(m, k) for m in methods for k in KINDS if (m, k) not in seen]
    if len(methods) != 18 or missing or not any(c['nilrecv'] for c in cases):
        raise vlib.Machinery('exported case family is incomplete: %d methods, missing %s' % (len(methods), missing[:5]))
    # interleave the methods (a defect of one method is then spread over the validation shards)
    by = {}
    for c in cases:
        by.setdefault(c['m'], []).append(c)
    out = []
    i = 0
    while any(by.values()):
        for m in methods:
            if i < len(by[m]):
                out.append(by[m][i])
        i += 1
        if i > len(cases):
            break
    for n, c in enumerate(out):
        c['id'] = n + 1
    return out


def run_funcs(ctx, vh, out, cases=None, n=0, seed=None, replay=None):
    args = ['funcs', '-out', out, '-seed', str(ctx.seed if seed is None else seed), '-n', str(n)]
    if cases:
        args += ['-cases', cases]
    if replay:
        args += ['-replay', replay]
    o = vlib.run_harness(ctx, vh, args)
    return json.loads(o.strip().splitlines()[-1])


def count(ctx, trace):
    kinds = {}
    with open(trace) as f:
        f.readline()
        for l in f:
            e = json.loads(l)
            if e['op'] == 'reset':
                continue
            ctx.cov['per_op'][e['m']] = ctx.cov['per_op'].get(e['m'], 0) + 1
            k = 'panic' if e['op'] == 'panic' else ('nil table' if e['nilrecv'] else 'set' if e['m'] in e['F'] else 'unset+ctor' if e['custom'] else 'unset')
            kinds[k] = kinds.get(k, 0) + 1
    for k, v in kinds.items():
        ctx.cov.setdefault('per_case_kind', {})
        ctx.cov['per_case_kind'][k] = ctx.cov['per_case_kind'].get(k, 0) + v


def brief(e):
    keep = ('op', 'id', 'm', 'F', 'custom', 'nilrecv', 'sret', 'ck', 'pred', 'av', 'cx', 'passed', 'calls', 'ctor', 'got', 'err', 'yields', 'yieldsE', 'yieldsA', 'seqnil', 'panic', 'pval', 'msg')
    return {k: e[k] for k in keep if k in e}


def samples(trace, want=12):
    out = []
    with open(trace) as f:
        f.readline()
        seen = set()
        for l in f:
            e = json.loads(l)
            if e['op'] == 'reset':
                continue
            key = (e.get('pred'), e['m'] in ('Repositories', 'Tags', 'Referrers'), bool(e.get('av')), e.get('cx'), e.get('ck'), e.get('sret') == 'mid')
            if key in seen:
                continue
            seen.add(key)
            out.append(brief(e))
            if len(out) >= want:
                break
    return out


def name_observations(ctx, trace):
    """Not a verdict: which cases would be rejected if the method name the table reports (second
    argument of the constructor, prefix of the default error) had to be the called method's."""
    hdr, scen = vlib.split_scenarios(trace)
    sel = []
    for s in scen:
        if len(s) == 2:
            e = json.loads(s[1])
            if e['op'] == 'call' and e['F'] == [] and not e['av'] and e['cx'] == 'live' and e['ck'] in ('none', 'tag'):
                sel.append(s)
    obs = []
    p = os.path.join(ctx.sub('strictname'), 'strict.ndjson')
    total = len(sel)
    while sel and len(obs) < 6:
        vlib.write_trace(p, hdr, sel)
        r = vlib.validate_trace(ctx, MODULE, CFG, p, consts={'StrictErrName': True})
        if r['accepted']:
            break
        k = (r['line'] - 2) // 2
        if k >= len(sel):
            raise vlib.Machinery('strict-name pass: rejected line %d beyond the trace' % r['line'])
        e = json.loads(sel[k][1])
        err = e['yields'][0]['e'] if e.get('iter') and e['yields'] else e['err']
        obs.append(dict(m=e['m'], custom=e['custom'], nilrecv=e['nilrecv'],
                        constructor_told=[c['name'] for c in e['ctor']], default_error_names=err['msgname']))
        # first deviating case per method is enough: drop the method's other cases
        sel = [x for x in sel[k + 1:] if json.loads(x[1])['m'] != e['m']]
    ctx.cov['method_name_observations'] = dict(cases_checked=total, first_deviating_case_per_method=obs)
    return sorted({'%s with its field unset reports method name %s' % (o['m'], (o['constructor_told'] or [o['default_error_names']])[0]) for o in obs})


def canary(ctx, trace):
    """Machinery self-test: an accepted event with one output field corrupted must be rejected by TLC."""
    hdr, scen = vlib.split_scenarios(trace)
    picks = {}
    for s in scen:
        for l in s[1:]:
            e = json.loads(l)
            if e['op'] != 'call' or e['iter']:
                continue
            if e['pred'] == 'delegate' and e['m'] == 'GetBlob' and 'delegate' not in picks:
                picks['delegate'] = e
            if e['pred'] == 'unsupported' and e['m'] == 'GetBlob' and 'unsupported' not in picks:
                picks['unsupported'] = e
    if len(picks) < 2:
        raise vlib.Machinery('canary: no GetBlob events to corrupt')
    d = ctx.sub('canary')
    good = os.path.join(d, 'good.ndjson')
    vlib.write_trace(good, hdr, [['{"op":"reset","at":0}', json.dumps(picks['delegate'])], ['{"op":"reset","at":0}', json.dumps(picks['unsupported'])]])
    if not vlib.validate_trace(ctx, MODULE, CFG, good, consts=STRICT)['accepted']:
        ctx.cov['canary'] = 'skipped: the GetBlob events themselves are rejected on this tree'
        return
    bad1 = json.loads(json.dumps(picks['delegate']))
    bad1['calls'][0]['args'][1] = 's:somewhere-else'
    bad2 = json.loads(json.dumps(picks['unsupported']))
    bad2['err']['unsupported'] = False

    def one(item):
        name, b = item
        p = os.path.join(d, 'bad-%s.ndjson' % name.replace(' ', '-'))
        vlib.write_trace(p, hdr, [['{"op":"reset","at":0}', json.dumps(b)]])
        return name, vlib.validate_trace(ctx, MODULE, CFG, p, consts=STRICT)
    with cf.ThreadPoolExecutor(max_workers=2) as ex:
        for name, r in ex.map(one, (('stub argument', bad1), ('error class', bad2))):
            if r['accepted'] or r.get('line') != 3:
                raise vlib.Machinery('canary: a trace with a corrupted %s was not rejected at the corrupted event (%s)' % (name, r))
    ctx.cov['canary'] = 'corrupted stub argument and corrupted error class both rejected by TLC at the corrupted line'


def serialize_sub(ctx):
    """Ctx.sub numbers scratch directories with an unlocked counter; validations run in threads here."""
    lock = threading.Lock()
    orig = ctx.sub

    def sub(name):
        with lock:
            return orig(name)
    ctx.sub = sub


def run(ctx):
    quick = ctx.tier == 'quick'
    serialize_sub(ctx)
    # 1. the model: per-case properties on every case of the family; the cases leave TLC as MBT lines
    cases = export_cases(ctx)
    if not quick:
        vlib.model_check(ctx, 'OciFuncsMC.tla', 'OciFuncsMC_full.cfg', timeout=600,
                         what='all 2^18 field subsets x constructor x nil/non-nil table, each checked for all 18 methods')
    # 2. every exported case once on the real code (plus seeded-random tables and arguments)
    vh = vlib.build_harness(ctx)
    cd = ctx.sub('cases')
    cp = os.path.join(cd, 'cases.jsonl')
    with open(cp, 'w') as f:
        for c in cases:
            f.write(json.dumps(c) + '\n')
    td = ctx.sub('traces')
    t0 = os.path.join(td, 'tlc-cases.ndjson')
    res = run_funcs(ctx, vh, t0, cases=cp)
    if res['cases'] != len(cases):
        raise vlib.Machinery('harness executed %d of %d cases' % (res['cases'], len(cases)))
    traces = [t0]
    if not quick:
        # the same cases again with other argument and result values
        for k in (1, 2):
            t = os.path.join(td, 'tlc-cases-args%d.ndjson' % k)
            run_funcs(ctx, vh, t, cases=cp, seed=ctx.seed + 7919 * k)
            traces.append(t)
    nrand = 300 if quick else 12000
    per = 3000
    i = 0
    while nrand > 0:
        t = os.path.join(td, 'rand%d.ndjson' % i)
        run_funcs(ctx, vh, t, n=min(per, nrand), seed=ctx.seed * 1000 + i)
        traces.append(t)
        nrand -= per
        i += 1
    for t in traces:
        count(ctx, t)
    ctx.cov['samples'] = [dict(tlc_exported_cases=cases[:2] + [c for c in cases if c['pred'] == 'delegate'][:1] + [c for c in cases if c['av']][:1]),
                          dict(recorded_events=samples(t0))]
    ctx.cov['cases_exported_by_tlc'] = len(cases)
    # 3. TLC validates every recorded call against the specification
    #    (meanwhile, on the side: 4. observation without verdict: the method name reported; machinery self-test)
    with cf.ThreadPoolExecutor(max_workers=2) as ex:
        fo = ex.submit(name_observations, ctx, t0)
        fc = ex.submit(canary, ctx, t0)
        nlines = sum(sum(1 for _ in open(t)) for t in traces)
        vlib.judge_traces(ctx, MODULE, CFG, traces, strict=STRICT, shard_lines=max(600, nlines // vlib.NCPU + 2), label='Funcs vs OciFuncs')
        for line in fo.result():
            print('OBSERVATION property=%s (not part of the verdict): %s' % (ctx.pid, line))
        fc.result()
    ctx.assumptions += ['recording stubs, tagged contexts/readers/errors and the rendering of arguments and results by the harness (Go reflect, encoding/json)',
                        'errors.Is and interface identity (==) of Go as the observers of error class and identity',
                        'TLC and the Json/IOUtils community modules']
    return vlib.finish(ctx, rule='each case is one *ociregistry.Funcs value built by reflection (every set field holds a recording stub, the '
                       'constructor records too) and one method call with distinctive arguments, and again with every product of special argument values '
                       '(empty strings/digest, offset pairs (0,-1) (0,0) (-1,-1) (5,3), chunk sizes 0/-1, resume offset -1, nil/empty reader and contents, zero descriptor) and under a cancelled, an expired and the nil context; '
                       ' the event carries inputs and projected outputs; '
                       'TLC accepts it iff it is what Call/Effects of OciFuncs prescribe: stubs run = [own field] with the same arguments and '
                       'results identical to the stub\'s, or no stub run and the error is exactly the constructor\'s / satisfies errors.Is(ErrUnsupported), '
                       'zero values, exactly one yield; a panic has no step')


def replay(ctx, path):
    serialize_sub(ctx)
    vh = vlib.build_harness(ctx)
    out = os.path.join(ctx.sub('replay'), 'trace.ndjson')
    run_funcs(ctx, vh, out, replay=path)
    before = len(ctx.violations)
    vlib.judge_traces(ctx, MODULE, CFG, [out], strict=STRICT, label='replay')
    for k in ctx.known:
        print('KNOWN-FINDING: property=%s %s: %s' % (ctx.pid, k['id'], k['what']))
    if len(ctx.violations) > before:
        vlib.report_violations(ctx, before)
        return 1
    print('replay accepted: the stored scenario no longer violates %s' % ctx.pid)
    return 0
