"""C15: the unified registry (ociunify) is the union view of its two members and replicates every write.

Model: OciUnify.tla (two instances of the reference model OciRegistry + the combination rules).
TLC checks UnionView, TagConflictNeverSilent, PoliciesAgree, WriteBoth, ReadsChangeNothing over all
pairs of member states of a small universe, and EqualStaysEqual over all histories through the
unifier from equal members (uploads with resume included).  Binding: seeded scenarios on the real
ociunify.New(ocimem, ocimem, policy) - members written directly so that they differ, then every
kind of call through the unifier, both policies - recorded with a projection of both members after
every call and validated by TLC against OciUnify (OciUnifyTrace)."""
import concurrent.futures as cf
import json
import os
import time

import vlib

MODULE, CFG = 'OciUnifyTrace', 'OciUnifyTrace.cfg'
MCW = min(8, vlib.NCPU)


def run_unify(ctx, vh, out, n=0, seed=None, cat='rand', replay=None):
    args = ['unify', '-out', out, '-seed', str(ctx.seed if seed is None else seed), '-n', str(n), '-cat', cat]
    if replay:
        args += ['-replay', replay]
    o = vlib.run_harness(ctx, vh, args)
    return json.loads(o.strip().splitlines()[-1])


def count(ctx, trace):
    """Coverage bookkeeping (no verdict): events per call and per situation."""
    sit = ctx.cov.setdefault('situations', {})

    def bump(k):
        sit[k] = sit.get(k, 0) + 1
    after_failed_commit = {}
    diverged = set()
    with open(trace) as f:
        f.readline()
        for l in f:
            if '"op":"snap"' in l:
                continue
            e = json.loads(l)
            op = e['op']
            if op == 'reset':
                after_failed_commit = {}
                diverged = set()
                bump('scenario ' + e['kind'] + '/' + e['pol'])
                continue
            ctx.cov['per_op'][op] = ctx.cov['per_op'].get(op, 0) + 1
            if e.get('via') != 'u' or 'ok' not in e:
                if e.get('via') in ('m0', 'm1'):
                    bump('direct write on one member')
                continue
            msg = e.get('msg', '')
            if any(e.get('wf', ())) and op in ('Write', 'Close', 'Commit', 'Cancel'):
                bump('upload: %s failed on one member alone' % op)
            elif op == 'Commit' and after_failed_commit.get((e['r'], e['u'])):
                bump('upload: Commit repeated on the same unified writer after a one-sided failure')
            if op == 'Write' and any(e.get('wf', ())):
                diverged.add((e['r'], e['u']))
            if op == 'Resume' and (e['r'], e['u']) in diverged:
                bump('resume (offset %s) of an upload on which one member alone failed a write' % ('-1' if e['off'] < 0 else 'given'))
            if op == 'Commit':
                after_failed_commit[(e['r'], e['u'])] = any(e.get('wf', ()))
            if op == 'Referrers' and e['ok'] and len({d['mt'] for d in e.get('descs', [])}) > 1:
                bump('referrers listed under different media types')
            if any(e.get('wf', ())):
                bad = 0 if e['wf'][0] else 1
                bump('%s with a member failing by itself, answering %s' % (
                    op, 'in its own time' if e['first'] < 0 else 'first' if e['first'] == bad else 'after the healthy member'))
            if op in ('GetTag', 'ResolveTag'):
                bump('tag read: conflict reported' if 'conflicting' in msg else 'tag read: ok' if e['ok'] else 'tag read: absent')
            elif op in ('ListTags', 'ListRepos', 'Referrers') and e['ok'] and len(e['items']) >= 5:
                bump('listing ok with 5 or more merged entries (%s)' % op)
            elif op in ('ListTags', 'ListRepos', 'Referrers'):
                bump('listing ok' if e['ok'] else 'listing: error after %d item(s)' % len(e['items']) if 'injected' in msg else 'listing: unknown to both')
            elif msg.startswith('r0 failed') or msg.startswith('r1 failed') or msg.startswith('one push'):
                bump('write refused because one member failed')
            elif msg.startswith('r0 and r1 failed'):
                bump('write refused by both')
            elif op in ('Resume',):
                bump('resume ok' if e['ok'] else 'resume with an id the unifier did not issue')


def samples(trace, want=5):
    out = []
    seen = set()
    with open(trace) as f:
        f.readline()
        for l in f:
            if '"op":"snap"' in l or '"op":"reset"' in l:
                continue
            e = json.loads(l)
            key = (e.get('via') == 'u', e['op'] in ('GetTag', 'ListTags', 'Commit', 'DeleteBlob', 'GetManifest'), e.get('ok'))
            if key in seen or not key[1]:
                continue
            seen.add(key)
            out.append({k: v for k, v in e.items() if k in ('via', 'op', 'r', 'c', 't', 'u', 'dd', 'ok', 'is', 'msg', 'd', 'mt', 'items', 'calls', 'start')})
            if len(out) >= want:
                break
    return out


def once_more(fn, *a, **kw):
    """A TLC process that dies without a word (killed from outside) is started once more."""
    try:
        return fn(*a, **kw)
    except vlib.Machinery as e:
        if str(e).rstrip().endswith(':'):
            return fn(*a, **kw)
        raise


def run(ctx):
    quick = ctx.tier == 'quick'
    with cf.ThreadPoolExecutor(max_workers=3) as ex:
        # 1. the design: all pairs of member states x every call through the unifier; histories from equal members
        f1 = ex.submit(once_more, vlib.model_check, ctx, 'OciUnifyMC.tla', 'OciUnifyMC_view_quick.cfg', workers=MCW,
                       what='all pairs of member states over 1 repository, 2 blobs, 2 manifests, 1 tag (49 x 49: equal, disjoint, overlapping, '
                            'conflicting tag, repository known to none/one/both); every read, listing and write through the unifier, both policies')
        time.sleep(0.2)   # Ctx.sub numbers its directories without a lock
        f2 = ex.submit(once_more, vlib.model_check, ctx, 'OciUnifyMC.tla', 'OciUnifyMC_repl_quick.cfg', workers=MCW,
                       what='all histories of 6 writes (plus reads) through the unifier from equal members, both tag modes, one upload session '
                            'with close/resume at right and wrong offsets/cancel/commit: EqualStaysEqual')
        # 2. the real unifier over two real in-memory registries
        f3 = ex.submit(vlib.build_harness, ctx)
        f1.result()
        f2.result()
        vh = f3.result()
    if not quick:
        for cfg, what in (
                ('OciUnifyMC_view_mediatypes.cfg', 'pairs of member states in which a manifest (and the tag on it) is stored under two different media types'),
                ('OciUnifyMC_view_wfaults.cfg', 'the 49 x 49 pairs with every replicated write also made while either member fails by itself'),
                ('OciUnifyMC_view_faults.cfg', 'the 49 x 49 pairs with a faulty lister on either side (error after 1 item; NAME_UNKNOWN at once): merge rules for errors'),
                ('OciUnifyMC_view_2repos.cfg', '81 x 81 pairs over two repositories (known to none/one/both), mounts through the unifier, merged repository listings'),
                ('OciUnifyMC_repl_faults.cfg', 'histories of 5 writes through the unifier in which any replicated write or upload-writer call (Write, Close, Commit, Cancel) may fail on one member alone and be repeated'),
                ('OciUnifyMC_repl_thorough.cfg', 'all histories of 7 writes from equal members, 2 manifests, two upload sessions')):
            once_more(vlib.model_check, ctx, 'OciUnifyMC.tla', cfg, workers=MCW, timeout=900, what=what)
    td = ctx.sub('traces')
    traces = []
    nfiles, per = (4, 5) if quick else (16, 30)
    for i in range(nfiles):
        t = os.path.join(td, 'unify%d.ndjson' % i)
        run_unify(ctx, vh, t, n=per, seed=ctx.seed * 1000 + i)
        traces.append(t)
    # listings that diverge in both directions over a universe of 8 repositories / 8 tags / 8 referrers of one subject
    for i in range(1 if quick else 6):
        t = os.path.join(td, 'listing%d.ndjson' % i)
        run_unify(ctx, vh, t, n=6 if quick else 30, seed=ctx.seed * 1000 + 500 + i, cat='list')
        traces.append(t)
    for t in traces:
        count(ctx, t)
    sit = ctx.cov['situations']
    for need in ('resume (offset -1) of an upload on which one member alone failed a write', 'resume (offset given) of an upload on which one member alone failed a write', 'upload: Commit repeated on the same unified writer after a one-sided failure', 'upload: Write failed on one member alone', 'referrers listed under different media types', 'listing ok with 5 or more merged entries (ListTags)', 'listing ok with 5 or more merged entries (ListRepos)', 'listing ok with 5 or more merged entries (Referrers)', 'PushBlob with a member failing by itself, answering after the healthy member', 'PushBlob with a member failing by itself, answering first', 'tag read: conflict reported', 'write refused because one member failed', 'listing: unknown to both', 'resume ok'):
        if not sit.get(need):
            raise vlib.Machinery('the batch never reached the situation %r' % need)
    ctx.cov['samples'] = [dict(recorded_events=samples(traces[0]))]
    # 3. TLC validates every recorded call and both members' snapshots against OciUnify
    judge(ctx, traces, shard_lines=4000 if quick else 8000, label='ociunify over two ocimem vs OciUnify')
    ctx.assumptions += ['members are ocimem registries (validated against OciRegistry by C02) with the same tag mode; a failing lister and a member that fails a write by itself (having read the pushed body) or holds its answer back are wrappers of the harness',
                        '"has the tag" for GetTag is what the member itself answers (a member whose tag dangles counts as not having it)',
                        'digest<->content mapping and manifest rendering by the harness; TLC and the Json/IOUtils community modules']
    return vlib.finish(ctx, rule='each scenario writes the two members directly (item by item to both / one / the other; the same tag to the same or '
                       'different manifests; one member left empty), then reads and lists everything through the unifier, then writes through it '
                       '(pushes, deletes, mounts, chunked uploads closed and resumed at right/wrong offsets; a separate family over 8 repositories / 8 tags / 8 referrers of one subject in which each listing kind has at least two entries private to each member, interleaved in sort order, members in both orders; the same digest held by both members under different media types (referrers, tags); calls of the upload writer of one member (Write, Close, Commit, Cancel) failing once and repeated on the same unified writer; replicated writes during which one member - either, answering before or after the healthy one - fails by itself), under both read policies; every call is '
                       'one trace event, followed by the projected state of member 0 and of member 1; TLC accepts iff each event is the step OciUnify '
                       'prescribes (same result as the combination of the two reference models\' answers; both snapshots equal the model members) and '
                       'UnionView, TagConflictNeverSilent, WriteBoth, ReadsChangeNothing, PoliciesAgree, EqualStaysEqual hold on that step')


def judge(ctx, traces, **kw):
    nv, nk = len(ctx.violations), len(ctx.known)
    try:
        return vlib.judge_traces(ctx, MODULE, CFG, traces, **kw)
    except vlib.Machinery as e:
        if not str(e).rstrip().endswith(':'):
            raise
        del ctx.violations[nv:]
        del ctx.known[nk:]
        return vlib.judge_traces(ctx, MODULE, CFG, traces, **kw)


def replay(ctx, path):
    vh = vlib.build_harness(ctx)
    out = os.path.join(ctx.sub('replay'), 'trace.ndjson')
    run_unify(ctx, vh, out, replay=path)
    before = len(ctx.violations)
    judge(ctx, [out], label='replay')
    for k in ctx.known:
        print('KNOWN-FINDING: property=%s %s: %s' % (ctx.pid, k['id'], k['what']))
    if len(ctx.violations) > before:
        vlib.report_violations(ctx, before)
        return 1
    print('replay accepted: the stored scenario no longer violates %s' % ctx.pid)
    return 0
