"""C15: the unified registry (ociunify) is the union view of its two members and replicates every write.

Model: OciUnify.tla (two instances of the reference model OciRegistry + the combination rules).
TLC checks UnionView, TagConflictNeverSilent, PoliciesAgree, WriteBoth, ReadsChangeNothing over all
pairs of member states of a small universe, and EqualStaysEqual over all histories through the
unifier from equal members (uploads with resume included).  Binding: seeded scenarios on the real
ociunify.New(ocimem, ocimem, policy) - members written directly so that they differ, then every
kind of call through the unifier, both policies - recorded with a projection of both members after
every call and validated by TLC against OciUnify (OciUnifyTrace)."""
import json
import os

import vlib

MODULE, CFG = 'OciUnifyTrace', 'OciUnifyTrace.cfg'
MCW = min(8, vlib.NCPU)


def run_unify(ctx, vh, out, n=0, seed=None, cat='rand', replay=None):
    args = ['unify', '-out', out, '-seed', str(ctx.seed if seed is None else seed), '-n', str(n), '-cat', cat]
    if replay:
        args += ['-replay', replay]
    o = vlib.run_harness(ctx, vh, args)
    return json.loads(o.strip().splitlines()[-1])


def count(ctx, trace):
    """Coverage bookkeeping (no verdict): events per call and per situation."""
    sit = ctx.cov.setdefault('situations', {})

    def bump(k):
        sit[k] = sit.get(k, 0) + 1
    with open(trace) as f:
        f.readline()
        for l in f:
            if '"op":"snap"' in l:
                continue
            e = json.loads(l)
            op = e['op']
            if op == 'reset':
                bump('scenario ' + e['kind'] + '/' + e['pol'])
                continue
            ctx.cov['per_op'][op] = ctx.cov['per_op'].get(op, 0) + 1
            if e.get('via') != 'u' or 'ok' not in e:
                if e.get('via') in ('m0', 'm1'):
                    bump('direct write on one member')
                continue
            msg = e.get('msg', '')
            if op in ('GetTag', 'ResolveTag'):
                bump('tag read: conflict reported' if 'conflicting' in msg else 'tag read: ok' if e['ok'] else 'tag read: absent')
            elif op in ('ListTags', 'ListRepos', 'Referrers'):
                bump('listing ok' if e['ok'] else 'listing: error after %d item(s)' % len(e['items']) if 'injected' in msg else 'listing: unknown to both')
            elif msg.startswith('r0 failed') or msg.startswith('r1 failed') or msg.startswith('one push'):
                bump('write refused because one member failed')
            elif msg.startswith('r0 and r1 failed'):
                bump('write refused by both')
            elif op in ('Resume',):
                bump('resume ok' if e['ok'] else 'resume with an id the unifier did not issue')


def samples(trace, want=5):
    out = []
    seen = set()
    with open(trace) as f:
        f.readline()
        for l in f:
            if '"op":"snap"' in l or '"op":"reset"' in l:
                continue
            e = json.loads(l)
            key = (e.get('via') == 'u', e['op'] in ('GetTag', 'ListTags', 'Commit', 'DeleteBlob', 'GetManifest'), e.get('ok'))
            if key in seen or not key[1]:
                continue
            seen.add(key)
            out.append({k: v for k, v in e.items() if k in ('via', 'op', 'r', 'c', 't', 'u', 'dd', 'ok', 'is', 'msg', 'd', 'mt', 'items', 'calls', 'start')})
            if len(out) >= want:
                break
    return out


def run(ctx):
    quick = ctx.tier == 'quick'
    # 1. the design: all pairs of member states x every call through the unifier; histories from equal members
    vlib.model_check(ctx, 'OciUnifyMC.tla', 'OciUnifyMC_view_quick.cfg', workers=MCW,
                     what='all pairs of member states over 1 repository, 2 blobs, 2 manifests, 1 tag (49 x 49: equal, disjoint, overlapping, '
                          'conflicting tag, repository known to none/one/both); every read, listing and write through the unifier, both policies')
    vlib.model_check(ctx, 'OciUnifyMC.tla', 'OciUnifyMC_repl_quick.cfg', workers=MCW,
                     what='all histories of 6 writes (plus reads) through the unifier from equal members, both tag modes, one upload session '
                          'with close/resume at right and wrong offsets/cancel/commit: EqualStaysEqual')
    if not quick:
        vlib.model_check(ctx, 'OciUnifyMC.tla', 'OciUnifyMC_view_thorough.cfg', workers=MCW, timeout=900,
                         what='pairs of member states with manifests stored under two media types, lister faults on either side')
        vlib.model_check(ctx, 'OciUnifyMC.tla', 'OciUnifyMC_repl_thorough.cfg', workers=MCW, timeout=900,
                         what='histories of 7 writes, 2 manifests, two upload sessions')
    # 2. the real unifier over two real in-memory registries
    vh = vlib.build_harness(ctx)
    td = ctx.sub('traces')
    traces = []
    nfiles, per = (4, 8) if quick else (16, 50)
    for i in range(nfiles):
        t = os.path.join(td, 'unify%d.ndjson' % i)
        run_unify(ctx, vh, t, n=per, seed=ctx.seed * 1000 + i)
        traces.append(t)
    for t in traces:
        count(ctx, t)
    sit = ctx.cov['situations']
    for need in ('tag read: conflict reported', 'write refused because one member failed', 'listing: unknown to both', 'resume ok'):
        if not sit.get(need):
            raise vlib.Machinery('the batch never reached the situation %r' % need)
    ctx.cov['samples'] = [dict(recorded_events=samples(traces[0]))]
    # 3. TLC validates every recorded call and both members' snapshots against OciUnify
    vlib.judge_traces(ctx, MODULE, CFG, traces, shard_lines=2500 if quick else 6000, label='ociunify over two ocimem vs OciUnify')
    ctx.assumptions += ['members are ocimem registries (validated against OciRegistry by C02) with the same tag mode; a failing lister is a wrapper of the harness',
                        '"has the tag" for GetTag is what the member itself answers (a member whose tag dangles counts as not having it)',
                        'digest<->content mapping and manifest rendering by the harness; TLC and the Json/IOUtils community modules']
    return vlib.finish(ctx, rule='each scenario writes the two members directly (item by item to both / one / the other; the same tag to the same or '
                       'different manifests; one member left empty), then reads and lists everything through the unifier, then writes through it '
                       '(pushes, deletes, mounts, chunked uploads closed and resumed at right/wrong offsets), under both read policies; every call is '
                       'one trace event, followed by the projected state of member 0 and of member 1; TLC accepts iff each event is the step OciUnify '
                       'prescribes (same result as the combination of the two reference models\' answers; both snapshots equal the model members) and '
                       'UnionView, TagConflictNeverSilent, WriteBoth, ReadsChangeNothing, PoliciesAgree, EqualStaysEqual hold on that step')


def replay(ctx, path):
    vh = vlib.build_harness(ctx)
    out = os.path.join(ctx.sub('replay'), 'trace.ndjson')
    run_unify(ctx, vh, out, replay=path)
    before = len(ctx.violations)
    vlib.judge_traces(ctx, MODULE, CFG, [out], label='replay')
    for k in ctx.known:
        print('KNOWN-FINDING: property=%s %s: %s' % (ctx.pid, k['id'], k['what']))
    if len(ctx.violations) > before:
        vlib.report_violations(ctx, before)
        return 1
    print('replay accepted: the stored scenario no longer violates %s' % ctx.pid)
    return 0
