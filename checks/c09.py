"""C09: auth scopes (ociauth.Scope) behave as finite sets of (type, resource, action) triples.

1. TLC checks the laws of the set model OciScope (lattice laws, Iter strictly ascending and exact,
   Len = cardinality, unlimited is top, catalog independent of repository scopes, print.parse,
   text kept by a union that adds nothing) over every subset of a 9-triple universe plus the
   unlimited scope, and every ordered pair (quick: pairs over a 6-triple sub-universe).
2. The same state space is exported by TLC as cases (direction A); the harness executes one small
   program per case on the real ociauth.Scope (exported API only), plus seeded-random programs
   over larger alphabets, logging every input as structure and every output as data.
3. TLC (OciScopeTrace) evaluates the set semantics on every logged event and requires each logged
   output to be the model's (direction B).  Verdicts come only from events TLC rejects."""
import concurrent.futures as cf
import json
import os
import re
import shutil
import threading

import tlaval
import vlib

MODULE, CFG = 'OciScopeTrace', 'OciScopeTrace.cfg'


def _cases(ctx, quick):
    cases, r = _again(ctx, 'case export', lambda: vlib.generate(ctx, 'OciScopeMC.tla', 'OciScopeGen_%s.cfg' % ('quick' if quick else 'thorough'),
                                                                workers=1, timeout=900))
    uni = [c for c in cases if c.get('kind') == 'universe']
    rest = [c for c in cases if c.get('kind') != 'universe']
    npair = 65 if quick else 513          # scopes over the pair universe (2^6 or 2^9 sets, and unlimited)
    if len(uni) != 1 or len(rest) != 513 + npair * npair - npair:
        raise vlib.Machinery('case export: %d universe lines, %d cases\n%s' % (len(uni), len(rest), vlib.tlc_errors(r['out'])))
    # the hand-written byte order of the MC module must be the real one (the traces use the
    # harness-computed order; this guards the model-level Iter law against a typo)
    strs = uni[0]['strs']
    if sorted(strs, key=lambda s: s.encode()) != strs or len(set(strs)) != len(strs):
        raise vlib.Machinery('OciScopeMC.MCStrs is not strictly ascending in byte order: %r' % strs)
    if not all(x in strs for t in uni[0]['u'] for x in t):
        raise vlib.Machinery('OciScopeMC universe uses strings outside MCStrs')
    return uni[0], rest


def _count(ctx, trace):
    with open(trace) as f:
        f.readline()
        for l in f:
            if l.startswith('{"op":"reset"'):
                continue
            e = json.loads(l)
            po = ctx.cov['per_op']
            po[e['op']] = po.get(e['op'], 0) + 1
            for d in e.get('defs', []):
                k = 'def:' + d['k']
                po[k] = po.get(k, 0) + 1
            if e['op'] == 'case':
                po['holds_answers'] = po.get('holds_answers', 0) + sum(len(h) for h in e['holds'])
                po['contains_answers'] = po.get('contains_answers', 0) + sum(len(h) for h in e['contains'])


def _sample(trace, n, skip=0):
    out = []
    with open(trace) as f:
        f.readline()
        for l in f:
            if l.startswith('{"op":"reset"'):
                continue
            if skip > 0:
                skip -= 1
                continue
            e = json.loads(l)
            out.append(dict(src=e.get('src'),
                            defs=[dict(k=d['k'], items=d['items'], text=d['text'], x=d['x'], y=d['y'],
                                       observed=dict(iter=d['obs']['iter'], len=d['obs']['len'], text=d['obs']['text']))
                                  for d in e.get('defs', [])[:4] if 'obs' in d],
                            probes=e.get('probes', [])[:3], holds=[h[:3] for h in e.get('holds', [])[:4]]))
            if len(out) >= n:
                break
    return out


def _again(ctx, what, f):
    """Runs f(); repeats it (twice at most) when the TLC process ended without a verdict and without
    any error text - seen when a JVM is killed from outside while 40 others run.  A real error has
    text and is raised at once."""
    for attempt in range(3):
        try:
            return f()
        except vlib.Machinery as e:
            if attempt == 2 or not str(e).rstrip().endswith(':'):
                raise
            ctx.log('TLC ended without verdict and without error text (%s); running it again' % what)


def _validate(ctx, trace):
    return _again(ctx, os.path.basename(trace), lambda: vlib.validate_trace(ctx, MODULE, CFG, trace))


def _judge_traces(ctx, paths, label):
    """vlib.judge_traces with the same repetition."""
    nv, nk = len(ctx.violations), len(ctx.known)

    def f():
        del ctx.violations[nv:], ctx.known[nk:]
        return vlib.judge_traces(ctx, MODULE, CFG, paths, label=label)
    return _again(ctx, label, f)


def _diagnose(ctx, trace, attempt=0):
    """All rejected lines of an already rejected trace, in one TLC run (Diagnose = TRUE: a rejected
    event is printed and skipped; events are independent of one another)."""
    d = ctx.specdir()
    with open(trace) as f:
        hdr = json.loads(f.readline())
    open(os.path.join(d, 'TraceHdr.tla'), 'w').write(tlaval.header_module('TraceHdr', hdr))
    cfg = vlib.cfg_with(ctx, d, CFG, {'Diagnose': True})
    r = vlib.run_tlc(ctx, d, MODULE + '.tla', cfg, workers=1, timeout=900, env={'TRACE_FILE': os.path.abspath(trace)})
    shutil.rmtree(d, ignore_errors=True)
    if not r['ok'] and not vlib.tlc_errors(r['out']) and attempt < 2:
        return _diagnose(ctx, trace, attempt + 1)
    if not r['ok']:
        raise vlib.Machinery('diagnosis run on %s broke (rc %s):\n%s' % (trace, r['rc'], vlib.tlc_errors(r['out']) or r['out'][-1500:]))
    return sorted(set(int(m) for m in re.findall(r'^<<"REJECTED", (\d+)>>$', r['out'], re.M)))


def _judge(ctx, traces, shard_lines, label, report=16):
    """Like vlib.judge_traces, but bounded on a tree where many scenarios are rejected: every shard
    is validated once with the strict specification; a rejected shard is diagnosed in one more run;
    up to `report` of the rejected scenarios are then handed, one file each, to vlib.judge_traces
    (strict re-validation in isolation, known-finding relaxations, replay files, verdict)."""
    sd = ctx.sub('shards')
    files = []
    for t in traces:
        hdr, scen = vlib.split_scenarios(t)
        cur, n = [], 0
        for sc in scen:
            cur.append(sc)
            n += len(sc)
            if n >= shard_lines:
                files.append((hdr, cur))
                cur, n = [], 0
        if cur:
            files.append((hdr, cur))

    def work(item):
        i, (hdr, scen) = item
        p = os.path.join(sd, 'shard%03d.ndjson' % i)
        vlib.write_trace(p, hdr, scen)
        r = _validate(ctx, p)
        if r['accepted']:
            return len(scen), [], r.get('states', 0)
        owner = {}
        line = 2
        for k, sc in enumerate(scen):
            for _ in sc:
                owner[line] = k
                line += 1
        lines = _diagnose(ctx, p)
        if not lines or r['line'] not in lines:
            raise vlib.Machinery('diagnosis of %s disagrees with the verdict (rejected at line %d, diagnosed %r)' % (p, r['line'], lines[:5]))
        bad = sorted(set(owner[x] for x in lines))
        return len(scen) - len(bad), [(hdr, scen[k]) for k in bad], len(owner)

    with cf.ThreadPoolExecutor(max_workers=vlib.NCPU) as ex:
        results = list(ex.map(work, enumerate(files)))
    accepted = sum(r[0] for r in results)
    ctx.cov['traces_validated_against_impl'] += accepted
    ctx.cov['events_validated'] += sum(r[2] for r in results)
    rejected = [b for r in results for b in r[1]]
    ctx.log('%s: %d scenarios accepted, %d rejected' % (label, accepted, len(rejected)))
    if rejected:
        ctx.cov['rejected_scenarios'] = len(rejected)
        # a spread over the shards (the random programs come last)
        step = max(1, len(rejected) // report)
        chosen = rejected[::step][:report - 1]
        if rejected[-1] not in chosen:
            chosen.append(rejected[-1])
        rd = ctx.sub('rejected')
        paths = []
        for i, (hdr, sc) in enumerate(chosen):
            p = os.path.join(rd, 'rej%02d.ndjson' % i)
            vlib.write_trace(p, hdr, [sc])
            paths.append(p)
        before = len(ctx.violations) + len(ctx.known)
        _judge_traces(ctx, paths, '%s: %d of the %d rejected scenarios in isolation' % (label, len(paths), len(rejected)))
        if len(ctx.violations) + len(ctx.known) == before:
            raise vlib.Machinery('scenarios rejected in their shard were accepted in isolation')
    return accepted


def _canary(ctx, trace):
    """The binding is not vacuous: an accepted event with one output corrupted must be rejected
    (machinery failure otherwise).  Three corruptions of one event, one TLC run each."""
    with open(trace) as f:
        hdr = f.readline().rstrip('\n')
        cand = None
        for l in f:
            if not l.startswith('{"op":"case"'):
                continue
            e = json.loads(l)
            if len(e['defs']) >= 3 and any(len(d['obs']['iter']) >= 2 for d in e['defs']):
                p = os.path.join(ctx.sub('canary'), 'orig.ndjson')
                vlib.write_trace(p, hdr, [['{"op":"reset"}', json.dumps(e)]])
                if _validate(ctx, p)['accepted']:
                    cand = e
                    break
    if cand is None:
        ctx.notes.append('canary skipped: no accepted event to corrupt')
        return

    def swap(e):
        d = [d for d in e['defs'] if len(d['obs']['iter']) >= 2][0]
        d['obs']['iter'][0], d['obs']['iter'][1] = d['obs']['iter'][1], d['obs']['iter'][0]

    def holds(e):
        e['holds'][-1][0] = not e['holds'][-1][0]

    def contains(e):
        e['contains'][0][-1] = not e['contains'][0][-1]
    for name, f in (('two iterated items swapped', swap), ('one Holds answer flipped', holds), ('one Contains answer flipped', contains)):
        e = json.loads(json.dumps(cand))
        f(e)
        p = os.path.join(ctx.sub('canary'), 'corrupt.ndjson')
        vlib.write_trace(p, hdr, [['{"op":"reset"}', json.dumps(e)]])
        if _validate(ctx, p)['accepted']:
            raise vlib.Machinery('canary: TLC accepted an event with %s' % name)
    ctx.cov['canary'] = 'an accepted event with (a) two iterated items swapped, (b) a Holds answer flipped, (c) a Contains answer flipped is rejected'
    ctx.log('canary: 3 corrupted events rejected')


def _threadsafe(ctx):
    """Ctx.sub numbers the scratch directories with an unguarded counter and is called from the
    validation threads (via Ctx.specdir): two threads could be handed the same directory."""
    lock = threading.Lock()
    sub = ctx.sub

    def locked(name):
        with lock:
            return sub(name)
    ctx.sub = locked


def run(ctx):
    quick = ctx.tier == 'quick'
    _threadsafe(ctx)
    # 1. the model
    _again(ctx, 'model check', lambda: vlib.model_check(
        ctx, 'OciScopeMC.tla', 'OciScopeMC_%s.cfg' % ('quick' if quick else 'thorough'),
        what='9-triple universe: all 2^9 sets + unlimited; ordered pairs over %s' %
        ('a 6-triple sub-universe (65^2)' if quick else 'the whole universe (513^2)')))
    # 2. cases chosen by TLC, random programs; executed on the real code
    uni, cases = _cases(ctx, quick)
    cd = ctx.sub('cases')
    cp = os.path.join(cd, 'cases.jsonl')
    with open(cp, 'w') as f:
        f.write(json.dumps(uni) + '\n')
        for c in cases:
            f.write(json.dumps(c) + '\n')
    vh = vlib.build_harness(ctx)
    td = ctx.sub('traces')
    t1 = os.path.join(td, 'tlc.ndjson')
    vlib.run_harness(ctx, vh, ['scope', '-cases', cp, '-seed', str(ctx.seed), '-full-every', '1' if quick else '16', '-out', t1])
    traces = [t1]
    nrand = 1500 if quick else 30000
    per = 10000
    i = 0
    while nrand > 0:
        t = os.path.join(td, 'rand%d.ndjson' % i)
        vlib.run_harness(ctx, vh, ['scope', '-n', str(min(per, nrand)), '-seed', str(ctx.seed * 1000 + i), '-out', t])
        traces.append(t)
        nrand -= per
        i += 1
    ctx.log('executed %d trace files on the real code' % len(traces))
    nlines = 0
    for t in traces:
        _count(ctx, t)
        with open(t) as f:
            nlines += sum(1 for _ in f)
    ctx.cov['samples'] = [dict(tlc_cases=cases[:2] + cases[-2:], universe=uni['u']),
                          dict(recorded_tlc_case=_sample(t1, 1, skip=37)), dict(recorded_random=_sample(traces[-1], 2))]
    ctx.log('%d trace lines' % nlines)
    # 3. TLC judges every event
    shard = max(800, nlines // 8 + 2) if quick else 6000
    _judge(ctx, traces, shard, 'ociauth.Scope vs OciScope')
    if not quick:
        _canary(ctx, traces[-1])
    ctx.assumptions += ['byte order and lexical class of the input strings are computed by the harness (Go sort.Strings, strings.Count) and '
                        'handed to TLC as data (TLC cannot compare strings); the specification checks only that the enumeration is injective',
                        'rendering of a field structure to a scope string is done by the harness and re-derived by TLC (string concatenation) for every event',
                        'TLC and the Json/IOUtils community modules']
    return vlib.finish(ctx, rule='every program (one per TLC state: all sets and the unlimited scope of the 9-triple universe, all ordered pairs of the '
                       'pair universe; seeded-random programs over ~80 strings incl. separators inside fields, up to 32 repositories) is one trace event: '
                       'definitions zero/new/parse/unl/union/canon with, per value, IsUnlimited, IsEmpty, Len, Iter order, an interrupted Iter, String, '
                       'ParseScope(String) and the full Holds/Contains/Equal tables; TLC accepts the event iff every output is what OciScope computes')


def replay(ctx, path):
    _threadsafe(ctx)
    vh = vlib.build_harness(ctx)
    out = os.path.join(ctx.sub('replay'), 'trace.ndjson')
    vlib.run_harness(ctx, vh, ['scope', '-replay', path, '-seed', str(ctx.seed), '-out', out])
    before = len(ctx.violations)
    _judge_traces(ctx, [out], 'replay')
    for k in ctx.known:
        print('KNOWN-FINDING: property=%s %s: %s' % (ctx.pid, k['id'], k['what']))
    if len(ctx.violations) > before:
        vlib.report_violations(ctx, before)
        return 1
    print('replay accepted: the stored scenario no longer violates %s' % ctx.pid)
    return 0
