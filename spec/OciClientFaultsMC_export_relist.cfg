SPECIFICATION MCSpec
CONSTANTS
  DefaultN = 5
  Threshold = 4
  ErrLimit = 8192
  DefaultChunk = 50
  MaxAlloc = 100
  PageSizeRule = "le0"
  GuardLocation = TRUE
  GuardAlloc = TRUE
  StrictRangeTooLong = FALSE
  PageSizes <- PS12
  MaxResp = 3
  MaxCalls = 3
  Families = {"relist"}
  SizesForAll = FALSE
  Level = "lite"
INVARIANT Props
