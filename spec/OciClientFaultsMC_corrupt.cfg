SPECIFICATION MCSpecQ
CONSTANTS
  DefaultN = 5
  Threshold = 4
  ErrLimit = 8192
  DefaultChunk = 50
  MaxAlloc = 100
  PageSizeRule = "le0"
  GuardLocation = TRUE
  GuardAlloc = TRUE
  StrictRangeTooLong = FALSE
  PageSizes <- PS1
  MaxResp = 3
  MaxCalls = 4
  Families = {"read", "range"}
  SizesForAll = FALSE
  Level = "full"
INVARIANT Props
PROPERTY RankDecreases
