SPECIFICATION Spec
CONSTANTS
  AmbiguityFirst = FALSE
  Kinds = {"up", "auth", "authn", "authu", "idt", "idtu", "idta", "empty", "bad"}
  MaxKeys = 3
  Export = TRUE
INVARIANTS
  InvDeterministic
  InvPrecedence
  InvCollisionFails
  Emit
PROPERTY PropLookupOrderIrrelevant
CHECK_DEADLOCK FALSE
