SPECIFICATION Spec
CONSTANTS
  AmbiguityFirst = FALSE
  Kinds = {"up", "authn", "authu", "idt", "idtu", "idta", "empty", "email", "bad"}
  MaxKeys = 3
  Export = TRUE
INVARIANTS
  InvDeterministic
  InvPrecedence
  InvCollisionFails
  Emit
PROPERTY PropLookupOrderIrrelevant
CHECK_DEADLOCK FALSE
