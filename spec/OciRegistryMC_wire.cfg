SPECIFICATION SpecW
CONSTANTS
  Repos = {"r1", "r2"}
  Tags = {"t1"}
  Cids = {"b0", "b1", "b2", "img", "idx", "idy", "sub", "bad"}
  BlobIds = {"b1", "b2"}
  ManIds = {}
  Cat <- MCCat
  UploadIds = {"u1"}
  ImmChoices = {FALSE}
  BlockSize = 8
  Pos <- MCPos
INVARIANTS TypeOK TaggedPresent
PROPERTIES FailedCallStoresNothing OnlyPushedAppears RefusedKeepsUploads CommitStoresSession
CONSTRAINT BufBound
VIEW StateView
CHECK_DEADLOCK FALSE
