------------------------------- MODULE OciWire -------------------------------
(***************************************************************************)
(* C06: the HTTP face of ociserver, router and handler table.              *)
(*                                                                         *)
(* A request is a method name, a URL path (a sequence of CHARACTER CODES,  *)
(* split here into "/"-separated segments), the decoded query values       *)
(* n / last / digest / mount / from, the header values Range,              *)
(* Content-Range, Content-Type (character codes) and Content-Length (an    *)
(* integer, -1 = unknown), and a body (length, sha256 digest, JSON class). *)
(* What a segment IS - a valid repository component, a tag, a digest, a    *)
(* decodable upload id, a routing word, empty - is never given: it is      *)
(* computed from the characters by the recognisers of OciRef and by the    *)
(* base64url / UTF-8 recognisers below.                                    *)
(*                                                                         *)
(*   Parse(m, segs, q)      the classification: a request kind with its    *)
(*                          arguments, or "reject" with the set of allowed *)
(*                          statuses, or "free" (see below)                *)
(*   Respond(rq, sc, o)     the response and the backend traffic for a     *)
(*                          request rq, a backend script sc (the answer of *)
(*                          each backend call: success with given data,    *)
(*                          one of the 15 standard errors, an uncoded      *)
(*                          error) and server options o                    *)
(*                                                                         *)
(* Three modes.  "exact": a well-formed request - status, mandated         *)
(* headers, body length, listed items, backend calls with arguments and    *)
(* reader/writer usage are fixed.  "reject": the request has a defect      *)
(* (unknown path, wrong method, invalid name / digest / reference, ...):   *)
(* the response must be an error whose status is the status of one of the  *)
(* defects present (when several are present the order in which they are   *)
(* examined is not part of the property).  Shapes the server does not      *)
(* understand (malformed query string, non-integer n, undecodable upload   *)
(* id, ill-formed Content-Range, manifest JSON that does not parse) may be *)
(* answered with ANY error status - today several are 500/UNKNOWN          *)
(* (DESIGN section 6, O2-O4) - so their set is 400..599.  "free": only the *)
(* universal clauses apply (a Range header the server does not support     *)
(* may be ignored or refused; numbers beyond 9 digits are not evaluated).  *)
(*                                                                         *)
(* Universal clauses, for EVERY response whatever the request (Universal): *)
(* the status is 2xx or 4xx/5xx; an error response has a JSON OCI error    *)
(* body declared as application/json; a standard error code comes with its *)
(* standard status; a Content-Length header equals the body length; no     *)
(* backend call carries an invalid repository, tag or digest; every reader *)
(* / writer obtained from the backend has been closed.  (A panic is an     *)
(* event without an action in OciWireTrace.)                               *)
(*                                                                         *)
(* The backend is quantified over as a script: any of its answers may be   *)
(* success or any error, a writer may report any ID - one that cannot be   *)
(* put into a Location (empty, not UTF-8) must lead to an error response.  *)
(*                                                                         *)
(* Bound to ociregistry/ociserver/*.go, internal/ocirequest/request.go     *)
(* and error.go by OciWireMC (direction A) and OciWireTrace (direction B). *)
(***************************************************************************)
EXTENDS Integers, Sequences, FiniteSets, TLC

Ref == INSTANCE OciRef      \* IsRepository, IsTag, IsDigest over character codes

\* ------------------------------------------------------------------ words
ChSlash == 47
ChDashC == 45
W_v2 == <<118, 50>>                                                  \* "v2"
W_catalog == <<95, 99, 97, 116, 97, 108, 111, 103>>                  \* "_catalog"
W_blobs == <<98, 108, 111, 98, 115>>                                 \* "blobs"
W_uploads == <<117, 112, 108, 111, 97, 100, 115>>                    \* "uploads"
W_manifests == <<109, 97, 110, 105, 102, 101, 115, 116, 115>>        \* "manifests"
W_tags == <<116, 97, 103, 115>>                                      \* "tags"
W_list == <<108, 105, 115, 116>>                                     \* "list"
W_referrers == <<114, 101, 102, 101, 114, 114, 101, 114, 115>>       \* "referrers"
S_v2s == <<47, 118, 50, 47>>                                         \* "/v2/"
S_blobs == <<47, 98, 108, 111, 98, 115, 47>>                         \* "/blobs/"
S_manifests == <<47, 109, 97, 110, 105, 102, 101, 115, 116, 115, 47>>  \* "/manifests/"
S_uploads == <<47, 98, 108, 111, 98, 115, 47, 117, 112, 108, 111, 97, 100, 115, 47>>   \* "/blobs/uploads/"
S_bytes == <<98, 121, 116, 101, 115, 32>>                            \* "bytes "
S_byteseq == <<98, 121, 116, 101, 115, 61>>                          \* "bytes="
S_sha256c == <<115, 104, 97, 50, 53, 54, 58>>                        \* "sha256:"
MT_octet == <<97, 112, 112, 108, 105, 99, 97, 116, 105, 111, 110, 47, 111, 99, 116, 101, 116, 45, 115, 116, 114, 101, 97, 109>>   \* "application/octet-stream"
MT_manifest == <<97, 112, 112, 108, 105, 99, 97, 116, 105, 111, 110, 47, 118, 110, 100, 46, 111, 99, 105, 46, 105, 109, 97, 103, 101, 46, 109, 97, 110, 105, 102, 101, 115, 116, 46, 118, 49, 43, 106, 115, 111, 110>>   \* "application/vnd.oci.image.manifest.v1+json"
MT_json == <<97, 112, 112, 108, 105, 99, 97, 116, 105, 111, 110, 47, 106, 115, 111, 110>>   \* "application/json"
MT_index == <<97, 112, 112, 108, 105, 99, 97, 116, 105, 111, 110, 47, 118, 110, 100, 46, 111, 99, 105, 46, 105, 109, 97, 103, 101, 46, 105, 110, 100, 101, 120, 46, 118, 49, 43, 106, 115, 111, 110>>   \* "application/vnd.oci.image.index.v1+json"

\* ------------------------------------------------------- sequences, numbers
HasPrefix(s, p) == Len(s) >= Len(p) /\ SubSeq(s, 1, Len(p)) = p
From(s, i) == SubSeq(s, i, Len(s))
Front(s, k) == SubSeq(s, 1, Len(s) - k)          \* s without its last k elements
IndexOf(s, c) == Ref!IndexOf(s, c)

\* the "/"-separated segments of a path (always at least one), and back
Split(p) ==
  LET n == Len(p)
      cuts == {i \in 1..n : p[i] = ChSlash}
      k == Cardinality(cuts)
      \* pos[j] = the position of the j-th "/" (pos[0] = 0, pos[k + 1] = n + 1)
      pos == [j \in 0..(k + 1) |-> IF j = 0 THEN 0 ELSE IF j = k + 1 THEN n + 1
                                  ELSE CHOOSE i \in cuts : Cardinality({x \in cuts : x < i}) = j - 1]
  IN [j \in 1..(k + 1) |-> SubSeq(p, pos[j - 1] + 1, pos[j] - 1)]
Join(ss) ==
  LET f[i \in 0..Len(ss)] == IF i = 0 THEN <<>> ELSE IF i = 1 THEN ss[1] ELSE f[i - 1] \o <<ChSlash>> \o ss[i]
  IN f[Len(ss)]

RECURSIVE DecNat(_)
DecNat(n) == IF n < 10 THEN <<48 + n>> ELSE Append(DecNat(n \div 10), 48 + (n % 10))
Dec(n) == IF n < 0 THEN <<ChDashC>> \o DecNat(0 - n) ELSE DecNat(n)      \* decimal text of an integer

IsDigits(s) == Len(s) >= 1 /\ \A i \in 1..Len(s) : s[i] \in 48..57
NatVal(s) == LET f[i \in 0..Len(s)] == IF i = 0 THEN 0 ELSE f[i - 1] * 10 + (s[i] - 48) IN f[Len(s)]
Small(s) == IsDigits(s) /\ Len(s) <= 9           \* TLC integers are 32 bit: longer numerals are not evaluated
\* strconv.Atoi: optional sign, decimal digits.  "big": numerals of 10 or more digits.
Atoi(s) ==
  LET sg == Len(s) >= 1 /\ s[1] \in {43, 45}
      d == IF sg THEN Tail(s) ELSE s
  IN IF ~IsDigits(d) THEN [cls |-> "bad", v |-> 0]
     ELSE IF Len(d) > 9 THEN [cls |-> "big", v |-> 0]
     ELSE [cls |-> "int", v |-> IF s[1] = 45 THEN 0 - NatVal(d) ELSE NatVal(d)]

\* ------------------------------------------------ base64url (raw) and UTF-8
\* base64.RawURLEncoding.DecodeString: alphabet A-Z a-z 0-9 - _, no padding, CR and LF are
\* skipped, a length of 1 mod 4 is an error, unused trailing bits are ignored.
B64Val(c) == IF c \in 65..90 THEN c - 65 ELSE IF c \in 97..122 THEN c - 71
             ELSE IF c \in 48..57 THEN c + 4 ELSE IF c = 45 THEN 62 ELSE IF c = 95 THEN 63 ELSE 64
B64Chr(v) == IF v < 26 THEN v + 65 ELSE IF v < 52 THEN v + 71 ELSE IF v < 62 THEN v - 4 ELSE IF v = 62 THEN 45 ELSE 95
B64Decode(t) ==
  LET u == SelectSeq(t, LAMBDA c : c # 10 /\ c # 13)
      n == Len(u)
      v == [i \in 1..n |-> B64Val(u[i])]
      nb == (n \div 4) * 3 + (IF n % 4 = 2 THEN 1 ELSE IF n % 4 = 3 THEN 2 ELSE 0)
      byte(j) == LET q == 4 * (j \div 3) IN          \* j = 0-based index of the output byte
                 CASE j % 3 = 0 -> v[q + 1] * 4 + (v[q + 2] \div 16)
                   [] j % 3 = 1 -> (v[q + 2] % 16) * 16 + (v[q + 3] \div 4)
                   [] j % 3 = 2 -> (v[q + 3] % 4) * 64 + v[q + 4]
  IN IF n % 4 = 1 \/ \E i \in 1..n : v[i] = 64 THEN [ok |-> FALSE, bytes |-> <<>>]
     ELSE [ok |-> TRUE, bytes |-> [j \in 1..nb |-> byte(j - 1)]]
B64Encode(b) ==
  LET n == Len(b)
      nc == (n \div 3) * 4 + (IF n % 3 = 1 THEN 2 ELSE IF n % 3 = 2 THEN 3 ELSE 0)
      at(i) == IF i <= n THEN b[i] ELSE 0
      chr(k) == LET q == 3 * (k \div 4) IN            \* k = 0-based index of the output character
                CASE k % 4 = 0 -> at(q + 1) \div 4
                  [] k % 4 = 1 -> (at(q + 1) % 4) * 16 + (at(q + 2) \div 16)
                  [] k % 4 = 2 -> (at(q + 2) % 16) * 4 + (at(q + 3) \div 64)
                  [] k % 4 = 3 -> at(q + 3) % 64
  IN [k \in 1..nc |-> B64Chr(chr(k - 1))]

\* utf8.Valid: no overlong forms, no surrogates, nothing above U+10FFFF.
\* states: "s" start; "c1" / "c2" / "c3" = that many plain continuation bytes to go;
\* "e0" "ed" "f0" "f4" = the second byte is range restricted.
Utf8Step(st, b) ==
  LET cont == b \in 128..191 IN
  CASE st = "s" -> IF b < 128 THEN "s" ELSE IF b \in 194..223 THEN "c1" ELSE IF b = 224 THEN "e0"
                   ELSE IF b \in 225..236 \/ b \in 238..239 THEN "c2" ELSE IF b = 237 THEN "ed"
                   ELSE IF b = 240 THEN "f0" ELSE IF b \in 241..243 THEN "c3" ELSE IF b = 244 THEN "f4" ELSE "bad"
    [] st = "c1" -> IF cont THEN "s" ELSE "bad"
    [] st = "c2" -> IF cont THEN "c1" ELSE "bad"
    [] st = "c3" -> IF cont THEN "c2" ELSE "bad"
    [] st = "e0" -> IF b \in 160..191 THEN "c1" ELSE "bad"
    [] st = "ed" -> IF b \in 128..159 THEN "c1" ELSE "bad"
    [] st = "f0" -> IF b \in 144..191 THEN "c2" ELSE "bad"
    [] st = "f4" -> IF b \in 128..143 THEN "c2" ELSE "bad"
    [] OTHER -> "bad"
Utf8Valid(b) == LET f[i \in 0..Len(b)] == IF i = 0 THEN "s" ELSE Utf8Step(f[i - 1], b[i]) IN f[Len(b)] = "s"

\* ------------------------------------------------------ what a token is
\* (OciWireMC substitutes tables over its finite token set for these five, each table
\* computed once by the very same expressions.)
CompOK(t) == Ref!IsRepository(t)         \* t without "/": a valid repository path component
TagOK(t) == Ref!IsTag(t)
DigestOK(t) == Ref!IsDigest(t)
RepoStrOK(s) == Ref!IsRepository(s)      \* a whole repository name (the from= value)
IdOf(t) == LET d == B64Decode(t) IN [ok |-> d.ok /\ Utf8Valid(d.bytes), id |-> d.bytes]
\* a "/"-joined sequence of segments is a repository name iff every segment is a component
RepoOK(ss) == Len(ss) >= 1 /\ \A i \in 1..Len(ss) : CompOK(ss[i])
RepoSegmentwise(ss) == RepoOK(ss) <=> Ref!IsRepository(Join(ss))      \* law, checked by OciWireMC

\* ------------------------------------------------------------ the router
E400 == {400}
E404 == {404}
E405 == {405}
AnyErr == 400..599
Cond(c, S) == IF c THEN S ELSE {}

NoArgs == [repo |-> <<>>, dig |-> <<>>, tag |-> <<>>, from |-> <<>>, id |-> <<>>, n |-> -1, last |-> <<>>]
Rej(S) == [kind |-> "reject", st |-> S] @@ NoArgs
Free == [kind |-> "free", st |-> {}] @@ NoArgs
OkReq(k, a) == [kind |-> k, st |-> {}] @@ a
ReqKinds == {"Ping", "BlobGet", "BlobHead", "BlobDelete", "StartUpload", "UploadBlob", "Mount", "UploadInfo",
             "UploadChunk", "CompleteUpload", "ManifestGet", "ManifestHead", "ManifestPut", "ManifestDelete",
             "TagsList", "Referrers", "Catalog"}

\* q = [ok, n, last, digest, mount, from]: ok = the raw query string decodes; each of the
\* others [has, v] with v the first decoded value ("" when absent: url.Values.Get)
Upload(m, rs, q) ==
  LET mount == q.mount.v
      from == q.from.v
      dig == q.digest.v
      D == Cond(~RepoOK(rs), E400) \cup Cond(m # "POST", E405)
           \cup (IF mount # <<>>
                 THEN IF ~DigestOK(mount) THEN E400 ELSE Cond(from # <<>> /\ ~RepoStrOK(from), E400)
                 ELSE IF dig # <<>> THEN Cond(~DigestOK(dig), E400) ELSE {})
      repo == Join(rs)
  IN IF D # {} THEN Rej(D)
     ELSE IF mount # <<>>
          THEN IF from = <<>> THEN OkReq("StartUpload", [NoArgs EXCEPT !.repo = repo])
               ELSE OkReq("Mount", [NoArgs EXCEPT !.repo = repo, !.dig = mount, !.from = from])
     ELSE IF dig # <<>> THEN OkReq("UploadBlob", [NoArgs EXCEPT !.repo = repo, !.dig = dig])
     ELSE OkReq("StartUpload", [NoArgs EXCEPT !.repo = repo])

\* listing parameters: n absent or empty = no limit (-1)
ListReq(kind, m, rs, q) ==
  LET nn == IF q.n.v = <<>> THEN [cls |-> "int", v |-> -1] ELSE Atoi(q.n.v)
      D == Cond(nn.cls = "bad", AnyErr) \cup Cond(m # "GET", E405) \cup Cond(kind = "TagsList" /\ ~RepoOK(rs), E400)
  IN IF nn.cls = "big" THEN Free
     ELSE IF kind = "Catalog" /\ m = "GET" /\ nn.cls = "bad" THEN Free     \* today: n ignored, 200
     ELSE IF D # {} THEN Rej(D)
     ELSE OkReq(kind, [NoArgs EXCEPT !.repo = Join(rs), !.n = nn.v, !.last = q.last.v])

ByMethod(m, table, a) == IF m \in DOMAIN table THEN OkReq(table[m], a) ELSE Rej(E405)

\* m: method name; p: the segments of URL.Path; q: the query
Parse(m, p, q) ==
  IF ~q.ok THEN Rej(AnyErr)
  ELSE IF p = << <<>>, W_v2 >> \/ p = << <<>>, W_v2, <<>> >>
       THEN (IF m \in {"GET", "HEAD"} THEN OkReq("Ping", NoArgs) ELSE Free)
  ELSE IF ~(Len(p) >= 3 /\ p[1] = <<>> /\ p[2] = W_v2) THEN Rej(E404)
  ELSE LET s == SubSeq(p, 3, Len(p))
           n == Len(s)
  IN
  IF s = <<W_catalog>> THEN ListReq("Catalog", m, <<>>, q)
  ELSE IF n >= 4 /\ s[n] = <<>> /\ s[n - 1] = W_uploads /\ s[n - 2] = W_blobs THEN Upload(m, Front(s, 3), q)
  ELSE IF n >= 3 /\ s[n] = W_uploads /\ s[n - 1] = W_blobs THEN Upload(m, Front(s, 2), q)
  ELSE IF n < 3 THEN Rej(E404)
  ELSE LET last == s[n]
           word == s[n - 1]
           rs == Front(s, 2)
  IN
  IF word = W_blobs THEN
       LET D == Cond(~DigestOK(last), E400) \cup Cond(~RepoOK(rs), E400) \cup Cond(m \notin {"GET", "HEAD", "DELETE"}, E405) IN
       IF D # {} THEN Rej(D)
       ELSE ByMethod(m, [GET |-> "BlobGet", HEAD |-> "BlobHead", DELETE |-> "BlobDelete"], [NoArgs EXCEPT !.repo = Join(rs), !.dig = last])
  ELSE IF word = W_uploads THEN
       IF Len(rs) < 2 \/ rs[Len(rs)] # W_blobs THEN Rej(E404)
       ELSE LET r2 == Front(rs, 1)
                id == IdOf(last)
                D == Cond(~RepoOK(r2), E400) \cup Cond(last = <<>>, E404) \cup Cond(last # <<>> /\ ~id.ok, AnyErr)
                     \cup Cond(m \notin {"GET", "PATCH", "PUT"}, E405) \cup Cond(m = "PUT" /\ ~DigestOK(q.digest.v), E400)
            IN IF D # {} THEN Rej(D)
               ELSE ByMethod(m, [GET |-> "UploadInfo", PATCH |-> "UploadChunk", PUT |-> "CompleteUpload"],
                             [NoArgs EXCEPT !.repo = Join(r2), !.id = id.id, !.dig = IF m = "PUT" THEN q.digest.v ELSE <<>>])
  ELSE IF word = W_manifests THEN
       LET isd == DigestOK(last)
           D == Cond(~RepoOK(rs), E400) \cup Cond(~isd /\ ~TagOK(last), E404) \cup Cond(m \notin {"GET", "HEAD", "PUT", "DELETE"}, E405) IN
       IF D # {} THEN Rej(D)
       ELSE ByMethod(m, [GET |-> "ManifestGet", HEAD |-> "ManifestHead", PUT |-> "ManifestPut", DELETE |-> "ManifestDelete"],
                     IF isd THEN [NoArgs EXCEPT !.repo = Join(rs), !.dig = last] ELSE [NoArgs EXCEPT !.repo = Join(rs), !.tag = last])
  ELSE IF word = W_tags THEN
       IF last # W_list THEN Rej(E404) ELSE ListReq("TagsList", m, rs, q)
  ELSE IF word = W_referrers THEN
       LET D == Cond(~DigestOK(last), E400) \cup Cond(m # "GET", E405) \cup Cond(~RepoOK(rs), E400) IN
       IF D # {} THEN Rej(D) ELSE OkReq("Referrers", [NoArgs EXCEPT !.repo = Join(rs), !.dig = last])
  ELSE Rej(E404)

\* ----------------------------------------------------------- header values
\* Range: "none" (absent), "one" = exactly bytes=A-B or bytes=A- with plain numerals and
\* A <= B (end is exclusive, -1 = to the end), anything else "other" (unsupported here;
\* RFC 7233 lets a server ignore or refuse it)
RangeOf(s) ==
  IF s = <<>> THEN [cls |-> "none", start |-> 0, end |-> 0]
  ELSE IF ~HasPrefix(s, S_byteseq) THEN [cls |-> "other", start |-> 0, end |-> 0]
  ELSE LET r == From(s, 7)
           d == IndexOf(r, ChDashC)
           a == SubSeq(r, 1, d - 1)
           b == From(r, d + 1)
       IN IF d > 1 /\ Small(a) /\ (b = <<>> \/ (Small(b) /\ NatVal(a) <= NatVal(b)))
          THEN [cls |-> "one", start |-> NatVal(a), end |-> IF b = <<>> THEN -1 ELSE NatVal(b) + 1]
          ELSE [cls |-> "other", start |-> 0, end |-> 0]

\* Content-Range of an upload request, "A-B" (inclusive; "N-(N-1)" is the empty range at N;
\* "0-0" is ambiguous and read as empty unless Content-Length is 1).  "wf": plain numerals
\* describing a range of length >= 0; "bad": no "-" or a character that cannot be part of a
\* number (must be refused); "odd": anything else (signs, negative lengths, long numerals).
CRangeOf(s) ==
  IF s = <<>> THEN [cls |-> "none", start |-> 0, end |-> 0]
  ELSE LET d == IndexOf(s, ChDashC)
           a == SubSeq(s, 1, d - 1)
           b == From(s, d + 1)
       IN IF d = 0 \/ \E i \in 1..Len(s) : s[i] \notin (48..57 \cup {43, 45}) THEN [cls |-> "bad", start |-> 0, end |-> 0]
          ELSE IF d > 1 /\ Small(a) /\ Small(b)
               THEN LET p0 == NatVal(a)
                        p1 == IF NatVal(b) > 0 \/ p0 > 0 THEN NatVal(b) + 1 ELSE 0
                    IN IF p1 >= p0 THEN [cls |-> "wf", start |-> p0, end |-> p1] ELSE [cls |-> "odd", start |-> 0, end |-> 0]
          ELSE [cls |-> "odd", start |-> 0, end |-> 0]
\* the offset and length an upload request announces: Content-Range against Content-Length
ChunkRange(h) ==
  LET cr == CRangeOf(h.crange) IN
  CASE cr.cls = "none" -> [cls |-> "ok", start |-> 0, end |-> IF h.cl >= 0 THEN h.cl ELSE 0]
    [] cr.cls = "wf" -> LET e == IF cr.start = 0 /\ cr.end = 0 /\ h.cl = 1 THEN 1 ELSE cr.end IN
                        IF h.cl >= 0 /\ e - cr.start # h.cl THEN [cls |-> "rej", start |-> 0, end |-> 0]
                        ELSE [cls |-> "ok", start |-> cr.start, end |-> e]
    [] cr.cls = "bad" -> [cls |-> "rej", start |-> 0, end |-> 0]
    [] OTHER -> [cls |-> "free", start |-> 0, end |-> 0]
\* ocirequest.RangeString(start, end): inclusive end, never below 0
RangeStr(a, e) == Dec(a) \o <<ChDashC>> \o Dec(IF e - 1 < 0 THEN 0 ELSE e - 1)

\* ------------------------------------------------------- errors and status
StdCodes == {"BLOB_UNKNOWN", "BLOB_UPLOAD_INVALID", "BLOB_UPLOAD_UNKNOWN", "DIGEST_INVALID", "MANIFEST_BLOB_UNKNOWN",
             "MANIFEST_INVALID", "MANIFEST_UNKNOWN", "NAME_INVALID", "NAME_UNKNOWN", "SIZE_INVALID", "UNAUTHORIZED",
             "DENIED", "UNSUPPORTED", "TOOMANYREQUESTS", "RANGE_INVALID"}
StdStatus == [c \in StdCodes |->
  CASE c \in {"BLOB_UNKNOWN", "BLOB_UPLOAD_UNKNOWN", "MANIFEST_BLOB_UNKNOWN", "MANIFEST_UNKNOWN", "NAME_UNKNOWN"} -> 404
    [] c \in {"BLOB_UPLOAD_INVALID", "RANGE_INVALID"} -> 416
    [] c = "UNAUTHORIZED" -> 401 [] c = "DENIED" -> 403 [] c = "TOOMANYREQUESTS" -> 429
    [] OTHER -> 400]
\* A backend answer: "ok", a standard code, "custom" (an OCI error whose code has no tabled
\* status), or "uncoded" (an error without an OCI code).  Every error of one script comes in the
\* script's shape sc.eshape: "bare"; "wrap" (inside fmt %w); "http" = NewHTTPError(err, sc.estatus,
\* nil, nil); "httpresp" / "httprespbody" = NewHTTPError(err, sc.estatus, a real *http.Response,
\* nil / a body) - what a relaying ociclient backend returns.  The wrapper's status may agree with
\* the table or not: a STANDARD code is always answered with its tabled status, whatever the
\* wrapper says; only for a code without a tabled status ("custom", and UNKNOWN for an uncoded
\* error) the wrapper's own status is used, and 500 when there is no HTTP wrapper.
Answers == {"ok", "uncoded", "custom"} \cup StdCodes
CustomCode == "CUSTOM_CODE"
HttpShapes == {"http", "httpresp", "httprespbody"}
Shapes == {"bare", "wrap"} \cup HttpShapes
ErrStatus(sc, a) == IF a \in StdCodes THEN StdStatus[a] ELSE IF sc.eshape \in HttpShapes THEN sc.estatus ELSE 500
ErrCode(a) == IF a \in StdCodes THEN a ELSE IF a = "custom" THEN CustomCode ELSE "UNKNOWN"

\* ------------------------------------------------ responses, calls, objects
EmptyF == [x \in {} |-> 0]
H(v) == [has |-> TRUE, v |-> v]
NoHdr == [has |-> FALSE, v |-> <<>>]
HdrKeys == {"loc", "dcd", "clen", "range", "crange", "chunkmin", "link", "ctype", "subject"}

\* one backend call: fn = the ociregistry.Interface method; unused arguments are <<>> / 0
NoCall == [fn |-> "-", repo |-> <<>>, dig |-> <<>>, tag |-> <<>>, from |-> <<>>, id |-> <<>>, a |-> 0, b |-> 0,
           mt |-> <<>>, sha |-> <<>>, last |-> <<>>]
Call(fn, repo) == [NoCall EXCEPT !.fn = fn, !.repo = repo]
\* one reader ("r") or writer ("w") obtained from the backend and what was done with it
Obj(k, written, commits, cdig) == [k |-> k, closed |-> TRUE, written |-> written, commits |-> commits, cdig |-> cdig, rfailed |-> FALSE]
\* Reader faults.  sc.rfail = 0: the reader serves everything it holds; sc.rfail = k + 1: it serves k
\* bytes and then fails (if it holds more than k).  By then the status line and Content-Length have
\* gone out, so a mid-stream failure can only show as a SHORT BODY (an aborted response): exactly the
\* k bytes, the status and headers of the success, one status line.  It may not show as a second
\* status line, nor as anything (an error document) after the k bytes.  sc.rcerr: the answer of the
\* reader's Close (it has nowhere to go: the response is as without it, the reader counts as closed).
RFailed(sc, full) == sc.rfail > 0 /\ sc.rfail - 1 < full
Served(sc, full) == IF RFailed(sc, full) THEN sc.rfail - 1 ELSE full
RObj(sc, full) == [Obj("r", 0, 0, <<>>) EXCEPT !.rfailed = RFailed(sc, full)]
NoList == [chk |-> FALSE, name |-> <<>>, items |-> <<>>]
NoLink == [chk |-> FALSE, has |-> FALSE, last |-> <<>>]

Exact(kind, status, code, hdrs, nbody, calls, objs) ==
  [kind |-> kind, mode |-> "exact", st |-> {status}, status |-> status, code |-> code, hdrs |-> hdrs, nbody |-> nbody,
   calls |-> calls, objs |-> objs, list |-> NoList, link |-> NoLink]
Failed(sc, kind, a, calls, objs) == Exact(kind, ErrStatus(sc, a), ErrCode(a), EmptyF, -1, calls, objs)
FailedPlain(kind, calls, objs) == Exact(kind, 500, "UNKNOWN", EmptyF, -1, calls, objs)     \* an error that is not the backend's
Reject(kind, S) ==
  [kind |-> kind, mode |-> "reject", st |-> S, status |-> 0, code |-> "", hdrs |-> EmptyF, nbody |-> -1,
   calls |-> <<>>, objs |-> <<>>, list |-> NoList, link |-> NoLink]
FreeResp(kind) == [Reject(kind, {}) EXCEPT !.mode = "free"]

BlobLoc(repo, d) == S_v2s \o repo \o S_blobs \o d
ManifestLoc(repo, d) == S_v2s \o repo \o S_manifests \o d
UploadLoc(repo, id) == S_v2s \o repo \o S_uploads \o B64Encode(id)
\* a writer ID the backend reports can be put in a Location only if the router would accept it
\* back: not empty, valid UTF-8.  For any other ID the request must fail (not panic).
IdUsable(id) == id # <<>> /\ Utf8Valid(id)
Min(a, b) == IF a < b THEN a ELSE b
\* Options.LocationsForDescriptor.  o.locs = "nil": not set; otherwise the function the harness installs
\* answers, for a descriptor with digest d (whatever its isManifest argument): "one" <<LocURL(d, 1)>>,
\* "many" <<LocURL(d, 1), LocURL(d, 2)>>, "none" no location, "err" an error.  Where the server would
\* name itself in Location it names the first location returned instead; every other mandated header
\* is unchanged; a blob GET is answered with a redirect (307) to it after ResolveBlob, without opening
\* the blob.  An error of the function fails the request (500).
S_cdn == <<104, 116, 116, 112, 115, 58, 47, 47, 99, 100, 110, 46, 116, 101, 115, 116, 47>>      \* "https://cdn.test/"
LocURL(d, i) == S_cdn \o d \o <<ChSlash>> \o Dec(i)
GivesLoc(o) == o.locs \in {"one", "many"}

\* The items a list handler returns: the backend iterator yields sc.items and then, if
\* sc.iterr is not "ok", that error.  With a limit n > 0 the handler stops at the (n+1)th
\* item ("truncated") - an error that comes first wins.
ListOutcome(sc, n) ==
  LET k == Len(sc.items) IN
  IF n > 0 /\ k > n THEN [err |-> "ok", items |-> SubSeq(sc.items, 1, n), truncated |-> TRUE]
  ELSE [err |-> sc.iterr, items |-> sc.items, truncated |-> FALSE]

(* rq = [m, path, q, h = [range, crange, ctype, cl], body = [n, sha, json, subj]]
   sc = [ans, size, mt, rdig, id, chunk, wsize, werr, cerr, merr, items, iterr, rfail, rcerr, eshape, estatus]
        ans: answer of the (first) Interface call; size / mt / rdig: the descriptor the backend
        reports (a reader serves that many bytes, or the requested part of them);
        id / chunk / wsize: ID(), ChunkSize() and initial Size() of a writer; werr / cerr /
        merr: answers of Write, Close, Commit; items / iterr: what an iterator yields
   o  = [noref, nosingle, maxpage, omitdig, omitlink, locs]   (ociserver.Options)      *)
Handle(a, rq, sc, o) ==
  LET k == a.kind
      repo == a.repo
      h == rq.h
      body == rq.body
      ok == sc.ans = "ok"
      startUpload ==
        LET c == <<[Call("PushBlobChunked", repo) EXCEPT !.a = 0]>> IN
        IF ~ok THEN Failed(sc, k, sc.ans, c, <<>>)
        ELSE IF ~IdUsable(sc.id) THEN Reject(k, AnyErr)
        ELSE Exact(k, 202, "", "loc" :> H(UploadLoc(repo, sc.id)) @@ "range" :> H(<<48, 45, 48>>) @@ "chunkmin" :> H(Dec(sc.chunk)),
                   0, c, <<Obj("w", 0, 0, <<>>)>>)
      byTag == a.tag # <<>>
      \* a 201: Location (own or first of LocationsForDescriptor) and Docker-Content-Digest of what the backend reports
      created(own, extra, c, objs) ==
        IF o.locs = "err" THEN FailedPlain(k, c, objs)
        ELSE Exact(k, 201, "", "loc" :> H(IF GivesLoc(o) THEN LocURL(sc.rdig, 1) ELSE own) @@ "dcd" :> H(sc.rdig) @@ extra, 0, c, objs)
  IN
  CASE k = "Ping" -> Exact(k, 200, "", EmptyF, 0, <<>>, <<>>)
    [] k = "BlobHead" ->
         LET c == <<[Call("ResolveBlob", repo) EXCEPT !.dig = a.dig]>> IN
         IF ~ok THEN Failed(sc, k, sc.ans, c, <<>>)
         ELSE Exact(k, 200, "", "clen" :> H(Dec(sc.size)) @@ "dcd" :> H(sc.rdig), 0, c, <<>>)
    [] k = "BlobGet" ->
         LET r == RangeOf(h.range)
             lfd == o.locs # "nil"
             pre == IF lfd THEN <<[Call("ResolveBlob", repo) EXCEPT !.dig = a.dig]>> ELSE <<>>
         IN
         IF lfd /\ ~ok THEN Failed(sc, k, sc.ans, pre, <<>>)
         ELSE IF lfd /\ o.locs = "err" THEN FailedPlain(k, pre, <<>>)
         ELSE IF lfd /\ GivesLoc(o) THEN Exact(k, 307, "", "loc" :> H(LocURL(sc.rdig, 1)), -1, pre, <<>>)
         ELSE IF r.cls = "none" THEN
              LET c == pre \o <<[Call("GetBlob", repo) EXCEPT !.dig = a.dig]>> IN
              IF ~ok THEN Failed(sc, k, sc.ans, c, <<>>)
              ELSE Exact(k, 200, "", "ctype" :> H(sc.mt) @@ "clen" :> H(Dec(sc.size)) @@ "dcd" :> H(a.dig) @@ "crange" :> NoHdr,
                         Served(sc, sc.size), c, <<RObj(sc, sc.size)>>)
         ELSE IF r.cls = "one" THEN
              LET c == pre \o <<[Call("GetBlobRange", repo) EXCEPT !.dig = a.dig, !.a = r.start, !.b = r.end]>>
                  end == IF r.end = -1 \/ r.end > sc.size THEN sc.size ELSE r.end
              IN IF ~ok THEN Failed(sc, k, sc.ans, c, <<>>)
                 ELSE IF r.start > sc.size THEN Exact(k, 416, "UNKNOWN", EmptyF, -1, c, <<Obj("r", 0, 0, <<>>)>>)
                 ELSE Exact(k, 206, "", "ctype" :> H(sc.mt) @@ "clen" :> H(Dec(end - r.start)) @@ "dcd" :> H(a.dig)
                                        @@ "crange" :> H(S_bytes \o Dec(r.start) \o <<ChDashC>> \o Dec(end - 1) \o <<ChSlash>> \o Dec(sc.size)),
                            Served(sc, end - r.start), c, <<RObj(sc, end - r.start)>>)
         ELSE FreeResp(k)
    [] k = "BlobDelete" ->
         LET c == <<[Call("DeleteBlob", repo) EXCEPT !.dig = a.dig]>> IN
         IF ~ok THEN Failed(sc, k, sc.ans, c, <<>>) ELSE Exact(k, 202, "", EmptyF, 0, c, <<>>)
    [] k = "StartUpload" -> startUpload
    [] k = "UploadBlob" ->
         IF o.nosingle THEN startUpload
         ELSE LET c == <<[Call("PushBlob", repo) EXCEPT !.dig = a.dig, !.a = h.cl, !.b = body.n, !.mt = MT_octet]>> IN
              IF ~ok THEN Failed(sc, k, sc.ans, c, <<>>)
              ELSE created(BlobLoc(repo, sc.rdig), EmptyF, c, <<>>)
    [] k = "Mount" ->
         LET c == <<[Call("MountBlob", repo) EXCEPT !.dig = a.dig, !.from = a.from]>> IN
         IF ~ok THEN Failed(sc, k, sc.ans, c, <<>>)
         ELSE created(BlobLoc(repo, a.dig), EmptyF, c, <<>>)
    [] k = "UploadInfo" ->
         LET c == <<[Call("PushBlobChunkedResume", repo) EXCEPT !.id = a.id, !.a = -1, !.b = 0]>> IN
         IF ~ok THEN Failed(sc, k, sc.ans, c, <<>>)
         ELSE IF ~IdUsable(sc.id) THEN Reject(k, AnyErr)
         ELSE Exact(k, 204, "", "loc" :> H(UploadLoc(repo, sc.id)) @@ "range" :> H(RangeStr(0, sc.wsize)), 0, c, <<Obj("w", 0, 0, <<>>)>>)
    [] k \in {"UploadChunk", "CompleteUpload"} ->
         LET cr == ChunkRange(h)
             c == <<[Call("PushBlobChunkedResume", repo) EXCEPT !.id = a.id, !.a = cr.start, !.b = cr.end - cr.start]>>
             wfail == body.n > 0 /\ sc.werr # "ok"            \* io.Copy: no Write at all for an empty body
             written == IF wfail THEN 0 ELSE body.n
         IN IF cr.cls = "rej" THEN Reject(k, AnyErr)
            ELSE IF cr.cls = "free" THEN FreeResp(k)
            ELSE IF ~ok THEN Failed(sc, k, sc.ans, c, <<>>)
            ELSE IF wfail THEN Failed(sc, k, sc.werr, c, <<Obj("w", 0, 0, <<>>)>>)
            ELSE IF k = "UploadChunk" THEN
                 IF sc.cerr # "ok" THEN Failed(sc, k, sc.cerr, c, <<Obj("w", written, 0, <<>>)>>)
                 ELSE IF ~IdUsable(sc.id) THEN Reject(k, AnyErr)
                 ELSE Exact(k, 202, "", "loc" :> H(UploadLoc(repo, sc.id)) @@ "range" :> H(RangeStr(0, sc.wsize + written)),
                            0, c, <<Obj("w", written, 0, <<>>)>>)
            ELSE IF sc.merr # "ok" THEN Failed(sc, k, sc.merr, c, <<Obj("w", written, 1, a.dig)>>)
            ELSE created(BlobLoc(repo, sc.rdig), EmptyF, c, <<Obj("w", written, 1, a.dig)>>)
    [] k = "ManifestGet" ->
         LET c == <<IF byTag THEN [Call("GetTag", repo) EXCEPT !.tag = a.tag] ELSE [Call("GetManifest", repo) EXCEPT !.dig = a.dig]>> IN
         IF ~ok THEN Failed(sc, k, sc.ans, c, <<>>)
         ELSE Exact(k, 200, "", "ctype" :> H(sc.mt) @@ "clen" :> H(Dec(sc.size)) @@ "dcd" :> (IF o.omitdig THEN NoHdr ELSE H(sc.rdig)),
                    Served(sc, sc.size), c, <<RObj(sc, sc.size)>>)
    [] k = "ManifestHead" ->
         LET c == <<IF byTag THEN [Call("ResolveTag", repo) EXCEPT !.tag = a.tag] ELSE [Call("ResolveManifest", repo) EXCEPT !.dig = a.dig]>> IN
         IF ~ok THEN Failed(sc, k, sc.ans, c, <<>>)
         ELSE Exact(k, 200, "", "ctype" :> H(sc.mt) @@ "clen" :> H(Dec(sc.size)) @@ "dcd" :> (IF o.omitdig /\ ~byTag THEN NoHdr ELSE H(sc.rdig)),
                    0, c, <<>>)
    [] k = "ManifestPut" ->
         LET mt == IF h.ctype = <<>> THEN MT_octet ELSE h.ctype
             parsed == h.ctype \in {MT_manifest, MT_index}         \* the body is read as JSON for its subject
             c == <<[Call("PushManifest", repo) EXCEPT !.tag = a.tag, !.b = body.n, !.sha = body.sha, !.mt = mt]>>
             hd == "subject" :> (IF parsed /\ body.json = "subject" THEN H(body.subj) ELSE NoHdr)
         \* pushed by digest: the digest in the URL must be THE sha256 digest of the body.  Any other
         \* well-formed digest is refused (DIGEST_INVALID) - also the true sha384 / sha512 digest of the
         \* body: the handler computes sha256 only (as the code is; see the assumptions of the check)
         IN IF ~byTag /\ a.dig # body.sha THEN Reject(k, E400)
            ELSE IF parsed /\ body.json = "invalid" THEN Reject(k, AnyErr)
            ELSE IF parsed /\ body.json = "other" THEN FreeResp(k)
            ELSE IF ~ok THEN Failed(sc, k, sc.ans, c, <<>>)
            ELSE created(ManifestLoc(repo, sc.rdig), hd, c, <<>>)
    [] k = "ManifestDelete" ->
         LET c == <<IF byTag THEN [Call("DeleteTag", repo) EXCEPT !.tag = a.tag] ELSE [Call("DeleteManifest", repo) EXCEPT !.dig = a.dig]>> IN
         IF ~ok THEN Failed(sc, k, sc.ans, c, <<>>) ELSE Exact(k, 202, "", EmptyF, 0, c, <<>>)
    [] k \in {"TagsList", "Catalog"} ->
         LET c == <<IF k = "TagsList" THEN [Call("Tags", repo) EXCEPT !.last = a.last] ELSE [Call("Repositories", <<>>) EXCEPT !.last = a.last]>>
             lo == ListOutcome(sc, a.n)
         IN IF o.maxpage > 0 /\ a.n > o.maxpage THEN Reject(k, AnyErr)
            ELSE IF lo.err # "ok" THEN Failed(sc, k, lo.err, c, <<>>)
            ELSE [Exact(k, 200, "", "clen" :> H(<<>>), -1, c, <<>>)       \* Content-Length: present, value = body length (Universal)
                  EXCEPT !.list = [chk |-> TRUE, name |-> repo, items |-> lo.items],
                         !.link = [chk |-> TRUE, has |-> lo.truncated /\ ~o.omitlink, last |-> IF lo.truncated THEN lo.items[Len(lo.items)] ELSE <<>>]]
    [] k = "Referrers" ->
         LET c == <<[Call("Referrers", repo) EXCEPT !.dig = a.dig]>>
             lo == ListOutcome(sc, -1)
         IN IF o.noref THEN Reject(k, E404)
            ELSE IF lo.err # "ok" THEN Failed(sc, k, lo.err, c, <<>>)
            ELSE [Exact(k, 200, "", "clen" :> H(<<>>) @@ "ctype" :> H(MT_index), -1, c, <<>>)
                  EXCEPT !.list = [chk |-> TRUE, name |-> <<>>, items |-> lo.items]]

\* p = the segments of rq.path
RespondSegs(p, rq, sc, o) ==
  LET a == Parse(rq.m, p, rq.q) IN
  IF a.kind = "reject" THEN Reject("reject", a.st)
  ELSE IF a.kind = "free" THEN FreeResp("free")
  ELSE Handle(a, rq, sc, o)
Respond(rq, sc, o) == RespondSegs(Split(rq.path), rq, sc, o)

\* ------------------------------------------------- properties of the table
\* (on the specification; OciWireMC evaluates them for every enumerated request)
Total(r) == /\ r.kind \in ReqKinds \cup {"reject", "free"}
            /\ r.mode \in {"exact", "reject", "free"}
            /\ r.mode = "reject" => (r.st # {} /\ r.st \subseteq AnyErr)
            /\ r.mode = "exact" => r.status \in {200, 201, 202, 204, 206, 307} \cup AnyErr

StatusAgreesWithCode(r) ==
  r.mode = "exact" => /\ (r.status >= 400) = (r.code # "")
                      /\ r.code \in StdCodes => r.status = StdStatus[r.code]

\* what the distribution protocol mandates on success, written independently of Handle
Mandated(kind, status) ==
  CASE kind \in {"StartUpload", "UploadBlob"} /\ status = 202 -> {"loc", "range", "chunkmin"}
    [] kind \in {"UploadInfo", "UploadChunk"} -> {"loc", "range"}
    [] kind \in {"UploadBlob", "Mount", "CompleteUpload", "ManifestPut"} -> {"loc", "dcd"}
    [] kind \in {"BlobHead", "ManifestHead"} -> {"clen", "dcd"}
    [] kind = "BlobGet" /\ status = 206 -> {"clen", "dcd", "crange"}
    [] kind \in {"BlobGet", "ManifestGet"} -> {"clen", "dcd"}
    [] kind \in {"TagsList", "Catalog", "Referrers"} -> {"clen"}
    [] OTHER -> {}
SuccessHeaders(r, o) ==
  (r.mode = "exact" /\ r.status < 300) =>
     /\ \A x \in Mandated(r.kind, r.status) \ (IF o.omitdig THEN {"dcd"} ELSE {}) : x \in DOMAIN r.hdrs /\ r.hdrs[x].has
     /\ \* a body of known length is announced exactly: Content-Length = |body|
        (r.kind \in {"BlobGet", "ManifestGet"}) =>
           IF \E i \in 1..Len(r.objs) : r.objs[i].rfailed THEN r.nbody < NatVal(r.hdrs["clen"].v)      \* aborted: a proper prefix
           ELSE r.hdrs["clen"].v = Dec(r.nbody)
     /\ r.kind \in {"TagsList", "Catalog"} => r.link.chk

CallArgsValid(c) ==
  /\ c.fn # "Repositories" => Ref!IsRepository(c.repo)
  /\ c.fn \in {"GetBlob", "GetBlobRange", "GetManifest", "ResolveBlob", "ResolveManifest", "PushBlob", "MountBlob",
               "DeleteBlob", "DeleteManifest", "Referrers"} => Ref!IsDigest(c.dig)
  /\ c.fn \in {"GetTag", "ResolveTag", "DeleteTag"} => Ref!IsTag(c.tag)
  /\ (c.fn = "PushManifest" /\ c.tag # <<>>) => Ref!IsTag(c.tag)
  /\ c.fn = "MountBlob" => Ref!IsRepository(c.from)
BackendArgsValid(r) ==
  /\ \A i \in 1..Len(r.calls) : CallArgsValid(r.calls[i])
  /\ \A i \in 1..Len(r.objs) : r.objs[i].commits > 0 => Ref!IsDigest(r.objs[i].cdig)

\* every reader / writer the table says is obtained is one the handler closes; there is
\* exactly one per successful GetBlob / GetBlobRange / GetManifest / GetTag / PushBlobChunked*
Opening == {"GetBlob", "GetBlobRange", "GetManifest", "GetTag", "PushBlobChunked", "PushBlobChunkedResume"}
AllClosed(r, sc) ==
  r.mode = "exact" =>
     /\ \A i \in 1..Len(r.objs) : r.objs[i].closed
     /\ Len(r.objs) = (IF sc.ans = "ok" /\ \E i \in 1..Len(r.calls) : r.calls[i].fn \in Opening THEN 1 ELSE 0)

\* ---------------------------------------------- judging a recorded response
(* out = [status, nwh (WriteHeader calls), hdr = [key |-> [has, v]], nbody, err = [json, code], list = [ok, name, items],
          linkp = [ok, path, last, n], crp = [ok, start, end, total], calls = <<call...>>, objs = <<[k, closes, written, commits, cdig, rfailed]...>>] *)
Faulted(out) == \E i \in 1..Len(out.objs) : out.objs[i].rfailed       \* a reader failed before its end
Universal(rq, out) ==
  /\ out.status \in 200..299 \cup {307} \cup 400..599
  /\ out.status >= 400 => (out.err.json /\ out.hdr["ctype"] = H(MT_json))  \* a JSON OCI error body, declared as JSON
  /\ out.err.code \in StdCodes => out.status = StdStatus[out.err.code]    \* status agrees with code
  /\ out.nwh <= 1                                                        \* one status line
  \* Content-Length = |body|, unless a backend reader failed mid-stream: then the body is a prefix
  /\ (out.hdr["clen"].has /\ rq.m # "HEAD") =>
       IF Faulted(out) THEN Small(out.hdr["clen"].v) /\ out.nbody <= NatVal(out.hdr["clen"].v)
       ELSE out.hdr["clen"].v = Dec(out.nbody)
  \* a partial response announces exactly what it carries (crp = the Content-Range header read as
  \* "bytes start-end/total", each number clamped to +-10^9 by the harness)
  /\ (out.status = 206 /\ rq.m # "HEAD") =>
       /\ out.hdr["crange"].has /\ out.crp.ok
       /\ out.crp.start >= 0 /\ out.crp.end < out.crp.total
       /\ IF Faulted(out) THEN out.nbody <= out.crp.end - out.crp.start + 1
          ELSE out.crp.end - out.crp.start + 1 = out.nbody
  /\ \A i \in 1..Len(out.calls) : CallArgsValid(out.calls[i])
  /\ \A i \in 1..Len(out.objs) : /\ out.objs[i].closes >= 1
                                 /\ out.objs[i].commits > 0 => Ref!IsDigest(out.objs[i].cdig)

ObjMatches(x, w) == x.k = w.k /\ x.rfailed = w.rfailed /\ x.closes >= 1 /\ x.written = w.written /\ x.commits = w.commits /\ x.cdig = w.cdig

Matches(rq, out, r) ==
  /\ Universal(rq, out)
  /\ r.mode = "reject" => out.status \in r.st
  /\ r.mode = "exact" =>
       /\ out.status = r.status
       /\ r.code # "" => (out.err.json /\ out.err.code = r.code)
       /\ \A x \in DOMAIN r.hdrs :
            IF x = "clen" /\ r.hdrs[x] = H(<<>>) THEN out.hdr[x].has ELSE out.hdr[x] = r.hdrs[x]
       /\ r.nbody >= 0 => out.nbody = r.nbody
       /\ out.calls = r.calls
       /\ Len(out.objs) = Len(r.objs) /\ \A i \in 1..Len(r.objs) : ObjMatches(out.objs[i], r.objs[i])
       /\ r.list.chk => (out.list.ok /\ out.list.name = r.list.name /\ out.list.items = r.list.items)
       /\ r.link.chk => /\ out.hdr["link"].has = r.link.has
                        /\ r.link.has => (out.linkp.ok /\ out.linkp.path = rq.path /\ out.linkp.last = r.link.last /\ out.linkp.n = rq.q.n.v)
=============================================================================
