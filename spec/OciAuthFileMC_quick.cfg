SPECIFICATION Spec
CONSTANTS
  AmbiguityFirst = FALSE
  Kinds = {"up", "authn", "idtu", "empty"}
  MaxKeys = 3
  Export = TRUE
INVARIANTS
  InvDeterministic
  InvPrecedence
  InvCollisionFails
  Emit
PROPERTY PropLookupOrderIrrelevant
CHECK_DEADLOCK FALSE
