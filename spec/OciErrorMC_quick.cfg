SPECIFICATION Spec
CONSTANTS
  StdMsg <- MCStdMsg
  Modes = {"design", "impl"}
  MaxHops = 3
  Statuses = {400, 404, 416, 429, 500}
  SweepStatuses <- SweepAll
  Kinds = {"GET", "HEAD"}
  Export = FALSE
INVARIANTS StatusPerTable IsPreserved CellsExact CodePreserved DetailPreserved HeadLaw MessageFixedPoint FirstHopMessage ItemsLaw
CHECK_DEADLOCK FALSE
