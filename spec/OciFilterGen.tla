---------------------------- MODULE OciFilterGen ----------------------------
(***************************************************************************)
(* Direction A: cases enumerated from the universes of OciFilterMC, printed *)
(* as JSON for harness/filter.go to execute on the real wrappers.  A case   *)
(* is [kind, imm, pop, pol, allow, scope, ops]: the repositories holding    *)
(* content, the policy table / allow set, the context scope and the calls   *)
(* to make through the wrapper, in order.  What the calls must do is not    *)
(* exported: the recorded execution is judged by OciFilterTrace.            *)
(***************************************************************************)
EXTENDS OciFilterMC, Json

CONSTANTS GenWhat,     \* which families of cases to print
          GenFull      \* FALSE: the reduced enumeration of the quick tier

Case(k, pop, pol, allow, sc, ops) ==
  [kind |-> k, imm |-> FALSE, pop |-> pop, pol |-> pol, allow |-> allow,
   scope |-> [unl |-> sc.unl, triples |-> sc.set], ops |-> ops, failafter |-> -1, failwith |-> ""]
\* the same with a backend whose repository listing fails after k items, handing the name
\* `with` over together with the error
CaseF(k, pop, pol, allow, sc, ops, after, with) ==
  [Case(k, pop, pol, allow, sc, ops) EXCEPT !.failafter = after, !.failwith = with]
AllOk == TableOf(<<>>)
Vals == {PolOk} \cup ErrIds
\* every method on r1, mounts between r1 and r2, under every assignment of the entries involved
OpsEntries == ({"r1"} \X Kinds) \cup ({"r2"} \X {"Read", "Write"})
CheckerOpsSeq == OpsSeqOn("r1") \o <<Mount("r1", "r2"), Mount("r2", "r1"), Mount("r1", "r1"), Mount("r3", "r1")>>
                 \o (IF GenFull THEN ReadsOn("r2") ELSE <<>>)
CheckerOpsCases == {Case("checker", {"r1", "r2", "r3"}, TableOf(f), {}, NoScope, CheckerOpsSeq) : f \in [OpsEntries -> Vals]}
\* listings: every populated subset x every subset allowed for Read (List on the items is always
\* refused, which is not what a listing consults) x "*" listable or not
ListSeq == <<[op |-> "ListRepos", startpos |-> 0], [op |-> "ListRepos", startpos |-> 3]>>
           \o (IF GenFull THEN <<[op |-> "ListRepos", startpos |-> 4]>> ELSE <<>>)
ListTable(allowR, star, e) ==
  [n \in Repos \cup {Star} |-> [k \in Kinds |->
     IF n = Star THEN (IF k = "List" THEN star ELSE e)
     ELSE IF k = "Read" THEN (IF n \in allowR THEN PolOk ELSE e) ELSE IF k = "List" THEN e ELSE PolOk]]
CheckerListCases ==
  UNION {{Case("checker", pop, ListTable(allowR, star, CHOOSE e \in ErrIds : TRUE), {}, NoScope, ListSeq) :
             star \in (IF GenFull \/ pop = Repos THEN {PolOk, CHOOSE e \in ErrIds : TRUE} ELSE {PolOk})} :
           pop \in SUBSET Repos, allowR \in SUBSET Repos}
SelectListCases ==
  UNION {{Case("select", pop, SelPol(allow, Repos), allow, NoScope, ListSeq) :
             allow \in {a \in SUBSET (Repos \cup {Star}) : Star \in a => (GenFull \/ pop = Repos)}} :
           pop \in SUBSET Repos}
\* failing listings: all repositories populated, every Read-allowed subset, failure after 0..3
\* items, the name delivered with the error being the next repository (or none)
Nth(k) == CHOOSE x \in Repos : Pos.r[x] = 2 * k
ListSeq2 == <<[op |-> "ListRepos", startpos |-> 0], [op |-> "ListRepos", startpos |-> 3]>>
CheckerFailCases ==
  UNION {{CaseF("checker", Repos, ListTable(allowR, PolOk, CHOOSE e \in ErrIds : TRUE), {}, NoScope, ListSeq2, k, w) :
             w \in {Nth(k + 1)} \cup (IF GenFull THEN {"", Nth(1)} ELSE {})} :
           allowR \in SUBSET Repos, k \in 0..3}
SelectFailCases ==
  {CaseF("select", Repos, SelPol(allow, Repos), allow, NoScope, ListSeq2, k, Nth(k + 1)) :
     allow \in SUBSET Repos, k \in 0..3}
SelectOpsCases ==
  {Case("select", {"r1", "r2", "r3"}, SelPol(allow, Repos), allow, NoScope, CheckerOpsSeq) : allow \in SUBSET {"r1", "r2"}}
\* Sub: every enumerated caller string x every method (and mounts against a good name)
SubSeqFor(n) == OpsSeqOn(n) \o <<Mount(n, "a"), Mount("a", n), Mount(n, n)>>
SubNameCases ==
  {Case("sub", Repos, <<>>, {}, RichScope, SubSeqFor(n)) : n \in {x.s : x \in (IF GenFull THEN AllNames ELSE N1 \cup N2 \cup Aimed)}}
  \cup {Case("sub", Repos, <<>>, {}, sc, SubSeqFor(n)) : sc \in MCScopes, n \in {"a", "b", "..", "../fooey", "a/../../fooey", ""}}
SubListCases ==
  {Case("sub", pop, <<>>, {}, sc, [i \in 1..(2 * Cardinality(ViewRepos) + 2) |-> [op |-> "ListRepos", startpos |-> i - 1]]) :
     pop \in SUBSET Repos, sc \in {NoScope, RichScope}}

Cases == (IF "checkerops" \in GenWhat THEN CheckerOpsCases ELSE {})
    \cup (IF "checkerlist" \in GenWhat THEN CheckerListCases ELSE {})
    \cup (IF "selectlist" \in GenWhat THEN SelectListCases ELSE {})
    \cup (IF "selectops" \in GenWhat THEN SelectOpsCases ELSE {})
    \cup (IF "listfail" \in GenWhat THEN CheckerFailCases \cup SelectFailCases ELSE {})
    \cup (IF "subnames" \in GenWhat THEN SubNameCases ELSE {})
    \cup (IF "sublist" \in GenWhat THEN SubListCases ELSE {})
ASSUME \A c \in Cases : PrintT(<<"MBT", ToJson(c)>>)

\* nothing to explore: the cases are printed while the assumption is evaluated
GInit == FInit /\ Populated({}) /\ imm = FALSE /\ kind = CHOOSE k \in MCKinds : TRUE
GSpec == GInit /\ [][UNCHANGED mcvars]_mcvars
=============================================================================
