---------------------------- MODULE OciFilterGen ----------------------------
(***************************************************************************)
(* Direction A: cases enumerated from the universes of OciFilterMC, printed *)
(* as JSON for harness/filter.go to execute on the real wrappers.  A case   *)
(* is [kind, imm, pop, pol, allow, scope, ops]: the repositories holding    *)
(* content, the policy table / allow set, the context scope and the calls   *)
(* to make through the wrapper, in order.  What the calls must do is not    *)
(* exported: the recorded execution is judged by OciFilterTrace.            *)
(***************************************************************************)
EXTENDS OciFilterMC, Json

CONSTANTS GenWhat,     \* which families of cases to print
          GenFull      \* FALSE: the reduced enumeration of the quick tier

Case(k, pop, pol, allow, sc, ops) ==
  [kind |-> k, imm |-> FALSE, pop |-> pop, pol |-> pol, allow |-> allow,
   scope |-> [unl |-> sc.unl, triples |-> sc.set], ops |-> ops, failafter |-> -1, failwith |-> "",
   tree |-> <<>>, nodes |-> <<>>, faults |-> <<>>, scripted |-> FALSE, script |-> <<>>]
\* the same with a backend whose repository listing fails after k items, handing the name
\* `with` over together with the error
CaseF(k, pop, pol, allow, sc, ops, after, with) ==
  [Case(k, pop, pol, allow, sc, ops) EXCEPT !.failafter = after, !.failwith = with]
AllOk == TableOf(<<>>)
Vals == {PolOk} \cup ErrIds
\* every method on r1, mounts between r1 and r2, under every assignment of the entries involved
OpsEntries == ({"r1"} \X Kinds) \cup ({"r2"} \X {"Read", "Write"})
CheckerOpsSeq == OpsSeqOn("r1") \o <<[op |-> "Resume", r |-> "r2", u |-> "u1", off |-> -1], [op |-> "Resume", r |-> "r2", u |-> "u2", off |-> 0]>>
                 \o <<Mount("r1", "r2"), Mount("r2", "r1"), Mount("r1", "r1"), Mount("r3", "r1")>>
                 \o (IF GenFull THEN ReadsOn("r2") ELSE <<>>)
CheckerOpsCases == {Case("checker", {"r1", "r2", "r3"}, TableOf(f), {}, NoScope, CheckerOpsSeq) : f \in [OpsEntries -> Vals]}
\* listings: every populated subset x every subset allowed for Read (List on the items is always
\* refused, which is not what a listing consults) x "*" listable or not
ListSeq == <<[op |-> "ListRepos", startpos |-> 0], [op |-> "ListRepos", startpos |-> 3]>>
           \o (IF GenFull THEN <<[op |-> "ListRepos", startpos |-> 4]>> ELSE <<>>)
ListTable(allowR, star, e) ==
  [n \in Repos \cup {Star} |-> [k \in Kinds |->
     IF n = Star THEN (IF k = "List" THEN star ELSE e)
     ELSE IF k = "Read" THEN (IF n \in allowR THEN PolOk ELSE e) ELSE IF k = "List" THEN e ELSE PolOk]]
\* (the reduced enumeration takes the populated subsets of even size; MC covers all of them)
QuickPops == IF GenFull THEN SUBSET Repos ELSE {p \in SUBSET Repos : Cardinality(p) % 2 = 0}
CheckerListCases ==
  UNION {{Case("checker", pop, ListTable(allowR, star, CHOOSE e \in ErrIds : TRUE), {}, NoScope, ListSeq) :
             star \in (IF GenFull \/ pop = Repos THEN {PolOk, CHOOSE e \in ErrIds : TRUE} ELSE {PolOk})} :
           pop \in QuickPops, allowR \in SUBSET Repos}
SelectListCases ==
  UNION {{Case("select", pop, SelPol(allow, Repos), allow, NoScope, ListSeq) :
             allow \in {a \in SUBSET (Repos \cup {Star}) : Star \in a => (GenFull \/ pop = Repos)}} :
           pop \in QuickPops}
\* failing listings: all repositories populated, every Read-allowed subset, failure after 0..3
\* items, the name delivered with the error being the next repository (or none)
Nth(k) == CHOOSE x \in Repos : Pos.r[x] = 2 * k
ListSeq2 == <<[op |-> "ListRepos", startpos |-> 0], [op |-> "ListRepos", startpos |-> 3]>>
CheckerFailCases ==
  UNION {{CaseF("checker", Repos, ListTable(allowR, PolOk, CHOOSE e \in ErrIds : TRUE), {}, NoScope, ListSeq2, k, w) :
             w \in {Nth(k + 1)} \cup (IF GenFull THEN {"", Nth(1)} ELSE {})} :
           allowR \in SUBSET Repos, k \in 0..3}
SelectFailCases ==
  {CaseF("select", Repos, SelPol(allow, Repos), allow, NoScope, ListSeq2, k, Nth(k + 1)) :
     allow \in SUBSET Repos, k \in 0..3}
SelectOpsCases ==
  {Case("select", {"r1", "r2", "r3"}, SelPol(allow, Repos), allow, NoScope, CheckerOpsSeq) : allow \in SUBSET {"r1", "r2"}}
\* Sub: every enumerated caller string x every method (and mounts against a good name)
SubSeqFor(n) == OpsSeqOn(n) \o <<Mount(n, "a"), Mount("a", n), Mount(n, n)>>
SubNameCases ==
  {Case("sub", Repos, <<>>, {}, RichScope, SubSeqFor(n)) : n \in {x.s : x \in (IF GenFull THEN AllNames ELSE N1 \cup N2 \cup Aimed)}}
  \cup {Case("sub", Repos, <<>>, {}, sc, SubSeqFor(n)) : sc \in MCScopes, n \in {"a", "b", "..", "../fooey", "a/../../fooey", ""}}
SubListCases ==
  {Case("sub", pop, <<>>, {}, sc, [i \in 1..(2 * Cardinality(ViewRepos) + 2) |-> [op |-> "ListRepos", startpos |-> i - 1]]) :
     pop \in SUBSET Repos, sc \in {NoScope, RichScope}}

\* failing backend listings under the view: every populated subset, failure after 0..3 backend
\* items, the name handed over with the error being a sibling of the prefix / a name under it
SubFailCases ==
  {CaseF("sub", pop, <<>>, {}, RichScope, <<[op |-> "ListRepos", startpos |-> 0], [op |-> "ListRepos", startpos |-> 3]>>, k, w) :
     pop \in SUBSET Repos, k \in 0..3, w \in (IF GenFull THEN {"fooey", "foo/b", ""} ELSE {"fooey"})}
\* Wrappers built on wrappers: a chain of d wrappers (each refusing r4 only), then two SIBLING
\* wrappers built on the chain's top, A showing r1 only and B showing r2 only; all are built
\* first, then every method family goes through A, through B and through the chain's top.
Node(k, parent, pol, allow) == [kind |-> k, parent |-> parent, pol |-> pol, allow |-> allow]
OnlyTable(S, e) == [n \in Repos \cup {Star} |-> [k \in Kinds |-> IF n \in S \/ n = Star THEN PolOk ELSE e]]
Wrap(k, parent, S, e) == IF k = "select" THEN Node(k, parent, <<>>, S \cup {Star}) ELSE Node(k, parent, OnlyTable(S, e), {})
TreeOf(d, ck, sk, e) ==
  [i \in 1..d |-> Wrap(ck, i - 1, {"r1", "r2", "r3"}, e)] \o <<Wrap(sk, d, {"r1"}, e), Wrap(sk, d, {"r2"}, e)>>
ProbeOps == <<[op |-> "GetBlob", r |-> "r1", c |-> "b1"], [op |-> "GetBlob", r |-> "r2", c |-> "b1"],
              [op |-> "ResolveTag", r |-> "r4", t |-> "t1"],
              [op |-> "PushBlob", r |-> "r1", c |-> "b0", dd |-> "b0", ds |-> 0], [op |-> "PushBlob", r |-> "r2", c |-> "b0", dd |-> "b0", ds |-> 0],
              [op |-> "DeleteTag", r |-> "r2", t |-> "t2"], [op |-> "ListTags", r |-> "r1", startpos |-> 0],
              Mount("r1", "r2"), Mount("r2", "r1"), [op |-> "ListRepos", startpos |-> 0], [op |-> "ListRepos", startpos |-> 3]>>
Times(x, n) == [i \in 1..n |-> x]
TreeCases ==
  {[Case("tree", Repos, <<>>, {}, NoScope, ProbeOps \o ProbeOps \o (IF d > 0 THEN ProbeOps ELSE <<>>) \o ProbeOps)
      EXCEPT !.tree = TreeOf(d, ck, sk, CHOOSE e \in ErrIds : TRUE),
             !.nodes = Times(d + 1, Len(ProbeOps)) \o Times(d + 2, Len(ProbeOps))
                       \o (IF d > 0 THEN Times(d, Len(ProbeOps)) ELSE <<>>) \o Times(d + 1, Len(ProbeOps))] :
     d \in 0..3, ck \in {"checker", "select"}, sk \in {"checker", "select"}}
\* A backend that refuses one method with one standard error.  Sub: the backend also has
\* repositories OUTSIDE the prefix named like the view-relative names ("a", "b" next to foo/a, foo/b),
\* all holding the blob; every refusable method goes through the view on "a", mounts both ways.
FaultProbe(n, m) == ReadsOn(n) \o PushesOn(n) \o <<Mount(n, m), Mount(m, n)>> \o DeletesOn(n)
SubFaultCases ==
  {[Case("sub", {"foo/a", "foo/b", "fooey", "a", "b"}, <<>>, {}, RichScope, FaultProbe("a", "b")) EXCEPT !.faults = (m :> code)] :
     m \in FaultOps, code \in FaultCodes}
CheckerFaultCases ==
  {[Case("checker", {"r1", "r2", "r3"}, TableOf(f), {}, NoScope, FaultProbe("r1", "r2")) EXCEPT !.faults = (m :> code)] :
     m \in FaultOps, code \in (IF GenFull THEN FaultCodes ELSE {"UNSUPPORTED"}),
     f \in {<<>>, (<<"r1", "Write">> :> CHOOSE e \in ErrIds : TRUE), (<<"r1", "Read">> :> CHOOSE e \in ErrIds : TRUE)}}
\* Names that are not repository names, as method arguments: allowed, refused for everything,
\* refused for Read only, under a table and under an allow set.
GenIll == {"A", "a//a", "a/", "", "..", "A/a"}
RowTable(n, row) == [x \in Repos \cup {Star, n} |-> IF x = n THEN row ELSE [k \in Kinds |-> PolOk]]
IllRows(e) == {[k \in Kinds |-> PolOk], [k \in Kinds |-> e], [k \in Kinds |-> IF k = "Read" THEN e ELSE PolOk]}
IllCases ==
  {Case("checker", {"r1", "r2"}, RowTable(n, row), {}, NoScope, FaultProbe(n, "r1")) : n \in GenIll, row \in IllRows(CHOOSE e \in ErrIds : TRUE)}
  \cup UNION {{Case("select", {"r1", "r2"}, SelPol(a, Repos), a, NoScope, FaultProbe(n, "r1")) : a \in {{"r1", n}, {"r1"}, {n, Star}}} : n \in GenIll}
\* Backend listings as they might come (names repeated, out of order, ill-formed), under every
\* Read-assignment of the names in them, whole and cut short by an error.
ScriptCase(k, pol, allow, sq, after) ==
  \* (what a scripted backend holds does not matter: nothing is put there)
  [CaseF(k, {}, pol, allow, NoScope, <<[op |-> "ListRepos", startpos |-> 0]>>, after, "") EXCEPT !.scripted = TRUE, !.script = sq]
ScriptCases ==
  UNION {{ScriptCase("checker", TableOf(g), {}, sq, after) : g \in [ScriptNames(sq) \X {"Read"} -> Vals], after \in {-1, 2}} : sq \in Scripts}
  \cup UNION {{ScriptCase("select", SelPol(a, Repos), a, sq, after) : a \in SUBSET ScriptNames(sq), after \in {-1, 2}} : sq \in Scripts}
Cases == (IF "checkerops" \in GenWhat THEN CheckerOpsCases ELSE {})
    \cup (IF "checkerlist" \in GenWhat THEN CheckerListCases ELSE {})
    \cup (IF "selectlist" \in GenWhat THEN SelectListCases ELSE {})
    \cup (IF "selectops" \in GenWhat THEN SelectOpsCases ELSE {})
    \cup (IF "trees" \in GenWhat THEN TreeCases ELSE {})
    \cup (IF "ill" \in GenWhat THEN IllCases \cup ScriptCases ELSE {})
    \cup (IF "subfaults" \in GenWhat THEN SubFaultCases ELSE {})
    \cup (IF "checkerfaults" \in GenWhat THEN CheckerFaultCases ELSE {})
    \cup (IF "listfail" \in GenWhat THEN CheckerFailCases \cup SelectFailCases ELSE {})
    \cup (IF "subnames" \in GenWhat THEN SubNameCases ELSE {})
    \cup (IF "sublist" \in GenWhat THEN SubListCases \cup SubFailCases ELSE {})
ASSUME \A c \in Cases : PrintT(<<"MBT", ToJson(c)>>)

\* nothing to explore: the cases are printed while the assumption is evaluated
GInit == FInit /\ Populated({}) /\ imm = FALSE /\ kind = CHOOSE k \in MCKinds : TRUE
GSpec == GInit /\ [][UNCHANGED mcvars]_mcvars
=============================================================================
