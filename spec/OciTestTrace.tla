---------------------------- MODULE OciTestTrace ----------------------------
(***************************************************************************)
(* Trace validation of ocitest.PushContent (harness command `ocitest`).     *)
(*                                                                         *)
(* A scenario is: a `reset` line; one line per call PushContent made on the *)
(* registry it was given (a recording wrapper around a fresh ocimem logs    *)
(* them as `direct` events, so RegTrace validates each as a step of         *)
(* OciRegistry: the model says whether each push is acceptable and what it  *)
(* stores); a `snap` of the registry; and one `expect` line carrying the    *)
(* INPUT content per repository                                             *)
(*   want[r] = [blobs |-> [blob identifier -> content id],                  *)
(*              mans  |-> [manifest identifier -> [c |-> content id or "?", *)
(*                            config, layers, subject (identifiers)]],      *)
(*              tags  |-> [tag -> manifest identifier]]                     *)
(* the outcome of the call (ok / which error) and the descriptors returned. *)
(*                                                                         *)
(* The `expect` step is where the pusher is judged, against OciTestContent: *)
(*  - the outcome is ok exactly when the model says every repository's      *)
(*    content can be completed and pushed;                                  *)
(*  - then the model state reached by the validated calls holds exactly the *)
(*    content: every blob, every manifest (stored as an image manifest),    *)
(*    every tag on its manifest, and nothing else; no call was refused;     *)
(*  - an error is the one the model predicts for the repository it names    *)
(*    (with the identifiers it lists), and what was pushed before it is     *)
(*    what HEAD pushes before it;                                           *)
(*  - the bytes of each manifest say what the input said (FilledRight:      *)
(*    identifiers replaced by the digests of what they name);               *)
(* and every manifest push finds its subject already stored (SubjFirst:     *)
(* "bottom-up order"; the registry itself would accept a dangling subject). *)
(***************************************************************************)
EXTENDS RegTrace

CONSTANT OT1_PanicOnUnknownBlob  \* relaxation: PushContent panics (instead of returning an error) on a content whose
                                 \* manifest names a config/layer identifier that is not a blob of the content

VARIABLE nfail   \* calls refused by the registry since the last reset
otvars == <<vars, l, tvars, cwvars, bmt, nfail>>

\* the pure part of the pusher's model (its variables are not used here)
OT == INSTANCE OciTestContent WITH TheRepo <- "-", content <- <<>>, pc <- "", done <- {}, seq <- <<>>, required <- {},
                                   todo <- {}, progress <- FALSE, needMore <- FALSE, passes <- 0, bleft <- {}, mi <- 0,
                                   tleft <- {}, out <- "", missing <- {}

OTCat == TrCat
OTCids == TrCids
OTPos == TrPos
BinaryType == "raw:application/binary"   \* what ocitest declares its blobs as

ContentOf(W) ==
  [blobs |-> DOMAIN W.blobs,
   mans |-> [m \in DOMAIN W.mans |-> [config |-> W.mans[m].config, layers |-> W.mans[m].layers, subject |-> W.mans[m].subject]],
   tags |-> [t \in DOMAIN W.tags |-> W.tags[t]]]
WantBlobs(W) == {W.blobs[b] : b \in DOMAIN W.blobs}
WantMans(W) == {W.mans[m].c : m \in DOMAIN W.mans}

\* the model state of repository r is exactly the content W with the tags of tagset
HoldsExactly(r, W, tagset) ==
  /\ \A m \in DOMAIN W.mans : W.mans[m].c \in Cids
  /\ blobs[r] = WantBlobs(W)
  /\ \A c \in blobs[r] : bmt[r][c] = BinaryType
  /\ DOMAIN mans[r] = WantMans(W)
  /\ \A c \in DOMAIN mans[r] : mans[r][c] = "image"
  /\ DOMAIN tags[r] = tagset
  /\ \A t \in tagset : tags[r][t].c = W.mans[W.tags[t]].c /\ tags[r][t].mt = "image"
EmptyRepo(r) == blobs[r] = {} /\ DOMAIN mans[r] = {} /\ DOMAIN tags[r] = {}

\* the bytes computed for manifest m name what the input names (read by the harness's own parser into the catalogue)
FilledRight(W) ==
  \A m \in DOMAIN W.mans :
    LET x == W.mans[m] IN
    x.c # "?" =>
      /\ x.c \in Cids
      /\ LET v == View(x.c, "image")
             refs == {x.config} \cup {x.layers[i] : i \in 1..Len(x.layers)} IN
         /\ v.wf /\ v.mans = {}
         /\ refs \subseteq DOMAIN W.blobs
         /\ v.blobs = {W.blobs[b] : b \in refs}
         /\ IF x.subject = None THEN v.subject = None
            ELSE x.subject \in DOMAIN W.mans /\ v.subject = W.mans[x.subject].c /\ v.subjectType = "image"

\* the descriptors PushContent returned name the contents pushed
GotRight(G, W) ==
  /\ DOMAIN G.blobs = DOMAIN W.blobs /\ \A b \in DOMAIN W.blobs : G.blobs[b] = W.blobs[b]
  /\ DOMAIN G.mans = DOMAIN W.mans /\ \A m \in DOMAIN W.mans : G.mans[m] = W.mans[m].c

OutcomeOf(e) == [r \in Repos |-> OT!Outcome(ContentOf(e.want[r]))]

ExpectOK(e) ==
  LET outc == OutcomeOf(e) IN
  /\ \A r \in Repos : FilledRight(e.want[r])
  /\ e.ok = (\A r \in Repos : outc[r] = "ok")
  /\ nfail = 0                        \* never refused by the registry
  /\ IF e.ok THEN
       \A r \in Repos : HoldsExactly(r, e.want[r], DOMAIN e.want[r].tags) /\ GotRight(e.got[r], e.want[r])
     ELSE
       /\ e.errrepo \in Repos
       /\ outc[e.errrepo] = e.errkind /\ e.errkind \in {"nomanifest", "tag"}
       /\ LET C == ContentOf(e.want[e.errrepo]) IN
          IF e.errkind = "nomanifest"
            THEN ToSet(e.missing) = OT!Missing(C) /\ EmptyRepo(e.errrepo)
            ELSE /\ e.errtag \in DOMAIN C.tags \ OT!GoodTags(C)
                 /\ \E ts \in SUBSET OT!GoodTags(C) : HoldsExactly(e.errrepo, e.want[e.errrepo], ts)
       \* the other repositories: pushed completely before the error, or not reached
       /\ \A r \in Repos \ {e.errrepo} :
            \/ EmptyRepo(r)
            \/ outc[r] = "ok" /\ HoldsExactly(r, e.want[r], DOMAIN e.want[r].tags)

\* HEAD panics on an unknown blob identifier, before pushing anything of that repository
PanicOK(e) ==
  LET outc == OutcomeOf(e) IN
  /\ OT1_PanicOnUnknownBlob
  /\ e.inop = "PushContent"
  /\ \E r \in Repos : outc[r] = "panic"
  /\ nfail = 0
  /\ \A r \in Repos : \/ EmptyRepo(r)
                      \/ outc[r] = "ok" /\ HoldsExactly(r, e.want[r], DOMAIN e.want[r].tags)

RegistryCalls == {"PushBlob", "MountBlob", "PushManifest", "DeleteBlob", "DeleteManifest", "DeleteTag", "GetBlob", "GetBlobRange",
                  "ResolveBlob", "GetManifest", "ResolveManifest", "GetTag", "ResolveTag"}
\* the contents a push carries are contents of the catalogue (anything else is not what the first run pushed)
KnownIds(e) ==
  /\ e.op \in {"PushBlob", "PushManifest"} => e.c \in Cids
  /\ ("r" \in DOMAIN e) => e.r \in Repos \cup BadRepos
  /\ ("from" \in DOMAIN e) => e.from \in Repos \cup BadRepos
\* bottom-up order: a manifest's subject is stored before the manifest is pushed
SubjFirst(e) ==
  (e.op = "PushManifest" /\ e.ok) =>
     LET s == Subj(e.c, e.mt) IN s # None => Has(mans[e.r], s)

OTInit == TInit /\ nfail = 0
OTNext ==
  /\ l <= Len(Trace)
  /\ LET e == Trace[l] IN
     CASE e.op = "expect" -> ExpectOK(e) /\ l' = l + 1 /\ UNCHANGED <<vars, tvars, cwvars, bmt, nfail>>
       [] e.op = "panic" -> PanicOK(e) /\ l' = l + 1 /\ UNCHANGED <<vars, tvars, cwvars, bmt, nfail>>
       [] e.op = "reset" -> TNext /\ nfail' = 0
       [] e.op = "snap" -> TNext /\ UNCHANGED nfail
       [] e.op \in RegistryCalls -> /\ KnownIds(e) /\ SubjFirst(e)
                                    /\ TNext
                                    /\ nfail' = nfail + (IF e.ok THEN 0 ELSE 1)
       [] OTHER -> FALSE     \* a call the recorder has no event for ("unexpected"), or anything else
OTSpec == OTInit /\ [][OTNext]_otvars
=============================================================================
