----------------------------- MODULE OciUnify -----------------------------
(***************************************************************************)
(* The unified registry ociunify.New(m0, m1, policy) as a view over two     *)
(* member registries, each an instance of the reference model OciRegistry.  *)
(*                                                                         *)
(* A call through the unifier makes each member take the step OciRegistry   *)
(* prescribes for that call (A!Apply / B!Apply set res0' / res1', the       *)
(* members' own answers); the unifier's answer `res` is a function of the   *)
(* two answers and of the read policy:                                      *)
(*   digest-addressed reads  first success (sequential: member 0 first;     *)
(*                           concurrent: either), else a member's error     *)
(*   tag reads               both ok and same digest -> member 0's answer;  *)
(*                           both ok, different digest -> error (no code);  *)
(*                           one ok -> that one; none -> member 0's error   *)
(*   listings                sorted duplicate-free union; NAME_UNKNOWN from *)
(*                           one side ignored, from both propagated; any    *)
(*                           other error delivered after the merged items   *)
(*   writes, deletes, upload steps   applied to both; ok iff both ok        *)
(* A member can also be written directly (Direct), which is how the two     *)
(* come to differ.  Upload sessions opened through the unifier carry the    *)
(* same abstract id in both members (the composite id of the code).         *)
(***************************************************************************)
EXTENDS Integers, Sequences, FiniteSets, TLC

CONSTANTS Repos, Tags, Cids, BlobIds, ManIds, Cat, UploadIds, ImmChoices, BlockSize, Pos,
          Policies,     \* subset of {"seq", "conc"}: read policies explored
          ListFaults    \* set of listing faults a member may be wrapped with: [k, code]
                        \* (the wrapped member yields at most k items, then the error);
                        \* code = "" means none

VARIABLES imm,
          blobs0, mans0, tags0, ups0, touched0, res0,     \* member 0 and its own last answer
          blobs1, mans1, tags1, ups1, touched1, res1,     \* member 1
          pol,          \* read policy of the unifier
          lf,           \* lf[i]: listing fault member i is wrapped with
          wf,           \* wf[i]: member i failed the last write made through the unifier by itself
                        \* (an injected fault: it took the call, stored nothing, answered DENIED)
          issued,       \* upload ids the unifier has handed out
          via,          \* who took the last step: "u" (through the unifier), "m0"/"m1" (direct), "-"
          last,         \* the operation record of the last step
          res           \* the unifier's answer (or the member's, for a direct step)

A == INSTANCE OciRegistry WITH blobs <- blobs0, mans <- mans0, tags <- tags0, ups <- ups0,
                               touched <- touched0, res <- res0
B == INSTANCE OciRegistry WITH blobs <- blobs1, mans <- mans1, tags <- tags1, ups <- ups1,
                               touched <- touched1, res <- res1

mem0 == <<blobs0, mans0, tags0, ups0, touched0>>
mem1 == <<blobs1, mans1, tags1, ups1, touched1>>
cfgvars == <<imm, pol, lf>>
vars == <<imm, blobs0, mans0, tags0, ups0, touched0, res0, blobs1, mans1, tags1, ups1, touched1, res1,
          pol, lf, wf, issued, via, last, res>>

None == "-"
Has(f, x) == x \in DOMAIN f
NoRes == A!NoRes
ErrR(code) == A!ErrR(code)
NoFault == [k |-> 0, code |-> ""]
NoWF == [i \in {0, 1} |-> FALSE]

DigestReads == {"GetBlob", "GetBlobRange", "GetManifest", "ResolveBlob", "ResolveManifest"}
TagReads == {"GetTag", "ResolveTag"}
Lists == {"ListTags", "ListRepos", "Referrers"}
Pushes == {"PushBlob", "PushManifest"}
UploadOps == {"PushBlobChunked", "Resume", "Write", "UpSize", "Close", "Cancel", "Commit"}
ReadOps == DigestReads \cup TagReads \cup Lists \cup {"UpSize"}

\* ------------------------------------------------ combining two answers --
\* runReadSequential / runReadConcurrent
ReadSeq(a, b) == IF a.ok THEN {a} ELSE {b}
ReadConc(a, b) == LET oks == {x \in {a, b} : x.ok} IN IF oks # {} THEN oks ELSE {a, b}
ReadUnder(p, a, b) == IF p = "seq" THEN ReadSeq(a, b) ELSE ReadConc(a, b)
\* GetTag / ResolveTag (both members are always asked, whatever the policy)
TagRead(a, b) ==
  IF a.ok /\ b.ok THEN (IF a.d = b.d THEN {a} ELSE {ErrR("FAIL")})
  ELSE IF a.ok THEN {a}
  ELSE IF b.ok THEN {b}
  ELSE {a}
\* bothResults: member 0's value if both succeeded, else an error wrapping the failures
Both(a, b) ==
  IF a.ok /\ b.ok THEN {a}
  ELSE {ErrR(x.code) : x \in {y \in {a, b} : ~y.ok}}
\* PushBlob / PushManifest: some member's answer if they agree on success, else an error
Push(a, b) == IF a.ok = b.ok THEN {a, b} ELSE {ErrR("FAIL")}

\* Listings.  What the unifier sees of member i's listing: the member's answer, seen
\* through the fault wrapper (first k items, then the error).
ToSet(s) == {s[i] : i \in 1..Len(s)}
Faulted(a, f) ==
  IF f.code = "" \/ ~a.ok THEN a
  ELSE [ErrR(f.code) EXCEPT !.items = SubSeq(a.items, 1, IF f.k < Len(a.items) THEN f.k ELSE Len(a.items))]
NotFound(a) == ~a.ok /\ a.code = "NAME_UNKNOWN"
Merge(a, b, pos) ==
  IF NotFound(a) /\ NotFound(b) THEN ErrR("NAME_UNKNOWN")
  ELSE LET items == A!Asc(ToSet(a.items) \cup ToSet(b.items), pos)
           code == IF ~a.ok /\ ~NotFound(a) THEN a.code
                   ELSE IF ~b.ok /\ ~NotFound(b) THEN b.code ELSE ""
       IN IF code = "" THEN A!OkItems(items) ELSE [ErrR(code) EXCEPT !.items = items]
PosOf(o) == IF o.op = "ListTags" THEN Pos.t ELSE IF o.op = "ListRepos" THEN Pos.r ELSE Pos.c

Combine(p, f, o, a, b) ==
  CASE o.op \in DigestReads -> ReadUnder(p, a, b)
    [] o.op \in TagReads -> TagRead(a, b)
    [] o.op \in Lists -> {Merge(Faulted(a, f[0]), Faulted(b, f[1]), PosOf(o))}
    [] o.op \in Pushes -> Push(a, b)
    [] OTHER -> Both(a, b)

\* ----------------------------------------------------------------- steps --
Init ==
  /\ A!Init /\ B!Init
  /\ pol = "seq"
  /\ lf = [i \in {0, 1} |-> NoFault]
  /\ wf = NoWF
  /\ issued = {}
  /\ via = "-" /\ last = [op |-> "-"]
  /\ res = NoRes

\* A call through a unifier built with read policy p over the members wrapped with listing
\* faults f.  A composite upload id the unifier never issued does not decode: Resume fails
\* before any member is asked.
\* w[i]: member i fails this call by itself (whenever it answers: before or after the other
\* member): it stores nothing and answers DENIED.  The rule is the same - a write succeeds
\* only if every member succeeded - and the healthy member has done what it was asked.
ViaUnifierWF(o, p, f, w) ==
  /\ via' = "u" /\ last' = o
  /\ pol' = p /\ lf' = f /\ wf' = w /\ UNCHANGED imm
  /\ IF o.op = "Resume" /\ o.u \notin issued
       THEN /\ res' = ErrR("FAIL") /\ res0' = NoRes /\ res1' = NoRes
            /\ UNCHANGED <<mem0, mem1, issued>>
       ELSE /\ IF w[0] THEN res0' = ErrR("DENIED") /\ UNCHANGED mem0 ELSE A!Apply(o)
            /\ IF w[1] THEN res1' = ErrR("DENIED") /\ UNCHANGED mem1 ELSE B!Apply(o)
            \* PushBlobChunkedResume: both members resume, but if their sessions do not hold the
            \* same number of bytes the unifier refuses ("registries do not agree on upload size")
            /\ res' \in IF o.op = "Resume" /\ res0'.ok /\ res1'.ok
                            /\ A!SizeOf(ups0'[o.r][o.u].buf) # A!SizeOf(ups1'[o.r][o.u].buf)
                         THEN {ErrR("FAIL")}
                         ELSE Combine(p, f, o, res0', res1')
            /\ issued' = IF o.op = "PushBlobChunked" /\ res'.ok THEN issued \cup {o.u} ELSE issued

ViaUnifier(o, p, f) == ViaUnifierWF(o, p, f, NoWF)

\* A call made on one member behind the unifier's back.
Direct(i, o) ==
  /\ via' = (IF i = 0 THEN "m0" ELSE "m1") /\ last' = o
  /\ wf' = NoWF
  /\ UNCHANGED <<cfgvars, issued>>
  /\ IF i = 0 THEN A!Apply(o) /\ res' = res0' /\ res1' = NoRes /\ UNCHANGED mem1
              ELSE B!Apply(o) /\ res' = res1' /\ res0' = NoRes /\ UNCHANGED mem0

\* -------------------------------------------------------------- ops sets --
ReadOpsSet ==
  {[op |-> x, r |-> r, c |-> c] : x \in {"GetBlob", "ResolveBlob"}, r \in Repos, c \in BlobIds}
  \cup {[op |-> "GetBlobRange", r |-> r, c |-> c, o0 |-> o[1], o1 |-> o[2]] :
          r \in Repos, c \in BlobIds, o \in {<<0, 1>>, <<1, -1>>, <<1, 1>>}}
  \cup {[op |-> x, r |-> r, c |-> c] : x \in {"GetManifest", "ResolveManifest", "Referrers"}, r \in Repos, c \in ManIds}
  \cup {[op |-> x, r |-> r, t |-> t] : x \in {"ResolveTag", "GetTag"}, r \in Repos, t \in Tags}
  \cup {[op |-> "ListTags", r |-> r, startpos |-> st] : r \in Repos, st \in {0, 2}}
  \cup {[op |-> "ListRepos", startpos |-> st] : st \in {0, 2}}
ContentWrites(mts) ==
  {[op |-> "PushBlob", r |-> r, c |-> c, dd |-> c, ds |-> Cat[c].size] : r \in Repos, c \in BlobIds}
  \cup {[op |-> "PushManifest", r |-> r, t |-> t, c |-> c, mt |-> mt] :
          r \in Repos, t \in Tags \cup {None}, c \in ManIds, mt \in mts}
  \cup {[op |-> x, r |-> r, c |-> c] : x \in {"DeleteBlob"}, r \in Repos, c \in BlobIds}
  \cup {[op |-> x, r |-> r, c |-> c] : x \in {"DeleteManifest"}, r \in Repos, c \in ManIds}
  \cup {[op |-> "DeleteTag", r |-> r, t |-> t] : r \in Repos, t \in Tags}
MountOps == {[op |-> "MountBlob", from |-> f, r |-> r, c |-> c] : f \in Repos, r \in Repos, c \in BlobIds}
BadPushes == {o \in {[op |-> "PushBlob", r |-> r, c |-> c, dd |-> dd, ds |-> Cat[c].size] :
                       r \in Repos, c \in BlobIds, dd \in BlobIds} : o.dd # o.c}
UploadOpsSet ==
  {[op |-> x, r |-> r, u |-> u] : x \in {"PushBlobChunked", "Cancel", "UpSize", "Close"}, r \in Repos, u \in UploadIds}
  \cup {[op |-> "Resume", r |-> r, u |-> u, off |-> off] : r \in Repos, u \in UploadIds, off \in {-1, 0, 1}}
  \cup {[op |-> "Write", r |-> r, u |-> u, data |-> d] : r \in Repos, u \in UploadIds, d \in {<<1>>, <<2>>}}
  \cup {[op |-> "Commit", r |-> r, u |-> u, dd |-> dd] : r \in Repos, u \in UploadIds, dd \in BlobIds}

\* ----------------------------------------------------------- properties --
\* All are properties of steps taken through the unifier.
U == via' = "u"
LO == last'
EitherBlob(r, c) == c \in blobs0[r] \cup blobs1[r]
EitherMan(r, c) == Has(mans0[r], c) \/ Has(mans1[r], c)
StoredTypes(r, c) == (IF Has(mans0[r], c) THEN {mans0[r][c]} ELSE {}) \cup (IF Has(mans1[r], c) THEN {mans1[r][c]} ELSE {})
SortedNoDup(s, pos) == \A i \in 1..(Len(s) - 1) : pos[s[i]] < pos[s[i + 1]]
WellFormedRange(o) == ~(o.o0 < 0 \/ (o.o1 >= 0 /\ o.o1 <= o.o0))

\* C15, first sentence: the union view.
UnionViewStep ==
  U =>
  /\ (LO.op \in {"GetBlob", "ResolveBlob"}) =>
        /\ res'.ok = EitherBlob(LO.r, LO.c)
        /\ (res'.ok => res'.d = LO.c)
  /\ (LO.op = "GetBlobRange" /\ WellFormedRange(LO)) =>
        /\ (res'.ok => (EitherBlob(LO.r, LO.c) /\ res'.d = LO.c))
        /\ (EitherBlob(LO.r, LO.c) /\ LO.o0 < Cat[LO.c].size) => res'.ok
        /\ ~EitherBlob(LO.r, LO.c) => ~res'.ok
  /\ (LO.op \in {"GetManifest", "ResolveManifest"}) =>
        /\ res'.ok = EitherMan(LO.r, LO.c)
        /\ (res'.ok => (res'.d = LO.c /\ res'.mt \in StoredTypes(LO.r, LO.c)))
  \* every successful digest-addressed read is some member's own answer
  /\ (LO.op \in DigestReads /\ res'.ok) => res' \in {res0', res1'}
  /\ (LO.op \in DigestReads) => (res'.ok = (res0'.ok \/ res1'.ok))
  \* listings: sorted, duplicate free, the union
  /\ (LO.op = "ListTags" /\ lf'[0].code = "" /\ lf'[1].code = "") =>
        /\ res'.ok => (res'.items = A!After(DOMAIN tags0[LO.r] \cup DOMAIN tags1[LO.r], Pos.t, LO.startpos))
        /\ (A!HasContent(LO.r) \/ B!HasContent(LO.r)) => res'.ok
        /\ ~res'.ok => (res'.code = "NAME_UNKNOWN" /\ ~res0'.ok /\ ~res1'.ok)
  /\ (LO.op = "ListRepos" /\ lf'[0].code = "" /\ lf'[1].code = "") =>
        /\ res'.ok /\ SortedNoDup(res'.items, Pos.r)
        /\ \A r \in Repos : ((A!HasContent(r) \/ B!HasContent(r)) /\ Pos.r[r] > LO.startpos) => r \in ToSet(res'.items)
        /\ \A r \in ToSet(res'.items) : Pos.r[r] > LO.startpos /\ (r \in touched0 \cup touched1 \/ A!HasContent(r) \/ B!HasContent(r))
  /\ (LO.op = "Referrers" /\ lf'[0].code = "" /\ lf'[1].code = "" /\ res'.ok) =>
        res'.items = A!Asc({x \in DOMAIN mans0[LO.r] : A!Subj(x, mans0[LO.r][x]) = LO.c}
                                      \cup {x \in DOMAIN mans1[LO.r] : B!Subj(x, mans1[LO.r][x]) = LO.c}, Pos.c)
  \* with a faulty member: the merged items of what was delivered, then the error
  /\ (LO.op \in Lists) => SortedNoDup(res'.items, PosOf(LO))

\* C15: a tag that the members disagree on is never silently resolved to one of them.
\* "Has the tag" is what the member itself answers to that call.
TagConflictNeverSilentStep ==
  (U /\ LO.op \in TagReads) =>
  /\ (res0'.ok /\ res1'.ok /\ res0'.d # res1'.d) => ~res'.ok
  /\ (res0'.ok /\ res1'.ok /\ res0'.d = res1'.d) => (res'.ok /\ res'.d = res0'.d)
  /\ (res0'.ok # res1'.ok) => (res'.ok /\ res'.d = (IF res0'.ok THEN res0'.d ELSE res1'.d))
  /\ (~res0'.ok /\ ~res1'.ok) => ~res'.ok
  \* in terms of the stored state (ResolveTag answers from the tag table alone)
  /\ (LO.op = "ResolveTag" /\ Has(tags0[LO.r], LO.t) /\ Has(tags1[LO.r], LO.t)
        /\ tags0[LO.r][LO.t].c # tags1[LO.r][LO.t].c) => ~res'.ok

\* C15, second sentence: every write goes to both members and reports success only if both
\* succeeded (each member's own step is A!Apply / B!Apply by construction of ViaUnifier).
Undecodable == LO.op = "Resume" /\ LO.u \notin issued     \* no member is asked
\* the members have diverged on this upload (one of them failed a Write by itself): resuming
\* it is refused although both members would
SizesDisagree == LO.op = "Resume" /\ ~Undecodable
                 /\ A!SizeOf(ups0'[LO.r][LO.u].buf) # A!SizeOf(ups1'[LO.r][LO.u].buf)
WriteBothStep ==
  (U /\ LO.op \notin ReadOps /\ ~Undecodable) =>
  /\ res'.ok => (res0'.ok /\ res1'.ok)
  /\ (res0'.ok /\ res1'.ok /\ ~SizesDisagree) => res'.ok
  /\ SizesDisagree => ~res'.ok
\* a read through the unifier changes neither member
\* a member that failed by itself makes the whole write fail, and has stored nothing
FaultyMemberFailsWriteStep ==
  (U /\ ~Undecodable /\ wf' # NoWF) => (~res'.ok /\ (wf'[0] => mem0' = mem0) /\ (wf'[1] => mem1' = mem1))
ReadsChangeNothingStep == (U /\ LO.op \in ReadOps) => (mem0' = mem0 /\ mem1' = mem1)

\* Two members that are equal stay equal.  Equality is of what can be observed (content and
\* upload sessions); `touched` is bookkeeping of the model for empty repositories.
Obs0 == <<blobs0, mans0, tags0, ups0>>
Obs1 == <<blobs1, mans1, tags1, ups1>>
MemEq == Obs0 = Obs1
\* (a member that fails by itself - wf - is not an equal member any more)
EqualStaysEqualStep == (U /\ MemEq /\ wf' = NoWF) => MemEq'
\* The members are two copies of one deterministic implementation: in equal states they
\* resolve the contract's looseness (which error code an empty repository gives, whether a
\* blob that only MAY be protected is kept) alike.  EqualStaysEqual is claimed of such pairs.
SameImpl == (U /\ MemEq /\ touched0 = touched1 /\ wf' = NoWF) => (res0' = res1' /\ touched0' = touched1')

UnionView == [][UnionViewStep]_vars
TagConflictNeverSilent == [][TagConflictNeverSilentStep]_vars
WriteBoth == [][WriteBothStep /\ FaultyMemberFailsWriteStep]_vars
ReadsChangeNothing == [][ReadsChangeNothingStep]_vars
EqualStaysEqual == [][EqualStaysEqualStep]_vars
StepProps == UnionViewStep /\ TagConflictNeverSilentStep /\ WriteBothStep /\ ReadsChangeNothingStep /\ FaultyMemberFailsWriteStep

\* The two read policies give the same results: stated over the combination functions, for
\* the answers the members gave in this step.
SameObservation(x, y) ==
  /\ x.ok = y.ok
  /\ x.ok => (x.kind = y.kind /\ x.d = y.d /\ x.slice = y.slice /\ x.n = y.n /\ x.items = y.items)
PoliciesAgreeStep ==
  (U /\ LO.op \in DigestReads) =>
     \A x \in ReadSeq(res0', res1') : \A y \in ReadConc(res0', res1') :
        /\ SameObservation(x, y)
        \* the media type a manifest is served under is the member's; it can only differ
        \* between the policies if the members store that manifest under different types
        /\ (x.ok /\ x.mt # y.mt) => (res0'.ok /\ res1'.ok /\ res0'.mt # res1'.mt)
PoliciesAgree == [][PoliciesAgreeStep]_vars

TypeOK == A!TypeOK /\ B!TypeOK /\ pol \in {"seq", "conc"} /\ via \in {"-", "u", "m0", "m1"}
MemView == <<imm, mem0, mem1, issued>>
=============================================================================
