SPECIFICATION Spec
CONSTANTS
  Hosts = {"h1", "h2"}
  Realms = {"ra"}
  RS = {"p"}
  Slots = {1}
  CfgSet <- CfgTime1
  OfferSets <- OffersTime
  Lives = {0, 2}
  TPS = 2
  MaxClock = 4
  MaxCalls = 3
  MaxTok = 2
  MaxRT = 2
  Bodies = {"plain"}
  Statuses <- StatusFew
  TickWhile = {"idle"}
INVARIANT Inv
CHECK_DEADLOCK FALSE
