SPECIFICATION Spec
CONSTANTS
  Hosts = {"h1", "h2"}
  Realms = {"ra"}
  RS = {"p"}
  Slots = {1}
  CfgSet <- CfgTime
  OfferSets <- OffersSmall
  Lives = {0, 2, 4}
  TPS = 2
  MaxClock = 4
  MaxCalls = 2
  MaxTok = 2
  MaxRT = 2
  Bodies = {"plain"}
  Statuses <- StatusFew
  TickWhile = {"idle", "resp1wait", "resp2wait", "tokwait"}
INVARIANT Inv
CHECK_DEADLOCK FALSE
