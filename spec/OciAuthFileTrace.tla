-------------------------- MODULE OciAuthFileTrace --------------------------
(***************************************************************************)
(* Trace validation for C19: recorded loads and lookups of the real        *)
(* ociauth config-file code (harness command `authfile`) against           *)
(* OciAuthFile.  After the header line the trace holds, per configuration: *)
(*   reset  - the configuration (and where/how it is presented)            *)
(*   load   - one fresh LoadWithEnv: did it succeed                        *)
(*   lookup - one EntryForRegistry(host): entry fields or failure class,   *)
(*            error text, and the helper invocations it caused             *)
(* A lookup is accepted iff it is exactly Lookup(cfg, host) - whichever    *)
(* decode it follows and whatever was asked before - and every failing     *)
(* lookup of one host reports the same error text in all decodes of the    *)
(* configuration ("results do not depend on map iteration order").         *)
(***************************************************************************)
EXTENDS OciAuthFile, Json, IOUtils

CONSTANT F13_TableErrorTextVaries  \* relaxation: the error TEXT of a failing table lookup may differ between decodes

VARIABLES l,     \* next trace line
          msgs   \* host -> error text seen for it under the current configuration

Trace == ndJsonDeserialize(IOEnv.TRACE_FILE)

EmptyCfg == [auths |-> <<>>, credsStore |-> "", credHelpers |-> <<>>, helpers |-> [none |-> [kind |-> "notfound", user |-> E, secret |-> E]]]

TInit == /\ AInit({EmptyCfg})
         /\ l = 2
         /\ msgs = <<>>

ResetStep(e) ==
  /\ cfg' = [auths |-> e.cfg.auths, credsStore |-> e.cfg.credsStore,
             credHelpers |-> e.cfg.credHelpers, helpers |-> e.cfg.helpers]
  /\ loaded' = FALSE
  /\ msgs' = <<>>
  /\ UNCHANGED <<tbl, last>>

\* A file holding an auth field nobody can decode must be refused; a file whose auth fields
\* are all canonical base64 of "user:password" must load; in between (line breaks, stray
\* trailing bits) either is fine.
LoadStep(e) ==
  /\ IF MustFailKeys(cfg) # {} THEN ~e.ok
     ELSE IF MayFailKeys(cfg) # {} THEN TRUE
     ELSE e.ok
  /\ loaded' = e.ok
  /\ UNCHANGED <<cfg, tbl, last, msgs>>

LookupStep(e) ==
  /\ loaded
  /\ LET r == Lookup(cfg, e.host)
     IN /\ e.ok = r.ok
        /\ e.class = r.class
        /\ e.refresh = r.refresh /\ e.access = r.access /\ e.user = r.user /\ e.pass = r.pass
        /\ e.calls = r.calls
        /\ last' = [set |-> TRUE, host |-> e.host, res |-> r]
  /\ IF e.ok \/ (F13_TableErrorTextVaries /\ e.class = "table")
     THEN msgs' = msgs
     ELSE /\ e.host \in DOMAIN msgs => msgs[e.host] = e.msg
          /\ msgs' = (e.host :> e.msg) @@ msgs
  /\ UNCHANGED <<cfg, loaded, tbl>>

TNext ==
  /\ l <= Len(Trace)
  /\ l' = l + 1
  /\ LET e == Trace[l]
     IN CASE e.op = "reset" -> ResetStep(e)
          [] e.op = "load" -> LoadStep(e)
          [] e.op = "lookup" -> LookupStep(e)
          [] OTHER -> FALSE            \* a panic, or anything else the specification has no step for
TSpec == TInit /\ [][TNext]_<<avars, l, msgs>>

\* The whole trace was consumed: one state per line after the header.
Accepted == TLCGet("stats").diameter = Len(Trace)
=============================================================================
