-------------------------- MODULE OciAuthFileTrace --------------------------
(***************************************************************************)
(* Trace validation for C19: recorded loads and lookups of the real        *)
(* ociauth config-file code (harness command `authfile`) against           *)
(* OciAuthFile.  After the header line the trace holds, per configuration: *)
(*   reset  - the configuration (and where/how it is presented)            *)
(*   load   - one fresh LoadWithEnv: did it succeed                        *)
(*   lookup - one EntryForRegistry(host): entry fields or failure class,   *)
(*            error text, and the helper invocations it caused (seen by    *)
(*            the HelperRunner wrapped around the real one, or - when      *)
(*            LoadWithEnv made its default runner - noted by the helper    *)
(*            programs themselves: a missing program then notes nothing)   *)
(* A lookup is accepted iff it is exactly Lookup(cfg, host) - whichever    *)
(* decode it follows and whatever was asked before - and every failing     *)
(* lookup of one host reports the same error text in all decodes of the    *)
(* configuration ("results do not depend on map iteration order").         *)
(***************************************************************************)
EXTENDS OciAuthFile, Json, IOUtils

CONSTANTS F13_TableErrorTextVaries,  \* relaxation: the error TEXT of a failing table lookup may differ between decodes
          Diagnose                   \* FALSE: a line the specification does not allow stops the validation (the
                                     \* rejected line is the depth reached).  TRUE: it is reported with
                                     \* PrintT(<<"REJECT", line>>), the rest of its scenario is passed over and
                                     \* validation resumes at the next reset line - one pass lists all rejected scenarios.

VARIABLES l,     \* next trace line
          msgs,  \* host -> error text seen for it under the current configuration
          skip   \* (Diagnose) the current scenario has been rejected

Trace == ndJsonDeserialize(IOEnv.TRACE_FILE)

EmptyCfg == [auths |-> <<>>, credsStore |-> "", credHelpers |-> <<>>, helpers |-> [none |-> [kind |-> "notfound", user |-> E, secret |-> E]]]

TInit == /\ AInit({EmptyCfg})
         /\ l = 2
         /\ msgs = <<>>
         /\ skip = FALSE

ResetStep(e) ==
  /\ cfg' = [auths |-> e.cfg.auths, credsStore |-> e.cfg.credsStore,
             credHelpers |-> e.cfg.credHelpers, helpers |-> e.cfg.helpers]
  /\ loaded' = FALSE
  /\ msgs' = <<>>
  /\ UNCHANGED <<tbl, last>>

\* A file holding an auth field nobody can decode must be refused; a file whose auth fields
\* are all canonical base64 of "user:password" must load; in between (line breaks, stray
\* trailing bits) either is fine.
LoadOkay(e) ==
  IF MustFailKeys(cfg) # {} THEN ~e.ok
  ELSE IF MayFailKeys(cfg) # {} THEN TRUE
  ELSE e.ok
LoadStep(e) ==
  /\ loaded' = e.ok
  /\ UNCHANGED <<cfg, tbl, last, msgs>>

TextJudged(e) == ~e.ok /\ ~(F13_TableErrorTextVaries /\ e.class = "table")
LookupOkay(e) ==
  /\ loaded
  /\ LET r == Lookup(cfg, e.host)
     IN /\ e.ok = r.ok
        /\ e.class = r.class
        /\ e.refresh = r.refresh /\ e.access = r.access /\ e.user = r.user /\ e.pass = r.pass
        /\ e.calls = IF e.runner = "default" THEN SelectSeq(r.calls, LAMBDA c : cfg.helpers[c.helper].kind # "nobinary")
                      ELSE r.calls
  /\ (TextJudged(e) /\ e.host \in DOMAIN msgs) => msgs[e.host] = e.msg
LookupStep(e) ==
  /\ msgs' = IF TextJudged(e) THEN (e.host :> e.msg) @@ msgs ELSE msgs
  /\ UNCHANGED <<cfg, loaded, tbl, last>>

\* a panic, or anything else the specification has no step for, is never allowed
Okay(e) == CASE e.op = "load" -> LoadOkay(e)
             [] e.op = "lookup" -> LookupOkay(e)
             [] OTHER -> FALSE

TNext ==
  /\ l <= Len(Trace)
  /\ l' = l + 1
  /\ LET e == Trace[l]
     IN IF e.op = "reset" THEN ResetStep(e) /\ skip' = FALSE
        ELSE IF skip THEN UNCHANGED <<avars, msgs, skip>>
        ELSE IF Okay(e)
             THEN /\ IF e.op = "load" THEN LoadStep(e) ELSE LookupStep(e)
                  /\ skip' = FALSE
             ELSE /\ Diagnose
                  /\ PrintT(<<"REJECT", l>>)
                  /\ skip' = TRUE
                  /\ UNCHANGED <<avars, msgs>>
TSpec == TInit /\ [][TNext]_<<avars, l, msgs, skip>>

\* The whole trace was consumed: one state per line after the header.
Accepted == TLCGet("stats").diameter = Len(Trace)
=============================================================================
