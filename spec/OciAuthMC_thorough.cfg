SPECIFICATION Spec
CONSTANTS
  Hosts = {"h1", "h2"}
  Realms = {"ra", "rb"}
  RS = {"p", "q"}
  Slots = {1}
  CfgSet <- CfgThorough
  OfferSets <- OffersAll
  Lives = {0, 2, 4}
  TPS = 2
  MaxClock = 4
  MaxCalls = 2
  MaxTok = 2
  MaxRT = 2
  Bodies = {"none", "plain", "getbody"}
  Statuses <- StatusAll
  TickWhile = {"idle", "resp1wait", "resp2wait", "tokwait"}
INVARIANT Inv
CHECK_DEADLOCK FALSE
