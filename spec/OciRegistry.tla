--------------------------- MODULE OciRegistry ---------------------------
(***************************************************************************)
(* Reference semantics of an OCI registry (the ociregistry.Interface       *)
(* contract as documented in interface.go and implemented by ocimem).      *)
(*                                                                         *)
(* One action per Interface / BlobWriter method.  Every action sets `res`, *)
(* the observable result of the call.  Contents are abstract ids described *)
(* by the catalogue `Cat`; a digest is identified with the content it is   *)
(* the digest of (an independent hash in the harness does the mapping), so *)
(* "stored under digest d" and "is content d" are the same statement here  *)
(* and the binding (trace validation) is what checks it of the code.       *)
(*                                                                         *)
(* Cat[c] = [size  |-> length in bytes,                                    *)
(*           bytes |-> sequence of elements (byte 0..255 or block id>=256),*)
(*           as    |-> [image |-> V, index |-> V]]   with                  *)
(*     V = [wf |-> BOOLEAN,          \* parses and passes descriptor checks *)
(*          blobs |-> set of ids,    \* layers+config                       *)
(*          mans  |-> set of <<id, declared type>>,  \* index children      *)
(*          subject |-> id or "-", subjectType |-> its declared type]       *)
(* Media types are abstract: "image", "index" (the two the registry        *)
(* interprets) and anything else (opaque).                                 *)
(***************************************************************************)
EXTENDS Integers, Sequences, FiniteSets, TLC

CONSTANTS Repos,        \* repository names in play
          Tags,         \* tag names in play
          Cids,         \* content ids (blobs and manifests alike)
          BlobIds,      \* subset of Cids the model pushes as blobs      (only Next uses these two;
          ManIds,       \* subset of Cids the model pushes as manifests   the actions take any id)
          Cat,          \* the catalogue (see above)
          UploadIds,    \* upload session ids in play
          ImmChoices,   \* subset of BOOLEAN: immutable-tags configurations explored
          BlockSize,    \* weight of a block element
          Pos           \* Pos.r[name], Pos.t[tag], Pos.c[cid]: position in ascending byte order
                        \* of names / digest strings (elements sit at even positions 2,4,..;
                        \* a listing start point is any natural number)

VARIABLES imm,     \* configuration: ImmutableTags
          blobs,   \* blobs[r] \subseteq Cids
          mans,    \* mans[r] : manifest id -> media type it is currently stored under
          tags,    \* tags[r] : tag -> [c, mt]
          ups,     \* ups[r]  : upload id -> [buf, expect, dead]
          touched, \* repositories that some write has named (exist, maybe empty)
          res      \* result of the last call (observable)

state == <<imm, blobs, mans, tags, ups, touched>>
vars == <<imm, blobs, mans, tags, ups, touched, res>>

None == "-"
Has(f, x) == x \in DOMAIN f
Interp == {"image", "index"}
Weight(e) == IF e < 256 THEN 1 ELSE BlockSize
RECURSIVE SizeOf(_)
SizeOf(s) == IF s = <<>> THEN 0 ELSE Weight(Head(s)) + SizeOf(Tail(s))

RECURSIVE SetToSeqAny(_)
SetToSeqAny(S) == IF S = {} THEN <<>> ELSE LET x == CHOOSE y \in S : TRUE IN <<x>> \o SetToSeqAny(S \ {x})

\* ------------------------------------------------------------- results --
NoRes == [ok |-> TRUE, code |-> "", kind |-> "none", d |-> None, mt |-> None,
          slice |-> <<>>, items |-> <<>>, n |-> 0]
OkR == NoRes
OkDesc(c, mt) == [NoRes EXCEPT !.kind = "desc", !.d = c, !.mt = mt]
OkRead(c, mt) == [NoRes EXCEPT !.kind = "read", !.d = c, !.mt = mt]
OkRange(c, mt, slice) == [NoRes EXCEPT !.kind = "range", !.d = c, !.mt = mt, !.slice = slice]
OkItems(s) == [NoRes EXCEPT !.kind = "items", !.items = s]
OkN(n) == [NoRes EXCEPT !.kind = "n", !.n = n]
OkDescN(c, n) == [NoRes EXCEPT !.kind = "descn", !.d = c, !.n = n]   \* descriptor with an explicitly given size
ErrR(code) == [NoRes EXCEPT !.ok = FALSE, !.code = code]
\* "FAIL" = must fail, class not fixed by the contract.

HasContent(r) == blobs[r] # {} \/ DOMAIN mans[r] # {} \/ DOMAIN tags[r] # {}
\* A repository holding content must answer with the item-level error; one that
\* holds none may answer NAME_UNKNOWN or the item-level error (C02, last sentence).
Unknowns(r, item) == IF HasContent(r) THEN {item} ELSE {item, "NAME_UNKNOWN"}

\* ---------------------------------------------------- manifest meaning --
View(c, mt) == IF mt \in Interp THEN Cat[c].as[mt]
               ELSE [wf |-> TRUE, blobs |-> {}, mans |-> {}, subject |-> None, subjectType |-> None]
\* wf: acceptable at push time under that type.  parses: the bytes can be read under that type at all
\* (JSON of the right shape); what a reading that parses names - well-formed or not - is followed by
\* the reachability walk.  A catalogue without the field means parses = wf.
Parses(v) == IF "parses" \in DOMAIN v THEN v.parses ELSE v.wf
RefBlobs(c, mt) == View(c, mt).blobs
RefMans(c, mt) == {x[1] : x \in View(c, mt).mans}
Subj(c, mt) == View(c, mt).subject
Acceptable(r, c, mt) ==
  /\ View(c, mt).wf
  /\ RefBlobs(c, mt) \subseteq blobs[r]
  /\ RefMans(c, mt) \subseteq DOMAIN mans[r]

\* Reachability from tags.  Nodes are <<manifest, media type its referrer declares>>; a tag
\* declares the type it was pushed with.  A present manifest can be read under the type it
\* is stored with (what GetManifest serves) or under the declared one.
\* mixed = FALSE: stored type only (the references the registry itself vouches for);
\* mixed = TRUE: both (what ocimem follows).
Readings(r, n, mixed) ==
  IF ~Has(mans[r], n[1]) THEN {}
  ELSE {mans[r][n[1]]} \cup (IF mixed THEN {n[2]} ELSE {})
KidsUnder(c, mt) ==
  LET v == View(c, mt) IN
  IF ~Parses(v) THEN {}
  ELSE v.mans \cup (IF v.subject = None THEN {} ELSE {<<v.subject, v.subjectType>>})
ChildNodes(r, n, mixed) == UNION {KidsUnder(n[1], mt) : mt \in Readings(r, n, mixed)}
RECURSIVE ReachN(_, _, _, _)
ReachN(r, frontier, seen, mixed) ==
  IF frontier = {} THEN seen
  ELSE LET new == UNION {ChildNodes(r, n, mixed) : n \in frontier}
       IN ReachN(r, new \ seen, seen \cup new, mixed)
Roots(r) == {<<tags[r][t].c, tags[r][t].mt>> : t \in DOMAIN tags[r]}
ReachNodes(r, mixed) == ReachN(r, Roots(r), Roots(r), mixed)
ReachMans(r, mixed) == {n[1] : n \in ReachNodes(r, mixed)}
ReachBlobs(r, mixed) ==
  UNION {UNION {IF Parses(View(n[1], mt)) THEN RefBlobs(n[1], mt) ELSE {} : mt \in Readings(r, n, mixed)} : n \in ReachNodes(r, mixed)}
\* A reachable manifest whose bytes cannot be read under a type it is reached with (an index naming
\* arbitrary bytes as an image manifest): the walk cannot be completed.  Deletes may then be refused
\* with any error; what is protected stays protected.
WalkBroken(r) ==
  \E n \in ReachNodes(r, TRUE) : \E mt \in Readings(r, n, TRUE) : mt \in Interp /\ ~Parses(View(n[1], mt))
\* C14: everything a tagged manifest transitively references remains retrievable.  A tag
\* vouches for the media type it was pushed with, the registry for the type a manifest is stored
\* with; what either reading reaches is protected (weakening either one under-protects: the K1
\* defect was the first, an independently seeded defect the second).
\* What MAY be refused is a little wider than what MUST be kept: the registry compares digests, so bytes
\* that are reachable as a blob are also refused deletion as a manifest, and the other way round (the same
\* bytes can be stored as both).
MustKeepBlob(r, c) == imm /\ c \in ReachBlobs(r, TRUE)
MayKeepBlob(r, c) == imm /\ (c \in ReachBlobs(r, TRUE) \/ c \in ReachMans(r, TRUE))
MustKeepMan(r, c) == imm /\ c \in ReachMans(r, TRUE)
MayKeepMan(r, c) == imm /\ (c \in ReachMans(r, TRUE) \/ c \in ReachBlobs(r, TRUE))

\* ----------------------------------------------------------------- init --
Init ==
  /\ imm \in ImmChoices
  /\ blobs = [r \in Repos |-> {}]
  /\ mans = [r \in Repos |-> <<>>]
  /\ tags = [r \in Repos |-> <<>>]
  /\ ups = [r \in Repos |-> <<>>]
  /\ touched = {}
  /\ res = NoRes

Put(f, k, v) == [x \in DOMAIN f \cup {k} |-> IF x = k THEN v ELSE f[x]]
Drop(f, k) == [x \in DOMAIN f \ {k} |-> f[x]]

\* --------------------------------------------------------------- writes --
\* PushBlob(r, desc, content): c = content actually sent, dd = content the declared
\* digest belongs to ("?" = digest of nothing we know), ds = declared size.
PushBlob(r, c, dd, ds) ==
  /\ IF dd = c /\ ds = Cat[c].size
       THEN /\ blobs' = [blobs EXCEPT ![r] = @ \cup {c}]
            /\ touched' = touched \cup {r}
            /\ res' = OkDesc(c, None)
       ELSE /\ res' = ErrR(IF dd # c THEN "DIGEST_INVALID" ELSE "SIZE_INVALID")
            \* a refused push stores nothing; whether the (empty) repository now exists is
            \* not fixed (over HTTP the upload session was opened before the refusal)
            /\ touched' \in {touched, touched \cup {r}}
            /\ UNCHANGED blobs
  /\ UNCHANGED <<imm, mans, tags, ups>>

MountBlob(from, to, c) ==
  /\ touched' = touched \cup {to}
  /\ IF c \in blobs[from]
       THEN blobs' = [blobs EXCEPT ![to] = @ \cup {c}] /\ res' = OkDesc(c, None)
       ELSE (\E code \in Unknowns(from, "BLOB_UNKNOWN") : res' = ErrR(code)) /\ UNCHANGED blobs
  /\ UNCHANGED <<imm, mans, tags, ups>>

\* t = None means untagged.
PushManifest(r, t, c, mt) ==
  /\ touched' = touched \cup {r}
  /\ IF t # None /\ imm /\ Has(tags[r], t) THEN
        IF tags[r][t].c = c /\ tags[r][t].mt = mt
          THEN res' = OkDesc(c, mt) /\ UNCHANGED <<mans, tags>>
          \* refused because the tag is taken; an ill-formed manifest may be refused as such
          ELSE res' = ErrR(IF View(c, mt).wf THEN "DENIED" ELSE "FAIL") /\ UNCHANGED <<mans, tags>>
     ELSE IF Acceptable(r, c, mt) THEN
        /\ mans' = [mans EXCEPT ![r] = Put(@, c, mt)]
        /\ tags' = IF t = None THEN tags ELSE [tags EXCEPT ![r] = Put(@, t, [c |-> c, mt |-> mt])]
        /\ res' = OkDesc(c, mt)
     ELSE res' = ErrR("FAIL") /\ UNCHANGED <<mans, tags>>
  /\ UNCHANGED <<imm, blobs, ups>>

\* ---- chunked uploads.  An upload session belongs to a repository and is never
\* forgotten (ocimem keeps committed and failed sessions). ----
NewUp(off) == [buf |-> <<>>, expect |-> off, dead |-> FALSE, done |-> FALSE]
\* PushBlobChunked: a fresh session u.
PushBlobChunked(r, u) ==
  /\ ~Has(ups[r], u)
  /\ ups' = [ups EXCEPT ![r] = Put(@, u, NewUp(0))]
  /\ touched' = touched \cup {r}
  /\ res' = OkR
  /\ UNCHANGED <<imm, blobs, mans, tags>>
\* PushBlobChunkedResume(r, id, off): off = -1 means "wherever you are".
Resume(r, u, off) ==
  /\ ups' = [ups EXCEPT ![r] = IF Has(@, u) THEN [@ EXCEPT ![u].expect = off] ELSE Put(@, u, NewUp(off))]
  /\ touched' = touched \cup {r}
  /\ res' = OkR
  /\ UNCHANGED <<imm, blobs, mans, tags>>
Write(r, u, data) ==
  /\ Has(ups[r], u)
  /\ LET s == ups[r][u] IN
     IF s.expect # -1 /\ s.expect # SizeOf(s.buf)
       THEN res' = ErrR("RANGE_INVALID") /\ UNCHANGED ups
       ELSE /\ ups' = [ups EXCEPT ![r][u] = [@ EXCEPT !.buf = @ \o data, !.expect = -1]]
            /\ res' = OkN(SizeOf(data))
  /\ UNCHANGED <<imm, blobs, mans, tags, touched>>
UpSize(r, u) ==
  /\ Has(ups[r], u) /\ res' = OkN(SizeOf(ups[r][u].buf)) /\ UNCHANGED state
Cancel(r, u) ==
  /\ Has(ups[r], u)
  /\ ups' = [ups EXCEPT ![r][u].dead = TRUE]
  /\ res' = OkR
  /\ UNCHANGED <<imm, blobs, mans, tags, touched>>
\* Commit(digest of dd).  Succeeds iff the session is alive and the buffer is exactly dd.  A failed
\* attempt kills a session that has not been committed yet; content that has been committed
\* once stays committable (a failed attempt must not invalidate it).
Commit(r, u, dd) ==
  /\ Has(ups[r], u)
  /\ LET s == ups[r][u] IN
     IF s.dead THEN res' = ErrR("FAIL") /\ UNCHANGED <<ups, blobs>>
     ELSE IF dd \in Cids /\ s.buf = Cat[dd].bytes
       THEN /\ blobs' = [blobs EXCEPT ![r] = @ \cup {dd}]
            /\ res' = OkDesc(dd, None)
            /\ ups' = [ups EXCEPT ![r][u].done = TRUE]
       ELSE /\ res' = ErrR("DIGEST_INVALID")
            /\ ups' = [ups EXCEPT ![r][u].dead = ~s.done]
            /\ UNCHANGED blobs
  /\ UNCHANGED <<imm, mans, tags, touched>>

\* ------------------------------------------------ wire-level uploads --
\* The three upload requests any HTTP client may send to a server in front of the registry
\* (ociserver handleBlobUploadChunk / handleBlobCompleteUpload / handleBlobUploadInfo), as the
\* compositions of Resume, Write and Commit the server performs for them.  off = -2: the request
\* carries no Content-Range (the server assumes offset 0).  The answer to a PATCH and to a status
\* GET is the Range header "0-<end>", end = size - 1 (0 for an empty session).
WireOff(off) == IF off = -2 THEN 0 ELSE off
AfterResume(r, u, off) == IF Has(ups[r], u) THEN [ups[r][u] EXCEPT !.expect = off] ELSE NewUp(off)
WireWrite(s, data) ==
  IF data = <<>> THEN [ok |-> TRUE, s |-> s]
  ELSE IF s.expect # -1 /\ s.expect # SizeOf(s.buf) THEN [ok |-> FALSE, s |-> s]
  ELSE [ok |-> TRUE, s |-> [s EXCEPT !.buf = @ \o data, !.expect = -1]]
RangeEnd(s) == IF SizeOf(s.buf) = 0 THEN 0 ELSE SizeOf(s.buf) - 1
RawPatch(r, u, data, off) ==
  LET w == WireWrite(AfterResume(r, u, WireOff(off)), data) IN
  /\ ups' = [ups EXCEPT ![r] = Put(@, u, w.s)]
  /\ touched' = touched \cup {r}
  /\ res' = IF w.ok THEN OkN(RangeEnd(w.s)) ELSE ErrR("RANGE_INVALID")
  /\ UNCHANGED <<imm, blobs, mans, tags>>
RawStatus(r, u) ==
  LET s == AfterResume(r, u, -1) IN
  /\ ups' = [ups EXCEPT ![r] = Put(@, u, s)]
  /\ touched' = touched \cup {r}
  /\ res' = OkN(RangeEnd(s))
  /\ UNCHANGED <<imm, blobs, mans, tags>>
RawPut(r, u, data, off, dd) ==
  LET w == WireWrite(AfterResume(r, u, WireOff(off)), data)
      s == w.s IN
  /\ touched' = touched \cup {r}
  /\ IF ~w.ok THEN
        ups' = [ups EXCEPT ![r] = Put(@, u, s)] /\ res' = ErrR("RANGE_INVALID") /\ UNCHANGED blobs
     ELSE IF s.dead THEN
        ups' = [ups EXCEPT ![r] = Put(@, u, s)] /\ res' = ErrR("FAIL") /\ UNCHANGED blobs
     ELSE IF dd \in Cids /\ s.buf = Cat[dd].bytes THEN
        /\ ups' = [ups EXCEPT ![r] = Put(@, u, [s EXCEPT !.done = TRUE])]
        /\ blobs' = [blobs EXCEPT ![r] = @ \cup {dd}]
        /\ res' = OkDesc(dd, None)
     ELSE
        /\ ups' = [ups EXCEPT ![r] = Put(@, u, [s EXCEPT !.dead = ~s.done])]
        /\ res' = ErrR("DIGEST_INVALID") /\ UNCHANGED blobs
  /\ UNCHANGED <<imm, mans, tags>>

\* -------------------------------------------------------------- deletes --
DeleteBlob(r, c) ==
  /\ IF c \notin blobs[r] THEN (\E code \in Unknowns(r, "BLOB_UNKNOWN") : res' = ErrR(code)) /\ UNCHANGED blobs
     ELSE \/ /\ MayKeepBlob(r, c) /\ res' = ErrR("DENIED") /\ UNCHANGED blobs
          \/ /\ imm /\ WalkBroken(r) /\ res' = ErrR("FAIL") /\ UNCHANGED blobs
          \/ /\ ~MustKeepBlob(r, c)
             /\ blobs' = [blobs EXCEPT ![r] = @ \ {c}] /\ res' = OkR
  /\ UNCHANGED <<imm, mans, tags, ups, touched>>

DeleteManifest(r, c) ==
  /\ IF ~Has(mans[r], c) THEN (\E code \in Unknowns(r, "MANIFEST_UNKNOWN") : res' = ErrR(code)) /\ UNCHANGED mans
     ELSE \/ /\ MayKeepMan(r, c) /\ res' = ErrR("DENIED") /\ UNCHANGED mans
          \/ /\ imm /\ WalkBroken(r) /\ res' = ErrR("FAIL") /\ UNCHANGED mans
          \/ /\ ~MustKeepMan(r, c)
             /\ mans' = [mans EXCEPT ![r] = Drop(@, c)] /\ res' = OkR
  /\ UNCHANGED <<imm, blobs, tags, ups, touched>>

DeleteTag(r, t) ==
  /\ IF ~Has(tags[r], t) THEN (\E code \in Unknowns(r, "MANIFEST_UNKNOWN") : res' = ErrR(code)) /\ UNCHANGED tags
     ELSE IF imm THEN res' = ErrR("DENIED") /\ UNCHANGED tags
     ELSE tags' = [tags EXCEPT ![r] = Drop(@, t)] /\ res' = OkR
  /\ UNCHANGED <<imm, blobs, mans, ups, touched>>

\* ---------------------------------------------------------------- reads --
GetBlob(r, c) ==
  /\ IF c \in blobs[r] THEN res' = OkRead(c, None)
     ELSE \E code \in Unknowns(r, "BLOB_UNKNOWN") : res' = ErrR(code)
  /\ UNCHANGED state
ResolveBlob(r, c) ==
  /\ IF c \in blobs[r] THEN res' = OkDesc(c, None)
     ELSE \E code \in Unknowns(r, "BLOB_UNKNOWN") : res' = ErrR(code)
  /\ UNCHANGED state
\* [o0, o1): o1 < 0 or beyond the end means "to the end".  A non-empty in-bounds range
\* must succeed with exactly the slice; an empty or inverted one may fail or give the
\* (empty) slice.
\* Offsets are in bytes; contents are element sequences (a block element weighs BlockSize).
\* Slices are exact when both ends fall on element boundaries (the drivers see to that).
OnBoundary(s, n) == \E k \in 0..Len(s) : SizeOf(SubSeq(s, 1, k)) = n
ElemsBefore(s, n) == CHOOSE k \in 0..Len(s) : SizeOf(SubSeq(s, 1, k)) = n
Clamp(c, o1) == IF o1 < 0 \/ o1 > Cat[c].size THEN Cat[c].size ELSE o1
\* A request for a non-empty range [o0, o1) (o1 < 0: to the end) of a present blob must give
\* exactly the slice, clamped to the blob; if nothing is left after clamping, or if the
\* request itself is empty or inverted (HTTP cannot even express that), the call may fail or
\* give the empty slice.
GetBlobRange(r, c, o0, o1) ==
  /\ IF o0 < 0 \/ (o1 >= 0 /\ o1 <= o0) THEN
        \/ res' = ErrR("FAIL")
        \/ c \in blobs[r] /\ o0 >= 0 /\ o0 = Clamp(c, o1) /\ res' = OkRange(c, None, <<>>)
     ELSE IF c \notin blobs[r] THEN \E code \in Unknowns(r, "BLOB_UNKNOWN") : res' = ErrR(code)
     ELSE LET e == Clamp(c, o1)
              s == Cat[c].bytes IN
          IF o0 < e THEN
             IF OnBoundary(s, o0) /\ OnBoundary(s, e)
               THEN res' = OkRange(c, None, SubSeq(s, ElemsBefore(s, o0) + 1, ElemsBefore(s, e)))
               ELSE res' = OkDesc(c, None)
          \* a well-formed request starting exactly at the end of the blob yields the empty slice
          ELSE IF o0 = e THEN res' = OkRange(c, None, <<>>)
          ELSE res' = ErrR("FAIL")
  /\ UNCHANGED state
GetManifest(r, c) ==
  /\ IF Has(mans[r], c) THEN res' = OkRead(c, mans[r][c])
     ELSE \E code \in Unknowns(r, "MANIFEST_UNKNOWN") : res' = ErrR(code)
  /\ UNCHANGED state
ResolveManifest(r, c) ==
  /\ IF Has(mans[r], c) THEN res' = OkDesc(c, mans[r][c])
     ELSE \E code \in Unknowns(r, "MANIFEST_UNKNOWN") : res' = ErrR(code)
  /\ UNCHANGED state
ResolveTag(r, t) ==
  /\ IF Has(tags[r], t) THEN res' = OkDesc(tags[r][t].c, tags[r][t].mt)
     ELSE \E code \in Unknowns(r, "MANIFEST_UNKNOWN") : res' = ErrR(code)
  /\ UNCHANGED state
\* GetTag reads the manifest the tag points at.  In mutable mode that manifest may have
\* been deleted (a dangling tag): MANIFEST_UNKNOWN.  The media type served is the one the
\* manifest is stored under.
GetTag(r, t) ==
  /\ IF Has(tags[r], t) /\ Has(mans[r], tags[r][t].c)
       THEN res' = OkRead(tags[r][t].c, mans[r][tags[r][t].c])
       ELSE \E code \in Unknowns(r, "MANIFEST_UNKNOWN") : res' = ErrR(code)
  /\ UNCHANGED state

\* ------------------------------------------------------------- listings --
\* Ordering is byte order of names / of digest strings, supplied as Pos.  A listing
\* starts strictly after position `start` (0 = from the beginning).
Asc(S, pos) == SortSeq(SetToSeqAny(S), LAMBDA a, b : pos[a] < pos[b])
After(S, pos, start) == Asc({x \in S : pos[x] > start}, pos)
Referrers(r, c) ==
  /\ \/ /\ (HasContent(r) \/ r \in touched)
        /\ res' = OkItems(Asc({x \in DOMAIN mans[r] : Subj(x, mans[r][x]) = c}, Pos.c))
     \/ ~HasContent(r) /\ res' = ErrR("NAME_UNKNOWN")
  /\ UNCHANGED state
ListTags(r, start) ==
  /\ \/ /\ (HasContent(r) \/ r \in touched)
        /\ res' = OkItems(After(DOMAIN tags[r], Pos.t, start))
     \/ ~HasContent(r) /\ res' = ErrR("NAME_UNKNOWN")
  /\ UNCHANGED state
ListRepos(start) ==
  /\ \E extra \in SUBSET {r \in touched : ~HasContent(r)} :
        res' = OkItems(After({r \in Repos : HasContent(r)} \cup extra, Pos.r, start))
  /\ UNCHANGED state

\* ----------------------------------------------------------------- next --
\* An operation is a record; Apply dispatches it to its action.  The same records are the
\* scenario steps TLC generates (OciRegistryGen) and the events of recorded traces
\* (RegTrace), so that there is one definition of what each call means.
Close(r, u) == Has(ups[r], u) /\ res' = OkR /\ UNCHANGED state
Apply(o) ==
  CASE o.op = "PushBlob" -> PushBlob(o.r, o.c, o.dd, o.ds)
    [] o.op = "MountBlob" -> MountBlob(o.from, o.r, o.c)
    [] o.op = "PostBlob" -> PushBlob(o.r, o.c, o.dd, Cat[o.c].size)   \* single-POST upload: the length is the body's own
    [] o.op = "PushManifest" -> PushManifest(o.r, o.t, o.c, o.mt)
    [] o.op = "PushBlobChunked" -> PushBlobChunked(o.r, o.u)
    [] o.op = "Resume" -> Resume(o.r, o.u, o.off)
    [] o.op = "Write" -> Write(o.r, o.u, o.data)
    [] o.op = "UpSize" -> UpSize(o.r, o.u)
    [] o.op = "Close" -> Close(o.r, o.u)
    [] o.op = "Cancel" -> Cancel(o.r, o.u)
    [] o.op = "Commit" -> Commit(o.r, o.u, o.dd)
    [] o.op = "RawPatch" -> RawPatch(o.r, o.u, o.data, o.off)
    [] o.op = "RawPut" -> RawPut(o.r, o.u, o.data, o.off, o.dd)
    [] o.op = "RawStatus" -> RawStatus(o.r, o.u)
    [] o.op = "DeleteBlob" -> DeleteBlob(o.r, o.c)
    [] o.op = "DeleteManifest" -> DeleteManifest(o.r, o.c)
    [] o.op = "DeleteTag" -> DeleteTag(o.r, o.t)
    [] o.op = "GetBlob" -> GetBlob(o.r, o.c)
    [] o.op = "GetBlobRange" -> GetBlobRange(o.r, o.c, o.o0, o.o1)
    [] o.op = "ResolveBlob" -> ResolveBlob(o.r, o.c)
    [] o.op = "GetManifest" -> GetManifest(o.r, o.c)
    [] o.op = "ResolveManifest" -> ResolveManifest(o.r, o.c)
    [] o.op = "GetTag" -> GetTag(o.r, o.t)
    [] o.op = "ResolveTag" -> ResolveTag(o.r, o.t)
    [] o.op = "Referrers" -> Referrers(o.r, o.c)
    [] o.op = "ListTags" -> ListTags(o.r, o.startpos)
    [] o.op = "ListRepos" -> ListRepos(o.startpos)

Chunks == {<<1>>, <<2>>, <<1, 2>>}
Ops ==
  {[op |-> "PushBlob", r |-> r, c |-> c, dd |-> dd, ds |-> Cat[c].size + k] :
      r \in Repos, c \in BlobIds, dd \in BlobIds, k \in {0, 1}}
  \cup {[op |-> "MountBlob", from |-> f, r |-> r, c |-> c] : f \in Repos, r \in Repos, c \in BlobIds}
  \cup {[op |-> "PushManifest", r |-> r, t |-> t, c |-> c, mt |-> mt] :
      r \in Repos, t \in Tags \cup {None}, c \in ManIds, mt \in {"image", "index", "other"}}
  \cup {[op |-> x, r |-> r, u |-> u] : x \in {"PushBlobChunked", "Cancel", "UpSize", "Close"}, r \in Repos, u \in UploadIds}
  \cup {[op |-> "Resume", r |-> r, u |-> u, off |-> off] : r \in Repos, u \in UploadIds, off \in {-1, 0, 1, 2}}
  \cup {[op |-> "Write", r |-> r, u |-> u, data |-> d] : r \in Repos, u \in UploadIds, d \in Chunks}
  \cup {[op |-> "Commit", r |-> r, u |-> u, dd |-> dd] : r \in Repos, u \in UploadIds, dd \in BlobIds}
  \cup {[op |-> x, r |-> r, c |-> c] : x \in {"DeleteBlob", "GetBlob", "ResolveBlob"}, r \in Repos, c \in BlobIds}
  \cup {[op |-> x, r |-> r, c |-> c] :
      x \in {"DeleteManifest", "GetManifest", "ResolveManifest", "Referrers"}, r \in Repos, c \in ManIds}
  \cup {[op |-> "GetBlobRange", r |-> r, c |-> c, o0 |-> o0, o1 |-> o1] : r \in Repos, c \in BlobIds, o0 \in -1..3, o1 \in -1..3}
  \cup {[op |-> x, r |-> r, t |-> t] : x \in {"DeleteTag", "ResolveTag", "GetTag"}, r \in Repos, t \in Tags}
  \cup {[op |-> "ListTags", r |-> r, startpos |-> st] : r \in Repos, st \in 0..5}
  \cup {[op |-> "ListRepos", startpos |-> st] : st \in 0..5}
Next == \E o \in Ops : Apply(o)
Spec == Init /\ [][Next]_vars
\* with the wire-level upload requests as well
WireOpSet ==
  {[op |-> "RawPatch", r |-> r, u |-> u, data |-> d, off |-> off] : r \in Repos, u \in UploadIds, d \in Chunks \cup {<<>>}, off \in {-2, 0, 1, 2}}
  \cup {[op |-> "RawPut", r |-> r, u |-> u, data |-> d, off |-> off, dd |-> dd] :
           r \in Repos, u \in UploadIds, d \in Chunks \cup {<<>>}, off \in {-2, 0, 1, 2}, dd \in BlobIds}
  \cup {[op |-> "RawStatus", r |-> r, u |-> u] : r \in Repos, u \in UploadIds}
NextW == \E o \in Ops \cup WireOpSet : Apply(o)
SpecW == Init /\ [][NextW]_vars

\* ----------------------------------------------------------- properties --
TypeOK ==
  /\ imm \in BOOLEAN
  /\ \A r \in Repos :
       /\ blobs[r] \subseteq Cids
       /\ DOMAIN mans[r] \subseteq Cids
       /\ DOMAIN tags[r] \subseteq Tags
       /\ DOMAIN ups[r] \subseteq UploadIds
  /\ touched \subseteq Repos

\* C02: a manifest is only ever stored in a state where what it references is present
\* (checked at push time; later deletes may leave it dangling in mutable mode).
\* C14 (immutable-tags mode), as step properties so that they can be evaluated on every
\* step of a recorded trace as well:
TagStableStep ==
  imm => \A r \in Repos : \A t \in DOMAIN tags[r] : Has(tags'[r], t) /\ tags'[r][t] = tags[r][t]
\* a tagged manifest's bytes and served type never change: it stays stored
TaggedStaysStep ==
  imm => \A r \in Repos : \A t \in DOMAIN tags[r] :
            Has(mans[r], tags[r][t].c) => Has(mans'[r], tags[r][t].c)
ClosureKeptStep ==
  imm => \A r \in Repos :
            /\ (ReachBlobs(r, TRUE) \cap blobs[r]) \subseteq blobs'[r]
            /\ (ReachMans(r, TRUE) \cap DOMAIN mans[r]) \subseteq DOMAIN mans'[r]
TagStable == [][TagStableStep]_vars
TaggedStays == [][TaggedStaysStep]_vars
ClosureKept == [][ClosureKeptStep]_vars
\* in immutable mode a tag always points at a stored manifest
TaggedPresent == imm => \A r \in Repos : \A t \in DOMAIN tags[r] : Has(mans[r], tags[r][t].c)
\* C01/C04: nothing is ever stored by a failing call
FailedCallStoresNothing == [][~res'.ok => (blobs' = blobs /\ mans' = mans /\ tags' = tags)]_vars
\* C04: a write refused for its offset does not alter what any session holds
RefusedKeepsUploads ==
  [][(~res'.ok /\ res'.code = "RANGE_INVALID") => \A r \in Repos : \A u \in DOMAIN ups[r] : ups'[r][u].buf = ups[r][u].buf]_vars
\* C04: whatever a commit (the call's own or the closing PUT's) stores is exactly what some session of the repository holds
CommitStoresSession ==
  [][\A r \in Repos : \A c \in blobs'[r] \ blobs[r] :
        res'.kind = "desc" /\ (ups' # ups => \E u \in DOMAIN ups'[r] : ups'[r][u].buf = Cat[c].bytes /\ ups'[r][u].done)]_vars
\* content only enters a repository through a successful push/mount/commit of that content
OnlyPushedAppears ==
  [][\A r \in Repos : \A c \in blobs'[r] \ blobs[r] : res'.ok /\ res'.d = c]_vars

StateView == state
=============================================================================
