SPECIFICATION Spec
CONSTANTS
  AmbiguityFirst = TRUE
  Kinds = {"up", "authn", "idtu", "empty"}
  MaxKeys = 3
  Export = FALSE
INVARIANTS
  InvDeterministic
  InvPrecedence
  InvCollisionFails
  Emit
PROPERTY PropLookupOrderIrrelevant
CHECK_DEADLOCK FALSE
