------------------------- MODULE OciRegistryGen -------------------------
(* Scenario generation from OciRegistry: random walks (tlc -simulate) whose steps are the
   operation records of Ops; each completed walk is printed as one JSON scenario that the
   harness executes on the real code.  Walks are biased inside Next: a step is kept if it
   changes the state or succeeds, and failing no-op calls only for a sample of arguments. *)
EXTENDS OciRegistryMC, Json

CONSTANTS GenDepth,
          GenKinds    \* operation names the walks may use ({} = all)
VARIABLE h

GInit == Init /\ h = <<>>
Sampled(o) == IF "r" \in DOMAIN o THEN o.r = "r1" ELSE TRUE
RangeSample == {<<-1, -1>>, <<0, 1>>, <<1, 2>>, <<0, -1>>, <<1, 1>>, <<2, 1>>, <<0, 3>>, <<1, -1>>, <<2, 2>>}
GenOps == {o \in Ops : (GenKinds = {} \/ o.op \in GenKinds) /\ IF o.op = "GetBlobRange" THEN <<o.o0, o.o1>> \in RangeSample
                       ELSE IF o.op \in {"ListTags", "ListRepos"} THEN o.startpos \in {0, 2, 3} ELSE TRUE}
\* The walk is printed by its own final step, so exactly once per walk (an invariant would be
\* evaluated on every candidate successor).
GNext ==
  \/ /\ Len(h) < GenDepth
     /\ \E o \in GenOps :
          /\ Apply(o)
          /\ (state' # state \/ res'.ok \/ (Sampled(o) /\ o.op \notin {"GetBlobRange", "ListTags"}))
          /\ h' = Append(h, o)
  \/ /\ Len(h) = GenDepth
     /\ PrintT(<<"MBT", ToJson([imm |-> imm, ops |-> h])>>)
     /\ h' = Append(h, [op |-> "end"])
     /\ UNCHANGED vars
GSpec == GInit /\ [][GNext]_<<vars, h>>
=========================================================================
