SPECIFICATION Spec
CONSTANTS
  Hosts = {"h1", "h2"}
  Realms = {"ra"}
  RS = {"p"}
  Slots = {1, 2}
  CfgSet <- CfgConc
  OfferSets <- OffersSmall
  Lives = {0}
  TPS = 1
  MaxClock = 0
  MaxCalls = 2
  MaxTok = 2
  MaxRT = 1
  Bodies = {"plain"}
  Statuses <- StatusFew
  TickWhile = {"idle"}
INVARIANT Inv
CHECK_DEADLOCK FALSE
