SPECIFICATION Spec
CONSTANTS
  Hosts = {"h1", "h2"}
  Realms = {"ra"}
  RS = {"p"}
  Slots = {1, 2}
  CfgSet <- CfgConc
  OfferSets <- OffersSmall
  Lives = {0, 2}
  TPS = 1
  MaxClock = 1
  MaxCalls = 2
  MaxTok = 2
  MaxRT = 2
  Bodies = {"plain"}
  Statuses <- StatusFew
  TickWhile = {"idle"}
INVARIANT Inv
CHECK_DEADLOCK FALSE
