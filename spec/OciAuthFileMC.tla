--------------------------- MODULE OciAuthFileMC ---------------------------
(***************************************************************************)
(* Exhaustive check of OciAuthFile over a small universe, and export of     *)
(* every configuration with its specified answers (direction A).           *)
(*                                                                         *)
(* Family A (the table part): host h1 with every set of <= MaxKeys keys    *)
(* out of six key forms, every assignment of credential kinds to them;     *)
(* host h2 with no key or one URL key, no helper / a default store whose   *)
(* binary is missing / an empty per-host helper next to a working store    *)
(* (four combinations of these).                                           *)
(* Family B (the helper part): a few tables x per-host helper for h1       *)
(* {absent, "", A} x default store {"", B} x what A and B do (5 x 5).      *)
(* Family C (helper answers with members left out): 2 tables x store B x   *)
(* per-host helper {absent, h1:A, h2:A} x what A and B do (11 x 11).       *)
(***************************************************************************)
EXTENDS OciAuthFile, Json

CONSTANTS Kinds,      \* credential kinds used in family A
          MaxKeys,    \* keys for h1 in family A
          Export      \* print MBT lines

H1 == <<104, 49>>
H2 == <<104, 50>>
H3 == <<104, 51>>
Form(f, h) == CASE f = 1 -> h                                    \* h
                [] f = 2 -> HTTP \o h \o <<47, 112>>              \* http://h/p
                [] f = 3 -> HTTPS \o h                            \* https://h
                [] f = 4 -> h \o <<47, 47, 120>>                  \* h//x
                [] f = 5 -> h \o <<47, 120>>                      \* h/x      (not a URL key)
                [] f = 6 -> HTTPS \o h \o <<47, 118, 49, 47>>     \* https://h/v1/
NForms == 6
QHosts == {H1, H2, H3, Form(5, H1)}

\* the j-th key's credentials of kind kd (all values mention j, to tell entries apart)
D(j) == 48 + j
Blank(k) == [key |-> k, username |-> E, password |-> E, auth |-> E, identitytoken |-> E, registrytoken |-> E, email |-> E]
Entry(k, kd, j) ==
  CASE kd = "up"     -> [Blank(k) EXCEPT !.username = <<117, D(j)>>, !.password = <<112, D(j)>>]
    [] kd = "auth"   -> [Blank(k) EXCEPT !.auth = B64Encode(<<98, D(j), 58, 115, 58, 120>>)]          \* bj:s:x
    [] kd = "authe"  -> [Blank(k) EXCEPT !.auth = B64Encode(<<97, D(j), 58>>)]                        \* aj:
    [] kd = "authn"  -> [Blank(k) EXCEPT !.auth = B64Encode(<<110, D(j), 58, 0, 119, 58, 122, 0, 0>>)] \* nj:\0w:z\0\0
    [] kd = "authu"  -> [Blank(k) EXCEPT !.auth = B64Encode(<<99, D(j), 58, 113>>),                   \* cj:q  + username
                                         !.username = <<117, D(j)>>, !.password = <<112>>]
    [] kd = "idt"    -> [Blank(k) EXCEPT !.identitytoken = <<116, D(j)>>]
    [] kd = "idtu"   -> [Blank(k) EXCEPT !.identitytoken = <<116, D(j)>>, !.username = <<117, D(j)>>]
    [] kd = "idta"   -> [Blank(k) EXCEPT !.identitytoken = <<116, D(j)>>, !.auth = B64Encode(<<100, D(j), 58, 122>>)]
    [] kd = "reg"    -> [Blank(k) EXCEPT !.registrytoken = <<114, D(j)>>]
    [] kd = "bad"    -> [Blank(k) EXCEPT !.auth = <<33, 33, 33, 33>>]                                 \* !!!!
    [] kd = "nouser" -> [Blank(k) EXCEPT !.auth = B64Encode(<<58, 112, 119>>)]                        \* :pw
    [] kd = "email"  -> [Blank(k) EXCEPT !.email = <<101, D(j), 64, 120>>]      \* {"email": "ej@x"}: a field that carries no credentials
    [] OTHER         -> Blank(k)                                                \* "empty": {} - the placeholder docker leaves next to a credsStore

Beh(kind, tag) == [kind |-> kind, user |-> <<tag, 117>>, secret |-> <<tag, 115>>]
Helpers(ka, kb) == [A |-> Beh(ka, 65), B |-> Beh(kb, 66)]
BehKinds == {"creds", "token", "notfound", "nobinary", "error"}

\* increasing sequences of form numbers, at most MaxKeys long
FormSeqs == {<<>>} \cup {<<a>> : a \in 1..NForms}
            \cup (IF MaxKeys >= 2 THEN {<<a, b>> : a \in 1..NForms, b \in 1..NForms} ELSE {})
            \cup (IF MaxKeys >= 3 THEN {<<a, b, c>> : a \in 1..NForms, b \in 1..NForms, c \in 1..NForms} ELSE {})
Increasing(s) == \A i \in 1..Len(s) : i < Len(s) => s[i] < s[i + 1]

HelperSetups == <<[store |-> "", ch |-> <<>>, hs |-> Helpers("creds", "creds")],
                  [store |-> "B", ch |-> <<>>, hs |-> Helpers("creds", "nobinary")],
                  [store |-> "B", ch |-> <<[host |-> H1, helper |-> ""]>>, hs |-> Helpers("creds", "creds")]>>
Auths1(fs, kd) == [j \in 1..Len(fs) |-> Entry(Form(fs[j], H1), kd[j], j)]
\* h2's key and the helper setup are varied together (not as a product): h2's key does not
\* interact with h1's, it only lengthens the visiting orders
Variants == {[a2 |-> <<>>, hs |-> 1], [a2 |-> <<Entry(Form(2, H2), "up", 9)>>, hs |-> 1],
             [a2 |-> <<Entry(Form(2, H2), "up", 9)>>, hs |-> 2], [a2 |-> <<>>, hs |-> 3]}
FamilyAOf(fs) ==
  {[auths |-> Auths1(fs, kd) \o v.a2, credsStore |-> HelperSetups[v.hs].store, credHelpers |-> HelperSetups[v.hs].ch,
    helpers |-> HelperSetups[v.hs].hs] :
      kd \in [1..MaxKeys -> Kinds], v \in Variants}

Tables0 == {<<>>,
            <<Entry(H1, "up", 1)>>,
            <<Entry(Form(2, H1), "auth", 1)>>,
            <<Entry(Form(2, H1), "up", 1), Entry(Form(3, H1), "idt", 2)>>}
FamilyBOf(t) ==
  {[auths |-> t, credsStore |-> st, credHelpers |-> ch, helpers |-> Helpers(ka, kb)] :
      st \in {"", "B"}, ka \in BehKinds, kb \in BehKinds,
      ch \in {<<>>, <<[host |-> H1, helper |-> ""]>>, <<[host |-> H1, helper |-> "A"]>>,
              <<[host |-> H2, helper |-> "A"]>>}}

\* Family C: helper programs whose answers leave members out, next to ones that answer in full: the answer
\* for a host must not pick up anything from the answer given for another host before.
PartialKinds == {"useronly", "secretonly", "emptyobj", "urlonly", "extra", "mixed"}
FamilyC ==
  {[auths |-> t, credsStore |-> "B", credHelpers |-> ch, helpers |-> Helpers(ka, kb)] :
      t \in {<<>>, <<Entry(H1, "up", 1)>>}, ka \in BehKinds \cup PartialKinds, kb \in BehKinds \cup PartialKinds,
      ch \in {<<>>, <<[host |-> H1, helper |-> "A"]>>, <<[host |-> H2, helper |-> "A"]>>}}
  \ (FamilyBOf(<<>>) \cup FamilyBOf(<<Entry(H1, "up", 1)>>))

\* Two stages, so that TLC's workers share the enumeration: the initial states only fix the
\* key forms (family A) or the table (family B); Pick then chooses the rest.
VARIABLES seed, picked
mvars == <<cfg, loaded, tbl, last, seed, picked>>
Seeds == {[fam |-> "A", fs |-> s, t |-> <<>>] : s \in {s \in FormSeqs : Increasing(s)}}
         \cup {[fam |-> "B", fs |-> <<>>, t |-> t] : t \in Tables0}
         \cup {[fam |-> "C", fs |-> <<>>, t |-> <<>>]}
EmptyCfg == [auths |-> <<>>, credsStore |-> "", credHelpers |-> <<>>, helpers |-> Helpers("creds", "creds")]
Init == seed \in Seeds /\ picked = FALSE /\ AInit({EmptyCfg})
Pick == /\ ~picked /\ picked' = TRUE
        /\ cfg' \in IF seed.fam = "A" THEN FamilyAOf(seed.fs) ELSE IF seed.fam = "B" THEN FamilyBOf(seed.t) ELSE FamilyC
        /\ UNCHANGED <<loaded, tbl, last, seed>>
Next == \/ Pick
        \/ picked /\ UNCHANGED <<seed, picked>> /\ (LoadAct \/ \E h \in QHosts : QueryAct(h))
Spec == Init /\ [][Next]_mvars

\* the laws that concern the configuration alone are evaluated once per configuration
Fresh == picked /\ ~loaded
InvDeterministic == Deterministic
InvPrecedence == Fresh => Precedence(QHosts)
InvCollisionFails == Fresh => CollisionFails(QHosts)
PropLookupOrderIrrelevant == LookupOrderIrrelevant(QHosts)

\* all users of 1..2 bytes and passwords of 0..3 bytes over small alphabets holding ':' (passwords), NUL, '@' and a
\* non-ASCII byte - every padding length of the base64 text occurs; the law itself keeps the pairs it speaks about
StrsUpTo(A, n) == UNION {[1..k -> A] : k \in 0..n}
Users == StrsUpTo({117, 0, 255}, 2)
Passes == StrsUpTo({112, 58, 0, 254}, 3) \cup {<<112, 58, 113, 58>>, <<112, 113, 114, 115, 116>>}
ASSUME AuthDecodesExactly(Users, Passes)
\* the user is cut at the FIRST ':', NULs around the password go, other forms are refused
ASSUME DecodeAuth(B64Encode(<<117, 58, 0, 0, 112, 0>>)) = [ok |-> TRUE, user |-> <<117>>, pass |-> <<112>>]
ASSUME ~DecodeAuth(B64Encode(<<58, 112>>)).ok /\ ~DecodeAuth(B64Encode(<<117>>)).ok /\ ~DecodeAuth(<<33, 33, 33, 33>>).ok
ASSUME ~DecodeAuth(<<100, 81>>).ok   \* "dQ" - unpadded
ASSUME UrlHost(Form(2, H1)) = H1 /\ UrlHost(Form(3, H1)) = H1 /\ UrlHost(Form(4, H1)) = H1
       /\ UrlHost(Form(6, H1)) = H1 /\ ~IsUrlKey(Form(5, H1)) /\ ~IsUrlKey(H1)

\* --------------------------------------------------------------- export (A)
\* is the host table the decode builds sensitive to the visiting order?
OrderSensitive(c) == LoadOk(c) /\ Cardinality(Tables(c)) > 1
HostSeq == <<H1, H2, H3, Form(5, H1)>>
ExportCase(c) ==
  [cfg |-> c, hosts |-> HostSeq, loadok |-> LoadOk(c), sens |-> OrderSensitive(c),
   expect |-> IF LoadOk(c) THEN [i \in 1..Len(HostSeq) |-> [host |-> HostSeq[i], res |-> Lookup(c, HostSeq[i])]] ELSE <<>>]
Emit == (Export /\ Fresh) => PrintT(<<"MBT", ToJson(ExportCase(cfg))>>)
=============================================================================
