SPECIFICATION CSpec
CONSTANTS
  Repos = {"r1"}
  Tags = {}
  Cids = {"b0", "b1", "b2", "img", "idx", "idy", "sub", "bad"}
  BlobIds = {"b1", "b2"}
  ManIds = {}
  Cat <- MCCat
  UploadIds = {"u1"}
  ImmChoices = {FALSE}
  BlockSize = 8192
  Pos <- MCPos
  CoverKinds = {"PushBlobChunked", "Write", "Commit", "Cancel", "RawPatch", "RawPut", "RawStatus", "GetBlob", "DeleteBlob"}
  PrintKinds = {}
  PrintMinMans = 0
CONSTRAINT BufBound
VIEW CoverView
CHECK_DEADLOCK FALSE
