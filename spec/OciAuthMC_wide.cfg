SPECIFICATION Spec
CONSTANTS
  Hosts = {"h1", "h2"}
  Realms = {"ra", "rb"}
  RS = {"p", "q"}
  Slots = {1}
  CfgSet <- CfgWide
  OfferSets <- OffersAll
  Lives = {0, 2}
  TPS = 1
  MaxClock = 2
  MaxCalls = 2
  MaxTok = 2
  MaxRT = 2
  Bodies = {"none", "plain", "getbody"}
  Statuses <- StatusAll
  TickWhile = {"idle"}
INVARIANT Inv
CHECK_DEADLOCK FALSE
