SPECIFICATION Spec
CONSTANTS
  Hosts = {"h1", "h2"}
  Realms = {"ra", "rb"}
  RS = {"p", "q"}
  Slots = {1}
  CfgSet <- CfgWide1
  OfferSets <- OffersAll
  Lives = {0}
  TPS = 1
  MaxClock = 0
  MaxCalls = 2
  MaxTok = 2
  MaxRT = 2
  Bodies = {"none", "getbody"}
  Statuses <- StatusFew
  TickWhile = {"idle"}
INVARIANT Inv
CHECK_DEADLOCK FALSE
