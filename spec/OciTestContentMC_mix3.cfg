SPECIFICATION MCSafeSpec
CONSTANTS
  Repos = {"r1", "r2"}
  Tags = {"t1", "t2"}
  Cids <- MCCids
  BlobIds = {}
  ManIds = {}
  Cat <- MCCat
  UploadIds = {}
  ImmChoices = {FALSE}
  BlockSize = 8
  Pos <- MCPos
  TheRepo = "r1"
  SpaceSel = "mix3"
INVARIANTS PTypeOK TypeOK PassBound MeasureNat SubjectFirst OnlyGrounded AllBeforePush OutcomeAgrees NeverRefused NothingUntilComplete CatAgrees NextPushAcceptable TagPushAcceptable FinalExact TagErrorLeaves OtherReposUntouched
PROPERTIES Decreases FailedCallStoresNothing
