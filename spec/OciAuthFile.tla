---------------------------- MODULE OciAuthFile ----------------------------
(***************************************************************************)
(* C19.  Credential lookup from a Docker-style config file                 *)
(* (ociregistry/ociauth/authfile.go: LoadWithEnv, decodeConfigFile,        *)
(* urlHost, decodeAuth, ConfigFile.EntryForRegistry, HelperRunner).        *)
(*                                                                         *)
(* Strings are sequences of byte values (naturals), so that urlHost,       *)
(* base64 and the user:password split are specified on the very text the   *)
(* real code sees (NUL, ':' and '/' included).  Helper names are plain     *)
(* TLA+ strings ("" = none): they are only compared.                       *)
(*                                                                         *)
(* A configuration is                                                      *)
(*   [auths       : sequence of [key, username, password, auth,            *)
(*                               identitytoken, registrytoken] (keys       *)
(*                  pairwise different: a JSON object; an entry may hold   *)
(*                  nothing at all - {} - or only fields that carry no     *)
(*                  credentials, such as email: it still is an entry, and  *)
(*                  the collision rule does not look at entry contents),   *)
(*    credsStore  : helper name,                                           *)
(*    credHelpers : sequence of [host, helper] (hosts pairwise different), *)
(*    helpers     : helper name -> [kind, user, secret]  -- what running   *)
(*                  that helper does: "creds" | "token" | "notfound" |     *)
(*                  "nobinary" | "error" | answers with members left out   *)
(*                  (see RunHelper)]                                       *)
(*                                                                         *)
(* Lookup(cfg, h) is the specification: a function of the configuration    *)
(* (and helper behaviours) only.  Build/LookupOp is the operational        *)
(* reading of decodeConfigFile (keys visited in an arbitrary order, the    *)
(* host table extended while it is being walked); the model checks that    *)
(* every visiting order yields the specified result.                       *)
(***************************************************************************)
EXTENDS Integers, Sequences, FiniteSets, TLC

CONSTANT AmbiguityFirst   \* FALSE: the specification (collision test first).
                          \* TRUE: the order of the two tests in authfile.go as found (F13);
                          \* only used to demonstrate that TLC finds the order dependence.

\* ------------------------------------------------------------------ strings
E == <<>>
SLASH == 47
COLON == 58
PAD == 61
HTTP  == <<104, 116, 116, 112, 58, 47, 47>>          \* "http://"
HTTPS == <<104, 116, 116, 112, 115, 58, 47, 47>>     \* "https://"

HasPrefix(s, p) == Len(s) >= Len(p) /\ SubSeq(s, 1, Len(p)) = p
DropN(s, n) == SubSeq(s, n + 1, Len(s))
\* position of the first c in s, 0 if none
IndexOf(s, c) ==
  LET I == {i \in 1..Len(s) : s[i] = c}
  IN IF I = {} THEN 0 ELSE CHOOSE i \in I : \A j \in I : i <= j
HasDoubleSlash(s) == \E i \in 1..Len(s) : i < Len(s) /\ s[i] = SLASH /\ s[i + 1] = SLASH

\* urlHost: strip one leading "http://" or else one leading "https://", keep what
\* precedes the first '/'.
UrlHost(k) ==
  LET st == IF HasPrefix(k, HTTP) THEN DropN(k, 7)
            ELSE IF HasPrefix(k, HTTPS) THEN DropN(k, 8) ELSE k
      i == IndexOf(st, SLASH)
  IN IF i = 0 THEN st ELSE SubSeq(st, 1, i - 1)

\* A key "looks like a URL" iff it contains "//" (its host then differs from it, as a
\* host holds no '/'); such a key also stands for its host.
IsUrlKey(k) == HasDoubleSlash(k) /\ UrlHost(k) # k

\* ------------------------------------------------------------------- base64
\* Standard alphabet, '=' padding.
B64Val(c) == IF c \in 65..90 THEN c - 65
             ELSE IF c \in 97..122 THEN c - 71
             ELSE IF c \in 48..57 THEN c + 4
             ELSE IF c = 43 THEN 62
             ELSE IF c = 47 THEN 63 ELSE 64
B64Char(v) == IF v < 26 THEN v + 65
              ELSE IF v < 52 THEN v + 71
              ELSE IF v < 62 THEN v - 4
              ELSE IF v = 62 THEN 43 ELSE 47
IsNL(c) == c = 10 \/ c = 13
StripNL(s) == SelectSeq(s, LAMBDA c : ~IsNL(c))

RECURSIVE Flatten(_, _)
Flatten(ss, i) == IF i > Len(ss) THEN <<>> ELSE ss[i] \o Flatten(ss, i + 1)

\* The most an implementation may accept (RFC 4648 decoders that skip line breaks and do
\* not insist on zero trailing bits): whole quanta of four characters, padding only at the
\* very end ("xx==" or "xxx=").
B64Shape(s) ==
  /\ Len(s) % 4 = 0
  /\ \A i \in 1..Len(s) :
        \/ B64Val(s[i]) < 64
        \/ /\ s[i] = PAD
           /\ i >= Len(s) - 1
           /\ i = Len(s) - 1 => s[Len(s)] = PAD
QuantumBytes(s, q) ==
  LET a == B64Val(s[4 * q - 3])
      b == B64Val(s[4 * q - 2])
      c == IF s[4 * q - 1] = PAD THEN 0 ELSE B64Val(s[4 * q - 1])
      d == IF s[4 * q] = PAD THEN 0 ELSE B64Val(s[4 * q])
      n == IF s[4 * q - 1] = PAD THEN 1 ELSE IF s[4 * q] = PAD THEN 2 ELSE 3
  IN SubSeq(<<a * 4 + b \div 16, (b % 16) * 16 + c \div 4, (c % 4) * 64 + d>>, 1, n)
B64Bytes(s) == Flatten([q \in 1..(Len(s) \div 4) |-> QuantumBytes(s, q)], 1)

EncGroup(b, g) ==
  LET n == Len(b) - 3 * (g - 1)                      \* bytes left for this group: >= 1
      x == b[3 * g - 2]
      y == IF n >= 2 THEN b[3 * g - 1] ELSE 0
      z == IF n >= 3 THEN b[3 * g] ELSE 0
  IN <<B64Char(x \div 4),
       B64Char((x % 4) * 16 + y \div 16),
       IF n >= 2 THEN B64Char((y % 16) * 4 + z \div 64) ELSE PAD,
       IF n >= 3 THEN B64Char(z % 64) ELSE PAD>>
B64Encode(b) == Flatten([g \in 1..((Len(b) + 2) \div 3) |-> EncGroup(b, g)], 1)

\* a is THE base64 text of some byte string
B64Canonical(a) == B64Shape(a) /\ B64Encode(B64Bytes(a)) = a

TrimNul(s) ==
  LET NZ == {i \in 1..Len(s) : s[i] # 0}
  IN IF NZ = {} THEN <<>>
     ELSE SubSeq(s, CHOOSE i \in NZ : \A j \in NZ : i <= j, CHOOSE i \in NZ : \A j \in NZ : i >= j)

\* decodeAuth: base64("user:password"); the user is what precedes the FIRST ':' and must not
\* be empty; NUL bytes around the password are dropped (the Docker CLI does so).
DecodeAuth(a) ==
  LET s == StripNL(a)
  IN IF ~B64Shape(s) THEN [ok |-> FALSE, user |-> E, pass |-> E]
     ELSE LET b == B64Bytes(s)
              i == IndexOf(b, COLON)
          IN IF i <= 1 THEN [ok |-> FALSE, user |-> E, pass |-> E]
             ELSE [ok |-> TRUE, user |-> SubSeq(b, 1, i - 1), pass |-> TrimNul(DropN(b, i))]

\* -------------------------------------------------------------- the file part
\* The credentials one auths entry stands for: an auth field overrides username/password.
Cred(a) ==
  IF a.auth # E
  THEN LET d == DecodeAuth(a.auth)
       IN [user |-> d.user, pass |-> d.pass, idtok |-> a.identitytoken, regtok |-> a.registrytoken]
  ELSE [user |-> a.username, pass |-> a.password, idtok |-> a.identitytoken, regtok |-> a.registrytoken]
NoCred == [user |-> E, pass |-> E, idtok |-> E, regtok |-> E]

Idx(cfg) == 1..Len(cfg.auths)
\* entries whose auth field cannot be decoded by any decoder: the file must be refused
MustFailKeys(cfg) == {i \in Idx(cfg) : cfg.auths[i].auth # E /\ ~DecodeAuth(cfg.auths[i].auth).ok}
\* entries whose auth field is decodable but is not canonical base64 text (line breaks,
\* non-zero trailing bits): the property is silent; refusing the file and decoding are
\* both allowed
MayFailKeys(cfg) == {i \in Idx(cfg) : cfg.auths[i].auth # E /\ DecodeAuth(cfg.auths[i].auth).ok
                                       /\ ~B64Canonical(cfg.auths[i].auth)}
LoadOk(cfg) == MustFailKeys(cfg) = {}

\* ------------------------------------------------------------------- results
ZeroRes == [ok |-> TRUE, class |-> "none", kind |-> "none",
            refresh |-> E, access |-> E, user |-> E, pass |-> E]
FailRes(class, kind) == [ZeroRes EXCEPT !.ok = FALSE, !.class = class, !.kind = kind]
CredRes(c) == [ZeroRes EXCEPT !.refresh = c.idtok, !.access = c.regtok, !.user = c.user, !.pass = c.pass]

\* What the table part answers for a credentials record c derived from n URL keys
\* (n = 0: explicit entry or nothing at all).
Ambiguous(c) == c.idtok # E /\ c.user # E
Judge(c, n) ==
  IF AmbiguityFirst
  THEN IF Ambiguous(c) THEN FailRes("table", "ambiguous")
       ELSE IF n > 1 THEN FailRes("table", "multiple") ELSE CredRes(c)
  ELSE IF n > 1 THEN FailRes("table", "multiple")
       ELSE IF Ambiguous(c) THEN FailRes("table", "ambiguous") ELSE CredRes(c)

ExplicitIdx(cfg, h) == {i \in Idx(cfg) : cfg.auths[i].key = h}
DerivedIdx(cfg, h) == {i \in Idx(cfg) : IsUrlKey(cfg.auths[i].key) /\ UrlHost(cfg.auths[i].key) = h}

\* SPECIFICATION of the table part: explicit entry > the single URL-form entry; several
\* URL-form entries for the host: failure, whatever they hold.
TableLookup(cfg, h) ==
  LET X == ExplicitIdx(cfg, h)
      D == DerivedIdx(cfg, h)
  IN IF X # {} THEN Judge(Cred(cfg.auths[CHOOSE i \in X : TRUE]), 0)
     ELSE IF D = {} THEN ZeroRes
     ELSE IF Cardinality(D) = 1 THEN Judge(Cred(cfg.auths[CHOOSE i \in D : TRUE]), 1)
     ELSE FailRes("table", "multiple")

\* --------------------------------------------------------------- helper part
HelperHosts(cfg) == {cfg.credHelpers[i].host : i \in 1..Len(cfg.credHelpers)}
HelperFor(cfg, h) ==
  IF h \in HelperHosts(cfg)
  THEN [name |-> cfg.credHelpers[CHOOSE i \in 1..Len(cfg.credHelpers) : cfg.credHelpers[i].host = h].helper,
        explicit |-> TRUE]
  ELSE [name |-> cfg.credsStore, explicit |-> FALSE]

AT == 64  \* the scripted helpers answer user "<user>@<server URL they were asked about>"
\* What a helper does is given per helper: its kind and the user/secret it knows.  Kinds "creds",
\* "token", "notfound", "nobinary", "error" are whole behaviours; the others are helper programs whose JSON
\* answer leaves members out (absent members mean empty fields - never an earlier answer's values):
\*   "useronly" {"Username":u}   "secretonly" {"Secret":s}   "emptyobj" {}   "urlonly" {"ServerURL":h}
\*   "extra" a full answer with further members
\*   "mixed" depends on the host asked about: last byte mod 3 = 1 full answer, 2 user only, 0 (or no byte) {}
HostClass(h) == IF Len(h) = 0 THEN 0 ELSE h[Len(h)] % 3
RunHelper(cfg, name, h) ==
  LET b == cfg.helpers[name]
      full == [ZeroRes EXCEPT !.user = b.user \o <<AT>> \o h, !.pass = b.secret]
      uonly == [ZeroRes EXCEPT !.user = b.user \o <<AT>> \o h]
  IN CASE b.kind = "creds"      -> full
       [] b.kind = "extra"      -> full
       [] b.kind = "token"      -> [ZeroRes EXCEPT !.refresh = b.secret]
       [] b.kind = "notfound"   -> ZeroRes          \* the helper has nothing for h: "no credentials", not an error
       [] b.kind = "useronly"   -> uonly
       [] b.kind = "secretonly" -> [ZeroRes EXCEPT !.pass = b.secret]
       [] b.kind = "emptyobj"   -> ZeroRes
       [] b.kind = "urlonly"    -> ZeroRes
       [] b.kind = "mixed"      -> IF HostClass(h) = 1 THEN full ELSE IF HostClass(h) = 2 THEN uonly ELSE ZeroRes
       [] b.kind = "nobinary"   -> FailRes("nobinary", "nobinary")
       [] OTHER                 -> FailRes("helper", "helper")

WithCalls(r, calls) == [ok |-> r.ok, class |-> r.class, kind |-> r.kind, refresh |-> r.refresh,
                        access |-> r.access, user |-> r.user, pass |-> r.pass, calls |-> calls]
Core(r) == [ok |-> r.ok, class |-> r.class, kind |-> r.kind, refresh |-> r.refresh,
            access |-> r.access, user |-> r.user, pass |-> r.pass]

\* SPECIFICATION of a lookup, given the table part T(h).
LookupWith(cfg, h, T(_)) ==
  LET hp == HelperFor(cfg, h)
  IN IF hp.name = "" THEN WithCalls(T(h), <<>>)
     ELSE LET r == RunHelper(cfg, hp.name, h)
              calls == <<[helper |-> hp.name, url |-> h]>>
          IN IF r.ok \/ hp.explicit \/ r.class # "nobinary" THEN WithCalls(r, calls)
             ELSE WithCalls(T(h), calls)        \* the default store is not installed
Lookup(cfg, h) == LookupWith(cfg, h, LAMBDA x : TableLookup(cfg, x))

\* -------------------------------------------------- operational table (as coded)
\* The host table after visiting the keys in the order p (a permutation of Idx(cfg)):
\* a function  key text -> [c: credentials, from: set of URL keys it was derived from].
\* (Go may or may not visit entries added during the walk; visiting one changes nothing:
\* a host holds no "//".)
PermsDirect(n) == {p \in [1..n -> 1..n] : \A i, j \in 1..n : p[i] = p[j] => i = j}
PermsSmall == [n \in 0..5 |-> PermsDirect(n)]      \* (a constant: TLC evaluates it once)
Perms(n) == IF n <= 5 THEN PermsSmall[n] ELSE PermsDirect(n)
Table0(cfg) == [k \in {cfg.auths[i].key : i \in Idx(cfg)} |->
                  [c |-> Cred(cfg.auths[CHOOSE i \in Idx(cfg) : cfg.auths[i].key = k]), from |-> {}]]
RECURSIVE Build(_, _, _, _)
Build(cfg, t, p, n) ==
  IF n > Len(cfg.auths) THEN t
  ELSE LET k == cfg.auths[p[n]].key
           h == UrlHost(k)
       IN IF ~HasDoubleSlash(k) \/ h = k THEN Build(cfg, t, p, n + 1)
          ELSE IF h \in DOMAIN t /\ t[h].from = {} THEN Build(cfg, t, p, n + 1)   \* explicit entry stays
          ELSE LET base == IF h \in DOMAIN t THEN t[h] ELSE [c |-> t[k].c, from |-> {}]
                   new == [base EXCEPT !.from = @ \cup {k}]
               IN Build(cfg, [x \in DOMAIN t \cup {h} |-> IF x = h THEN new ELSE t[x]], p, n + 1)
BuildTable(cfg, p) == Build(cfg, Table0(cfg), p, 1)
\* all tables a decode of cfg can produce
Tables(cfg) == LET t0 == Table0(cfg) IN {Build(cfg, t0, p, 1) : p \in Perms(Len(cfg.auths))}

TableLookupOp(t, h) == IF h \in DOMAIN t THEN Judge(t[h].c, Cardinality(t[h].from)) ELSE ZeroRes
LookupOp(cfg, t, h) == LookupWith(cfg, h, LAMBDA x : TableLookupOp(t, x))

\* ---------------------------------------------------------------- the machine
VARIABLES cfg,      \* the configuration (chosen initially)
          loaded,   \* has the file been decoded
          tbl,      \* the host table built by that decode
          last      \* the last query and its answer
avars == <<cfg, loaded, tbl, last>>

NoQuery == [set |-> FALSE, host |-> E, res |-> WithCalls(ZeroRes, <<>>)]

AInit(Configs) == cfg \in Configs /\ loaded = FALSE /\ tbl = <<>> /\ last = NoQuery
LoadAct ==
  /\ ~loaded /\ LoadOk(cfg)
  /\ tbl' \in Tables(cfg)
  /\ loaded' = TRUE
  /\ UNCHANGED <<cfg, last>>
QueryAct(h) ==
  /\ loaded
  /\ last' = [set |-> TRUE, host |-> h, res |-> LookupOp(cfg, tbl, h)]
  /\ UNCHANGED <<cfg, loaded, tbl>>

\* ------------------------------------------------------------------ properties
\* Deterministic: whatever order the keys were visited in (and whatever was asked before),
\* an answer is the specified function of the configuration.
Deterministic == last.set => last.res = Lookup(cfg, last.host)

\* LookupOrderIrrelevant: a query changes nothing a later query depends on.
LookupOrderIrrelevant(Hosts) ==
  [][\A h \in Hosts : QueryAct(h) => (tbl' = tbl /\ cfg' = cfg /\ last'.res = Lookup(cfg, h))]_avars

\* Precedence, stated as irrelevance of the lower-ranked sources.
NoAuths(c) == [c EXCEPT !.auths = <<>>]
NoStore(c) == [c EXCEPT !.credsStore = ""]
NoUrlKeys(c) == [c EXCEPT !.auths = SelectSeq(c.auths, LAMBDA a : ~IsUrlKey(a.key))]
Precedence(Hosts) ==
  \A h \in Hosts :
    LET hp == HelperFor(cfg, h)
    IN /\ (hp.explicit /\ hp.name # "") =>          \* per-host helper: its result or its error
             /\ Lookup(cfg, h) = Lookup(NoStore(NoAuths(cfg)), h)
             /\ Core(Lookup(cfg, h)) = RunHelper(cfg, hp.name, h)
       /\ (~hp.explicit /\ hp.name # "" /\ cfg.helpers[hp.name].kind # "nobinary") =>
             /\ Lookup(cfg, h) = Lookup(NoAuths(cfg), h)
             /\ Core(Lookup(cfg, h)) = RunHelper(cfg, hp.name, h)
       /\ (~hp.explicit /\ hp.name # "" /\ cfg.helpers[hp.name].kind = "nobinary") =>
             Core(Lookup(cfg, h)) = Core(Lookup(NoStore(cfg), h))      \* falls back to the table
       /\ (hp.explicit /\ hp.name = "") =>           \* an empty per-host helper switches the store off for h
             Lookup(cfg, h) = Lookup(NoStore(cfg), h)
       /\ ExplicitIdx(cfg, h) # {} => TableLookup(cfg, h) = TableLookup(NoUrlKeys(cfg), h)

\* Several URL-form keys for one host and no explicit entry: the table part fails.
CollisionFails(Hosts) ==
  \A h \in Hosts :
    (Cardinality(DerivedIdx(cfg, h)) > 1 /\ ExplicitIdx(cfg, h) = {}) =>
        /\ ~TableLookup(cfg, h).ok
        /\ (~AmbiguityFirst => TableLookup(cfg, h).kind = "multiple")
        /\ LoadOk(cfg) => \A t \in Tables(cfg) : ~TableLookupOp(t, h).ok

\* base64(user ":" password) decodes to exactly user and password.
AuthDecodesExactly(Users, Passes) ==
  \A u \in Users, pw \in Passes :
    (u # E /\ IndexOf(u, COLON) = 0 /\ TrimNul(pw) = pw) =>
        /\ B64Canonical(B64Encode(u \o <<COLON>> \o pw))
        /\ DecodeAuth(B64Encode(u \o <<COLON>> \o pw)) = [ok |-> TRUE, user |-> u, pass |-> pw]
=============================================================================
