------------------------------- MODULE OciAuth -------------------------------
(***************************************************************************)
(* The authorizing transport of ociauth (auth.go: stdTransport.RoundTrip,   *)
(* registry.setAuthorization, setAuthorizationFromChallenge,                *)
(* acquireAccessToken, acquireToken) - properties C10 and C11.              *)
(*                                                                          *)
(* One action per critical section of auth.go or per message half.  The    *)
(* environment (registries, token servers, the clock, the configuration)   *)
(* is part of the model: it chooses every registry answer, every challenge *)
(* offer, every token-server answer and lifetime.                           *)
(*                                                                          *)
(*   scopes     subsets of RS (resource-scope names); ALL = RS + "*" is the *)
(*              unlimited scope of a configured access token                *)
(*   time       integer ticks, TPS ticks per second.  A cached token with   *)
(*              more than one second left MUST be kept, an expired one MUST *)
(*              be dropped, in between the transport MAY do either (the     *)
(*              implementation's safety margin is one second)               *)
(*   calls      Slots: calls that may be in progress together on ONE        *)
(*              transport; per-host mutex `lock` as in auth.go (held from   *)
(*              the decision to acquire until the token is stored)          *)
(*                                                                          *)
(* Every property about outgoing traffic is judged on `lastSent`, which     *)
(* captures, at the send step, the clock, the call's parameters and the     *)
(* challenge the call's authorization decision answers (with calls in       *)
(* progress together the host's challenge in force may already have been    *)
(* replaced by another call's when the message leaves).                     *)
(***************************************************************************)
EXTENDS Integers, Sequences, FiniteSets, TLC

CONSTANTS Hosts,      \* registry hosts
          Realms,     \* token-server hosts a challenge may name
          RS,         \* resource-scope names
          Slots,      \* call slots (calls in progress together)
          CfgSet,     \* configurations swept: functions Hosts -> credential kind
          OfferSets,  \* what a 401 may carry: sets of challenge offers
          Lives,      \* token lifetimes a token server may state, in ticks; 0 = not stated (60 s)
          TPS,        \* ticks per second
          MaxClock, MaxCalls, MaxTok, MaxRT,
          Bodies,     \* request body kinds: "none", "plain" (no GetBody), "getbody"
          Statuses,   \* registry answers; -1 stands for a transport error
          TickWhile   \* control states of calls in which time may pass (a subset of Waiting)

VARIABLES cfg,       \* host -> "none" | "basic" | "refresh" | "both" | "static" | "cfgerr" (lookup fails)
          clock,
          chal,      \* host -> challenge in force (registry.wwwAuthenticate)
          toks,      \* host -> cached tokens [cred, scope, exp] (registry.accessTokens)
          refresh,   \* host -> id of the refresh token held, 0 = none
          inited,    \* host -> "no" | "ok" | "err" (registry.initOnce)
          lock,      \* host -> slot holding registry.mu across a token acquisition, 0 = free
          calls,     \* slot -> call record
          ncalls,
          issued,    \* ghost: issued[id] = what a token server handed out
          rtOwner,   \* ghost: rtOwner[id] = host whose transport state was given refresh token id
          lastSent   \* ghost: the last message that reached the underlying transport
vars == <<cfg, clock, chal, toks, refresh, inited, lock, calls, ncalls, issued, rtOwner, lastSent>>

ScopeSets == SUBSET RS
ALL == RS \cup {"*"}
Contains(a, b) == b \subseteq a
LifeOf(x) == IF x = 0 THEN 60 * TPS ELSE x
Forever == 1000000

NoChal == [scheme |-> "none", realm |-> "-", scope |-> {}]
BasicChal == [scheme |-> "basic", realm |-> "-", scope |-> {}]
BearerChal(r, sc) == [scheme |-> "bearer", realm |-> r, scope |-> sc]   \* realm "-": missing or unusable
Usable(offers) == {o \in offers : o.scheme \in {"basic", "bearer"}}     \* other schemes and malformed headers are ignored

NoCred == [k |-> "none", id |-> 0, h |-> "-"]
BearerCred(id) == [k |-> "bearer", id |-> id, h |-> "-"]
StaticCred(h) == [k |-> "static", id |-> 0, h |-> h]
BasicCred(h) == [k |-> "basic", id |-> 0, h |-> h]
RefreshCred(id) == [k |-> "refresh", id |-> id, h |-> "-"]

HasBasic(h) == cfg[h] \in {"basic", "both"}
HasRefreshCfg(h) == cfg[h] \in {"refresh", "both"}

Waiting == {"idle", "resp1wait", "resp2wait", "tokwait"}
Idle == [pc |-> "idle"]
NoMsg == [k |-> "none"]
NoRResp == [status |-> 0, offers |-> {}]
NoTResp == [kind |-> "-", life |-> 0, rt |-> 0, id |-> 0]

Init ==
  /\ cfg \in CfgSet
  /\ clock = 0
  /\ chal = [h \in Hosts |-> NoChal]
  /\ toks = [h \in Hosts |-> {}]
  /\ refresh = [h \in Hosts |-> 0]
  /\ inited = [h \in Hosts |-> "no"]
  /\ lock = [h \in Hosts |-> 0]
  /\ calls = [s \in Slots |-> Idle]
  /\ ncalls = 0
  /\ issued = <<>>
  /\ rtOwner = <<>>
  /\ lastSent = NoMsg

Set(s, c) == calls' = [calls EXCEPT ![s] = c]
Finish(c, st) == [c EXCEPT !.pc = "done", !.status = st]
CloseBody(c) == [c EXCEPT !.open = 0]

\* time passes only while every call waits for the environment (a critical section is instantaneous)
ASSUME TickWhile \subseteq Waiting
TickBy(n) == /\ n > 0 /\ clock' = clock + n
             /\ UNCHANGED <<cfg, chal, toks, refresh, inited, lock, calls, ncalls, issued, rtOwner, lastSent>>
Tick == /\ clock < MaxClock /\ ncalls > 0     \* (time before the first call is immaterial)
        /\ \A s \in Slots : calls[s].pc \in TickWhile
        /\ TickBy(1)

\* RoundTrip entered: the request is cloned; nothing of the caller's request is touched later
Begin(s, h, req, want, body) ==
  /\ calls[s].pc = "idle" /\ ncalls < MaxCalls
  /\ Set(s, [pc |-> "init", h |-> h, req |-> req, want |-> want, body |-> body,
             open |-> IF body = "none" THEN 0 ELSE 1,   \* request bodies handed out and not yet closed
             callerAuth |-> NoCred,                     \* Authorization on the CALLER's request object
             basis |-> NoChal,                          \* the challenge the current authorization decision answers
             attempts |-> 0, auth |-> NoCred, acquired |-> FALSE, fromCache |-> FALSE, hadCover |-> FALSE,
             mode |-> "-", ask |-> {}, narrow |-> {}, narrowed |-> FALSE, method |-> "-",
             rresp |-> NoRResp, tresp |-> NoTResp, raw2 |-> 0, status |-> 0])
  /\ ncalls' = ncalls + 1
  /\ UNCHANGED <<cfg, clock, chal, toks, refresh, inited, lock, issued, rtOwner, lastSent>>

\* registry.init, first use of the host: the configuration is consulted once
InitLookup(s) ==
  /\ calls[s].pc = "init"
  /\ LET c == calls[s]  h == c.h IN
     /\ inited[h] = "no"
     /\ IF cfg[h] = "cfgerr"
          THEN /\ inited' = [inited EXCEPT ![h] = "err"]
               /\ Set(s, Finish(CloseBody(c), -1))
               /\ UNCHANGED <<refresh, rtOwner, toks>>
          ELSE /\ inited' = [inited EXCEPT ![h] = "ok"]
               /\ IF HasRefreshCfg(h)
                    THEN refresh' = [refresh EXCEPT ![h] = Len(rtOwner) + 1] /\ rtOwner' = Append(rtOwner, h)
                    ELSE UNCHANGED <<refresh, rtOwner>>
               /\ toks' = IF cfg[h] = "static"
                            THEN [toks EXCEPT ![h] = {[cred |-> StaticCred(h), scope |-> ALL, exp |-> Forever]}]
                            ELSE toks
               /\ Set(s, [c EXCEPT !.pc = "decide"])
  /\ UNCHANGED <<cfg, clock, chal, lock, ncalls, issued, lastSent>>

\* registry.init on a host already initialised (a failed lookup is sticky)
InitSkip(s) ==
  /\ calls[s].pc = "init"
  /\ LET c == calls[s] IN
     /\ inited[c.h] # "no"
     /\ Set(s, IF inited[c.h] = "err" THEN Finish(CloseBody(c), -1) ELSE [c EXCEPT !.pc = "decide"])
  /\ UNCHANGED <<cfg, clock, chal, toks, refresh, inited, lock, ncalls, issued, rtOwner, lastSent>>

MustKeep(h) == {t \in toks[h] : t.exp - clock > TPS}
MayKeep(h) == {t \in toks[h] : t.exp - clock > 0 /\ t.exp - clock <= TPS}

\* setAuthorization: prune the cache, then UseCached | AcquireWithRefresh | AddBasic | NoAuth
Decide(s) ==
  /\ calls[s].pc = "decide"
  /\ LET c == [calls[s] EXCEPT !.basis = chal[calls[s].h]]  h == c.h IN
     /\ lock[h] = 0
     /\ \E extra \in SUBSET MayKeep(h) :
          LET kept == MustKeep(h) \cup extra
              cover == {t \in kept : Contains(t.scope, c.req)} IN
          /\ toks' = [toks EXCEPT ![h] = kept]
          /\ IF cover # {} THEN
               /\ \E t \in cover :
                    Set(s, [c EXCEPT !.pc = "send1", !.auth = t.cred, !.fromCache = TRUE,
                                     !.hadCover = (\E u \in MustKeep(h) : Contains(u.scope, c.req))])
               /\ UNCHANGED lock
             ELSE IF chal[h] = NoChal THEN
               Set(s, [c EXCEPT !.pc = "send1"]) /\ UNCHANGED lock
             ELSE IF refresh[h] # 0 /\ chal[h].scheme = "bearer" THEN
               /\ Set(s, [c EXCEPT !.pc = "tok", !.mode = "pre", !.ask = c.req \cup c.want, !.narrow = c.req, !.narrowed = FALSE])
               /\ lock' = [lock EXCEPT ![h] = s]
             ELSE IF chal[h].scheme # "bearer" /\ HasBasic(h) THEN
               Set(s, [c EXCEPT !.pc = "send1", !.auth = BasicCred(h)]) /\ UNCHANGED lock
             ELSE Set(s, [c EXCEPT !.pc = "send1"]) /\ UNCHANGED lock
  /\ UNCHANGED <<cfg, clock, chal, refresh, inited, ncalls, issued, rtOwner, lastSent>>

\* how a call that stops inside a token acquisition ends: before the first attempt the body is
\* still ours to close; the error is surfaced (status -1)
AcqFail(c) == Finish([(IF c.mode = "pre" THEN CloseBody(c) ELSE c) EXCEPT !.ask = {}, !.narrow = {}, !.narrowed = FALSE, !.method = "-", !.tresp = NoTResp], -1)

\* acquireToken with a challenge that names no usable realm: nothing can be sent
AcquireNoRealm(s) ==
  /\ calls[s].pc \in {"tok", "tokget"}
  /\ LET c == calls[s] IN
     /\ chal[c.h].realm = "-"
     /\ Set(s, AcqFail(c))
     /\ lock' = [lock EXCEPT ![c.h] = 0]
  /\ UNCHANGED <<cfg, clock, chal, toks, refresh, inited, ncalls, issued, rtOwner, lastSent>>

\* acquireToken: POST (refresh_token grant) when a refresh token is held, otherwise - or after the
\* POST endpoint answered 404 - GET, with Basic authorization when a password is configured
TokSend(s) ==
  /\ calls[s].pc \in {"tok", "tokget"}
  /\ LET c == calls[s]  h == c.h  post == (c.pc = "tok" /\ refresh[h] # 0) IN
     /\ chal[h].realm # "-"
     /\ lastSent' = [k |-> IF post THEN "tokPOST" ELSE "tokGET", s |-> s, at |-> clock, to |-> chal[h].realm, for |-> h,
                     ch |-> chal[h], attempt |-> c.attempts,
                     cred |-> IF post THEN RefreshCred(refresh[h]) ELSE IF HasBasic(h) THEN BasicCred(h) ELSE NoCred,
                     scope |-> c.ask, mode |-> c.mode, narrowed |-> c.narrowed, req |-> c.req, want |-> c.want,
                     fromCache |-> FALSE, acquired |-> FALSE,
                     text |-> IF c.mode = "chal" /\ c.ask = chal[h].scope THEN "chal" ELSE "any"]
     /\ Set(s, [c EXCEPT !.pc = "tokwait", !.method = IF post THEN "POST" ELSE "GET"])
  /\ UNCHANGED <<cfg, clock, chal, toks, refresh, inited, lock, ncalls, issued, rtOwner>>

\* the token server answers (environment)
TokKinds == {"grant", "notoken", "e401", "e404", "other"}
TokResp(s, kind, life, newrt) ==
  /\ calls[s].pc = "tokwait"
  /\ LET c == calls[s]  h == c.h
         rt == IF newrt /\ kind \in {"grant", "notoken"} THEN Len(rtOwner) + 1 ELSE 0
         id == IF kind = "grant" THEN Len(issued) + 1 ELSE 0 IN
     /\ kind = "grant" => Len(issued) < MaxTok
     /\ rt # 0 => Len(rtOwner) < MaxRT
     /\ issued' = IF kind = "grant"
                    THEN Append(issued, [host |-> h, scope |-> c.ask, at |-> clock, life |-> LifeOf(life), realm |-> chal[h].realm])
                    ELSE issued
     /\ rtOwner' = IF rt # 0 THEN Append(rtOwner, h) ELSE rtOwner
     /\ Set(s, [c EXCEPT !.pc = "tokgot", !.tresp = [kind |-> kind, life |-> life, rt |-> rt, id |-> id]])
  /\ UNCHANGED <<cfg, clock, chal, toks, refresh, inited, lock, ncalls, lastSent>>

\* acquireAccessToken, success: the token is recorded under the scope that was asked for
Store(s) ==
  /\ calls[s].pc = "tokgot" /\ calls[s].tresp.kind = "grant"
  /\ LET c == calls[s]  h == c.h  r == c.tresp IN
     /\ toks' = [toks EXCEPT ![h] = @ \cup {[cred |-> BearerCred(r.id), scope |-> c.ask, exp |-> clock + LifeOf(r.life)]}]
     /\ refresh' = IF r.rt # 0 THEN [refresh EXCEPT ![h] = r.rt] ELSE refresh
     /\ lock' = [lock EXCEPT ![h] = 0]
     /\ Set(s, [c EXCEPT !.pc = IF c.mode = "pre" THEN "send1" ELSE "send2", !.auth = BearerCred(r.id),
                         !.acquired = (c.mode = "chal"), !.fromCache = FALSE,
                         !.ask = {}, !.narrow = {}, !.narrowed = FALSE, !.method = "-", !.tresp = NoTResp])
  /\ UNCHANGED <<cfg, clock, chal, inited, ncalls, issued, rtOwner, lastSent>>

\* the OAuth2 POST endpoint does not exist: fall back to GET
TokFallback(s) ==
  /\ calls[s].pc = "tokgot" /\ calls[s].tresp.kind = "e404" /\ calls[s].method = "POST"
  /\ Set(s, [calls[s] EXCEPT !.pc = "tokget"])
  /\ UNCHANGED <<cfg, clock, chal, toks, refresh, inited, lock, ncalls, issued, rtOwner, lastSent>>

\* the token server refused (401): ask once more for the narrow scope only
RetryNarrow(s) ==
  /\ calls[s].pc = "tokgot" /\ calls[s].tresp.kind = "e401" /\ ~calls[s].narrowed
  /\ Set(s, [calls[s] EXCEPT !.pc = "tok", !.ask = calls[s].narrow, !.narrowed = TRUE])
  /\ UNCHANGED <<cfg, clock, chal, toks, refresh, inited, lock, ncalls, issued, rtOwner, lastSent>>

\* any other outcome ends the call with an error (a rotated refresh token is kept even when the
\* answer holds no access token)
TokFail(s) ==
  /\ calls[s].pc = "tokgot"
  /\ LET c == calls[s]  h == c.h  r == c.tresp IN
     /\ \/ r.kind \in {"other", "notoken"}
        \/ r.kind = "e404" /\ c.method = "GET"
        \/ r.kind = "e401" /\ c.narrowed
     /\ refresh' = IF r.rt # 0 THEN [refresh EXCEPT ![h] = r.rt] ELSE refresh
     /\ lock' = [lock EXCEPT ![h] = 0]
     /\ Set(s, AcqFail(c))
  /\ UNCHANGED <<cfg, clock, chal, toks, inited, ncalls, issued, rtOwner, lastSent>>

\* the request goes to the registry; a well-behaved underlying transport consumes and closes the
\* body it is given (the second attempt gets a new one from GetBody)
Send(s) ==
  /\ calls[s].pc \in {"send1", "send2"}
  /\ LET c == calls[s] IN
     /\ lastSent' = [k |-> "reg", s |-> s, at |-> clock, to |-> c.h, for |-> c.h, ch |-> c.basis, attempt |-> c.attempts + 1,
                     cred |-> c.auth, scope |-> {}, mode |-> "-", narrowed |-> FALSE, req |-> c.req, want |-> c.want,
                     fromCache |-> c.fromCache, acquired |-> c.acquired, text |-> "any"]
     /\ Set(s, [c EXCEPT !.pc = IF c.pc = "send1" THEN "resp1wait" ELSE "resp2wait", !.attempts = @ + 1, !.open = 0])
  /\ UNCHANGED <<cfg, clock, chal, toks, refresh, inited, lock, ncalls, issued, rtOwner>>

\* registry answers: status -1 stands for a transport error
Resp1(s, status, offers) ==
  /\ calls[s].pc = "resp1wait"
  /\ Set(s, [calls[s] EXCEPT !.pc = "got1", !.rresp = [status |-> status, offers |-> offers]])
  /\ UNCHANGED <<cfg, clock, chal, toks, refresh, inited, lock, ncalls, issued, rtOwner, lastSent>>

\* not a 401, or a 401 without any usable challenge: the response is the result
PassThrough(s) ==
  /\ calls[s].pc = "got1"
  /\ LET c == calls[s] IN
     /\ c.rresp.status # 401 \/ Usable(c.rresp.offers) = {}
     /\ Set(s, Finish([c EXCEPT !.rresp = NoRResp], c.rresp.status))
  /\ UNCHANGED <<cfg, clock, chal, toks, refresh, inited, lock, ncalls, issued, rtOwner, lastSent>>

\* setAuthorizationFromChallenge: the challenge becomes the host's challenge in force, then
\* AcquireForChallenge | AddBasic | GiveUp.  Which of several usable offers is taken is not fixed.
OnChallenge(s) ==
  /\ calls[s].pc = "got1"
  /\ LET c0 == calls[s]  h == c0.h IN
     /\ c0.rresp.status = 401 /\ lock[h] = 0
     /\ \E o \in Usable(c0.rresp.offers) :
          LET c == [c0 EXCEPT !.basis = o] IN
          /\ chal' = [chal EXCEPT ![h] = o]
          /\ IF o.scheme = "bearer" THEN
               /\ Set(s, [c EXCEPT !.pc = "tok", !.mode = "chal", !.ask = o.scope \cup c.want \cup c.req,
                                   !.narrow = o.scope, !.narrowed = FALSE, !.rresp = NoRResp])
               /\ lock' = [lock EXCEPT ![h] = s]
             ELSE IF HasBasic(h) THEN
               Set(s, [c EXCEPT !.pc = "send2", !.auth = BasicCred(h), !.fromCache = FALSE, !.rresp = NoRResp]) /\ UNCHANGED lock
             ELSE Set(s, Finish([c EXCEPT !.rresp = NoRResp], 401)) /\ UNCHANGED lock
  /\ UNCHANGED <<cfg, clock, toks, refresh, inited, ncalls, issued, rtOwner, lastSent>>

Resp2(s, status) ==
  /\ calls[s].pc = "resp2wait"
  /\ Set(s, [calls[s] EXCEPT !.pc = "got2", !.raw2 = status])
  /\ UNCHANGED <<cfg, clock, chal, toks, refresh, inited, lock, ncalls, issued, rtOwner, lastSent>>

\* a 401 answered to a token that was just issued for this very challenge is surfaced as 403
Rewrite403(s) ==
  /\ calls[s].pc = "got2"
  /\ LET c == calls[s] IN Set(s, Finish(c, IF c.raw2 = 401 /\ c.acquired THEN 403 ELSE c.raw2))
  /\ UNCHANGED <<cfg, clock, chal, toks, refresh, inited, lock, ncalls, issued, rtOwner, lastSent>>

\* (a message has been judged in the state that followed its send step; forgetting it here keeps
\* the ghost from multiplying the states between calls)
Return(s) ==
  /\ calls[s].pc = "done"
  /\ Set(s, Idle)
  /\ lastSent' = IF lastSent.k # "none" /\ lastSent.s = s THEN NoMsg ELSE lastSent
  /\ UNCHANGED <<cfg, clock, chal, toks, refresh, inited, lock, ncalls, issued, rtOwner>>

Internal(s) == InitLookup(s) \/ InitSkip(s) \/ Decide(s) \/ AcquireNoRealm(s) \/ TokSend(s) \/ Store(s) \/ TokFallback(s)
               \/ RetryNarrow(s) \/ TokFail(s) \/ Send(s) \/ PassThrough(s) \/ OnChallenge(s) \/ Rewrite403(s) \/ Return(s)
Env(s) == \/ \E h \in Hosts, req \in ScopeSets, want \in ScopeSets, b \in Bodies : Begin(s, h, req, want, b)
          \/ \E kind \in TokKinds, life \in Lives, newrt \in BOOLEAN :
               (kind # "grant" => life = 0) /\ TokResp(s, kind, life, newrt)
          \/ \E st \in Statuses, offers \in OfferSets : (st # 401 => offers = {}) /\ Resp1(s, st, offers)
          \/ \E st \in Statuses : Resp2(s, st)
Next == Tick \/ \E s \in Slots : Internal(s) \/ Env(s)
Spec == Init /\ [][Next]_vars

(***************************************************************************)
(* Properties.  `m` is the message just sent, with the state captured at    *)
(* the moment it was sent.                                                  *)
(***************************************************************************)
m == lastSent
IsReg == m.k = "reg"
IsTok == m.k \in {"tokPOST", "tokGET"}
ScopeOf(cred) == IF cred.k = "static" THEN ALL ELSE issued[cred.id].scope

\* ------------------------------------------------------------------ C10
\* a bearer token presented to host h was issued to this transport for h, or configured for h
TokenOwn ==
  /\ (IsReg /\ m.cred.k = "bearer") => (m.cred.id \in 1..Len(issued) /\ issued[m.cred.id].host = m.to)
  /\ (IsReg /\ m.cred.k = "static") => (m.cred.h = m.to /\ cfg[m.to] = "static")
\* ... and had not expired when it was sent
TokenFresh == (IsReg /\ m.cred.k = "bearer") => m.at < issued[m.cred.id].at + issued[m.cred.id].life
\* a token reused from the cache covers the required scope of the request
CachedCovers == (IsReg /\ m.fromCache) => (m.cred.k \in {"bearer", "static"} /\ Contains(ScopeOf(m.cred), m.req))
\* a token acquired in answer to a challenge covers the challenge's scope
FreshCoversChallenge == (IsReg /\ m.acquired) =>
  (m.cred.k = "bearer" /\ m.ch.scheme = "bearer" /\ Contains(issued[m.cred.id].scope, m.ch.scope) /\ issued[m.cred.id].realm = m.ch.realm)
\* with a covering token that has more than the safety margin left, the first attempt carries a
\* cached token and no token acquisition was started before it (mode "-")
NoNeedlessAcquire == \A s \in Slots :
  (calls[s].pc \in {"send1", "resp1wait", "got1"} /\ calls[s].hadCover) =>
     (calls[s].mode = "-" /\ calls[s].fromCache /\ calls[s].auth.k \in {"bearer", "static"})
\* a token request asks for challenge + required + desired scope (the narrow retry: the challenge's
\* scope alone, or the required scope alone) and keeps the challenge's text when nothing was added
TokenRequestScope == IsTok =>
  /\ m.scope = IF m.mode = "chal" THEN (IF m.narrowed THEN m.ch.scope ELSE m.ch.scope \cup m.req \cup m.want)
               ELSE (IF m.narrowed THEN m.req ELSE m.req \cup m.want)
  /\ (m.mode = "chal" /\ m.scope = m.ch.scope) => m.text = "chal"
C10Inv == TokenOwn /\ TokenFresh /\ CachedCovers /\ FreshCoversChallenge /\ NoNeedlessAcquire /\ TokenRequestScope

\* ------------------------------------------------------------------ C11
PasswordOnlyToRealmOrBasicChallenger ==
  /\ (IsReg /\ m.cred.k = "basic") => (m.cred.h = m.to /\ m.ch.scheme = "basic")
  /\ (IsTok /\ m.cred.k = "basic") => (m.k = "tokGET" /\ m.cred.h = m.for /\ m.ch.scheme = "bearer" /\ m.to = m.ch.realm)
NoBasicOnFirstRequest == (IsReg /\ m.cred.k = "basic") => m.ch # NoChal
RefreshOnlyToRealm ==
  /\ IsReg => m.cred.k # "refresh"
  /\ (IsTok /\ m.cred.k = "refresh") => (m.k = "tokPOST" /\ rtOwner[m.cred.id] = m.for /\ m.ch.scheme = "bearer" /\ m.to = m.ch.realm)
\* everything a message carries belongs to the host the call is for; it goes to that host, or to
\* the realm that host named last
CredOwner(cred) == CASE cred.k = "bearer" -> issued[cred.id].host
                     [] cred.k = "refresh" -> rtOwner[cred.id]
                     [] OTHER -> cred.h
HostConfinement == m.k # "none" =>
  /\ IsReg => m.to = m.for
  /\ IsTok => (m.ch.scheme = "bearer" /\ m.to = m.ch.realm /\ m.to # "-")
  /\ m.cred.k # "none" => CredOwner(m.cred) = m.for
AtMostTwoAttempts == \A s \in Slots : calls[s].pc # "idle" => calls[s].attempts <= 2
FreshToken401Becomes403 == \A s \in Slots :
  (calls[s].pc = "done" /\ calls[s].attempts = 2 /\ calls[s].acquired /\ calls[s].raw2 = 401) => calls[s].status = 403
CallerRequestUntouched == \A s \in Slots : calls[s].pc # "idle" => calls[s].callerAuth = NoCred
BodyClosedOnEveryPath == \A s \in Slots : calls[s].pc = "done" => calls[s].open = 0
\* a challenge of an unknown scheme, or a malformed one, never becomes the challenge in force
OnlyKnownSchemes == \A h \in Hosts : chal[h].scheme \in {"none", "basic", "bearer"}
C11Inv == PasswordOnlyToRealmOrBasicChallenger /\ NoBasicOnFirstRequest /\ RefreshOnlyToRealm /\ HostConfinement
          /\ AtMostTwoAttempts /\ FreshToken401Becomes403 /\ CallerRequestUntouched /\ BodyClosedOnEveryPath /\ OnlyKnownSchemes

\* ------------------------------------------------------------------ sanity of the model itself
LockSane == \A h \in Hosts : lock[h] # 0 =>
  (calls[lock[h]].pc \in {"tok", "tokget", "tokwait", "tokgot"} /\ calls[lock[h]].h = h)
Inv == C10Inv /\ C11Inv /\ LockSane
==============================================================================
