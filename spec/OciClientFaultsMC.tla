-------------------------- MODULE OciClientFaultsMC --------------------------
(***************************************************************************)
(* Exhaustive configurations of OciClientFaults: every operation against   *)
(* every sequence of responses drawn from the class alphabet of the        *)
(* request it answers, for every list page size; and the export of the     *)
(* response scripts (direction A).                                         *)
(*                                                                         *)
(* A scenario is one top-level call, followed (when it returned a writer   *)
(* or a reader) by calls on that object.  The environment answers each     *)
(* request with any member of Alpha(step) while the script budget lasts,   *)
(* and with a transport failure afterwards (a transport failure is also    *)
(* in every alphabet).  Sizes are scaled: the model's Threshold and        *)
(* DefaultN are small; exported numbers are written t*Threshold+k and      *)
(* d*DefaultN+k, which the harness evaluates with the real constants.      *)
(***************************************************************************)
EXTENDS OciClientFaults, Json

CONSTANTS PageSizes, MaxResp, MaxCalls, Families,
          SizesForAll,  \* TRUE: every family for every page size; FALSE: the listing family for every size, the others for size 1

          Level     \* "full": the whole alphabets (property check); "export": thinned after the first response; "lite": small
VARIABLES budget, ncalls, h
mcvars == <<vars, budget, ncalls, h>>

MinusOne == -1
PS4 == {-1, 0, 1, 2}
PS1 == {1}
PS12 == {1, 2}

\* contents: id -> length.  c is what the caller's digest names (2 bytes); B is a manifest larger than Threshold
Big == Threshold + 1
ContLen(id) == CASE id = "c" -> 2 [] id = "w" -> 2 [] id = "s" -> 1 [] id = "l" -> 3 [] id = "e" -> 0
                 [] id = "B" -> Big [] id = "Bw" -> Big [] id = "Bs" -> Big - 1 [] id = "Bl" -> Big + 1
                 [] id = "Bh" -> Big \div 2 [] OTHER -> 0
Huge == MaxAlloc + 1

R0 == [code |-> 200, loc |-> "none", rf |-> "none", ra |-> 0, rb |-> 0, cl |-> 0, dig |-> "none", halg |-> "", hcont |-> "",
       link |-> "none", ctype |-> "none", mf |-> "none", mv |-> 0, crf |-> "none", crtot |-> 0,
       body |-> "empty", blen |-> 0, bcont |-> "e", bend |-> "eof", items |-> 0,
       ecode |-> "",     \* the OCI error code an "errjson" body carries (does not move the machine)
       inames |-> "fresh", \* how a listing page names its items: fresh | repeat (the previous page again) | lastfirst (the previous
                         \* page's last item first) | back (the previous page backwards) | start (the startAfter argument first)
       auth |-> "none"]  \* WWW-Authenticate: none | bearer | basic         (neither moves the machine)
Net == [R0 EXCEPT !.code = NetErr]

\* error responses: status x (content type, body class); none of it moves the machine
Lite == Level = "lite"
Full == Level = "full"
ErrShapes == IF Lite THEN {<<"json", "errjson">>, <<"none", "empty">>}
             ELSE {<<"json", "errjson">>, <<"json", "wsjson">>, <<"json", "wsarr">>, <<"jsonp", "trunc">>, <<"json", "huge">>, <<"json", "endless">>,
                   <<"text", "garbage">>, <<"none", "empty">>, <<"bad", "errjson">>}
Ok2(step) == IF 200 \in OkCodes(step) THEN 204 ELSE 200
ErrCodes(step) == IF Lite THEN {Ok2(step), 404} ELSE {100, Ok2(step), 304, 404, 500}
Errs(step) == {[R0 EXCEPT !.code = c, !.ctype = sh[1], !.body = sh[2]] : c \in ErrCodes(step), sh \in ErrShapes}
              \cup {[R0 EXCEPT !.code = c, !.body = "endless", !.bend = "cut"] : c \in {Ok2(step)}}
Redirs == IF Lite THEN {[R0 EXCEPT !.code = 302, !.loc = "path"], [R0 EXCEPT !.code = 307, !.loc = "none"]}
          ELSE {[R0 EXCEPT !.code = c, !.loc = l] : c \in {302, 307}, l \in {"none", "bad", "path", "url"}}

Digs == {<<"none", "", "">>, <<"empty", "", "">>, <<"bad", "", "">>, <<"ok", "sha256", "c">>, <<"ok", "sha512", "c">>,
         <<"ok", "sha256", "w">>, <<"ok", "sha256", "x">>, <<"ok", "sha256", "B">>}
DigsLite == {<<"none", "", "">>, <<"bad", "", "">>, <<"ok", "sha256", "c">>, <<"ok", "sha256", "x">>}
WithDig(r, d) == [r EXCEPT !.dig = d[1], !.halg = d[2], !.hcont = d[3]]
WithBody(r, id, end) == [r EXCEPT !.body = "blob", !.bcont = id, !.blen = ContLen(id), !.bend = end]
CLs == {-1, 0, 1, 2, 3, Big}
Bodies == {"c", "w", "s", "l", "e", "B", "Bw", "Bs", "Bl"}
Ends == {"eof", "cut"}
Locs == {"none", "empty", "bad", "path", "pathq", "pathfq", "url", "rel", "dup"}
LocsLite == {"none", "bad", "path", "pathq", "url"}

\* Framed responses whose connection closes early: 0, 1, half, all but one, all of the announced bytes delivered
Truncs(first) ==
  LET ds == IF first THEN {<<"none", "", "">>, <<"ok", "sha256", "c">>} ELSE {<<"none", "", "">>} IN
  {WithBody(WithDig([R0 EXCEPT !.cl = 2], d), b, "trunc") : d \in ds, b \in {"e", "s", "c"}}
  \cup {WithBody(WithDig([R0 EXCEPT !.cl = -1], d), b, "trunc") : d \in ds, b \in {"s", "c"}}
  \cup {WithBody(WithDig([R0 EXCEPT !.cl = Big], d), b, "trunc") :
           d \in {<<"none", "", "">>, <<"ok", "sha256", "B">>}, b \in {"e", "s", "Bh", "Bs", "B"}}
TruncRanges ==
  {WithBody([R0 EXCEPT !.code = 206, !.cl = x[1], !.crf = "ok", !.crtot = x[2]], x[3], "trunc") :
      x \in {<<2, 3, "e">>, <<2, 3, "s">>, <<2, 3, "c">>, <<1, 2, "e">>, <<1, 2, "s">>, <<3, 2, "l">>,
             <<Big, Big + 1, "e">>, <<Big, Big + 1, "s">>, <<Big, Big + 1, "Bh">>, <<Big, Big + 1, "Bs">>, <<Big, Big + 1, "B">>}}
  \cup {WithBody([R0 EXCEPT !.code = 200, !.cl = x[1]], x[2], "trunc") : x \in {<<2, "e">>, <<2, "s">>, <<2, "c">>, <<-1, "s">>}}

OkAlpha(step, first) ==
  CASE step = "resolve" ->
         {WithDig([R0 EXCEPT !.cl = c, !.ctype = t], d) : c \in {-1, 0, 2}, d \in (IF Lite THEN DigsLite ELSE Digs),
                                                          t \in (IF Lite THEN {"none"} ELSE {"none", "manifest"})}
    [] step = "read" ->
         IF first /\ ~Lite
         THEN {WithBody(WithDig([R0 EXCEPT !.cl = c], d), b, e) : c \in CLs, d \in Digs, b \in Bodies, e \in Ends}
         \cup Truncs(first)
         ELSE IF first
         THEN Truncs(first) \cup {WithBody(WithDig([R0 EXCEPT !.cl = c], d), b, "eof") : c \in {-1, 1, 2, 3}, d \in DigsLite, b \in {"c", "w", "s", "l", "e"}}
              \cup {WithBody(WithDig([R0 EXCEPT !.cl = 2], d), "c", "cut") : d \in DigsLite}
              \cup {WithBody(WithDig([R0 EXCEPT !.cl = Big], d), b, "eof") : d \in {<<"none", "", "">>, <<"ok", "sha256", "B">>}, b \in {"B", "Bw", "Bs", "Bl"}}
              \cup {WithBody([R0 EXCEPT !.cl = Big], "B", "cut")}
         ELSE {WithBody(WithDig([R0 EXCEPT !.cl = c], d), b, "eof") : c \in {-1, 2}, d \in DigsLite, b \in {"c", "w"}}
    [] step = "head2" ->
         {WithDig([R0 EXCEPT !.cl = c], d) : c \in {-1, 2, Big, Big + 1}, d \in (IF Lite THEN DigsLite \cup {<<"ok", "sha256", "B">>} ELSE Digs)}
    [] step = "range" ->
         LET ds == IF Lite THEN {<<"none", "", "">>, <<"bad", "", "">>} ELSE DigsLite
             es == IF Lite THEN {"eof"} ELSE Ends IN
         {WithBody(WithDig([R0 EXCEPT !.code = 200, !.cl = c], d), b, e) : c \in {-1, 0, 2}, d \in ds, b \in {"c", "s", "l", "e"}, e \in es}
         \cup {WithBody(WithDig([R0 EXCEPT !.code = 206, !.cl = 1, !.crf = cr[1], !.crtot = cr[2]], d), b, e) :
                  cr \in {<<"none", 0>>, <<"noslash", 0>>, <<"badnum", 0>>, <<"ok", 0>>, <<"ok", 1>>, <<"ok", 2>>},
                  d \in ds, b \in {"s", "c", "e"}, e \in es}
         \cup {WithBody([R0 EXCEPT !.code = 206, !.cl = 1, !.crf = "ok", !.crtot = 2], "s", "cut")}
         \cup TruncRanges
    [] step \in {"delete", "pushman", "put1"} ->
         {[R0 EXCEPT !.code = c, !.loc = l] : c \in OkCodes(step), l \in {"none", "path"}}
    [] step = "mount" ->
         {WithDig([R0 EXCEPT !.code = c, !.loc = l], d) : c \in {201, 202}, l \in {"none", "path"}, d \in (IF Lite THEN DigsLite ELSE Digs)}
    [] step = "referrers" ->
         {[R0 EXCEPT !.body = b[1], !.items = b[2], !.bend = e, !.ctype = "json"] :
             b \in {<<"list", 0>>, <<"list", 1>>, <<"list", 2>>, <<"list", 3>>, <<"list", 4 * DefaultN>>, <<"wszero", 0>>, <<"wserr", 0>>,
                    <<"empty", 0>>, <<"trunc", 0>>, <<"garbage", 0>>, <<"errjson", 0>>, <<"wsarr", 0>>}, e \in Ends}
    [] step = "post1" -> {[R0 EXCEPT !.code = 202, !.loc = l] : l \in Locs}
    [] step = "start" ->
         LET mms == {<<"none", 0>>, <<"bad", 0>>, <<"num", 1>>, <<"num", 3>>, <<"num", Huge>>} IN
         IF Full THEN {[R0 EXCEPT !.code = 202, !.loc = l, !.mf = mm[1], !.mv = mm[2]] : l \in Locs, mm \in mms}
         ELSE {[R0 EXCEPT !.code = 202, !.loc = l] : l \in (IF Lite THEN LocsLite ELSE Locs)}
              \cup {[R0 EXCEPT !.code = 202, !.loc = "path", !.mf = mm[1], !.mv = mm[2]] :
                       mm \in (IF Lite THEN {<<"bad", 0>>, <<"num", 3>>, <<"num", Huge>>} ELSE mms)}
    [] step \in {"patch", "commit"} ->
         {[R0 EXCEPT !.code = c, !.loc = l] : c \in OkCodes(step),
             l \in (IF Full THEN LocsLite ELSE IF Lite THEN {"none", "path"} ELSE {"none", "bad", "path", "url"})}
    [] step = "status" ->
         {[R0 EXCEPT !.code = 204, !.loc = x[1], !.rf = x[2][1], !.ra = x[2][2], !.rb = x[2][3], !.mf = x[3][1], !.mv = x[3][2]] :
           x \in {y \in
             {"none", "bad", "path", "url"} \X
                   {<<"none", 0, 0>>, <<"empty", 0, 0>>, <<"nodash", 0, 0>>, <<"nonnum", 0, 0>>, <<"num", 0, 0>>,
                     <<"num", 0, 1>>, <<"num", 0, 3>>, <<"num", 2, 3>>, <<"num", 0, -3>>} \X
                   {<<"none", 0>>, <<"num", 3>>, <<"num", Huge>>} :
             \/ Full
             \/ ~Lite /\ ((y[1] = "path" /\ (y[2][1] = "num" \/ y[3][1] = "none")) \/ (y[2] = <<"num", 0, 1>> /\ y[3][1] = "none"))
             \/ Lite /\ (\/ (y[1] = "path" /\ y[3][1] = "none" /\ y[2] \notin {<<"empty", 0, 0>>, <<"nodash", 0, 0>>})
                        \/ (y[1] = "path" /\ y[2] = <<"num", 0, 1>>)
                        \/ (y[2] = <<"num", 0, 1>> /\ y[3][1] = "none"))}}
    [] step = "page" /\ Lite /\ cq >= 2 ->
         {[R0 EXCEPT !.body = "list", !.items = i, !.ctype = "json"] : i \in {0, N}}
    [] step = "page" ->
         LET cnts == {x \in (IF Lite /\ ~first THEN {0, N, N + 1} ELSE {0, 1, N - 1, N, N + 1}) : x >= 0}
             thin == ~Full /\ (~first \/ Lite) IN
         {[R0 EXCEPT !.body = "list", !.items = i, !.link = lk, !.bend = e, !.ctype = "json"] :
             i \in cnts, lk \in (IF thin THEN {"none", "ok", "badurl"} ELSE {"none", "empty", "ok", "nolt", "nogt", "badurl"}),
             e \in (IF thin THEN {"eof"} ELSE Ends)}
         \cup {[R0 EXCEPT !.body = b, !.ctype = "json", !.link = lk] :
                 b \in (IF thin THEN {"wszero", "garbage"} ELSE {"wszero", "wserr", "empty", "trunc", "garbage", "errjson", "wsarr"}),
                 lk \in (IF thin THEN {"ok"} ELSE {"none", "ok"})}
         \cup {[R0 EXCEPT !.body = "list", !.items = N, !.link = "none", !.bend = "cut", !.ctype = "json"]}
    [] OTHER -> {}

(* Family "uperr": the upload operations (POST, PATCH, PUT, status GET, mount) against well-formed OCI error
   responses of EVERY standard error code, under the status that belongs to the code and under one that does
   not; otherwise the server is well behaved, so that every request of an upload is reached. *)
UpErr == "uperr" \in Families
(* Family "status": EVERY request of every operation against every status of the classes 1xx-5xx, the ones clients
   special-case included (1xx informational, 300-308 with and without Location, 401 with WWW-Authenticate, 407, 408,
   411-413, 416, 417, 421, 425, 426, 428, 429, 431, 451, 501-511), the server being well behaved otherwise.  The
   harness streams PushBlob's content from a reader net/http cannot rewind, and the Write that overflows the chunk
   here finds earlier data buffered (its request body is a concatenation, not rewindable either). *)
StatusFam == "status" \in Families
(* Family "relist": listings whose consecutive pages repeat items, for page sizes 1 and 2, with and without Link. *)
Relist == "relist" \in Families
Probe == UpErr \/ StatusFam \/ Relist
AllCodes == (100..103) \cup {200, 201, 202, 203, 204, 205, 206, 207, 208, 226} \cup (300..308) \cup (400..418)
            \cup {421, 422, 423, 424, 425, 426, 428, 429, 431, 451} \cup (500..511)
StatusErrs(step) ==
  {[R0 EXCEPT !.code = c] : c \in AllCodes \ OkCodes(step)}
  \cup {[R0 EXCEPT !.code = c, !.loc = "path"] : c \in 300..308}
  \cup {[R0 EXCEPT !.code = 401, !.auth = a, !.ctype = "json", !.body = "errjson", !.ecode = "UNAUTHORIZED"] : a \in {"bearer", "basic"}}
RelistAlpha ==
  LET cnts == IF cq = 0 THEN {N - 1, N} \ {0} ELSE IF cq = 1 THEN {N - 1, N} \ {0} ELSE {N}
      nms == IF cq = 0 THEN {"fresh", "start"} ELSE IF cq = 1 THEN {"fresh", "repeat", "lastfirst", "back", "start"} ELSE {"fresh", "repeat", "lastfirst"}
      lks == IF cq >= 2 THEN {"none"} ELSE {"none", "ok"}
  IN {[R0 EXCEPT !.body = "list", !.items = i, !.link = lk, !.inames = nm, !.ctype = "json"] : i \in cnts, lk \in lks, nm \in nms}
ErrTable == {<<"BLOB_UNKNOWN", 404>>, <<"BLOB_UPLOAD_INVALID", 416>>, <<"BLOB_UPLOAD_UNKNOWN", 404>>, <<"DIGEST_INVALID", 400>>,
             <<"MANIFEST_BLOB_UNKNOWN", 404>>, <<"MANIFEST_INVALID", 400>>, <<"MANIFEST_UNKNOWN", 404>>, <<"NAME_INVALID", 400>>,
             <<"NAME_UNKNOWN", 404>>, <<"SIZE_INVALID", 400>>, <<"UNAUTHORIZED", 401>>, <<"DENIED", 403>>, <<"UNSUPPORTED", 400>>,
             <<"TOOMANYREQUESTS", 429>>, <<"RANGE_INVALID", 416>>}
CodeErrs == UNION {{[R0 EXCEPT !.code = st, !.ctype = "json", !.body = "errjson", !.ecode = x[1]] : st \in {x[2], 500}} : x \in ErrTable}
Fine(step) ==
  CASE step = "status" -> {[R0 EXCEPT !.code = 204, !.loc = "path", !.rf = "num", !.ra = 0, !.rb = 0]}
    [] step = "mount" -> {[R0 EXCEPT !.code = 201, !.loc = "path"]}
    [] step = "resolve" -> {WithDig([R0 EXCEPT !.cl = 2], <<"ok", "sha256", "c">>)}
    [] step = "read" -> {WithBody(WithDig([R0 EXCEPT !.cl = 2], <<"ok", "sha256", "c">>), "c", "eof")}
                        \cup (IF call.name = "GetTag" THEN {WithBody([R0 EXCEPT !.cl = Big], "B", "eof")} ELSE {})
    [] step = "head2" -> {WithDig([R0 EXCEPT !.cl = Big], <<"ok", "sha256", "B">>)}
    [] step = "range" -> {WithBody([R0 EXCEPT !.code = 206, !.cl = 1, !.crf = "ok", !.crtot = 2], "s", "eof")}
    [] step = "referrers" -> {[R0 EXCEPT !.body = "list", !.items = 1, !.ctype = "json"]}
    [] step = "page" -> {[R0 EXCEPT !.body = "list", !.items = IF cq = 0 THEN N ELSE 0, !.ctype = "json"]}
    [] OTHER -> {[R0 EXCEPT !.code = c, !.loc = "path"] : c \in OkCodes(step)}

Alpha(step) ==
  IF Relist THEN RelistAlpha
  ELSE IF Probe THEN (IF fl.on THEN {[R0 EXCEPT !.code = 404, !.ctype = "json", !.body = "errjson"]}
                      ELSE Fine(step) \cup (IF UpErr THEN CodeErrs ELSE {}) \cup (IF StatusFam THEN StatusErrs(step) ELSE {}))
  ELSE IF Lite /\ ncalls > 2 THEN OkAlpha(step, FALSE) \cup {[R0 EXCEPT !.code = 404, !.ctype = "json", !.body = "errjson"]}
  ELSE IF fl.on \/ cq > 0 \/ (~Full /\ ncalls > 1) THEN OkAlpha(step, FALSE) \cup {[R0 EXCEPT !.code = 404, !.ctype = "json", !.body = "errjson"], Net}
  ELSE OkAlpha(step, TRUE) \cup Errs(step) \cup Redirs \cup {Net}

-----------------------------------------------------------------------------
(* The callers *)
Cl(name) == [C0 EXCEPT !.name = name]
TopCallsOf(Family) ==
  CASE Family = "single" ->
         {[Cl("ResolveBlob") EXCEPT !.ref = "digest"], [Cl("ResolveManifest") EXCEPT !.ref = "digest"], [Cl("ResolveTag") EXCEPT !.ref = "tag"],
          [Cl("DeleteBlob") EXCEPT !.ref = "digest"], [Cl("DeleteManifest") EXCEPT !.ref = "digest"], [Cl("DeleteTag") EXCEPT !.ref = "tag"],
          Cl("MountBlob"),
          [Cl("PushManifest") EXCEPT !.ref = "tag", !.csize = 2], [Cl("PushManifest") EXCEPT !.ref = "digest", !.csize = 2],
          [Cl("PushManifest") EXCEPT !.ref = "tag", !.csize = 2, !.mt = FALSE],
          [Cl("PushBlob") EXCEPT !.csize = 2], [Cl("PushBlob") EXCEPT !.csize = 0]}
         \cup {[Cl("Referrers") EXCEPT !.ref = "digest", !.take = t] : t \in {0, 1}}
    [] Family = "read" ->
         {[Cl("GetBlob") EXCEPT !.ref = "digest"], [Cl("GetManifest") EXCEPT !.ref = "digest"], [Cl("GetTag") EXCEPT !.ref = "tag"]}
    [] Family = "range" ->
         {[Cl("GetBlobRange") EXCEPT !.ref = "digest", !.o0 = o[1], !.o1 = o[2]] :
             o \in (IF Lite THEN {<<1, MinusOne>>, <<0, 1>>} ELSE {<<0, MinusOne>>, <<1, MinusOne>>, <<0, 1>>, <<1, 2>>, <<0, 0>>})}
    [] Family = "list" ->
         {[Cl(x[1]) EXCEPT !.take = x[2], !.start = x[3]] :
             x \in {y \in {"Repositories", "Tags"} \X {0, 1, 3} \X BOOLEAN :
                       \/ Full \/ (~Lite /\ (y[2] = 0 \/ ~y[3]))
                       \/ (Lite /\ y[2] # 3 /\ (y[2] = 0 \/ ~y[3]) /\ ((y[1] = "Repositories" /\ ps = 1) \/ (y[2] = 0 /\ ~y[3])))}}
    [] Family = "upload" ->
         {[Cl("PushBlobChunked") EXCEPT !.hint = hh] : hh \in (IF Lite THEN {1} ELSE {0, 1, 2})}
         \cup {[Cl("Resume") EXCEPT !.off = MinusOne, !.idform = "path", !.hint = hh] : hh \in (IF Lite THEN {1} ELSE {0, 1})}
         \cup {[Cl("Resume") EXCEPT !.off = x[1], !.idform = x[2], !.hint = 2] :
                  x \in (IF Lite THEN {<<-2, "path">>, <<0, "path">>, <<3, "url">>, <<0, "rel">>, <<0, "bad">>, <<0, "empty">>}
                         ELSE {-2, 0, 3} \X {"path", "url", "rel", "bad", "empty"})}
    [] Family = "status" ->
         {[Cl("ResolveBlob") EXCEPT !.ref = "digest"], [Cl("ResolveTag") EXCEPT !.ref = "tag"], [Cl("GetBlob") EXCEPT !.ref = "digest"],
          [Cl("GetTag") EXCEPT !.ref = "tag"], [Cl("GetBlobRange") EXCEPT !.ref = "digest", !.o0 = 1, !.o1 = 2],
          [Cl("DeleteBlob") EXCEPT !.ref = "digest"], [Cl("DeleteTag") EXCEPT !.ref = "tag"], Cl("MountBlob"),
          [Cl("PushManifest") EXCEPT !.ref = "tag", !.csize = 2], [Cl("PushBlob") EXCEPT !.csize = 2],
          [Cl("Referrers") EXCEPT !.ref = "digest"], Cl("Repositories"), Cl("Tags"),
          [Cl("PushBlobChunked") EXCEPT !.hint = 1], [Cl("Resume") EXCEPT !.off = MinusOne, !.idform = "path", !.hint = 1]}
    [] Family = "relist" ->
         {[Cl("Repositories") EXCEPT !.start = TRUE], Cl("Tags")}
    [] Family = "uperr" ->
         {[Cl("PushBlobChunked") EXCEPT !.hint = 1], [Cl("Resume") EXCEPT !.off = MinusOne, !.idform = "path", !.hint = 1],
          [Cl("PushBlob") EXCEPT !.csize = 2], Cl("MountBlob")}
    [] OTHER -> {}

\* (the page size reaches the requests of the listing operations only: the exports enumerate the other families
\* for one size and the harness rotates the sizes over them)
TopCalls == UNION {TopCallsOf(f) : f \in {g \in Families : SizesForAll \/ g \in {"list", "relist"} \/ ps = 1}}
AllFamilies == {"single", "read", "range", "list", "upload"}

WriterCalls == {[Cl("Write") EXCEPT !.wlen = k] : k \in (IF Lite /\ ncalls > 1 THEN {2} ELSE {1, 2})}
               \cup {[Cl("Commit") EXCEPT !.dg = "want"]} \cup (IF Lite /\ ncalls > 1 THEN {} ELSE {Cl("Close")})
               \cup (IF Lite /\ ncalls > 1 THEN {} ELSE {Cl("Size"), [Cl("Commit") EXCEPT !.dg = "empty"]})
Menu ==
  IF StatusFam /\ ncalls > 0
  THEN \* one path through the chunked upload: Write(1) buffered, Write(1) overflowing (PATCH of a concatenated body),
       \* Commit (PUT); and Write(1), Close (PATCH of a single piece)
       IF rd.open THEN {Cl("ReadAll")}
       ELSE IF ~w.open \/ call.name \in {"Size", "Commit", "Close"} THEN {}
       ELSE IF ~out.ok THEN {Cl("Size")}
       ELSE IF call.name \in {"PushBlobChunked", "Resume"} THEN {[Cl("Write") EXCEPT !.wlen = 1]}
       ELSE IF w.chunk > 0 THEN {[Cl("Write") EXCEPT !.wlen = 1]} \cup (IF call.name = "Write" /\ ncalls = 2 THEN {Cl("Close")} ELSE {})
       ELSE {[Cl("Commit") EXCEPT !.dg = "want"]}
  ELSE IF Relist /\ ncalls > 0 THEN {}
  ELSE IF UpErr /\ ncalls > 0
  THEN \* after a failed call one more call on the writer (does it still answer?), then the end
       IF ~w.open \/ call.name = "Size" \/ (call.name = "Commit" /\ out.ok) THEN {}
       ELSE IF ~out.ok THEN {Cl("Size")}
       ELSE IF ncalls >= MaxCalls THEN {}
       ELSE {[Cl("Write") EXCEPT !.wlen = 1], [Cl("Write") EXCEPT !.wlen = 2], [Cl("Commit") EXCEPT !.dg = "want"]}
            \cup (IF w.chunk > 0 THEN {Cl("Close")} ELSE {})
  ELSE IF ncalls = 0 THEN TopCalls
  ELSE IF ncalls >= MaxCalls THEN {}
  ELSE IF rd.open THEN {Cl("ReadAll")}
  ELSE IF w.open /\ ~(call.name = "Commit" /\ out.ok) /\ call.name # "Size" THEN WriterCalls
  ELSE {}

Rec(e) == h' = Append(h, e)

\* scaled numbers for the export
Sc(v) == IF v >= Threshold THEN [t |-> 1, k |-> v - Threshold] ELSE [t |-> 0, k |-> v]
Sd(v) == IF v >= DefaultN - 1 THEN [t |-> (v + 1) \div DefaultN, k |-> v - ((v + 1) \div DefaultN) * DefaultN] ELSE [t |-> 0, k |-> v]
Sh(v) == IF v >= Huge THEN [t |-> 1, k |-> v - Huge] ELSE [t |-> 0, k |-> v]
Xr(r) == [code |-> r.code, loc |-> r.loc, rf |-> r.rf, ra |-> r.ra, rb |-> r.rb, cl |-> Sc(r.cl), dig |-> r.dig, halg |-> r.halg,
          hcont |-> r.hcont, link |-> r.link, ctype |-> r.ctype, mf |-> r.mf, mv |-> Sh(r.mv), crf |-> r.crf, crtot |-> r.crtot,
          body |-> r.body, bcont |-> r.bcont, bend |-> r.bend, items |-> Sd(r.items), ecode |-> r.ecode, inames |-> r.inames, auth |-> r.auth]

MCInit == /\ \E p \in PageSizes : Init0(p)
          /\ budget = MaxResp /\ ncalls = 0 /\ h = <<>>

MCNext ==
  \/ /\ pc = "idle" /\ \E c \in Menu : Begin(c) /\ Rec([t |-> "call", c |-> c])
     /\ ncalls' = ncalls + 1 /\ UNCHANGED budget
  \/ /\ pc = "req" /\ UNCHANGED ncalls
     /\ IF budget = 0 THEN Exchange(Canon, Net) /\ UNCHANGED budget /\ UNCHANGED h
        ELSE \E r \in Alpha(m.step) : Exchange(Canon, r) /\ budget' = budget - 1 /\ Rec([t |-> "resp", r |-> Xr(r)])
  \/ /\ pc = "done" /\ UNCHANGED <<budget, ncalls, h>>
     /\ Return([ok |-> out.ok, n |-> out.nlo, alg |-> out.alg, cont |-> out.cont, size |-> out.size])
  \/ /\ pc = "idle" /\ ncalls > 0 /\ Menu = {}
     /\ PrintT(<<"MBT", ToJson([ps |-> ps, ev |-> h])>>)
     /\ pc' = "end" /\ UNCHANGED <<ps, call, m, w, rd, out, nreq, cq, fl, budget, ncalls, h>>
  \/ pc = "end" /\ UNCHANGED mcvars          \* (so that TLC's deadlock check means: no other state is stuck)

MCSpec == MCInit /\ [][MCNext]_mcvars /\ WF_mcvars(MCNext)
\* the same without the export (the history variable stays empty)
MCNextQ ==
  \/ /\ pc = "idle" /\ \E c \in Menu : Begin(c)
     /\ ncalls' = ncalls + 1 /\ UNCHANGED <<budget, h>>
  \/ /\ pc = "req" /\ UNCHANGED <<ncalls, h>>
     /\ IF budget = 0 THEN Exchange(Canon, Net) /\ UNCHANGED budget
        ELSE \E r \in Alpha(m.step) : Exchange(Canon, r) /\ budget' = budget - 1
  \/ /\ pc = "done" /\ UNCHANGED <<budget, ncalls, h>>
     /\ Return([ok |-> out.ok, n |-> out.nlo, alg |-> out.alg, cont |-> out.cont, size |-> out.size])
  \/ /\ pc = "idle" /\ ncalls > 0 /\ Menu = {}
     /\ pc' = "end" /\ UNCHANGED <<ps, call, m, w, rd, out, nreq, cq, fl, budget, ncalls, h>>
  \/ pc = "end" /\ UNCHANGED mcvars          \* (so that TLC's deadlock check means: no other state is stuck)
MCSpecQ == MCInit /\ [][MCNextQ]_mcvars /\ WF_mcvars(MCNextQ)

-----------------------------------------------------------------------------
\* every operation returns (under fairness): the scenario reaches its end, every call having returned
AlwaysReturns == <>(pc = "end")
\* ... and without fairness arguments: every step strictly decreases a rank (calls left, responses left, phase),
\* and TLC's deadlock check shows that only the end state has no step: so every behaviour ends, every call having returned
Phase == CASE pc = "req" -> 3 [] pc = "done" -> 2 [] pc = "idle" -> 1 [] OTHER -> 0
Rank == 1000 * (MaxCalls - ncalls) + 10 * budget + Phase
RankDecreases == [][Rank' < Rank]_mcvars
\* each iteration consumes a response: a call makes at most one request per scripted response, plus one
ProgressPerRequest == cq <= (MaxResp - budget) + 1 /\ (budget > 0 => cq <= MaxResp - budget)
\* no state waits for anything but a response or the caller
NoStuckState == pc \in {"idle", "req", "done", "end"}
Props == NoPanicState /\ CorruptNeverCleanEOF /\ ShortNeverCleanEOF /\ NoRequestAfterTransportError /\ ProgressPerRequest /\ NoStuckState
=============================================================================
