SPECIFICATION TSpec
CONSTANTS
  AmbiguityFirst = FALSE
  F13_TableErrorTextVaries = FALSE
  Diagnose = FALSE
POSTCONDITION Accepted
CHECK_DEADLOCK FALSE
