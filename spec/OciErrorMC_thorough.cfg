SPECIFICATION Spec
CONSTANTS
  StdMsg <- MCStdMsg
  Modes = {"design", "impl"}
  MaxHops = 3
  Statuses = {400, 401, 403, 404, 416, 418, 429, 500, 503, 599}
  SweepStatuses <- SweepAll
  Kinds = {"GET", "HEAD", "PUT", "DELETE", "LIST"}
  Export = FALSE
INVARIANTS StatusPerTable IsPreserved CellsExact CodePreserved DetailPreserved HeadLaw MessageFixedPoint FirstHopMessage ItemsLaw
CHECK_DEADLOCK FALSE
