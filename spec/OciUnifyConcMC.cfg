SPECIFICATION Spec
CONSTANTS
  Hist = FALSE
INVARIANT Inv
PROPERTIES LoserClosed NoBlockedGoroutine AllCtxReleased CallReturns
CHECK_DEADLOCK FALSE
