----------------------------- MODULE OciScopeMC -----------------------------
(***************************************************************************)
(* Exhaustive check of the OciScope laws over every subset (and the         *)
(* unlimited scope) of a small universe of triples, every ordered pair for  *)
(* the binary laws; the same state space is exported as cases for the       *)
(* harness (direction A): one case per state, sets as index lists into U.   *)
(***************************************************************************)
EXTENDS OciScope, Json

CONSTANTS U,       \* sequence of triples: the universe
          PairIdx  \* indices (into U) of the triples that ordered pairs range over

VARIABLES a, b, ph    \* ph = 0: the single scope a (b = a); ph = 1: the ordered pair (a, b)

\* Byte order of the strings of the universe, written by hand; checks/c09.py verifies it is
\* ascending in byte order, and the traces use the order computed by the harness instead.
MCStrs == <<"", "*", "+", "a", "b", "catalog", "delete", "foo", "pull", "push",
            "registry", "repository", "service", "x">>
MCCls == <<"empty", "clean", "clean", "clean", "clean", "clean", "clean", "clean", "clean", "clean",
           "clean", "clean", "clean", "clean">>

\* Known repository scopes (pull, push), the empty repository name, the catalog scope and a near
\* miss of it, an opaque word, an unknown action on a repository, and a type sorting AFTER
\* "repository" that names the same resource as a repository (service:a:x).  The harness also
\* uses the last two as the right operands of several unions from one receiver.
MCU9 == << <<"repository", "", "pull">>, <<"repository", "a", "pull">>, <<"repository", "a", "push">>,
           <<"repository", "b", "pull">>,
           <<"registry", "catalog", "*">>, <<"registry", "catalog", "+">>,
           <<"foo", "", "">>, <<"repository", "a", "delete">>, <<"service", "a", "x">> >>
Idx6 == {1, 2, 3, 5, 8, 9}
Idx9 == 1..9

UU == ToSet(U)
PP == {U[i] : i \in PairIdx}
ScopesOver(T) == {[unlimited |-> FALSE, set |-> S] : S \in SUBSET T} \cup {Unlimited}

\* (the pairs are successors of the singles so that TLC's workers share them)
Init == ph = 0 /\ a \in ScopesOver(UU) /\ b = a
Next == /\ ph = 0 /\ ph' = 1 /\ a' = a
        /\ a.set \subseteq PP
        /\ b' \in ScopesOver(PP)
Spec == Init /\ [][Next]_<<a, b, ph>>

ASSUME OrderDataOK
ASSUME Less3IsStrictTotalOrder(UU)
ASSUME \A t \in UU : t[1] \in StrSet /\ t[2] \in StrSet /\ t[3] \in StrSet

TextOf(v) == [v |-> v, known |-> TRUE, text |-> "the receiver's text"]

Laws ==
  /\ IterAscendingExact(a)
  /\ UnionIsSetUnion(a, b, UU)
  /\ ContainsIsSubset(a, b, UU)
  /\ HoldsIsMembership(a, UU)
  /\ LenIsCardinality(a, b)
  /\ UnlimitedTop(a, UU)
  /\ CatalogIndependentOfRepository(a, UU)
  /\ NewIgnoresOrderAndRepetition(a, b)
  /\ RoundTrip(a)
  /\ UnionNoopKeepsText(TextOf(a), TextOf(b))

\* the parse of a rendering with every field repeated and the field order reversed
ParsePermutedRepeated ==
  ~a.unlimited => Parse(Reverse(CanonFields(a)) \o CanonFields(a)) = a

\* ------------------------------------------------------------- case export
RECURSIVE UpFrom(_, _)
UpFrom(S, i) == IF i > Len(U) THEN <<>> ELSE (IF i \in S THEN <<i>> ELSE <<>>) \o UpFrom(S, i + 1)
IdxOf(s) == UpFrom({i \in 1..Len(U) : U[i] \in s.set}, 1)
Emit == (ph = 1 /\ a = b) \/
        PrintT(<<"MBT", ToJson([kind |-> IF ph = 0 THEN "single" ELSE "pair",
                                 a |-> IdxOf(a), au |-> a.unlimited,
                                 b |-> IdxOf(b), bu |-> b.unlimited])>>)
EmitUniverse == PrintT(<<"MBT", ToJson([kind |-> "universe", u |-> U, strs |-> Strs])>>)
=============================================================================
