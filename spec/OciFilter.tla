----------------------------- MODULE OciFilter -----------------------------
(***************************************************************************)
(* C12 / C13: the repository-filtering wrappers of ocifilter as             *)
(* transformers over a backend registry.  The backend is the OciRegistry    *)
(* state (this module EXTENDS it); a wrapper-level call is the same         *)
(* operation record that OciRegistry!Apply dispatches on.                   *)
(*                                                                         *)
(*  CheckedApply(o, pol, sc)  ocifilter.AccessChecker with the policy       *)
(*                            table pol (Select(allow) is the derived       *)
(*                            table SelPol(allow))                          *)
(*  SubApply(o, sc)           ocifilter.Sub(backend, Prefix)                *)
(*                                                                         *)
(* Each action determines, besides the backend step: the wrapper-level      *)
(* result (wres, wpe), the exact sequence of policy consultations (cons),   *)
(* the exact sequence of backend calls (bcalls, in the vocabulary of the    *)
(* harness's recording backend) and the auth scope each backend call sees   *)
(* in its context (bscopes).                                                *)
(*                                                                         *)
(* Names.  Repository names are strings; Chars[s] is the byte sequence of   *)
(* the string s (an encoding supplied with the universe), so that validity  *)
(* (OciRef!IsRepository), the prefix relation and byte order are decided    *)
(* here, on characters.  TLC concatenates strings with \o, which is how     *)
(* the name mapping n |-> Prefix/n is written.                              *)
(***************************************************************************)
EXTENDS OciRegistry

CONSTANTS Prefix,   \* the path prefix of the Sub view (a string; "" when no Sub view is in play)
          Chars     \* Chars[s] = sequence of byte values of the string s, for every string used as a name

VARIABLES wres,     \* wrapper-level result of the last call (same shape as res)
          wpe,      \* identity of the policy error the last call was rejected with (None: not rejected)
          cons,     \* policy consultations of the last call, in order: <<[n |-> name, k |-> kind], ...>>
          bcalls,   \* backend calls of the last call, in order
          bscopes   \* auth scope seen by each Interface-level backend call of the last call

wvars == <<wres, wpe, cons, bcalls, bscopes>>
fvars == <<vars, wvars>>

Ref == INSTANCE OciRef

Kinds == {"Read", "Write", "Delete", "List"}
Star == "*"

ReadOps == {"GetBlob", "GetBlobRange", "GetManifest", "GetTag", "ResolveBlob", "ResolveManifest", "ResolveTag"}
PushOps == {"PushBlob", "PushManifest", "PushBlobChunked", "Resume"}
DeleteOps == {"DeleteBlob", "DeleteManifest", "DeleteTag"}
ListOps == {"ListTags", "Referrers"}
WriterOps == {"Write", "UpSize", "Close", "Cancel", "Commit"}    \* BlobWriter methods: no context, no check
IfaceOps == ReadOps \cup PushOps \cup DeleteOps \cup ListOps \cup {"MountBlob", "ListRepos"}   \* the 18 Interface methods

\* ---------------------------------------------------------- backend calls
\* What the recording backend logs for the call o (harness/recorder.go): one record per
\* Interface method call with its abstract arguments; Write / Commit / Cancel of a
\* BlobWriter; nothing for Size, Close, ID, ChunkSize.
BCall(o) ==
  CASE o.op \in {"GetBlob", "ResolveBlob", "GetManifest", "ResolveManifest", "DeleteBlob", "DeleteManifest", "Referrers"} ->
         [m |-> o.op, r |-> o.r, c |-> o.c]
    [] o.op \in {"GetTag", "ResolveTag", "DeleteTag"} -> [m |-> o.op, r |-> o.r, t |-> o.t]
    [] o.op = "GetBlobRange" -> [m |-> o.op, r |-> o.r, c |-> o.c, o0 |-> o.o0, o1 |-> o.o1]
    [] o.op = "PushBlob" -> [m |-> o.op, r |-> o.r, c |-> o.dd, ds |-> o.ds]
    [] o.op = "PushBlobChunked" -> [m |-> o.op, r |-> o.r]
    [] o.op = "Resume" -> [m |-> o.op, r |-> o.r, off |-> o.off]
    [] o.op = "MountBlob" -> [m |-> o.op, from |-> o.from, r |-> o.r, c |-> o.c]
    [] o.op = "PushManifest" -> [m |-> o.op, r |-> o.r, t |-> o.t, c |-> o.c, mt |-> o.mt]
    [] o.op = "ListRepos" -> [m |-> o.op, startpos |-> o.startpos]
    [] o.op = "ListTags" -> [m |-> o.op, r |-> o.r, startpos |-> o.startpos]
    [] o.op = "Write" -> [m |-> o.op, r |-> o.r, n |-> SizeOf(o.data)]
    [] o.op = "Commit" -> [m |-> o.op, r |-> o.r, c |-> o.dd]
    [] o.op = "Cancel" -> [m |-> o.op, r |-> o.r]
BCallsOf(o) == IF o.op \in {"UpSize", "Close"} THEN <<>> ELSE <<BCall(o)>>
NIface(calls) == Cardinality({i \in 1..Len(calls) : calls[i].m \in IfaceOps})
NamesOfCall(b) == (IF "r" \in DOMAIN b THEN {b.r} ELSE {}) \cup (IF "from" \in DOMAIN b THEN {b.from} ELSE {})

\* ------------------------------------------------------------------ C12 --
\* A policy is a table: pol[name][kind] = "ok" or the identity of an error.  Names are
\* the repositories and "*".
PolOk == "ok"
PolCode(id) == CASE id = "E_DENIED" -> "DENIED"
                 [] id = "E_UNKNOWN" -> "NAME_UNKNOWN"
                 [] id = "E_UNAUTH" -> "UNAUTHORIZED"
                 [] OTHER -> "FAIL"         \* an error without an OCI code: only its identity is fixed
Q(n, k) == [n |-> n, k |-> k]
\* the consultations a call makes before anything else happens
StaticCons(o) ==
  CASE o.op = "MountBlob" -> <<Q(o.from, "Read"), Q(o.r, "Write")>>
    [] o.op = "ListRepos" -> <<Q(Star, "List")>>
    [] o.op \in ListOps -> <<Q(o.r, "List")>>
    [] o.op \in ReadOps -> <<Q(o.r, "Read")>>
    [] o.op \in PushOps -> <<Q(o.r, "Write")>>
    [] o.op \in DeleteOps -> <<Q(o.r, "Delete")>>
    [] o.op \in WriterOps -> <<>>
\* A policy is a function of (name, kind) - of ANY name, well-formed or not.  It is given either
\* as a table (a name the table does not list is allowed) or as the allow set of Select.
SelKey == "#select"
IsSel(pol) == SelKey \in DOMAIN pol
PolAt(pol, n, k) ==
  IF IsSel(pol) THEN (IF n \in pol[SelKey] THEN PolOk
                      ELSE IF k = "Write" THEN "E_DENIED"
                      ELSE IF k = "List" /\ n = Star THEN PolOk
                      ELSE "E_UNKNOWN")
  ELSE IF n \in DOMAIN pol THEN pol[n][k] ELSE PolOk
Allowed(pol, x) == PolAt(pol, x, "Read") = PolOk
Fails(pol, q) == PolAt(pol, q.n, q.k) # PolOk
FirstFail(cs, pol) ==      \* index of the first failing consultation, 0 if none
  LET bad == {i \in 1..Len(cs) : Fails(pol, cs[i])} IN
  IF bad = {} THEN 0 ELSE CHOOSE i \in bad : \A j \in bad : i <= j
Rejected(o, pol) == FirstFail(StaticCons(o), pol) > 0
RejectId(o, pol) == LET cs == StaticCons(o) IN LET q == cs[FirstFail(cs, pol)] IN PolAt(pol, q.n, q.k)

\* Select(allow): the derived policy.  allow is a set of names (possibly containing "*").
SelPol(allow, names) == (SelKey :> allow)     \* (names: the universe the caller has in mind; not needed)

Filter(s, Keep(_)) == SelectSeq(s, Keep)
BackendUnchanged == UNCHANGED state
ContentUnchanged == UNCHANGED <<imm, blobs, mans, tags, ups>>

CNames(o) == (IF "r" \in DOMAIN o /\ o.op # "ListRepos" THEN {o.r} ELSE {}) \cup (IF o.op = "MountBlob" THEN {o.from} ELSE {})
CheckedApply(o, pol, sc) ==
  LET cs == StaticCons(o)
      k == FirstFail(cs, pol) IN
  IF k > 0 THEN
     \* first failing consultation's error is the result; the backend is not touched
     /\ wres' = ErrR(PolCode(PolAt(pol, cs[k].n, cs[k].k)))
     /\ wpe' = PolAt(pol, cs[k].n, cs[k].k)
     /\ cons' = SubSeq(cs, 1, k)
     /\ bcalls' = <<>>
     /\ bscopes' = <<>>
     /\ UNCHANGED vars
  ELSE IF \E n \in CNames(o) : n \notin Repos THEN
     \* allowed, but not the name of any repository (an ill-formed name): the single identical
     \* call, which the backend can only fail; nothing is stored or removed
     /\ wres' = ErrR("FAIL") /\ res' = ErrR("FAIL")
     /\ touched' \in {touched, touched \cup (CNames(o) \cap Repos)}
     /\ UNCHANGED <<imm, blobs, mans, tags, ups>>
     /\ wpe' = None /\ cons' = cs
     /\ bcalls' = BCallsOf(o)
     /\ bscopes' = [i \in 1..NIface(BCallsOf(o)) |-> sc]
  ELSE
     \* delegate: the single call, identical arguments, identical context
     /\ Apply(o)
     /\ wpe' = None
     /\ bcalls' = BCallsOf(o)
     /\ bscopes' = [i \in 1..NIface(BCallsOf(o)) |-> sc]
     /\ IF o.op = "ListRepos" /\ res'.ok
          THEN \* each listed item is checked for Read; an item that fails is omitted
               /\ cons' = cs \o [i \in 1..Len(res'.items) |-> Q(res'.items[i], "Read")]
               /\ wres' = OkItems(Filter(res'.items, LAMBDA x : Allowed(pol, x)))
          ELSE cons' = cs /\ wres' = res'

\* A backend whose repository listing fails after delivering k items (it may hand a further
\* name over together with the error: the Seq contract only says that the item that comes with
\* an error is the last).  What was delivered before is checked and filtered as usual; the
\* listing ends with the backend's error; the name that came with the error is not an item.
Min(a, b) == IF a < b THEN a ELSE b
\* The general case: the backend's listing is whatever it is - `script`, if scripted: any sequence
\* of strings, names repeated, out of order, ill-formed - and may fail after k items (k < 0: it
\* does not).  Every delivered item is checked for Read, occurrence by occurrence, and is passed on
\* iff the check allows it (HEAD passes allowed duplicates on as they come; so does this).
CheckedListing(o, pol, sc, scripted, script, k) ==
  /\ o.op = "ListRepos" /\ ~Rejected(o, pol)
  /\ IF scripted THEN res' = OkItems(script) /\ UNCHANGED state
                  ELSE Apply(o) /\ res'.ok            \* res: what the backend would have listed in full
  /\ LET got == IF k < 0 THEN res'.items ELSE SubSeq(res'.items, 1, Min(k, Len(res'.items)))
         out == Filter(got, LAMBDA x : Allowed(pol, x)) IN
     /\ cons' = StaticCons(o) \o [i \in 1..Len(got) |-> Q(got[i], "Read")]
     /\ wres' = IF k < 0 THEN OkItems(out) ELSE [ErrR("FAIL") EXCEPT !.items = out]
  /\ wpe' = None /\ bcalls' = BCallsOf(o) /\ bscopes' = <<sc>>
CheckedListFail(o, pol, sc, k) == CheckedListing(o, pol, sc, FALSE, <<>>, k)
\* A backend that answers the call with an error of its own (mounts unsupported, pushes denied,
\* ...).  The wrapper is transparent to that too: the single identical call, the backend's error
\* as the result, nothing changed (the backend refused before doing anything).
FaultOps == {"MountBlob", "PushBlob", "PushManifest", "DeleteBlob", "DeleteManifest", "DeleteTag",
             "GetBlob", "ResolveBlob", "ResolveManifest", "ResolveTag"}
CheckedFault(o, pol, sc, code) ==
  /\ o.op \in FaultOps /\ ~Rejected(o, pol)
  /\ res' = ErrR(code) /\ UNCHANGED state
  /\ wres' = ErrR(code) /\ wpe' = None
  /\ cons' = StaticCons(o)
  /\ bcalls' = BCallsOf(o) /\ bscopes' = <<sc>>
\* the name delivered together with an error is nothing the policy rejects
ErrItemOK(name, pol) == name = "" \/ Allowed(pol, name)

\* Nested checkers.  AccessChecker / Select wrappers may be stacked, and several wrappers may be
\* built on the same inner wrapper; each is a wrapper of its own with its own policy.  A call
\* made through a wrapper passes the policies on the path from that wrapper down to the backend,
\* pols = <<outermost, ..., innermost>>.  What HEAD does, and what is specified here: each
\* level makes all of its own consultations for the call before the next level is entered;
\* the first level (from the outside) with a failing consultation gives the result - its first
\* failing consultation's error - and nothing further in is consulted or called.  A
\* listing is filtered from the inside out: level i checks for Read what level i+1 delivered.
\* cons' is the sequence of the levels' consultation sequences.
NestFirstRej(o, pols) ==
  LET bad == {i \in 1..Len(pols) : Rejected(o, pols[i])} IN
  IF bad = {} THEN 0 ELSE CHOOSE i \in bad : \A j \in bad : i <= j
RECURSIVE ReachLevel(_, _, _)       \* the items that level i is handed by level i+1 (the backend's for the innermost)
ReachLevel(items, pols, i) ==
  IF i = Len(pols) THEN items
  ELSE Filter(ReachLevel(items, pols, i + 1), LAMBDA x : Allowed(pols[i + 1], x))
NestApply(o, pols, sc) ==
  LET cs == StaticCons(o)
      j == NestFirstRej(o, pols) IN
  IF j > 0 THEN
     LET k == FirstFail(cs, pols[j])
         id == PolAt(pols[j], cs[k].n, cs[k].k) IN
     /\ wres' = ErrR(PolCode(id)) /\ wpe' = id
     /\ cons' = [i \in 1..Len(pols) |-> IF i < j THEN cs ELSE IF i = j THEN SubSeq(cs, 1, k) ELSE <<>>]
     /\ bcalls' = <<>> /\ bscopes' = <<>>
     /\ UNCHANGED vars
  ELSE
     /\ Apply(o)
     /\ wpe' = None
     /\ bcalls' = BCallsOf(o)
     /\ bscopes' = [i \in 1..NIface(BCallsOf(o)) |-> sc]
     /\ IF o.op = "ListRepos" /\ res'.ok
          THEN /\ cons' = [i \in 1..Len(pols) |->
                            LET in == ReachLevel(res'.items, pols, i) IN cs \o [x \in 1..Len(in) |-> Q(in[x], "Read")]]
               /\ wres' = OkItems(Filter(ReachLevel(res'.items, pols, 1), LAMBDA x : Allowed(pols[1], x)))
          ELSE cons' = [i \in 1..Len(pols) |-> cs] /\ wres' = res'
\* the nest is the conjunction of its policies: a call reaches the backend iff every level allows
\* it; a rejected call is the outermost refusing level's; listings show what every level allows
AllAllow(pols, x) == \A i \in 1..Len(pols) : Allowed(pols[i], x)
NestStep(o, pols) ==
  LET j == NestFirstRej(o, pols) IN
  /\ j > 0 => /\ BackendUnchanged /\ bcalls' = <<>> /\ ~wres'.ok
              /\ wpe' = RejectId(o, pols[j]) /\ wres'.code = PolCode(RejectId(o, pols[j]))
              /\ \A i \in 1..Len(pols) : i > j => cons'[i] = <<>>
  /\ j = 0 => /\ Apply(o) /\ bcalls' = BCallsOf(o) /\ wpe' = None
              /\ IF o.op = "ListRepos" /\ res'.ok
                   THEN /\ wres'.ok
                        /\ \A x \in Repos : (\E i \in 1..Len(wres'.items) : wres'.items[i] = x)
                                              <=> (AllAllow(pols, x) /\ \E i \in 1..Len(res'.items) : res'.items[i] = x)
                   ELSE wres' = res'

\* ---- C12 properties, as predicates on one step that was made for call o under pol
RejectedNeverReachesBackendStep(o, pol) ==
  Rejected(o, pol) => BackendUnchanged /\ bcalls' = <<>>
ListingFilteredStep(o, pol) ==
  \* (also for a listing that ends in an error: what it delivered before)
  o.op = "ListRepos" => \A i \in 1..Len(wres'.items) : Allowed(pol, wres'.items[i])
ErrorIsPolicyErrorStep(o, pol) ==
  /\ Rejected(o, pol) => /\ ~wres'.ok /\ wpe' = RejectId(o, pol) /\ wres'.code = PolCode(RejectId(o, pol))
                         /\ cons'[Len(cons')] = StaticCons(o)[FirstFail(StaticCons(o), pol)]
  /\ ~Rejected(o, pol) => wpe' = None
AllowedIsTransparentStep(o, pol) ==
  (~Rejected(o, pol) /\ CNames(o) \subseteq Repos) =>
     /\ Apply(o)                                     \* the backend made exactly the step of the call itself
     /\ bcalls' = BCallsOf(o)
     /\ IF o.op = "ListRepos" /\ res'.ok
          THEN \* exactly the allowed ones among what the backend listed, in its order
               /\ wres'.ok
               /\ \A x \in Repos : (\E i \in 1..Len(wres'.items) : wres'.items[i] = x)
                                     <=> (Allowed(pol, x) /\ \E i \in 1..Len(res'.items) : res'.items[i] = x)
               /\ \A i, j \in 1..Len(wres'.items) : i < j => Pos.r[wres'.items[i]] < Pos.r[wres'.items[j]]
          ELSE wres' = res'
\* an allowed call with an ill-formed name is handed on as it is, and fails there
IllFormedHandedOnStep(o, pol) ==
  (~Rejected(o, pol) /\ ~(CNames(o) \subseteq Repos)) => bcalls' = BCallsOf(o) /\ ~wres'.ok /\ ContentUnchanged
SelectKindsOK(allow, names) ==      \* the error kinds the selecting wrapper is documented to give
  \A n \in names \ allow : \A k \in Kinds :
     PolCode(PolAt(SelPol(allow, names), n, k)) = (IF k = "Write" THEN "DENIED" ELSE "NAME_UNKNOWN")
C12Step(o, pol) ==
  /\ RejectedNeverReachesBackendStep(o, pol) /\ ListingFilteredStep(o, pol)
  /\ ErrorIsPolicyErrorStep(o, pol) /\ AllowedIsTransparentStep(o, pol) /\ IllFormedHandedOnStep(o, pol)

\* ------------------------------------------------------------------ C13 --
Slash == <<47>>
PrefixChars == Chars[Prefix] \o Slash
ValidChars(s) == Ref!IsRepository(s)
ValidName(n) == ValidChars(Chars[n])
HasPrefix(s, p) == Len(s) >= Len(p) /\ SubSeq(s, 1, Len(p)) = p
Under(x) == HasPrefix(Chars[x], PrefixChars)         \* x lies under Prefix + "/"
\* byte order
Less(a, b) ==
  \E i \in 1..(Len(a) + 1) :
     /\ \A j \in 1..(i - 1) : j <= Len(b) /\ a[j] = b[j]
     /\ IF i > Len(a) THEN Len(b) >= i ELSE i <= Len(b) /\ a[i] < b[i]

\* The name mapping.  A valid name goes to Prefix/name (valid again, under the prefix);
\* any other caller string must go to something that is not a valid repository name:
\* the characters it is allowed to become are whatever fails the grammar.
SubNameP(p, n) == p \o "/" \o n
SubName(n) == SubNameP(Prefix, n)
SubChars(n) == PrefixChars \o Chars[n]
\* Nested views.  Sub(Sub(r, p1), p2) hands a name first to the outer view (p2), whose result
\* the inner view (p1) prefixes again: chain = <<p1, p2>>, innermost first, is the one view
\* with prefix p1/p2.  The trace specification requires Prefix = ChainPrefix(chain) of every
\* scenario, so that a stack of views is judged as SubApply under the composed prefix.
RECURSIVE ChainPrefix(_)
ChainPrefix(chain) == IF Len(chain) = 1 THEN chain[1]
                      ELSE ChainPrefix(SubSeq(chain, 1, Len(chain) - 1)) \o "/" \o chain[Len(chain)]
OpNames(o) == (IF "r" \in DOMAIN o /\ o.op # "ListRepos" THEN {o.r} ELSE {}) \cup (IF o.op = "MountBlob" THEN {o.from} ELSE {})
MapOp(o) == IF o.op = "MountBlob" THEN [o EXCEPT !.r = SubName(o.r), !.from = SubName(o.from)]
            ELSE [o EXCEPT !.r = SubName(o.r)]

\* The view: the names y with Prefix/y in the backend universe, in byte order (a common
\* prefix does not change the order).
ViewRepos == {y \in DOMAIN Chars : ValidName(y) /\ SubName(y) \in Repos}
Image == {SubName(y) : y \in ViewRepos}
Strip(x) == CHOOSE y \in ViewRepos : SubName(y) = x
ViewPos == [r |-> [y \in ViewRepos |-> 2 * Cardinality({z \in ViewRepos : Pos.r[SubName(z)] <= Pos.r[SubName(y)]})],
            t |-> Pos.t, c |-> Pos.c]
\* backend names that sort before everything under the prefix
BeforePrefix == {x \in Repos : ~Under(x) /\ Less(Chars[x], PrefixChars)}
\* The start point of a listing, translated from the view's name space to the backend's:
\* position of Prefix/s among the backend names, given the position of s among the view names.
BStart(vstart) ==
  IF vstart = 0 THEN 0
  ELSE IF vstart % 2 = 0 /\ \E y \in ViewRepos : ViewPos.r[y] = vstart
         THEN Pos.r[SubName(CHOOSE y \in ViewRepos : ViewPos.r[y] = vstart)]
  ELSE 2 * (Cardinality(BeforePrefix) + Cardinality({y \in ViewRepos : ViewPos.r[y] < vstart})) + 1

\* Scopes: [unl |-> BOOLEAN, set |-> set of <<type, resource, action>>].
RewriteTripleP(p, t) == IF t[1] = "repository" THEN <<t[1], (IF t[2] = "" THEN "" ELSE SubNameP(p, t[2])), t[3]>> ELSE t
SubScopeP(p, sc) == IF sc.unl THEN sc ELSE [unl |-> FALSE, set |-> {RewriteTripleP(p, t) : t \in sc.set}]
RewriteTriple(t) == RewriteTripleP(Prefix, t)
SubScope(sc) == SubScopeP(Prefix, sc)
\* composing two views = the view under the composed prefix (names, and scopes element-wise)
ComposeOK(p1, p2, names, scopes) ==
  LET p == ChainPrefix(<<p1, p2>>) IN
  /\ \A n \in names : SubNameP(p1, SubNameP(p2, n)) = SubNameP(p, n)
  /\ \A sc \in scopes : SubScopeP(p1, SubScopeP(p2, sc)) = SubScopeP(p, sc)
  /\ p # ChainPrefix(<<p2, p1>>) \/ p1 = p2

StripItems(items) == LET under == SelectSeq(items, LAMBDA x : x \in Image) IN [i \in 1..Len(under) |-> Strip(under[i])]

SubApply(o, sc) ==
  IF o.op = "ListRepos" THEN
     LET bo == [o EXCEPT !.startpos = BStart(o.startpos)] IN
     /\ Apply(bo)
     /\ wres' = IF res'.ok THEN OkItems(StripItems(res'.items)) ELSE res'
     /\ bcalls' = <<BCall(bo)>>
     /\ bscopes' = <<SubScope(sc)>>
     /\ wpe' = None /\ cons' = <<>>
  ELSE IF \A n \in OpNames(o) : ValidName(n) THEN
     LET bo == MapOp(o) IN
     /\ Apply(bo)
     /\ wres' = res'
     /\ bcalls' = BCallsOf(bo)
     /\ bscopes' = [i \in 1..NIface(BCallsOf(bo)) |-> SubScope(sc)]
     /\ wpe' = None /\ cons' = <<>>
  ELSE
     \* a name that is not a repository name: the call fails, nothing is stored or removed
     \* (a mount may have brought its valid other side into existence, empty)
     /\ wres' = ErrR("FAIL")
     /\ touched' \in {touched, touched \cup ({SubName(n) : n \in {m \in OpNames(o) : ValidName(m)}} \cap Repos)}
     /\ UNCHANGED <<imm, blobs, mans, tags, ups, res>>
     /\ bcalls' = <<>> /\ bscopes' = <<>>       \* (what an implementation may send: ConfinedCalls)
     /\ wpe' = None /\ cons' = <<>>

\* The backend's repository listing (asked from the translated start point) fails after k of
\* ITS items: the view delivers the view names among those, then the backend's error.
SubListFail(o, sc, k) ==
  LET bo == [o EXCEPT !.startpos = BStart(o.startpos)] IN
  /\ o.op = "ListRepos"
  /\ Apply(bo) /\ res'.ok
  /\ wres' = [ErrR("FAIL") EXCEPT !.items = StripItems(SubSeq(res'.items, 1, Min(k, Len(res'.items))))]
  /\ bcalls' = <<BCall(bo)>>
  /\ bscopes' = <<SubScope(sc)>>
  /\ wpe' = None /\ cons' = <<>>
\* The backend refuses the call (see CheckedFault): through the view that is the one call under
\* the mapped names and the backend's error, whatever the error is - no second attempt by other
\* means, in particular none that names anything else.
SubFault(o, sc, code) ==
  /\ o.op \in FaultOps /\ (\A n \in OpNames(o) : ValidName(n))
  /\ res' = ErrR(code) /\ UNCHANGED state
  /\ wres' = ErrR(code) /\ wpe' = None /\ cons' = <<>>
  /\ bcalls' = BCallsOf(MapOp(o)) /\ bscopes' = <<SubScope(sc)>>
FaultedStep(code) == ~wres'.ok /\ wres'.code = code /\ BackendUnchanged /\ Len(bcalls') = 1

\* ---- C13 properties
\* every backend call made through the view names only repositories under the prefix, or
\* strings that are not repository names at all
ConfinedCalls(calls) ==
  \A i \in 1..Len(calls) : \A x \in NamesOfCall(calls[i]) : Under(x) \/ ~ValidName(x)
\* no caller string that is not a repository name becomes one
InvalidStaysInvalid(n) == ~ValidName(n) => (n = "" \/ ~ValidChars(SubChars(n)))
ValidGoesUnder(n) == ValidName(n) => ValidChars(SubChars(n)) /\ HasPrefix(SubChars(n), PrefixChars)

\* the registry "backend restricted to the prefix, prefix removed"
V == INSTANCE OciRegistry WITH
       Repos <- ViewRepos, Pos <- ViewPos,
       blobs <- [y \in ViewRepos |-> blobs[SubName(y)]],
       mans <- [y \in ViewRepos |-> mans[SubName(y)]],
       tags <- [y \in ViewRepos |-> tags[SubName(y)]],
       ups <- [y \in ViewRepos |-> ups[SubName(y)]],
       touched <- {y \in ViewRepos : SubName(y) \in touched},
       res <- wres
OutsideUnchanged ==
  \A x \in Repos \ Image : blobs'[x] = blobs[x] /\ mans'[x] = mans[x] /\ tags'[x] = tags[x] /\ ups'[x] = ups[x]
EqualsRestrictionStep(o) ==
  /\ OutsideUnchanged
  /\ IF o.op # "ListRepos" /\ (\A n \in OpNames(o) : ValidName(n))
       THEN V!Apply(o)                                \* the step the restricted registry makes for o
       ELSE o.op # "ListRepos" => (~wres'.ok /\ ContentUnchanged)
ListingExactStep(o) ==
  o.op = "ListRepos" => V!ListRepos(o.startpos) /\ BackendUnchanged
\* ... which is a prefix of what the unbroken listing delivers, and never a success
SubFailedListingStep(o) ==
  /\ ~wres'.ok /\ BackendUnchanged
  /\ \E extra \in SUBSET {r \in ViewRepos : SubName(r) \in touched /\ ~V!HasContent(r)} :
        LET full == V!After({r \in ViewRepos : V!HasContent(r)} \cup extra, ViewPos.r, o.startpos) IN
        Len(wres'.items) <= Len(full) /\ wres'.items = SubSeq(full, 1, Len(wres'.items))
ScopesRewrittenOne(sc, b) ==
  /\ b.unl = sc.unl
  /\ ~sc.unl =>
       /\ \A t \in sc.set : IF t[1] = "repository"
                               THEN \/ <<t[1], Prefix \o "/" \o t[2], t[3]>> \in b.set
                                    \/ t[2] = "" /\ t \in b.set      \* the empty name names nothing either way
                               ELSE t \in b.set
       /\ Cardinality(b.set) = Cardinality(sc.set)
ScopesRewrittenStep(sc) == \A i \in 1..Len(bscopes') : ScopesRewrittenOne(sc, bscopes'[i])
C13Step(o, sc) ==
  /\ ConfinedCalls(bcalls') /\ EqualsRestrictionStep(o) /\ ListingExactStep(o) /\ ScopesRewrittenStep(sc)
  /\ (o.op \in IfaceOps /\ (\A n \in OpNames(o) : ValidName(n))) => Len(bscopes') = 1
=============================================================================
