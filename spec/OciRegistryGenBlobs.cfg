SPECIFICATION GSpec
CONSTANTS
  Repos = {"r1", "r2"}
  Tags = {}
  Cids = {"b0", "b1", "b2", "img", "idx", "idy", "sub", "bad"}
  BlobIds = {"b1"}
  ManIds = {}
  Cat <- MCCat
  UploadIds = {}
  ImmChoices = {FALSE}
  BlockSize = 8192
  Pos <- MCPos
  GenDepth = 10
  GenKinds = {"PushBlob", "MountBlob", "ResolveBlob", "GetBlob", "DeleteBlob"}
CHECK_DEADLOCK FALSE
