SPECIFICATION TSpec
CONSTANTS
  DefaultN <- TrDefaultN
  Threshold <- TrThreshold
  ErrLimit <- TrErrLimit
  DefaultChunk <- TrDefaultChunk
  MaxAlloc <- TrMaxAlloc
  PageSizeRule = "le0"
  GuardLocation = TRUE
  GuardAlloc = TRUE
  StrictRangeTooLong = FALSE
INVARIANT NoPanicState
INVARIANT CorruptNeverCleanEOF
INVARIANT ShortNeverCleanEOF
INVARIANT NoRequestAfterTransportError
POSTCONDITION Accepted
CHECK_DEADLOCK FALSE
