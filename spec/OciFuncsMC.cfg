SPECIFICATION CaseSpec
CONSTANTS
  Methods <- InterfaceMethods
  IterMethods <- InterfaceIterMethods
INVARIANT CaseProps
INVARIANT Export
CHECK_DEADLOCK FALSE
