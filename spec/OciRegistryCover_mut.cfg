SPECIFICATION CSpec
CONSTANTS
  Repos = {"r1"}
  Tags = {"t1"}
  Cids = {"b0", "b1", "b2", "img", "idx", "idy", "sub", "bad"}
  BlobIds = {"b1"}
  ManIds = {"img", "idx"}
  Cat <- MCCat
  UploadIds = {}
  ImmChoices = {FALSE}
  BlockSize = 8192
  Pos <- MCPos
  CoverKinds = {"PushBlob", "PushManifest", "DeleteBlob", "DeleteManifest", "DeleteTag"}
  PrintKinds = {}
  PrintMinMans = 0
VIEW CoverView
CHECK_DEADLOCK FALSE
