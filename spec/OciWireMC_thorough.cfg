SPECIFICATION Spec
CONSTANTS
  MaxSegs = 5
  ReduceAt = 5
  QLevel = 1
  LawSegs = 4
  AllSegs = 2
  GetSegs = 4
  KOk = 20
  KErr = 4000
  HandleK = 1
  Seed = 1
  CompOK <- MCCompOK
  TagOK <- MCTagOK
  DigestOK <- MCDigestOK
  IdOf <- MCIdOf
INVARIANT Check
CHECK_DEADLOCK FALSE
