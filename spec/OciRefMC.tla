------------------------------ MODULE OciRefMC ------------------------------
(***************************************************************************)
(* Exhaustive check of the laws of OciRef ON THE MODEL and export of every  *)
(* enumerated case with the specification's verdict (direction A).         *)
(*                                                                         *)
(* mode "flat":  s is a sequence of symbols; every sequence of base         *)
(*   symbols of length <= MaxFlat (beyond length FullLen without the       *)
(*   symbols in Rare), and every sequence of length <= MaxMacroFlat made   *)
(*   of glue symbols and exactly one macro symbol.                         *)
(*   A symbol expands to a sequence of character codes (a macro to a long  *)
(*   one: a digest, a run of 127..256 characters, a host).                 *)
(* mode "wrap":  s is <<reference, white-space symbol, position>>: a valid   *)
(*   reference with a "trimmable" code point (space, tab, LF, VT, FF, CR,  *)
(*   U+0085, U+00A0, U+2028, U+3000 as UTF-8 bytes) put before it, after   *)
(*   it, on both sides, or after its first symbol.  None of them parses.   *)
(* mode "parts": s is <<host, repo, tag, digest>> chosen from tables of    *)
(*   valid and invalid parts (each a sequence of symbols); the case string *)
(*   is PrintRef of the parts.                                             *)
(***************************************************************************)
EXTENDS OciRef, TLC, Json

CONSTANTS Base,           \* base symbols: a subset of AllBase
          MaxFlat,        \* longest sequence of base symbols
          FullLen,        \* sequences longer than this do not use the symbols in Rare
          MaxMacroFlat,   \* longest flat sequence containing a macro symbol
          PartsLevel,     \* 0: no parts mode, 1: small tables, 2: full tables
          LongMacros      \* which of the length-class macro symbols (AllLong) are enumerated

VARIABLES mode, s

Rep(c, n) == [i \in 1..n |-> c]
HexRun(n) == [i \in 1..n |-> IF i % 3 = 0 THEN 57 ELSE IF i % 3 = 1 THEN 102 ELSE 48]   \* f09f09...
Colon == <<ChColon>>
RepSeq(u, k) == [i \in 1..(Len(u) * k) |-> u[((i - 1) % Len(u)) + 1]]          \* u repeated k times
\* a valid dotted host of exactly n bytes (n >= 4): "a1." repeated, then a last label of 1..3 "z"
HostOfLen(n) == LET k == (n - 1) \div 3 IN RepSeq(<<97, 49, 46>>, k) \o Rep(122, n - 3 * k)

\* one representative per character class that the grammar distinguishes ("a": a-f, "x": g-z,
\* "A": upper case, "0": digit, "!": every other byte)
AllBase == {"a", "x", "A", "0", ".", "-", "_", ":", "/", "@", "[", "]", "!"}
Rare == {"x"}       \* differs from "a" only inside an IPv6 literal
GlueSyms == {"a", "A", ".", "-", ":", "/", "@"}
\* length classes: valid parts repeated up to lengths around every limit the grammar or the
\* code (or a plausible "optimisation" of it) knows: 255 / 256 (repository, DNS name),
\* 261 / 262 (DNS name plus ":65535"), 300, 1000, 4096
AllLong == {"HL261", "HL262", "HL300", "HL1000", "HL4096", "A300", "A1000", "D4096"}
MacroSyms == {"D256", "D384", "D512", "Dshort", "Dlong", "Dupper", "Dnonhex", "Dalg", "Dmism",
              "A127", "A128", "A129", "A254", "A255", "A256",
              "HDOM", "HPORT", "HV6", "HV6P"} \cup LongMacros
ASSUME Base \subseteq AllBase /\ GlueSyms \subseteq Base /\ LongMacros \subseteq AllLong

Exp(y) ==
  CASE y = "a" -> <<97>> [] y = "x" -> <<120>> [] y = "A" -> <<65>> [] y = "0" -> <<48>>
    [] y = "." -> <<46>> [] y = "-" -> <<45>> [] y = "_" -> <<95>> [] y = ":" -> <<58>>
    [] y = "/" -> <<47>> [] y = "@" -> <<64>> [] y = "[" -> <<91>> [] y = "]" -> <<93>>
    [] y = "!" -> <<33>>
    [] y = "D256" -> Sha256 \o Colon \o HexRun(64)
    [] y = "D384" -> Sha384 \o Colon \o HexRun(96)
    [] y = "D512" -> Sha512 \o Colon \o HexRun(128)
    [] y = "Dshort" -> Sha256 \o Colon \o HexRun(63)
    [] y = "Dlong" -> Sha256 \o Colon \o HexRun(65)
    [] y = "Dupper" -> Sha256 \o Colon \o HexRun(63) \o <<70>>           \* ...F
    [] y = "Dnonhex" -> Sha256 \o Colon \o HexRun(63) \o <<103>>         \* ...g
    [] y = "Dalg" -> <<115, 104, 97, 49>> \o Colon \o HexRun(40)         \* sha1:<40 hex>, well formed, not registered
    [] y = "Dmism" -> Sha512 \o Colon \o HexRun(64)                      \* sha512 with a sha256-sized value
    [] y = "A127" -> Rep(97, 127) [] y = "A128" -> Rep(97, 128) [] y = "A129" -> Rep(97, 129)
    [] y = "A254" -> Rep(97, 254) [] y = "A255" -> Rep(97, 255) [] y = "A256" -> Rep(97, 256)
    [] y = "HDOM" -> <<114, 45, 49, 46, 69, 120, 46, 105, 111>>          \* r-1.Ex.io
    [] y = "HPORT" -> <<108, 111, 99, 97, 108, 104, 111, 115, 116, 58, 53, 48, 48, 48>>  \* localhost:5000
    [] y = "HV6" -> <<91, 50, 48, 48, 49, 58, 100, 66, 56, 58, 58, 49, 93>>              \* [2001:dB8::1]
    [] y = "HV6P" -> <<91, 58, 58, 49, 93, 58, 52, 52, 51>>                              \* [::1]:443
    [] y = "WSP" -> <<32>> [] y = "WTAB" -> <<9>> [] y = "WLF" -> <<10>> [] y = "WVT" -> <<11>>
    [] y = "WFF" -> <<12>> [] y = "WCR" -> <<13>>
    [] y = "WNEL" -> <<194, 133>>                 \* U+0085
    [] y = "WNBSP" -> <<194, 160>>                \* U+00A0
    [] y = "WLS" -> <<226, 128, 168>>             \* U+2028
    [] y = "WIDSP" -> <<227, 128, 128>>           \* U+3000
    [] y = "HL261" -> HostOfLen(261) [] y = "HL262" -> HostOfLen(262) [] y = "HL300" -> HostOfLen(300)
    [] y = "HL1000" -> HostOfLen(1000) [] y = "HL4096" -> HostOfLen(4096)
    [] y = "A300" -> Rep(97, 300) [] y = "A1000" -> Rep(97, 1000)
    [] y = "D4096" -> Sha256 \o Colon \o HexRun(4096)

RECURSIVE Expand(_)
Expand(q) == IF q = <<>> THEN <<>> ELSE Exp(Head(q)) \o Expand(Tail(q))

\* ----------------------------------------------------------- parts tables
HostsSmall == {<<>>, <<"HDOM">>, <<"HPORT">>, <<"HV6P">>, <<"a">>, <<"A", ":", "0">>, <<"HL262">>}
HostsFull == HostsSmall \cup {<<"HL261">>, <<"HL262", ":", "0">>, <<"HV6">>, <<"a", ".", "a">>, <<"a", "-", ".", "a">>, <<"[", "x", "]">>, <<"a", ".", "a", ":">>}
ReposSmall == {<<"a">>, <<"a", ".", "a", "/", "0", "_", "_", "x">>, <<"A255">>, <<"A256">>, <<"A">>, <<>>}
ReposFull == ReposSmall \cup {<<"a", "-", "-", "a">>, <<"A254", "/", "a">>, <<"A254", "/">>, <<"a", "_", "_", "_", "a">>, <<"a", "/", "/", "a">>}
TagsSmall == {<<>>, <<"_", ".", "-">>, <<"A128">>, <<"A129">>, <<"a", "!">>}
TagsFull == TagsSmall \cup {<<"A">>, <<"A127">>, <<".">>, <<"a", "/", "a">>, <<"a", ":", "a">>}
DigestsSmall == {<<>>, <<"D256">>, <<"D512">>, <<"Dshort">>, <<"Dalg">>, <<"a">>}
DigestsFull == DigestsSmall \cup {<<"D384">>, <<"Dupper">>, <<"Dnonhex">>, <<"Dmism">>, <<"Dlong">>, <<":", "a">>, <<"D256", "@", "a">>}
Table(k) ==
  IF PartsLevel >= 2
  THEN (CASE k = 1 -> HostsFull [] k = 2 -> ReposFull [] k = 3 -> TagsFull [] k = 4 -> DigestsFull)
  ELSE (CASE k = 1 -> HostsSmall [] k = 2 -> ReposSmall [] k = 3 -> TagsSmall [] k = 4 -> DigestsSmall)

\* ------------------------------------------------------------- wrap tables
WsSyms == {"WSP", "WTAB", "WLF", "WVT", "WFF", "WCR", "WNEL", "WNBSP", "WLS", "WIDSP"}
WrapRefs == {<<"HDOM", "/", "a">>, <<"HPORT", "/", "a", ":", "A">>, <<"HV6P", "/", "a", "@", "D256">>,
             <<"a", ".", "a", "/", "a", ":", "a", "@", "D512">>, <<"a">>, <<"a", ":", "a">>}
WrapPos == {"pre", "post", "both", "mid"}
WrapTable(k) == CASE k = 1 -> WrapRefs [] k = 2 -> {<<w>> : w \in WsSyms} [] k = 3 -> {<<q>> : q \in WrapPos}
WrapStr(q) ==
  LET r == Expand(q[1])
      w == Exp(q[2][1])
      pos == q[3][1]
  IN CASE pos = "pre" -> w \o r [] pos = "post" -> r \o w [] pos = "both" -> w \o r \o w
       [] pos = "mid" -> Exp(Head(q[1])) \o w \o Expand(Tail(q[1]))

\* ------------------------------------------------------------ enumeration
NMacro(q) == Cardinality({i \in 1..Len(q) : q[i] \in MacroSyms})
Init == s = <<>> /\ mode \in (IF PartsLevel > 0 THEN {"flat", "parts", "wrap"} ELSE {"flat"})
Next ==
  /\ UNCHANGED mode
  /\ \/ /\ mode = "flat" /\ NMacro(s) = 0 /\ Len(s) < MaxFlat
        /\ \E y \in Base : /\ s' = Append(s, y)
                           /\ Len(s) < FullLen \/ \A i \in 1..Len(s') : s'[i] \notin Rare
     \/ /\ mode = "flat" /\ Len(s) < MaxMacroFlat /\ \A i \in 1..Len(s) : s[i] \in GlueSyms \cup MacroSyms
        /\ \E y \in (IF NMacro(s) = 0 THEN MacroSyms ELSE GlueSyms) : s' = Append(s, y)
     \/ /\ mode = "parts" /\ Len(s) < 4
        /\ \E q \in Table(Len(s) + 1) : s' = Append(s, q)
     \/ /\ mode = "wrap" /\ Len(s) < 3
        /\ \E q \in WrapTable(Len(s) + 1) : s' = Append(s, q)
Spec == Init /\ [][Next]_<<mode, s>>

\* Is this state a case?  (flat: every state; a flat glue-only prefix that is waiting for
\* its macro is also a base string, enumerated on the other branch - same state, once.)
IsCase == mode = "flat" \/ (mode = "parts" /\ Len(s) = 4) \/ (mode = "wrap" /\ Len(s) = 3)
Parts == [host |-> Expand(s[1]), repo |-> Expand(s[2]), tag |-> Expand(s[3]), digest |-> Expand(s[4])]
Str == IF mode = "flat" THEN Expand(s) ELSE IF mode = "wrap" THEN WrapStr(s) ELSE PrintRef(Parts)

\* ------------------------------------------------------------------- laws
\* One invariant checks the laws and exports the case, so that Splits is computed once.
MCLaws ==
  IsCase => LET c == Str
                S == Splits(c)
            IN /\ LawsOn(c, S)
               /\ mode = "parts" => PrintParseFor(Parts)
               \* white space around or inside a reference is not part of any reference
               /\ mode = "wrap" => (S = {} /\ ~ParseRelativeOf(S).ok /\ ~CodeParseRelative(c).ok)
               /\ PrintT(<<"MBT", ToJson(
                     IF mode # "parts" THEN [kind |-> "str", s |-> c, v |-> Export(VerdictOn(c, S))]
                     ELSE [kind |-> "parts", p |-> RefSeq(Parts), s |-> c, v |-> Export(VerdictOn(c, S))])>>)
=============================================================================
