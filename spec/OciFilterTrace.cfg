SPECIFICATION TSpec
CONSTANTS
  Repos <- TrRepos
  Tags <- TrTags
  Cids <- TrCids
  BlobIds = {}
  ManIds = {}
  Cat <- TrCat
  UploadIds <- TrUploads
  ImmChoices = {FALSE}
  BlockSize <- TrBlockSize
  Pos <- TrPos
  Prefix <- TrPrefix
  Chars <- TrChars
POSTCONDITION Accepted
CHECK_DEADLOCK FALSE
