SPECIFICATION TSpec
CONSTANTS
  Repos <- TrRepos
  Tags <- TrTags
  Cids <- TrCids
  BlobIds = {}
  ManIds = {}
  Cat <- TrCat
  UploadIds <- TrUploads
  ImmChoices = {FALSE}
  BlockSize <- TrBlockSize
  Pos <- TrPos
  Prefix <- TrPrefix
  Chars <- TrChars
  F6_SubCleansNames = FALSE
  F7_SubStartNotTranslated = FALSE
  F8_SubUnlimitedScopePanics = FALSE
POSTCONDITION Accepted
CHECK_DEADLOCK FALSE
