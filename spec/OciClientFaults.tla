--------------------------- MODULE OciClientFaults ---------------------------
(***************************************************************************)
(* The HTTP client (ociregistry/ociclient) against a server that may send  *)
(* back ANYTHING (properties C18 and the corrupted-read clause of C01).    *)
(*                                                                         *)
(* Every client operation is a small state machine over requests sent and  *)
(* responses received.  A caller-level CALL (one exported method, or one   *)
(* method of the writer / reader / iterator a previous call returned) is   *)
(*     Begin(c)  ;  Exchange(q, r)*  ;  Return(o)                          *)
(* q is an abstract request (what the transport saw), r an abstract        *)
(* response (what the environment answered, any member of a class          *)
(* alphabet), o the projected outcome.  The machine fixes which request    *)
(* comes next, how the response moves it, and the outcome.                 *)
(*                                                                         *)
(* Abstract response r (all fields always present):                        *)
(*   code         status code; NetErr = the transport failed (no response) *)
(*   loc          Location: none empty bad rand | path pathq pathfq url    *)
(*                rel dup (usable forms; the URL is /loc/<k>, k = number   *)
(*                of the response that carried it)                         *)
(*   rf, ra, rb   Range (upload status): none empty nodash nonnum | num    *)
(*                with the two numbers as written ("ra-rb")                *)
(*   cl           Content-Length as the transport reports it (-1 unknown)  *)
(*   dig          Docker-Content-Digest: none empty bad | ok (halg, hcont:  *)
(*                algorithm and the content the digest is the digest of)   *)
(*   link         Link: none empty nolt nogt badurl rand | ok (</loc/k>)    *)
(*   ctype        Content-Type class (no influence on the machine)         *)
(*   mf, mv       OCI-Chunk-Min-Length: none bad | num (value)             *)
(*   crf, crtot   Content-Range of a 206: none noslash badnum | ok (total) *)
(*   body         class of the body bytes: list wszero (decodable listing, *)
(*                `items` items) | empty trunc garbage wserr rand ...      *)
(*   blen, bcont  length of the body and the content its bytes are         *)
(*   bend         how the body stream ends: eof | cut (a read error) |     *)
(*                trunc: the response travels framed by HTTP/1.1 and the   *)
(*                connection closes after the body bytes - which the       *)
(*                client's transport reports as an unexpected end of the   *)
(*                stream (an error) iff fewer bytes than the announced     *)
(*                Content-Length arrived, and as a clean end otherwise     *)
(*   items        number of list entries in a decodable listing body       *)
(*                                                                         *)
(* Deviation parameters (the values on the right are the code's):          *)
(*   PageSizeRule   "le0": page size <= 0 defaults (documented; after F4)  *)
(*                  "eq0": only 0 defaults (before F4)                     *)
(*   GuardLocation  TRUE: a missing Location is an error; FALSE: it is     *)
(*                  dereferenced (mutant)                                  *)
(*   GuardAlloc     TRUE: a writer never allocates what the server's       *)
(*                  OCI-Chunk-Min-Length says; FALSE: a resumed writer     *)
(*                  allocates its chunk size on the first buffered Write   *)
(***************************************************************************)
EXTENDS Integers, Sequences, FiniteSets, TLC

CONSTANTS DefaultN,        \* ociclient.DefaultListPageSize
          Threshold,       \* manifests up to this size are digested in memory when the server names no digest
          ErrLimit,        \* error bodies are read up to this many bytes (+1)
          DefaultChunk,    \* chunk size used for a hint <= 0
          MaxAlloc,        \* largest slice capacity that can be allocated
          PageSizeRule, GuardLocation, GuardAlloc,
          StrictRangeTooLong   \* see ReadAll: must a range read fail whenever more than the whole blob arrives?

VARIABLES ps,      \* configuration: Options.ListPageSize
          pc,      \* "idle" | "req" | "done" | "panic"
          call,    \* the call in progress
          m,       \* the call's machine state
          w,       \* the blob writer obtained earlier in the scenario
          rd,      \* the blob reader obtained earlier in the scenario
          out,     \* outcome of the finished call (constraint record)
          nreq,    \* requests made in this scenario (= responses consumed); numbers the responses
          cq,      \* requests made by the call in progress
          fl       \* [on, from, open]: the next request follows the redirect carried by response `from`
                   \* (open: to a target the model does not interpret)

vars == <<ps, pc, call, m, w, rd, out, nreq, cq, fl>>

NetErr == -1
Max(a, b) == IF a > b THEN a ELSE b
Min(a, b) == IF a < b THEN a ELSE b

-----------------------------------------------------------------------------
(* Records with fixed shapes *)

FL0 == [on |-> FALSE, from |-> 0, open |-> FALSE]
M0 == [step |-> "", net |-> FALSE,
       got |-> 0, lastk |-> -2, linkk |-> 0, len |-> 0, lock |-> 0, lform |-> "", lhost |-> "same",
       fblen |-> 0, fbcont |-> "", fbend |-> "", facl |-> -1, fframed |-> FALSE, errpath |-> FALSE]
W0 == [open |-> FALSE, lock |-> 0, lform |-> "", lhost |-> "same", chunk |-> 0, flushed |-> 0, size |-> 0, csize |-> 0,
       nilchunk |-> FALSE, closed |-> FALSE, cerr |-> FALSE]
RD0 == [open |-> FALSE, verify |-> FALSE, alg |-> "", cont |-> "", size |-> 0, blen |-> 0, bcont |-> "", bend |-> "",
        acl |-> -1, framed |-> FALSE]   \* framed: the body came framed by HTTP/1.1, announced with Content-Length acl (-1: none)
\* outcome constraint: ok; nlo <= n <= nhi; when ok also the descriptor (alg, cont, size)
O(ok, nlo, nhi, alg, cont, size) == [ok |-> ok, nlo |-> nlo, nhi |-> nhi, alg |-> alg, cont |-> cont, size |-> size]
OErr == O(FALSE, 0, 0, "", "", 0)
OOk == O(TRUE, 0, 0, "", "", 0)
C0 == [name |-> "", ref |-> "", o0 |-> 0, o1 |-> 0, take |-> 0, start |-> FALSE, wlen |-> 0, hint |-> 0,
       off |-> 0, idform |-> "", dg |-> "", csize |-> 0, mt |-> TRUE]

\* body classes a listing decodes: "list" has r.items entries; the others are valid JSON documents
\* (objects or null) without the listing's key, which decode to no entries
ZeroBodies == {"wszero", "errjson", "wsjson", "huge"}
Decodable(r) == r.body = "list" \/ r.body \in ZeroBodies
ItemsOf(r) == IF r.body = "list" THEN r.items ELSE 0

\* How the client's transport sees the body stream end.  (A framed body longer than its Content-Length
\* would be cut to it by the transport; the scripts do not contain such responses.)
End(r) == IF r.bend = "trunc" THEN (IF r.cl >= 0 /\ r.blen < r.cl THEN "cut" ELSE "eof") ELSE r.bend

UsableLoc == {"path", "pathq", "pathfq", "url", "rel", "dup"}
MissingLoc == {"none", "empty"}

\* the digest the caller named: sha256 of the catalogue content "c"
KnownAlg == "sha256"
KnownCont == "c"

-----------------------------------------------------------------------------
(* Which statuses let a response through the status gate of each step *)
OkCodes(step) ==
  CASE step \in {"resolve", "read", "head2", "referrers", "page"} -> {200}
    [] step = "range" -> {200, 206}
    [] step \in {"delete", "post1", "start", "patch"} -> {202}
    [] step \in {"pushman", "put1", "commit"} -> {201}
    [] step = "mount" -> {201, 202}
    [] step = "status" -> {204}
    [] OTHER -> {}

RedirectCodes == {301, 302, 303, 307, 308}

\* effective page size
N == IF PageSizeRule = "le0" THEN (IF ps <= 0 THEN DefaultN ELSE ps)
     ELSE (IF ps = 0 THEN DefaultN ELSE ps)

Hint(h) == IF h <= 0 THEN DefaultChunk ELSE h
ChunkSize(r, h) == IF r.mf = "num" /\ r.mv > h THEN r.mv ELSE h
\* ocirequest.RangeString
RSEnd(e) == Max(e - 1, 0)

-----------------------------------------------------------------------------
(* The request the machine sends next.  ms: allowed methods.  Fields that do not apply
   have the defaults the harness logs for an absent parameter/header. *)
Q0 == [ms |-> {}, p |-> "", ref |-> "", li |-> 0, host |-> "same", xq |-> FALSE, dq |-> "none", mq |-> FALSE,
       n |-> -2, last |-> -2, rk |-> "none", r0 |-> 0, r1 |-> 0, crp |-> FALSE, cr0 |-> 0, cr1 |-> 0, clen |-> 0]

\* A location is resolved against the URL of the request whose response carried it: only the
\* "url" form names a host (another one) itself.
HostOf(form, qhost) == IF form = "url" THEN "other" ELSE qhost
LocReq(method, k, form, host, dq) ==
  [Q0 EXCEPT !.ms = {method}, !.p = "loc", !.li = k, !.host = host,
             !.xq = (form = "pathq"), !.dq = dq]

Want ==
  LET c == call IN
  CASE m.step = "resolve" ->
         [Q0 EXCEPT !.ms = {"HEAD"}, !.p = IF c.name = "ResolveBlob" THEN "blob" ELSE "manifest", !.ref = c.ref]
    [] m.step = "read" ->
         [Q0 EXCEPT !.ms = {"GET"}, !.p = IF c.name \in {"GetBlob", "GetBlobRange"} THEN "blob" ELSE "manifest", !.ref = c.ref]
    [] m.step = "head2" -> [Q0 EXCEPT !.ms = {"HEAD"}, !.p = "manifest", !.ref = c.ref]
    [] m.step = "range" ->
         [Q0 EXCEPT !.ms = {"GET"}, !.p = "blob", !.ref = "digest",
                    !.rk = IF c.o1 < 0 THEN "from" ELSE "closed", !.r0 = c.o0, !.r1 = IF c.o1 < 0 THEN 0 ELSE c.o1 - 1]
    [] m.step = "delete" ->
         [Q0 EXCEPT !.ms = {"DELETE"}, !.p = IF c.name = "DeleteBlob" THEN "blob" ELSE "manifest", !.ref = c.ref]
    [] m.step = "mount" -> [Q0 EXCEPT !.ms = {"POST"}, !.p = "uploads", !.mq = TRUE]
    [] m.step = "pushman" -> [Q0 EXCEPT !.ms = {"PUT"}, !.p = "manifest", !.ref = c.ref, !.clen = c.csize]
    [] m.step = "referrers" -> [Q0 EXCEPT !.ms = {"GET"}, !.p = "referrers", !.ref = "digest"]
    [] m.step \in {"post1", "start"} -> [Q0 EXCEPT !.ms = {"POST"}, !.p = "uploads"]
    [] m.step = "put1" ->
         [LocReq("PUT", m.lock, m.lform, m.lhost, "want") EXCEPT !.crp = TRUE, !.cr0 = 0, !.cr1 = RSEnd(c.csize), !.clen = c.csize]
    [] m.step = "patch" ->
         [LocReq("PATCH", w.lock, w.lform, w.lhost, "none") EXCEPT !.crp = TRUE, !.cr0 = w.flushed, !.cr1 = RSEnd(w.flushed + m.len), !.clen = m.len]
    [] m.step = "commit" ->
         [LocReq("PUT", w.lock, w.lform, w.lhost, "want") EXCEPT !.crp = TRUE, !.cr0 = w.flushed, !.cr1 = RSEnd(w.flushed + m.len), !.clen = m.len]
    [] m.step = "status" -> LocReq("GET", 0, "path", "same", "none")
    [] m.step = "page" ->
         IF m.linkk # 0 THEN LocReq("GET", m.linkk, "path", m.lhost, "none")
         ELSE [Q0 EXCEPT !.ms = {"GET"}, !.p = IF c.name = "Repositories" THEN "catalog" ELSE "tags",
                         !.n = IF N >= 0 THEN N ELSE -2, !.last = m.lastk]
    [] OTHER -> Q0

\* Is q (the logged request, with a single method q.m) the request the machine sends now?
\* A request that follows a redirect (made by net/http inside the client) is only required to
\* go where the redirect pointed, with the same method or GET.  A location the model cannot
\* interpret (class "rand") leaves the target open.
ReqOK(q) ==
  IF fl.on
  THEN /\ q.m \in (Want.ms \cup {"GET"})
       /\ fl.open \/ (q.p = "loc" /\ q.li = fl.from)
  ELSE LET x == Want
           open == \/ m.step = "put1" /\ m.lform = "rand"
                   \/ m.step \in {"patch", "commit"} /\ w.lform = "rand"
                   \/ m.step = "page" /\ m.linkk = -1
       IN
       /\ q.m \in x.ms
       /\ open \/ /\ q.p = x.p /\ q.li = x.li /\ q.host = x.host /\ q.xq = x.xq
                   /\ q.ref = x.ref /\ q.dq = x.dq /\ q.mq = x.mq
                   /\ q.n = x.n /\ q.last = x.last
       /\ q.rk = x.rk /\ q.r0 = x.r0 /\ q.r1 = x.r1
       /\ q.crp = x.crp /\ q.cr0 = x.cr0 /\ q.cr1 = x.cr1 /\ q.clen = x.clen

\* the canonical request (for the exhaustive model, where nothing is logged)
Canon == LET x == Want IN
  [m |-> IF fl.on THEN "GET" ELSE CHOOSE y \in x.ms : TRUE,
   p |-> IF fl.on THEN "loc" ELSE x.p, li |-> IF fl.on THEN fl.from ELSE x.li,
   ref |-> x.ref, host |-> x.host, xq |-> x.xq, dq |-> x.dq, mq |-> x.mq, n |-> x.n, last |-> x.last,
   rk |-> x.rk, r0 |-> x.r0, r1 |-> x.r1, crp |-> x.crp, cr0 |-> x.cr0, cr1 |-> x.cr1, clen |-> x.clen]

-----------------------------------------------------------------------------
(* Ends of a call *)
Finish(o) == /\ pc' = "done" /\ out' = o
Panic == /\ pc' = "panic" /\ out' = OErr

\* guarded accesses: an index must be within bounds, a pointer non-nil, an allocation possible
InBounds(i, len) == 1 <= i /\ i <= len

(* descriptorFromResponse: <<ok, alg, cont, size>>.  needSize: the size is taken from
   Content-Range for a 206 and from Content-Length otherwise; needDigest: the digest must be
   known; known: whether the caller named a digest. *)
Desc(r, needSize, needDigest, known) ==
  LET sizeOK == IF ~needSize THEN TRUE
                ELSE IF r.code = 206 THEN r.crf = "ok" ELSE r.cl >= 0
      size == IF ~needSize THEN 0 ELSE IF r.code = 206 THEN r.crtot ELSE r.cl
      digOK == r.dig # "bad" /\ (needDigest => (r.dig = "ok" \/ known))
      alg == IF r.dig = "ok" THEN r.halg ELSE IF known THEN KnownAlg ELSE ""
      cont == IF r.dig = "ok" THEN r.hcont ELSE IF known THEN KnownCont ELSE ""
  IN [ok |-> sizeOK /\ digOK, alg |-> alg, cont |-> cont, size |-> size]

OpenReader(verify, alg, cont, size, blen, bcont, bend, acl, framed) ==
  /\ rd' = [open |-> TRUE, verify |-> verify, alg |-> alg, cont |-> cont, size |-> size,
            blen |-> blen, bcont |-> bcont, bend |-> bend, acl |-> acl, framed |-> framed]
  /\ Finish(O(TRUE, 0, 0, alg, cont, size))

(* Location of an upload response (locationFromResponse): continue with Go(k, form) or fail *)
WithLocation(r, k, Go(_, _), Fail) ==
  IF r.loc \in MissingLoc THEN (IF GuardLocation THEN Fail ELSE Panic /\ UNCHANGED <<w, rd, m>>)
  ELSE IF r.loc = "bad" THEN Fail
  ELSE IF r.loc = "rand" THEN (Fail \/ Go(k, "rand"))
  ELSE Go(k, r.loc)

-----------------------------------------------------------------------------
(* A response passed the status gate: what each step makes of it.  k numbers the response. *)
Fail0 == Finish(OErr) /\ UNCHANGED <<w, rd, m>>

(* One decoded page of `items` entries (pager in lister.go) *)
Page(k, r, items, qhost) ==
  LET c == call
      have == m.got + items IN
  IF c.take > 0 /\ have >= c.take
  THEN Finish(O(TRUE, c.take, c.take, "", "", 0)) /\ UNCHANGED m          \* the consumer declined
  ELSE IF items < N
  THEN Finish(O(TRUE, have, have, "", "", 0)) /\ UNCHANGED m              \* short page: the end
  ELSE IF ~InBounds(items, items)                                         \* items[len(items)-1]
  THEN Panic /\ UNCHANGED m
  ELSE IF r.link \in {"none", "empty"}
  THEN /\ m' = [m EXCEPT !.got = have, !.lastk = k, !.linkk = 0] /\ pc' = "req" /\ UNCHANGED out
  ELSE IF r.link = "ok"
  THEN /\ m' = [m EXCEPT !.got = have, !.linkk = k, !.lhost = qhost] /\ pc' = "req" /\ UNCHANGED out
  ELSE IF r.link = "rand"                                                 \* arbitrary value: invalid, or some URL
  THEN \/ Finish(O(FALSE, have, have, "", "", 0)) /\ UNCHANGED m
       \/ /\ m' = [m EXCEPT !.got = have, !.linkk = -1] /\ pc' = "req" /\ UNCHANGED out
  ELSE Finish(O(FALSE, have, have, "", "", 0)) /\ UNCHANGED m             \* invalid Link

HandleOK(k, r, qhost) ==
  LET c == call IN
  CASE m.step = "resolve" ->
         LET d == Desc(r, TRUE, TRUE, c.ref = "digest") IN
         /\ UNCHANGED <<w, rd, m>>
         /\ IF d.ok THEN Finish(O(TRUE, 0, 0, d.alg, d.cont, d.size)) ELSE Finish(OErr)
    [] m.step = "read" ->
         LET d == Desc(r, TRUE, FALSE, c.ref = "digest") IN
         IF ~d.ok THEN Fail0
         ELSE IF d.alg # "" THEN OpenReader(TRUE, d.alg, d.cont, d.size, r.blen, r.bcont, End(r), r.cl, r.bend = "trunc") /\ UNCHANGED <<w, m>>
         ELSE IF d.size <= Threshold
         THEN \* read size+1 bytes at most and digest them
              IF r.blen = d.size /\ End(r) = "eof"
              THEN OpenReader(TRUE, "sha256", r.bcont, d.size, r.blen, r.bcont, "eof", r.cl, r.bend = "trunc") /\ UNCHANGED <<w, m>>
              ELSE Fail0
         ELSE /\ m' = [m EXCEPT !.step = "head2", !.fblen = r.blen, !.fbcont = r.bcont, !.fbend = End(r), !.facl = r.cl, !.fframed = (r.bend = "trunc")]
              /\ pc' = "req" /\ UNCHANGED <<w, rd, out>>
    [] m.step = "head2" ->
         LET d == Desc(r, TRUE, TRUE, FALSE) IN
         IF ~d.ok THEN Fail0
         ELSE \* only the digest is taken from the HEAD response (which must still be a complete descriptor);
              \* the size is the Content-Length of the GET whose body is read
              OpenReader(TRUE, d.alg, d.cont, m.facl, m.fblen, m.fbcont, m.fbend, m.facl, m.fframed) /\ UNCHANGED <<w, m>>
    [] m.step = "range" ->
         LET d == Desc(r, TRUE, FALSE, TRUE) IN
         IF ~d.ok THEN Fail0
         ELSE OpenReader(FALSE, d.alg, d.cont, d.size, r.blen, r.bcont, End(r), r.cl, r.bend = "trunc") /\ UNCHANGED <<w, m>>
    [] m.step = "delete" -> Finish(OOk) /\ UNCHANGED <<w, rd, m>>
    [] m.step = "pushman" -> Finish(O(TRUE, 0, 0, "sha256", KnownCont, c.csize)) /\ UNCHANGED <<w, rd, m>>
    [] m.step = "mount" ->
         LET d == Desc(r, FALSE, TRUE, TRUE) IN
         /\ UNCHANGED <<w, rd, m>>
         /\ IF r.code = 202 \/ ~d.ok THEN Finish(OErr) ELSE Finish(O(TRUE, 0, 0, d.alg, d.cont, 0))
    [] m.step = "referrers" ->
         /\ UNCHANGED <<w, rd, m>>
         /\ IF End(r) # "eof" THEN Finish(OErr)
            ELSE IF Decodable(r)
            THEN LET n == IF c.take > 0 THEN Min(c.take, ItemsOf(r)) ELSE ItemsOf(r) IN Finish(O(TRUE, n, n, "", "", 0))
            ELSE IF r.body = "rand" THEN (Finish(OErr) \/ Finish(OOk))
            ELSE Finish(OErr)
    [] m.step = "post1" ->
         LET Go(kk, form) == /\ m' = [m EXCEPT !.step = "put1", !.lock = kk, !.lform = form, !.lhost = HostOf(form, qhost)]
                             /\ pc' = "req" /\ UNCHANGED <<w, rd, out>>
         IN WithLocation(r, k, Go, Fail0)
    [] m.step = "put1" -> Finish(O(TRUE, 0, 0, "sha256", KnownCont, c.csize)) /\ UNCHANGED <<w, rd, m>>
    [] m.step = "start" ->
         LET cs == ChunkSize(r, Hint(c.hint))
             Go(kk, form) == /\ w' = [W0 EXCEPT !.open = TRUE, !.lock = kk, !.lform = form, !.lhost = HostOf(form, qhost), !.csize = cs]
                             /\ Finish(O(TRUE, 0, 0, "", "", cs)) /\ UNCHANGED <<rd, m>>
         IN WithLocation(r, k, Go, Fail0)
    [] m.step = "patch" ->
         LET Go(kk, form) ==
               /\ UNCHANGED <<rd, m>>
               /\ IF c.name = "Write"
                  THEN /\ w' = [w EXCEPT !.lock = kk, !.lform = form, !.lhost = HostOf(form, qhost), !.flushed = @ + m.len, !.chunk = 0, !.size = @ + c.wlen]
                       /\ Finish(O(TRUE, c.wlen, c.wlen, "", "", 0))
                  ELSE /\ w' = [w EXCEPT !.lock = kk, !.lform = form, !.lhost = HostOf(form, qhost), !.flushed = @ + m.len, !.chunk = 0, !.closed = TRUE, !.cerr = FALSE]
                       /\ Finish(OOk)
             Fail == /\ UNCHANGED <<rd, m>> /\ Finish(OErr)
                     /\ w' = IF c.name = "Close" THEN [w EXCEPT !.closed = TRUE, !.cerr = TRUE] ELSE w
         IN WithLocation(r, k, Go, Fail)
    [] m.step = "commit" ->
         LET Go(kk, form) ==
               /\ UNCHANGED <<rd, m>>
               /\ w' = [w EXCEPT !.lock = kk, !.lform = form, !.lhost = HostOf(form, qhost), !.flushed = @ + m.len, !.chunk = 0]
               /\ Finish(O(TRUE, 0, 0, "sha256", KnownCont, w.size))
         IN WithLocation(r, k, Go, Fail0)
    [] m.step = "status" ->
         LET p1 == IF r.ra > 0 \/ r.rb > 0 THEN r.rb + 1 ELSE r.rb
             cs == ChunkSize(r, Hint(c.hint))
             Go(kk, form) ==
               IF r.rf # "num" \/ r.ra # 0 THEN Fail0
               ELSE /\ w' = [W0 EXCEPT !.open = TRUE, !.lock = kk, !.lform = form, !.lhost = HostOf(form, qhost), !.csize = cs,
                                       !.flushed = p1, !.size = p1, !.nilchunk = TRUE]
                    /\ Finish(O(TRUE, 0, 0, "", "", cs)) /\ UNCHANGED <<rd, m>>
         IN WithLocation(r, k, Go, Fail0)
    [] m.step = "page" ->
         LET bad == Finish(O(FALSE, m.got, m.got, "", "", 0)) /\ UNCHANGED m IN
         /\ UNCHANGED <<w, rd>>
         /\ IF End(r) # "eof" THEN bad
            ELSE IF Decodable(r) THEN Page(k, r, ItemsOf(r), qhost)
            ELSE IF r.body = "rand" THEN (bad \/ Page(k, r, 0, qhost))      \* arbitrary bytes: not decodable, or no entries
            ELSE bad
    [] OTHER -> FALSE

-----------------------------------------------------------------------------
(* Begin a call *)
ToReq(step, len) == /\ pc' = "req" /\ m' = [M0 EXCEPT !.step = step, !.len = len] /\ UNCHANGED <<out, w, rd>>
Now(o) == /\ Finish(o) /\ m' = M0

Begin(c) ==
  /\ pc = "idle"
  /\ call' = c
  /\ cq' = 0 /\ fl' = FL0
  /\ UNCHANGED <<ps, nreq>>
  /\ CASE c.name \in {"ResolveBlob", "ResolveManifest", "ResolveTag"} -> ToReq("resolve", 0)
       [] c.name \in {"GetBlob", "GetManifest", "GetTag"} -> ToReq("read", 0)
       [] c.name = "GetBlobRange" -> IF c.o0 = 0 /\ c.o1 < 0 THEN ToReq("read", 0) ELSE ToReq("range", 0)
       [] c.name \in {"DeleteBlob", "DeleteManifest", "DeleteTag"} -> ToReq("delete", 0)
       [] c.name = "MountBlob" -> ToReq("mount", 0)
       [] c.name = "PushManifest" -> IF c.mt THEN ToReq("pushman", 0) ELSE Now(OErr) /\ UNCHANGED <<w, rd>>
       [] c.name = "Referrers" -> ToReq("referrers", 0)
       [] c.name = "PushBlob" -> ToReq("post1", 0)
       [] c.name = "PushBlobChunked" -> ToReq("start", 0)
       [] c.name \in {"Repositories", "Tags"} ->
            /\ pc' = "req" /\ UNCHANGED <<out, w, rd>>
            /\ m' = [M0 EXCEPT !.step = "page", !.lastk = IF c.start THEN -1 ELSE -2]
       [] c.name = "Resume" ->
            IF c.idform = "empty" THEN Now(OErr) /\ UNCHANGED <<w, rd>>
            ELSE IF c.off = -1 THEN ToReq("status", 0)
            ELSE IF c.off < 0 \/ c.idform \in {"bad", "rel"} THEN Now(OErr) /\ UNCHANGED <<w, rd>>
            ELSE /\ w' = [W0 EXCEPT !.open = TRUE, !.lock = 0, !.lform = c.idform, !.lhost = HostOf(c.idform, "same"), !.csize = Hint(c.hint),
                                    !.flushed = c.off, !.size = c.off, !.nilchunk = TRUE]
                 /\ Now(O(TRUE, 0, 0, "", "", Hint(c.hint))) /\ UNCHANGED rd
       [] c.name = "Write" ->
            /\ w.open
            /\ IF w.chunk + c.wlen > w.csize THEN ToReq("patch", w.chunk + c.wlen)
               ELSE IF w.nilchunk /\ ~GuardAlloc /\ w.csize > MaxAlloc
               THEN Panic /\ m' = M0 /\ UNCHANGED <<w, rd>>                              \* make([]byte, 0, chunkSize)
               ELSE /\ w' = [w EXCEPT !.chunk = @ + c.wlen, !.size = @ + c.wlen, !.nilchunk = FALSE]
                    /\ Now(O(TRUE, c.wlen, c.wlen, "", "", 0)) /\ UNCHANGED rd
       [] c.name = "Close" ->
            /\ w.open
            /\ IF w.closed THEN Now(IF w.cerr THEN OErr ELSE OOk) /\ UNCHANGED <<w, rd>>
               ELSE IF w.chunk = 0 THEN /\ w' = [w EXCEPT !.closed = TRUE, !.cerr = FALSE] /\ Now(OOk) /\ UNCHANGED rd
               ELSE ToReq("patch", w.chunk)
       [] c.name = "Commit" ->
            /\ w.open
            /\ IF c.dg = "empty" THEN Now(OErr) /\ UNCHANGED <<w, rd>> ELSE ToReq("commit", w.chunk)
       [] c.name = "Size" -> /\ w.open /\ Now(O(TRUE, w.size, w.size, "", "", 0)) /\ UNCHANGED <<w, rd>>
       [] c.name = "ReadAll" ->
            /\ rd.open
            /\ m' = M0 /\ UNCHANGED w
            /\ rd' = [rd EXCEPT !.open = FALSE]
            /\ LET exceeds == rd.blen > rd.size /\ rd.blen >= 1 IN
               IF exceeds /\ rd.framed /\ ~rd.verify /\ rd.bend = "eof" /\ ~StrictRangeTooLong
               THEN \* The reader compares the count with the size only on a read that returns no error.  A body framed
                    \* by Content-Length hands over its last bytes together with io.EOF, and the unverified reader of
                    \* a range read returns that EOF as it is: more bytes than the whole blob may then end cleanly.
                    \* (Outside the property as read here: a slice cannot be checked against the whole blob's
                    \* descriptor; only "too short against the announced length" is required of range reads.)
                    \/ Finish(O(FALSE, Max(rd.size, 0) + 1, rd.blen, "", "", 0))
                    \/ Finish(O(TRUE, rd.blen, rd.blen, "", rd.bcont, rd.blen))
               ELSE IF exceeds THEN Finish(O(FALSE, Max(rd.size, 0) + 1, rd.blen, "", "", 0))   \* fails as soon as more than size has arrived
               ELSE IF rd.bend # "eof" THEN Finish(O(FALSE, rd.blen, rd.blen, "", "", 0))
               ELSE IF rd.verify /\ (rd.blen # rd.size \/ rd.bcont # rd.cont)
               THEN Finish(O(FALSE, rd.blen, rd.blen, "", "", 0))
               ELSE Finish(O(TRUE, rd.blen, rd.blen, "", rd.bcont, rd.blen))                  \* clean end of stream
       [] OTHER -> FALSE

-----------------------------------------------------------------------------
(* One request/response exchange *)
Exchange(q, r) ==
  /\ pc = "req"
  /\ ReqOK(q)
  /\ nreq' = nreq + 1 /\ cq' = cq + 1
  /\ UNCHANGED <<ps, call>>
  /\ LET k == nreq + 1 IN
     IF r.code = NetErr
     THEN \* the transport failed: every operation gives up at once
          /\ Finish(IF m.step = "page" THEN O(FALSE, m.got, m.got, "", "", 0) ELSE OErr)
          /\ m' = [m EXCEPT !.net = TRUE]
          /\ fl' = FL0 /\ rd' = rd
          /\ w' = IF call.name = "Close" THEN [w EXCEPT !.closed = TRUE, !.cerr = TRUE] ELSE w
     ELSE \/ \* net/http follows a redirect by itself (it bounds the number of hops; not modelled)
             /\ r.code \in RedirectCodes /\ r.loc \in (UsableLoc \cup {"rand"})
             /\ fl' = [on |-> TRUE, from |-> k, open |-> r.loc = "rand"]
             /\ pc' = "req" /\ UNCHANGED <<w, rd, out, m>>
          \/ \* the response reaches the client's status gate
             /\ fl' = FL0
             /\ IF r.code \in OkCodes(m.step)
                THEN HandleOK(k, r, q.host)
                ELSE \* an error is made of it (of at most ErrLimit+1 bytes of its body)
                     /\ Finish(IF m.step = "page" THEN O(FALSE, m.got, m.got, "", "", 0) ELSE OErr)
                     /\ m' = [m EXCEPT !.errpath = TRUE]
                     /\ rd' = rd
                     /\ w' = IF call.name = "Close" THEN [w EXCEPT !.closed = TRUE, !.cerr = TRUE] ELSE w

Return(o) ==
  /\ pc = "done"
  /\ o.ok = out.ok
  /\ out.nlo <= o.n /\ o.n <= out.nhi
  /\ out.ok => (o.alg = out.alg /\ o.cont = out.cont /\ o.size = out.size)
  /\ pc' = "idle"
  /\ UNCHANGED <<ps, call, m, w, rd, out, nreq, cq, fl>>

Init0(p) == /\ ps = p /\ pc = "idle" /\ call = C0 /\ m = M0 /\ w = W0 /\ rd = RD0 /\ out = OErr /\ nreq = 0 /\ cq = 0 /\ fl = FL0

-----------------------------------------------------------------------------
(* Properties *)
NoPanicState == pc # "panic"

\* the reader returned by a complete read never ends cleanly on content that is not what its
\* descriptor says (C01, third sentence)
CorruptNeverCleanEOF ==
  (pc = "done" /\ call.name = "ReadAll" /\ out.ok /\ rd.verify) =>
      (rd.blen = rd.size /\ rd.bcont = rd.cont /\ rd.bend = "eof")

\* ... and no read at all - a range read included, whose reader cannot verify the bytes - ends cleanly
\* when the stream stopped before the length the response announced (too short)
ShortNeverCleanEOF ==
  (pc = "done" /\ call.name = "ReadAll" /\ out.ok) =>
      (rd.bend = "eof" /\ ((rd.framed /\ rd.acl >= 0) => rd.blen >= rd.acl))

\* no request after a transport failure: with a script of n responses an operation makes at most n+1 requests
NoRequestAfterTransportError == m.net => pc # "req"
=============================================================================
