------------------------------ MODULE OciAuthGen ------------------------------
(* Scenarios chosen by TLC (direction A): random walks (-simulate) of the OciAuth model over
   the harness's own hosts, realms and resource scopes.  A walk is a configuration, GenCalls
   sequential calls with the ticks at which they start, and every answer the environment gave;
   it is printed as JSON when the last call has returned.  RandomElement keeps the many
   possible call parameters and challenge offers from crowding out the other steps.
   Half of the walks are "shaped" towards token expiry: one host, single-element required
   scopes answered by a challenge for exactly that scope, a first token that lives long and
   later tokens that live 1-2 s, and larger clock steps - so that a LATER token expires
   EARLIER than one cached before it and is then asked for again after its expiry. *)
EXTENDS OciAuthMC, Json

VARIABLES h, fin, mode
gvars == <<vars, h, fin, mode>>
Shaped == mode = "shaped"
S == 1
CfgAll == [Hosts -> {"none", "basic", "refresh", "both", "static", "cfgerr"}]
Bad == [scheme |-> "bad", realm |-> "-", scope |-> {}]
OffersGen == OffersAll \cup {{Bad}, {Bad, BasicChal, Other}} \cup {{a, b} : a, b \in Bearers}

GInit == /\ Init /\ h = <<>> /\ fin = FALSE
         /\ mode \in {"free", "shaped"}
         /\ Shaped => cfg["h1"] \in {"none", "basic", "refresh", "both"}
Rec(o) == h' = Append(h, o) /\ UNCHANGED <<fin, mode>>
OffList(offers) == offers
GNext ==
  /\ ~fin
  /\ \/ \E hh \in (IF Shaped THEN {"h1"} ELSE Hosts),
            req \in {IF Shaped THEN {RandomElement(RS)} ELSE RandomElement(ScopeSets)},
            w \in {IF Shaped THEN {} ELSE RandomElement(ScopeSets \cup {{}})}, b \in {RandomElement(Bodies)} :
          /\ Begin(S, hh, req, w, b)
          /\ Rec([op |-> "call", h |-> hh, req |-> req, want |-> w, body |-> b, at |-> clock])
     \/ ~Shaped /\ Tick /\ UNCHANGED <<h, fin, mode>>
     \/ /\ Shaped /\ calls[S].pc = "idle" /\ ncalls >= 2      \* (the first two calls fill the cache)
        /\ \E n \in {1, 2} : clock + n <= MaxClock /\ TickBy(n)
        /\ UNCHANGED <<h, fin, mode>>
     \/ Internal(S) /\ UNCHANGED <<h, fin, mode>>
     \/ /\ Shaped /\ calls[S].pc = "resp1wait"      \* unauthenticated: challenge for exactly the required scope
        /\ \E r \in {RandomElement(Realms)} :
             LET c == calls[S]
                 st == IF c.auth.k = "none" THEN 401 ELSE 200
                 of == IF st = 401 THEN {BearerChal(r, c.req)} ELSE {} IN
             Resp1(S, st, of) /\ Rec([op |-> "reg", status |-> st, offers |-> of])
     \/ Shaped /\ Resp2(S, 200) /\ Rec([op |-> "reg", status |-> 200, offers |-> {}])
     \/ /\ Shaped                                    \* the first token lives long, later ones 1-2 s
        /\ \E life \in {IF Len(issued) = 0 THEN RandomElement({0, 6}) ELSE RandomElement({2, 4})} :
             TokResp(S, "grant", life, FALSE) /\ Rec([op |-> "tok", kind |-> "grant", life |-> life, newrt |-> FALSE])
     \/ ~Shaped /\ \E k \in 1..7, offers \in {RandomElement(OfferSets)}, other \in {RandomElement({403, 404, -1})} :
          LET st == IF k <= 4 THEN 401 ELSE IF k <= 6 THEN 200 ELSE other
              of == IF st = 401 THEN offers ELSE {} IN
          /\ Resp1(S, st, of)
          /\ Rec([op |-> "reg", status |-> st, offers |-> of])
     \/ ~Shaped /\ \E st \in Statuses : Resp2(S, st) /\ Rec([op |-> "reg", status |-> st, offers |-> {}])
     \/ ~Shaped /\ \E k \in 1..8, life \in Lives, newrt \in BOOLEAN :
          LET kind == IF k <= 4 THEN "grant" ELSE IF k = 5 THEN "notoken" ELSE IF k = 6 THEN "e401" ELSE IF k = 7 THEN "e404" ELSE "other"
              lf == IF kind = "grant" THEN life ELSE 0 IN
          /\ TokResp(S, kind, lf, newrt)
          /\ Rec([op |-> "tok", kind |-> kind, life |-> lf, newrt |-> (newrt /\ kind \in {"grant", "notoken"})])
     \/ /\ ncalls = MaxCalls /\ calls[S].pc = "idle"
        /\ fin' = TRUE /\ UNCHANGED <<vars, h, mode>>
GSpec == GInit /\ [][GNext]_gvars
Emit == fin => PrintT(<<"MBT", ToJson([cfg |-> cfg, mode |-> mode, ops |-> h])>>)
==============================================================================
