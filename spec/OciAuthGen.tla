------------------------------ MODULE OciAuthGen ------------------------------
(* Scenarios chosen by TLC (direction A): random walks (-simulate) of the OciAuth model over
   the harness's own hosts, realms and resource scopes.  A walk is a configuration, GenCalls
   sequential calls with the ticks at which they start, and every answer the environment gave;
   it is printed as JSON when the last call has returned.  RandomElement keeps the many
   possible call parameters and challenge offers from crowding out the other steps. *)
EXTENDS OciAuthMC, Json

VARIABLES h, fin
gvars == <<vars, h, fin>>
S == 1
CfgAll == [Hosts -> {"none", "basic", "refresh", "both", "static", "cfgerr"}]
Bad == [scheme |-> "bad", realm |-> "-", scope |-> {}]
OffersGen == OffersAll \cup {{Bad}, {Bad, BasicChal, Other}} \cup {{a, b} : a, b \in Bearers}

GInit == Init /\ h = <<>> /\ fin = FALSE
Rec(o) == h' = Append(h, o) /\ UNCHANGED fin
OffList(offers) == offers
GNext ==
  /\ ~fin
  /\ \/ \E hh \in Hosts, req \in {RandomElement(ScopeSets)}, w \in {RandomElement(ScopeSets \cup {{}})}, b \in {RandomElement(Bodies)} :
          /\ Begin(S, hh, req, w, b)
          /\ Rec([op |-> "call", h |-> hh, req |-> req, want |-> w, body |-> b, at |-> clock])
     \/ Tick /\ UNCHANGED <<h, fin>>
     \/ Internal(S) /\ UNCHANGED <<h, fin>>
     \/ \E k \in 1..7, offers \in {RandomElement(OfferSets)}, other \in {RandomElement({403, 404, -1})} :
          LET st == IF k <= 4 THEN 401 ELSE IF k <= 6 THEN 200 ELSE other
              of == IF st = 401 THEN offers ELSE {} IN
          /\ Resp1(S, st, of)
          /\ Rec([op |-> "reg", status |-> st, offers |-> of])
     \/ \E st \in Statuses : Resp2(S, st) /\ Rec([op |-> "reg", status |-> st, offers |-> {}])
     \/ \E k \in 1..8, life \in Lives, newrt \in BOOLEAN :
          LET kind == IF k <= 4 THEN "grant" ELSE IF k = 5 THEN "notoken" ELSE IF k = 6 THEN "e401" ELSE IF k = 7 THEN "e404" ELSE "other"
              lf == IF kind = "grant" THEN life ELSE 0 IN
          /\ TokResp(S, kind, lf, newrt)
          /\ Rec([op |-> "tok", kind |-> kind, life |-> lf, newrt |-> (newrt /\ kind \in {"grant", "notoken"})])
     \/ /\ ncalls = MaxCalls /\ calls[S].pc = "idle"
        /\ fin' = TRUE /\ UNCHANGED <<vars, h>>
GSpec == GInit /\ [][GNext]_gvars
Emit == fin => PrintT(<<"MBT", ToJson([cfg |-> cfg, ops |-> h])>>)
==============================================================================
