----------------------------- MODULE LinTrace -----------------------------
(***************************************************************************)
(* Linearizability of recorded concurrent histories against the sequential *)
(* reference semantics (OciRegistry, and OciClientWriter for uploads made  *)
(* through an HTTP hop).  The trace holds invocation and response events in *)
(* real-time order (global sequence numbers taken at call and at return).  *)
(* Between an operation's invocation and its response TLC may place its    *)
(* linearization point (a silent step applying the sequential action); the *)
(* response must then match the result computed there.  The history is     *)
(* accepted iff some placement consumes every event (high-water mark).     *)
(***************************************************************************)
EXTENDS RegTrace

CONSTANTS K3_CommitTwoPhase,  \* known-finding relaxation: Buffer.Commit = check step + store step
          MaxG

VARIABLE pend     \* per goroutine: the call in flight
lvars == <<vars, tvars, cwvars, l, pend>>

Gs == 0..MaxG
NoCall == [st |-> "none"]
Ev == Trace[l]
More == l <= Len(Trace)

LInit == TInit /\ pend = [g \in Gs |-> NoCall]

LReset ==
  /\ More /\ Ev.e = "reset" /\ \A g \in Gs : pend[g] = NoCall
  /\ ResetStep(Ev) /\ pend' = pend /\ l' = l + 1
LInv ==
  /\ More /\ Ev.e = "inv" /\ pend[Ev.g] = NoCall
  /\ pend' = [pend EXCEPT ![Ev.g] = [st |-> "called", o |-> Ev]]
  /\ l' = l + 1 /\ UNCHANGED <<vars, tvars, cwvars>>
\* the linearization point of g's call
LLin(g) ==
  /\ pend[g].st = "called"
  /\ BaseApply(pend[g].o)
  /\ pend' = [pend EXCEPT ![g] = [st |-> "done", o |-> pend[g].o, res |-> res']]
  /\ l' = l /\ UNCHANGED tvars
\* K3: ocimem's Buffer.Commit checks the digest under the buffer lock and stores the blob
\* in a second critical section (the commit callback runs outside the buffer lock by design)
LCommitCheck(g) ==
  /\ K3_CommitTwoPhase /\ hops = 0
  /\ pend[g].st = "called" /\ pend[g].o.op = "Commit"
  /\ LET o == pend[g].o IN
       /\ Has(ups[o.r], o.u) /\ ~ups[o.r][o.u].dead
       /\ o.dd \in Cids /\ ups[o.r][o.u].buf = Cat[o.dd].bytes
  /\ pend' = [pend EXCEPT ![g] = [st |-> "checked", o |-> pend[g].o]]
  /\ l' = l /\ UNCHANGED <<vars, tvars, cwvars>>
LCommitStore(g) ==
  /\ pend[g].st = "checked"
  /\ LET o == pend[g].o IN
       /\ blobs' = [blobs EXCEPT ![o.r] = @ \cup {o.dd}]
       /\ ups' = [ups EXCEPT ![o.r][o.u].done = TRUE]
       /\ res' = OkDesc(o.dd, None)
       /\ pend' = [pend EXCEPT ![g] = [st |-> "done", o |-> o, res |-> res']]
  /\ l' = l /\ UNCHANGED <<imm, mans, tags, touched, tvars, cwvars>>
\* Through an HTTP hop PushBlob is two requests: the POST opens a session (and thereby creates the
\* repository) before the PUT stores the blob.  An observer may therefore see the still-empty repository
\* before the push takes effect: the property's empty-repository looseness, ahead of the linearization point.
LTouch(g) ==
  /\ hops > 0 /\ pend[g].st = "called" /\ pend[g].o.op = "PushBlob"
  /\ pend[g].o.r \notin touched
  /\ touched' = touched \cup {pend[g].o.r}
  /\ l' = l /\ UNCHANGED <<imm, blobs, mans, tags, ups, res, tvars, cwvars, pend>>
LRet ==
  /\ More /\ Ev.e = "ret"
  /\ \/ /\ Ev.op = "skip" /\ pend[Ev.g].st = "called"     \* the driver had no handle to call
     \/ /\ Ev.op # "skip" /\ pend[Ev.g].st = "done" /\ Match(pend[Ev.g].res, Ev)
  /\ pend' = [pend EXCEPT ![Ev.g] = NoCall]
  /\ l' = l + 1 /\ UNCHANGED <<vars, tvars, cwvars>>

\* (blob media types, RegTrace's bmt, are not followed here: every blob of these scenarios is an octet-stream)
LNext == (LReset \/ LInv \/ LRet \/ \E g \in Gs : LLin(g) \/ LCommitCheck(g) \/ LCommitStore(g) \/ LTouch(g)) /\ UNCHANGED bmt
LSpec == LInit /\ [][LNext]_<<lvars, bmt>>

\* high-water mark of consumed lines, kept in a TLC register
ASSUME TLCSet(1, 0)
HWC == TLCSet(1, IF TLCGet(1) < l THEN l ELSE TLCGet(1))
LAccepted == IF TLCGet(1) = Len(Trace) + 1 THEN TRUE ELSE PrintT(<<"HW", TLCGet(1)>>) /\ FALSE
LView == <<state, tvars, cw, l, pend>>
=============================================================================
