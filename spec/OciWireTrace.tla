----------------------------- MODULE OciWireTrace -----------------------------
(***************************************************************************)
(* Trace validation for C06.  The trace (ndjson, env TRACE_FILE) is a       *)
(* header line followed by scenarios: a `reset` line and one `req` event,  *)
(* i.e. one ServeHTTP call on ociserver.New(scripted backend, options):    *)
(*   rq   the request as sent: method, URL path (character codes), query   *)
(*        values as net/url decodes the raw query, Range / Content-Range / *)
(*        Content-Type / Content-Length, body length, sha256 and JSON class*)
(*   sc   the backend script, o the server options                         *)
(*   out  what came back: status, headers, body length, the body read as a *)
(*        JSON error list / listing, the Link header taken apart, every    *)
(*        backend call with its arguments, every reader / writer handed    *)
(*        out with its close / write / commit counts                       *)
(*   want (TLC-exported cases only) the response OciWireMC predicted       *)
(* TLC splits the path, classifies every segment with the recognisers,     *)
(* evaluates OciWire!Respond and requires `out` to be a response the        *)
(* specification allows (OciWire!Matches: the universal clauses for every  *)
(* request, status sets for rejected ones, everything for well-formed      *)
(* ones).  A `panic` event has no action.                                  *)
(***************************************************************************)
EXTENDS OciWire, Json, IOUtils, TraceHdr

VARIABLE l

Trace == ndJsonDeserialize(IOEnv.TRACE_FILE)

ReqOk(e) ==
  LET r == Respond(e.rq, e.sc, e.o) IN
  /\ Matches(e.rq, e.out, r)
  /\ "want" \in DOMAIN e => (e.want.kind = r.kind /\ e.want.mode = r.mode /\ e.want.status = r.status)

TInit == l = 2
TNext ==
  /\ l <= Len(Trace)
  /\ l' = l + 1
  /\ LET e == Trace[l] IN
     CASE e.op = "reset" -> TRUE
       [] e.op = "req" -> ReqOk(e)
       [] OTHER -> FALSE          \* "panic" (or anything unknown): no action
TSpec == TInit /\ [][TNext]_l

\* The whole trace was consumed: one state per line after the header.
Accepted == TLCGet("stats").diameter = Len(Trace)
=============================================================================
