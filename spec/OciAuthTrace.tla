----------------------------- MODULE OciAuthTrace -----------------------------
(***************************************************************************)
(* Trace validation for C10/C11: recorded conversations of the real         *)
(* ociauth.NewStdTransport (harness command `auth`) against OciAuth.        *)
(*                                                                          *)
(* After the header line the trace holds, per scenario:                     *)
(*   reset      credential kind per host (a new transport)                  *)
(*   tick       the scenario clock reached tick t (half seconds)            *)
(*   begin/end  RoundTrip entered / returned (slot c, host, required and    *)
(*              desired scope, body kind / status, caller request intact,   *)
(*              bodies left open)                                           *)
(*   cfglookup  the transport asked the configuration about a host          *)
(*   regreq / regresp, tokreq / tokresp                                     *)
(*              one event per message HALF at the underlying RoundTripper:  *)
(*              destination, Authorization class and credential identity,   *)
(*              token-request scope as a set of resource scopes / what the  *)
(*              scripted registry or token server answered                  *)
(* Decisions the transport takes between two messages are silent steps of   *)
(* OciAuth; TLC searches for a placement of them that reproduces the log.   *)
(* With silent steps the state-graph diameter says nothing, so acceptance   *)
(* is a high-water mark of the line counter kept with TLCSet/TLCGet         *)
(* (-workers 1).                                                            *)
(*                                                                          *)
(* Check10 / Check11 select whose observables are compared: C10 owns bearer *)
(* tokens and token-request scopes, C11 owns passwords, refresh tokens,     *)
(* destinations, attempt counts, the 403 rewrite, the caller's request and  *)
(* request bodies.  Structure (which message comes when) is always checked. *)
(***************************************************************************)
EXTENDS OciAuth, Json, IOUtils, TraceHdr

CONSTANTS Check10, Check11
VARIABLE l

Trace == ndJsonDeserialize(IOEnv.TRACE_FILE)
ToSet(q) == {q[i] : i \in 1..Len(q)}
TrHosts == ToSet(Hdr.hosts)
TrRealms == ToSet(Hdr.realms)
TrRS == ToSet(Hdr.rs)
TrSlots == 1..Hdr.slots
tvars == <<vars, l>>

Fresh == /\ clock = 0
         /\ chal = [h \in Hosts |-> NoChal]
         /\ toks = [h \in Hosts |-> {}]
         /\ refresh = [h \in Hosts |-> 0]
         /\ inited = [h \in Hosts |-> "no"]
         /\ lock = [h \in Hosts |-> 0]
         /\ calls = [s \in Slots |-> Idle]
         /\ ncalls = 0
         /\ issued = <<>>
         /\ rtOwner = <<>>
         /\ lastSent = NoMsg
TInit == Fresh /\ cfg = [h \in Hosts |-> "none"] /\ l = 2

TReset(e) == /\ cfg' = [h \in Hosts |-> e.cfg[h]]
             /\ clock' = 0 /\ chal' = [h \in Hosts |-> NoChal] /\ toks' = [h \in Hosts |-> {}]
             /\ refresh' = [h \in Hosts |-> 0] /\ inited' = [h \in Hosts |-> "no"] /\ lock' = [h \in Hosts |-> 0]
             /\ calls' = [s \in Slots |-> Idle] /\ ncalls' = 0 /\ issued' = <<>> /\ rtOwner' = <<>> /\ lastSent' = NoMsg

OfferOf(o) == [scheme |-> o.scheme, realm |-> o.realm, scope |-> ToSet(o.scope)]
OffersOf(q) == {OfferOf(q[i]) : i \in 1..Len(q)}

IsTokenCred(c) == c.k \in {"bearer", "static"}
IsSecretCred(c) == c.k \notin {"none", "bearer", "static"}   \* passwords, refresh tokens, anything unrecognised
\* the credential the model says the message carries against the one the harness saw
CredOK(model, logged, h) ==
  /\ (Check10 /\ (IsTokenCred(model) \/ IsTokenCred(logged))) => model = logged
  /\ (Check11 /\ (IsSecretCred(model) \/ IsSecretCred(logged))) => model = logged
  /\ Check11 => /\ logged.k = "bearer" => (logged.id \in 1..Len(issued) /\ issued[logged.id].host = h)
                /\ logged.k = "static" => logged.h = h

TBegin(e) == Begin(e.c, e.h, ToSet(e.req), ToSet(e.want), e.body)

TCfgLookup(e) == \E s \in Slots :
  /\ calls[s].pc = "init" /\ calls[s].h = e.h
  /\ InitLookup(s)
  /\ refresh'[e.h] = e.rt

TRegReq(e) ==
  /\ Send(e.c)
  /\ Check11 => e.to = calls[e.c].h
  /\ CredOK(calls[e.c].auth, e.cred, calls[e.c].h)

TRegResp(e) ==
  IF calls[e.c].pc = "resp1wait" THEN Resp1(e.c, e.status, OffersOf(e.offers)) ELSE Resp2(e.c, e.status)

TTokReq(e) ==
  /\ TokSend(e.c)
  /\ Check11 => /\ lastSent'.k = (IF e.method = "POST" THEN "tokPOST" ELSE "tokGET")
                /\ lastSent'.to = e.to       \* (the harness logs the realm's name only when host, path and account
                                             \*  are exactly those of a realm a challenge meant, else the raw URL)
                /\ e.svcok                   \* the service value is the (unescaped) one of that challenge
  /\ CredOK(lastSent'.cred, e.cred, calls[e.c].h)
  /\ Check10 => /\ lastSent'.scope = ToSet(e.scope)
                /\ lastSent'.text = "chal" => e.kept

TTokResp(e) ==
  /\ TokResp(e.c, e.kind, e.life, e.rt # 0)
  /\ calls'[e.c].tresp.rt = e.rt
  /\ calls'[e.c].tresp.id = e.id

TEnd(e) ==
  /\ calls[e.c].pc = "done"
  /\ LET c == calls[e.c] IN
     /\ IF Check11 \/ ~(c.raw2 = 401 /\ c.acquired) THEN e.status = c.status ELSE e.status \in {401, 403}
     \* e.same: the caller's request after RoundTrip against a deep snapshot taken before it, field by
     \* field (method, URL, Host, Header nil-ness and contents, Trailer, Body identity, GetBody, ContentLength,
     \* Close, Form/PostForm/MultipartForm/TLS/Response nil-ness, TransferEncoding, context, a request sharing
     \* the Header map)
     /\ Check11 => ((\A k \in DOMAIN e.same : e.same[k]) /\ e.unclosed = c.open)
  /\ Return(e.c)

Consume ==
  /\ l <= Len(Trace) /\ l' = l + 1
  /\ LET e == Trace[l] IN
     CASE e.op = "reset" -> TReset(e)
       [] e.op = "tick" -> TickBy(e.t - clock)
       [] e.op = "begin" -> TBegin(e)
       [] e.op = "cfglookup" -> TCfgLookup(e)
       [] e.op = "regreq" -> TRegReq(e)
       [] e.op = "regresp" -> TRegResp(e)
       [] e.op = "tokreq" -> TTokReq(e)
       [] e.op = "tokresp" -> TTokResp(e)
       [] e.op = "end" -> TEnd(e)
       [] OTHER -> FALSE        \* e.g. a panic in the code under test

Silent == /\ l <= Len(Trace) /\ l' = l
          /\ \E s \in Slots :
               \/ InitSkip(s) \/ Decide(s) \/ AcquireNoRealm(s) \/ Store(s) \/ TokFallback(s) \/ RetryNarrow(s)
               \/ TokFail(s) \/ PassThrough(s) \/ OnChallenge(s) \/ Rewrite403(s)

TNext == Consume \/ Silent
TSpec == TInit /\ [][TNext]_tvars

HWC == TLCSet(1, IF TLCGet(1) < l THEN l ELSE TLCGet(1))
ASSUME TLCSet(1, 0)
Accepted == /\ PrintT(<<"highwater", TLCGet(1), Len(Trace) + 1>>)
            /\ TLCGet(1) = Len(Trace) + 1
==============================================================================
