------------------------------ MODULE OciFuncs ------------------------------
(***************************************************************************)
(* The function-table registry ociregistry.Funcs (func.go, iter.go).       *)
(*                                                                         *)
(* Funcs has one function-valued field per Interface method (the field of  *)
(* method m is spelled m_ in Go; here a field is identified with the name  *)
(* of its method) and one more field, the error constructor NewError.      *)
(* A *case* is a call of one method m on one table value:                  *)
(*    F        the set of method fields that are set (non-nil),            *)
(*    custom   whether the error constructor is set,                       *)
(*    nilRecv  whether the table itself is the nil pointer (then it has no *)
(*             fields at all: F and custom are immaterial).                *)
(* Call(m, F, custom, nilRecv) is the specified outcome; Effects(m, o)     *)
(* spells out what that outcome means for an observer who supplied         *)
(* recording stubs for the fields and for the constructor.                 *)
(***************************************************************************)
EXTENDS Naturals, Sequences, FiniteSets

\* The 18 methods of ociregistry.Interface (interface.go: Reader, Writer, Deleter, Lister).
InterfaceMethods ==
  {"GetBlob", "GetBlobRange", "GetManifest", "GetTag",
   "ResolveBlob", "ResolveManifest", "ResolveTag",
   "PushBlob", "PushBlobChunked", "PushBlobChunkedResume", "MountBlob", "PushManifest",
   "DeleteBlob", "DeleteManifest", "DeleteTag",
   "Repositories", "Tags", "Referrers"}
\* The methods that return an iterator (Seq[T]) instead of (value, error).
InterfaceIterMethods == {"Repositories", "Tags", "Referrers"}

CONSTANTS Methods,      \* the methods / fields considered (InterfaceMethods everywhere but in toy configs)
          IterMethods   \* the iterator-returning ones among them

ASSUME IterMethods \subseteq Methods

Kinds == {"delegate", "custom", "unsupported"}

(***************************************************************************)
(* The outcome of calling method m.                                        *)
(*   delegate     m's own function is called, once, with the caller's      *)
(*                arguments, and its results are the call's results;       *)
(*   custom       no function of the table is called; the error            *)
(*                constructor is called once and the call fails with       *)
(*                exactly the error it returned;                           *)
(*   unsupported  no function and no constructor is called; the call fails *)
(*                with an error e for which errors.Is(e, ErrUnsupported).  *)
(***************************************************************************)
Call(m, F, custom, nilRecv) ==
  IF ~nilRecv /\ m \in F THEN [kind |-> "delegate", to |-> m]
  ELSE IF ~nilRecv /\ custom THEN [kind |-> "custom", to |-> "-"]
  ELSE [kind |-> "unsupported", to |-> "-"]

(***************************************************************************)
(* What an observer sees of outcome o of method m.                         *)
(*   stubs    the fields whose functions ran, in order;                    *)
(*   ctors    how many times the error constructor ran;                    *)
(*   values   "stub": the non-error results are those m's function gave,   *)
(*            "zero": they are the zero values of their types;             *)
(*   error    "stub": whatever m's function returned (nil or not),         *)
(*            "ctor": identical to the constructor's result, nil included  *)
(*            (or the constructor's panic, propagated),                    *)
(*            "unsupported": errors.Is(err, ErrUnsupported);               *)
(*   yields   for an iterator-returning method, how many (value, error)    *)
(*            pairs the iterator delivers before it stops, even if the     *)
(*            consumer asks for more: 1 (the zero value and the error),    *)
(*            or "stub" (the delegate's own iterator, unaltered);          *)
(*            0 for the other methods (there is no iterator).              *)
(***************************************************************************)
Effects(m, o) ==
  [stubs  |-> IF o.kind = "delegate" THEN <<o.to>> ELSE <<>>,
   ctors  |-> IF o.kind = "custom" THEN 1 ELSE 0,
   values |-> IF o.kind = "delegate" THEN "stub" ELSE "zero",
   error  |-> CASE o.kind = "delegate" -> "stub"
                [] o.kind = "custom" -> "ctor"
                [] OTHER -> "unsupported",
   iter   |-> m \in IterMethods,
   yields |-> IF m \notin IterMethods THEN "none"
              ELSE IF o.kind = "delegate" THEN "stub" ELSE "one"]

(***************************************************************************)
(* The constructor is the caller's function; the table adds nothing to and *)
(* takes nothing from what it does.  Whatever it RETURNS is the error of   *)
(* the unset method - also when that is nil (a table whose unimplemented   *)
(* operations are silent no-ops): the method then returns zero values and  *)
(* a nil error, and an iterator-returning method an iterator of exactly    *)
(* one pair (zero value, nil) (ErrorSeq(nil), iter.go).  If it PANICS, the *)
(* panic propagates to the caller with the constructor's panic value.      *)
(* Kinds of constructor the cases use: a fresh error per call ("tag"), nil *)
(* ("nil"), one and the same error value every time ("same"), an error     *)
(* determined by method name and repository ("byarg"), a panic ("panic").  *)
(***************************************************************************)
CtorKinds == {"tag", "nil", "same", "byarg", "panic"}
CtorPanics(ck) == ck = "panic"

(***************************************************************************)
(* A delegated iterator is the delegate's, verbatim: the consumer sees the *)
(* delegate's pairs in order, errors in the middle included, up to and     *)
(* including the pair at which it declines.  Consumers used by the cases:  *)
(* "all" keeps accepting (also after an error), "first" declines at the    *)
(* first pair, "aterr" at the first pair with an error, "aftererr" one     *)
(* pair later.  isErr[i] tells whether pair i of the delegate carries an   *)
(* error; Seen is the number of pairs the consumer is handed.              *)
(***************************************************************************)
Consumers == {"all", "first", "aterr", "aftererr"}
Min(a, b) == IF a < b THEN a ELSE b
FirstErr(isErr) == IF \E i \in 1..Len(isErr) : isErr[i]
                   THEN CHOOSE i \in 1..Len(isErr) : isErr[i] /\ \A j \in 1..(i - 1) : ~isErr[j]
                   ELSE Len(isErr) + 1
Seen(consumer, isErr) ==
  CASE consumer = "all" -> Len(isErr)
    [] consumer = "first" -> Min(1, Len(isErr))
    [] consumer = "aterr" -> Min(FirstErr(isErr), Len(isErr))
    [] consumer = "aftererr" -> Min(FirstErr(isErr) + 1, Len(isErr))

\* The method name the table reports: the second argument of the constructor, and the
\* prefix of the default error's message ("<name>: the operation is unsupported").
\* This is not part of property C20 as stated (which speaks about the error's identity
\* and class only); trace validation checks it only when asked to (StrictErrName).
ErrName(m) == m

-----------------------------------------------------------------------------
(***************************************************************************)
(* Arguments.  Call has no argument parameter: the outcome of a call does  *)
(* not depend on the argument values either (unset => the error, whatever  *)
(* the arguments; set => delegated with exactly those arguments).  An      *)
(* implementation that, for particular argument values, consults another   *)
(* field (say GetBlobRange(0, -1) falling back to GetBlob_) violates       *)
(* OwnFieldOnly only for those values, so the cases are also run over a    *)
(* small product of special values per parameter.  A value is abstract     *)
(* here ("empty", "nil", "zero", "dist" = a distinctive non-special value, *)
(* or an integer literal); the harness concretises it by the Go type of    *)
(* the parameter.  Params(m) lists the parameters after the context.       *)
(***************************************************************************)
StrVals    == {"empty", "dist"}          \* repository, tag, id, start point, media / artifact type, digest
ChunkVals  == {"0", "-1", "dist"}        \* chunkSize
OffsetVals == {"-1", "0", "dist"}        \* resume offset
BlobVals   == {"nil", "empty", "dist"}   \* io.Reader / []byte content
DescVals   == {"zero", "dist"}
RangePairs == {<<"0", "-1">>, <<"0", "0">>, <<"-1", "-1">>, <<"5", "3">>, <<"dist", "dist">>}

P1(A) == {<<a>> : a \in A}
P2(A, B) == {<<a, b>> : a \in A, b \in B}
P3(A, B, C) == {<<a, b, c>> : a \in A, b \in B, c \in C}
P4(A, B, C, D) == {<<a, b, c, d>> : a \in A, b \in B, c \in C, d \in D}

ArgProfiles(m) ==
  CASE m \in {"GetBlob", "GetManifest", "ResolveBlob", "ResolveManifest", "DeleteBlob", "DeleteManifest"} -> P2(StrVals, StrVals)  \* repo, digest
    [] m \in {"GetTag", "ResolveTag", "DeleteTag", "Tags"} -> P2(StrVals, StrVals)                 \* repo, tag / startAfter
    [] m = "GetBlobRange" -> {<<r, d, p[1], p[2]>> : r \in StrVals, d \in StrVals, p \in RangePairs} \* repo, digest, offset0, offset1
    [] m = "PushBlob" -> P3(StrVals, DescVals, BlobVals)                                          \* repo, desc, r
    [] m = "PushBlobChunked" -> P2(StrVals, ChunkVals)                                            \* repo, chunkSize
    [] m = "PushBlobChunkedResume" -> P4(StrVals, StrVals, OffsetVals, ChunkVals)                 \* repo, id, offset, chunkSize
    [] m = "MountBlob" -> P3(StrVals, StrVals, StrVals)                                           \* fromRepo, toRepo, digest
    [] m = "PushManifest" -> P4(StrVals, StrVals, BlobVals, StrVals)                              \* repo, tag, contents, mediaType
    [] m = "Repositories" -> P1(StrVals)                                                          \* startAfter
    [] m = "Referrers" -> P3(StrVals, StrVals, StrVals)                                           \* repo, digest, artifactType
    [] OTHER -> {<<>>}

\* The context (first parameter of every method) is one more argument: a live one, one that is
\* already cancelled, one whose deadline has passed, or the nil context.  The table does not look
\* at it: an unset method fails the same way under each, the constructor is handed the context
\* that was passed, and a set field is delegated with exactly that context.
CtxVals == {"live", "cancelled", "expired", "nil"}

\* The argument-independent outcome, spelled as a law over argument profiles and contexts
\* (trivially true of Call; it is the real code that is judged against it, event by event).
CallWithArgs(m, F, custom, nilRecv, av, cx) == Call(m, F, custom, nilRecv)
ArgsIrrelevantAt(m, F, custom, nilRecv) ==
  \A av \in ArgProfiles(m) \cup {<<>>}, cx \in CtxVals :
     CallWithArgs(m, F, custom, nilRecv, av, cx) = Call(m, F \cap {m}, custom, nilRecv)

-----------------------------------------------------------------------------
(* Properties (quantified over a family FS of field sets by the MC modules) *)

\* The outcome of calling m depends on no field other than m's own.
OwnFieldOnly(FS) ==
  \A m \in Methods : \A F1 \in FS, F2 \in FS : \A custom \in BOOLEAN, nilRecv \in BOOLEAN :
     ((m \in F1) <=> (m \in F2)) => Call(m, F1, custom, nilRecv) = Call(m, F2, custom, nilRecv)

\* Equivalent single-case form: only the membership of m matters.
OwnFieldOnlyAt(m, F, custom, nilRecv) ==
  Call(m, F, custom, nilRecv) = Call(m, F \cap {m}, custom, nilRecv)

\* Totality: every case has exactly one of the three outcomes (there is no "panic" outcome),
\* it delegates iff m's field is set on a non-nil table, and only to m's own field.
TotalAt(m, F, custom, nilRecv) ==
  LET o == Call(m, F, custom, nilRecv) IN
  /\ o.kind \in Kinds
  /\ (o.kind = "delegate") <=> (~nilRecv /\ m \in F)
  /\ o.kind = "delegate" => o.to = m
  /\ (o.kind = "custom") <=> (~nilRecv /\ m \notin F /\ custom)
  /\ Effects(m, o).stubs \in {<<>>, <<m>>}

\* "If Funcs is nil itself, all methods will behave as if the corresponding field was nil."
NilIsEmptyAt(m, F, custom, nilRecv) ==
  nilRecv => Call(m, F, custom, nilRecv) = Call(m, {}, FALSE, FALSE)

\* An unset iterator-returning method yields exactly one pair (zero value, error) and stops;
\* the other methods have no iterator.
IterOnceAt(m, F, custom, nilRecv) ==
  LET o == Call(m, F, custom, nilRecv)
      x == Effects(m, o) IN
  /\ (m \in IterMethods /\ o.kind # "delegate") => (x.yields = "one" /\ x.values = "zero")
  /\ (m \notin IterMethods) => x.yields = "none"
=============================================================================
