SPECIFICATION MCSpec
CONSTANTS
  DefaultN = 1000
  Fuel = 10
  Tier = "thorough"
  SampleMod = 40
INVARIANTS PagingLossless PrefixDelivered OnlyListed NoDuplicates Ascending StrictlyAfterStart ErrorOnlyWithCause DeclinedAtK BoundedRequests Reiterable ClosedFormAgrees Emit
PROPERTIES StopsWhenDeclined Terminates
CHECK_DEADLOCK FALSE
