--------------------------- MODULE OciMemConcMC ---------------------------
EXTENDS OciMemConc, Json
\* programs: w re-tags and deletes the old manifest; r reads the tag; u commits the upload;
\* v writes to the same upload (and, in ProgRB, reads the committed blob back)
ProgBase == [w |-> <<[op |-> "PushTag", a |-> "m2"], [op |-> "DelMan", a |-> "m1"]>>,
             r |-> <<[op |-> "GetTag", a |-> "-"]>>,
             u |-> <<[op |-> "Commit", a |-> <<1>>]>>,
             v |-> <<[op |-> "Write", a |-> <<2>>]>>]
ProgRB == [ProgBase EXCEPT !.v = <<[op |-> "Write", a |-> <<2>>], [op |-> "GetBlob", a |-> <<1>>]>>,
                           !.r = <<[op |-> "GetTag", a |-> "-"], [op |-> "GetBlob", a |-> <<1>>]>>]
\* two committers on one upload with a write in between, and read-backs of both blobs
ProgCC == [a |-> <<[op |-> "Commit", a |-> <<1>>]>>,
           b |-> <<[op |-> "Write", a |-> <<2>>]>>,
           c |-> <<[op |-> "Commit", a |-> <<1, 2>>]>>,
           r |-> <<[op |-> "GetBlob", a |-> <<1>>], [op |-> "GetBlob", a |-> <<1, 2>>]>>]
\* every complete schedule, printed for replay on the real ocimem (direction A)
Emit == Done => PrintT(<<"MBT", ToJson([sched |-> sched])>>)
===========================================================================
