--------------------------- MODULE OciMemConcMC ---------------------------
EXTENDS OciMemConc, Json
\* programs: w re-tags and deletes the old manifest; r reads the tag; u commits the upload;
\* v writes to the same upload (and, in ProgRB, reads the committed blob back)
ProgBase == [w |-> <<[op |-> "PushTag", a |-> "m2"], [op |-> "DelMan", a |-> "m1"]>>,
             r |-> <<[op |-> "GetTag", a |-> "-"]>>,
             u |-> <<[op |-> "Commit", a |-> <<1>>]>>,
             v |-> <<[op |-> "Write", a |-> <<2>>]>>]
ProgRB == [ProgBase EXCEPT !.v = <<[op |-> "Write", a |-> <<2>>], [op |-> "GetBlob", a |-> <<1>>]>>,
                           !.r = <<[op |-> "GetTag", a |-> "-"], [op |-> "GetBlob", a |-> <<1>>]>>]
\* every complete schedule, printed for replay on the real ocimem (direction A)
Emit == Done => PrintT(<<"MBT", ToJson([sched |-> sched])>>)
===========================================================================
