SPECIFICATION CSpec
CONSTANTS
  Repos = {"r1"}
  Tags = {"t1", "t2"}
  Cids = {"b0", "b1", "b2", "img", "idx", "idy", "sub", "bad"}
  BlobIds = {"b1", "b2"}
  ManIds = {"img", "idx", "sub", "bad"}
  Cat <- MCCat
  UploadIds = {}
  ImmChoices = {FALSE}
  BlockSize = 8
  Pos <- MCPos
PROPERTIES NothingDeleted OkMeansTagged
VIEW CView
CHECK_DEADLOCK FALSE
