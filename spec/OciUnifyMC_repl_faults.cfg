SPECIFICATION SpecRepl
CONSTANTS
  Repos = {"r1"}
  Tags = {"t1"}
  Cids = {"b1", "b2", "img", "sub"}
  BlobIds = {"b1", "b2"}
  ManIds = {"img"}
  Cat <- MCCat
  UploadIds = {"u1"}
  ImmChoices = {FALSE}
  BlockSize = 8
  Pos <- MCPos
  Policies = {"seq", "conc"}
  ListFaults <- NoFaults
  MTs = {"image"}
  WriteFaults = TRUE
  Depth = 5
INVARIANTS TypeOK
PROPERTIES UnionView TagConflictNeverSilent WriteBoth ReadsChangeNothing PoliciesAgree EqualStaysEqual
ACTION_CONSTRAINT SameImplC
CONSTRAINT BufBound
VIEW MCView
CHECK_DEADLOCK FALSE
