---------------------------- MODULE OciFilterMC ----------------------------
(***************************************************************************)
(* Exhaustive configurations of OciFilter.                                  *)
(*                                                                         *)
(* One TLC run sweeps, as initial states, every subset of the backend's     *)
(* repositories holding content (blob b1, image manifest img tagged t1),    *)
(* and, per step, every call of FOps together with every policy table over  *)
(* the table entries of the repositories involved (checker), every allow    *)
(* set (select), every caller string and context scope (sub).  `last`       *)
(* remembers the call so that the properties of OciFilter, which are        *)
(* predicates on one step, can be checked as action properties.             *)
(***************************************************************************)
EXTENDS OciFilter, OciRegistryMC

CONSTANTS MCKinds,      \* subset of {"checker", "select", "sub"}
          ErrIds,       \* policy error identities in play
          MaxSteps,     \* calls per behaviour
          HostileSteps, \* hostile caller names are used in the first HostileSteps calls
          AllScopes     \* FALSE: calls with a hostile name are explored under the richest context scope only

VARIABLES kind, last, step
mcvars == <<fvars, kind, last, step>>

\* ----------------------------------------------------------------- names --
Seg == ("a" :> <<97>> @@ "." :> <<46>> @@ ".." :> <<46, 46>> @@ "" :> <<>> @@ "A" :> <<65>>)
N1 == {[s |-> x, c |-> Seg[x]] : x \in DOMAIN Seg}
Join(a, b) == [s |-> a.s \o "/" \o b.s, c |-> a.c \o <<47>> \o b.c]
N2 == {Join(a, b) : a \in N1, b \in N1}
N3 == {Join(a, b) : a \in N2, b \in N1}
\* names aimed at the prefix's siblings
Foo == [s |-> "foo", c |-> <<102, 111, 111>>]
Fooey == [s |-> "fooey", c |-> <<102, 111, 111, 101, 121>>]
Up == [s |-> "..", c |-> <<46, 46>>]
Aa == [s |-> "a", c |-> <<97>>]
Bb == [s |-> "b", c |-> <<98>>]
Aimed == {Join(Up, Fooey), Join(Up, Foo), Join(Join(Aa, Up), Join(Up, Fooey)), Join(Up, Join(Foo, Aa)), Foo, Fooey, Bb,
          Join(Foo, Aa), Join(Foo, Bb)}
Fixed == ("r1" :> <<114, 49>> @@ "r2" :> <<114, 50>> @@ "r3" :> <<114, 51>> @@ "r4" :> <<114, 52>> @@ "*" :> <<42>>)
AllNames == N1 \cup N2 \cup N3 \cup Aimed
MCChars0 == [n \in {x.s : x \in AllNames} \cup DOMAIN Fixed |->
              IF n \in DOMAIN Fixed THEN Fixed[n] ELSE (CHOOSE x \in AllNames : x.s = n).c]
FPos0 == [r |-> [x \in Repos |-> 2 * Cardinality({y \in Repos : y = x \/ Less(Chars[y], Chars[x])})],
         t |-> [x \in Tags |-> IF x = "t1" THEN 2 ELSE 4],
         c |-> MCPos.c]
\* (TLC re-evaluates a definition substituted for a constant with <- on every reference, but
\* caches a constant definition that is referenced by name: hence the indirections)
MCChars == MCChars0
FPos == FPos0
FCat == MCCat
\* caller strings: everything hostile, and the valid names the backend universe has room for
CallerNames == {n \in {x.s : x \in AllNames} : ~ValidName(n) \/ SubName(n) \in Repos}
HostileNames == {n \in CallerNames : ~ValidName(n)}

\* ------------------------------------------------------------------- ops --
ReadsOn(r) ==
  <<[op |-> "GetBlob", r |-> r, c |-> "b1"], [op |-> "GetBlobRange", r |-> r, c |-> "b1", o0 |-> 0, o1 |-> 1],
    [op |-> "ResolveBlob", r |-> r, c |-> "b1"], [op |-> "GetManifest", r |-> r, c |-> "img"],
    [op |-> "ResolveManifest", r |-> r, c |-> "img"], [op |-> "GetTag", r |-> r, t |-> "t1"],
    [op |-> "ResolveTag", r |-> r, t |-> "t1"], [op |-> "Referrers", r |-> r, c |-> "img"],
    [op |-> "ListTags", r |-> r, startpos |-> 0]>>
UploadOn(r) ==
  <<[op |-> "PushBlobChunked", r |-> r, u |-> "u1"], [op |-> "Write", r |-> r, u |-> "u1", data |-> <<1, 2>>],
    [op |-> "UpSize", r |-> r, u |-> "u1"], [op |-> "Close", r |-> r, u |-> "u1"],
    [op |-> "Resume", r |-> r, u |-> "u1", off |-> -1], [op |-> "Commit", r |-> r, u |-> "u1", dd |-> "b2"],
    [op |-> "PushBlobChunked", r |-> r, u |-> "u2"], [op |-> "Cancel", r |-> r, u |-> "u2"],
    \* resuming with an upload id the registry never issued: the harness makes "e.." the EMPTY
    \* id and "o.." odd ones ("../x", " ", ...); to the wrappers an id is opaque
    [op |-> "Resume", r |-> r, u |-> "e1", off |-> -1], [op |-> "Write", r |-> r, u |-> "e1", data |-> <<1>>],
    [op |-> "Resume", r |-> r, u |-> "o1", off |-> 0]>>
PushesOn(r) ==
  <<[op |-> "PushBlob", r |-> r, c |-> "b0", dd |-> "b0", ds |-> 0],
    [op |-> "PushManifest", r |-> r, t |-> "t2", c |-> "img", mt |-> "image"],
    [op |-> "PushManifest", r |-> r, t |-> None, c |-> "idx", mt |-> "index"]>>
DeletesOn(r) ==
  <<[op |-> "DeleteTag", r |-> r, t |-> "t1"], [op |-> "DeleteManifest", r |-> r, c |-> "img"],
    [op |-> "DeleteBlob", r |-> r, c |-> "b1"]>>
Mount(f, t) == [op |-> "MountBlob", from |-> f, r |-> t, c |-> "b1"]
OpsSeqOn(r) == ReadsOn(r) \o UploadOn(r) \o PushesOn(r) \o DeletesOn(r)
Range(s) == {s[i] : i \in 1..Len(s)}
ScriptNames(sq) == {sq[i] : i \in 1..Len(sq)}
ListStarts == 0..(2 * Cardinality(Repos) + 1)
C12Ops ==
  UNION {Range(OpsSeqOn(r)) : r \in {"r1", "r2"}}
  \cup {Mount(f, t) : f \in {"r1", "r2"}, t \in {"r1", "r2"}}
  \cup {[op |-> "ListRepos", startpos |-> s] : s \in ListStarts}

\* the table entries a call can depend on
Entries(o) ==
  IF o.op = "MountBlob" THEN {o.from, o.r} \X {"Read", "Write"}
  ELSE IF o.op = "ListRepos" THEN {<<Star, "List">>} \cup (Repos \X {"Read"})
  ELSE {o.r} \X Kinds
\* ... and the entries it actually consults
ConsEntries(o) ==
  IF o.op = "ListRepos" THEN {<<Star, "List">>} \cup (Repos \X {"Read"})
  ELSE {<<StaticCons(o)[i].n, StaticCons(o)[i].k>> : i \in 1..Len(StaticCons(o))}
NestOps == UNION {Range(OpsSeqOn(r)) : r \in {"r1"}} \cup {Mount(f, t) : f \in {"r1", "r2"}, t \in {"r1", "r2"}}
           \cup {[op |-> "ListRepos", startpos |-> s] : s \in {0, 3}}
TableOf(f) == [n \in Repos \cup {Star} \cup {x[1] : x \in DOMAIN f} |-> [k \in Kinds |-> IF <<n, k>> \in DOMAIN f THEN f[<<n, k>>] ELSE PolOk]]
\* ill-formed names as method arguments and as entries of backend listings
IllNames == IF AllScopes THEN {"A", "a//a", "a/", "", "..", "A/a"} ELSE {"A", "a/", ""}     \* (AllScopes: the thorough configurations)
SelSpecial == {{"r1", "A", "a/", ""}, {"r1", Star, "a//a"}, {}}
IllOps == UNION {Range(ReadsOn(n) \o PushesOn(n) \o DeletesOn(n)) \cup {Mount(n, "r1"), Mount("r1", n)} : n \in IllNames}
\* backend listings as they might come: names repeated, out of order, ill-formed
Scripts == {<<"r1", "r1", "r2", "r2", "r2", "r3">>, <<"r2", "r1", "r1", "A", "A", "r3", "a/", "r1">>, <<"", "r4", "r4", "a//a">>, <<>>}
NoScope == [unl |-> FALSE, set |-> {}]
RichScope == [unl |-> FALSE, set |-> {<<"repository", "a", "pull">>, <<"repository", "../fooey", "push">>,
                                     <<"repository", "", "pull">>, <<"registry", "catalog", "*">>}]
MCScopes == {NoScope, [unl |-> TRUE, set |-> {}], RichScope}
ScopesFor(o) == IF AllScopes \/ OpNames(o) \cap HostileNames = {} THEN MCScopes ELSE {RichScope}

SubOpsFor(n) == Range(OpsSeqOn(n)) \cup {Mount(n, "a"), Mount("a", n), Mount(n, n)}
SubOps(names) == UNION {SubOpsFor(n) : n \in names} \cup {[op |-> "ListRepos", startpos |-> s] : s \in 0..(2 * Cardinality(ViewRepos) + 1)}

\* ------------------------------------------------------------------ spec --
Populated(pop) ==
  /\ blobs = [r \in Repos |-> IF r \in pop THEN {"b1"} ELSE {}]
  /\ mans = [r \in Repos |-> IF r \in pop THEN ("img" :> "image") ELSE <<>>]
  /\ tags = [r \in Repos |-> IF r \in pop THEN ("t1" :> [c |-> "img", mt |-> "image"]) ELSE <<>>]
  \* an upload session is already open in the populated repositories, so that the BlobWriter
  \* methods are enabled from the first step on
  /\ ups = [r \in Repos |-> IF r \in pop THEN ("u1" :> NewUp(0)) ELSE <<>>]
  /\ touched = pop
NoCall == [o |-> [op |-> "none"], pol |-> <<>>, sc |-> NoScope, allow |-> {}, fail |-> -1]
FInit ==
  /\ imm \in ImmChoices
  /\ \E pop \in SUBSET Repos : Populated(pop)
  /\ res = NoRes /\ wres = NoRes /\ wpe = None /\ cons = <<>> /\ bcalls = <<>> /\ bscopes = <<>>
  /\ kind \in MCKinds /\ last = NoCall /\ step = 0

\* a failing backend listing: from two start points, failing after 0..|Repos| items
FailPoints(o) == IF o.op = "ListRepos" /\ o.startpos \in {0, 3} THEN 0..Cardinality(Repos) ELSE {}
FaultCodes == {"UNSUPPORTED", "DENIED", "BLOB_UNKNOWN"}
\* ill-formed names and scripted listings are swept from the fully populated initial state
\* (what the backend holds does not enter into them)
IllHere == step = 0 /\ \A r \in Repos : blobs[r] # {}
FNext ==
  /\ step < MaxSteps
  /\ step' = step + 1
  /\ kind' = kind
  /\ CASE kind = "checker" ->
            \E o \in C12Ops \cup (IF IllHere THEN IllOps ELSE {}) : \E f \in [Entries(o) -> {PolOk} \cup ErrIds] :
               /\ \/ CheckedApply(o, TableOf(f), NoScope) /\ last' = [o |-> o, pol |-> TableOf(f), sc |-> NoScope, allow |-> {}, fail |-> -1]
                  \/ \E code \in FaultCodes : CheckedFault(o, TableOf(f), NoScope, code)
                        /\ last' = [o |-> o, pol |-> TableOf(f), sc |-> NoScope, allow |-> {}, fail |-> -2, code |-> code]
                  \/ \E k \in FailPoints(o) : CheckedListFail(o, TableOf(f), NoScope, k)
                                               /\ last' = [o |-> o, pol |-> TableOf(f), sc |-> NoScope, allow |-> {}, fail |-> k]
                  \/ /\ o.op = "ListRepos" /\ o.startpos = 0 /\ IllHere
                     /\ \E sq \in Scripts : \E g \in [ScriptNames(sq) \X {"Read"} -> {PolOk} \cup ErrIds] : \E k \in {-1, 2} :
                          /\ CheckedListing(o, TableOf(g), NoScope, TRUE, sq, k)
                          /\ last' = [o |-> o, pol |-> TableOf(g), sc |-> NoScope, allow |-> {}, fail |-> -3]
       [] kind = "select" ->
            \E o \in C12Ops \cup (IF IllHere THEN IllOps ELSE {}) :
            \E allow \in (IF o \in C12Ops THEN SUBSET (Repos \cup {Star}) ELSE {}) \cup SelSpecial :
               /\ \/ CheckedApply(o, SelPol(allow, Repos), NoScope)
                     /\ last' = [o |-> o, pol |-> SelPol(allow, Repos), sc |-> NoScope, allow |-> allow, fail |-> -1]
                  \/ \E k \in FailPoints(o) : CheckedListFail(o, SelPol(allow, Repos), NoScope, k)
                                               /\ last' = [o |-> o, pol |-> SelPol(allow, Repos), sc |-> NoScope, allow |-> allow, fail |-> k]
                  \/ /\ o.op = "ListRepos" /\ o.startpos = 0 /\ IllHere
                     /\ \E sq \in Scripts : \E k \in {-1, 2} :
                          /\ CheckedListing(o, SelPol(allow, Repos), NoScope, TRUE, sq, k)
                          /\ last' = [o |-> o, pol |-> SelPol(allow, Repos), sc |-> NoScope, allow |-> allow, fail |-> -3]
       [] kind = "nest" ->
            \* two stacked checkers, every pair of policies over the entries the call consults
            \* (first call only, one error identity: the pairs of tables are what is swept here)
            \E o \in NestOps : \E f1, f2 \in [ConsEntries(o) -> {PolOk, CHOOSE e \in ErrIds : TRUE}] :
               /\ step = 0
               /\ NestApply(o, <<TableOf(f1), TableOf(f2)>>, NoScope)
               /\ last' = [o |-> o, pol |-> <<TableOf(f1), TableOf(f2)>>, sc |-> NoScope, allow |-> {}, fail |-> -1]
       [] kind = "sub" ->
            \E o \in SubOps(IF step < HostileSteps THEN CallerNames ELSE CallerNames \ HostileNames) : \E sc \in ScopesFor(o) :
               /\ \/ SubApply(o, sc) /\ last' = [o |-> o, pol |-> <<>>, sc |-> sc, allow |-> {}, fail |-> -1]
                  \/ \E code \in FaultCodes : SubFault(o, sc, code)
                        /\ last' = [o |-> o, pol |-> <<>>, sc |-> sc, allow |-> {}, fail |-> -2, code |-> code]
                  \/ \E k \in (IF o.op = "ListRepos" THEN 0..Cardinality(Repos) ELSE {}) :
                        SubListFail(o, sc, k) /\ last' = [o |-> o, pol |-> <<>>, sc |-> sc, allow |-> {}, fail |-> k]
FSpec == FInit /\ [][FNext]_mcvars

\* ------------------------------------------------------------ properties --
NestIsConjunction == [][kind = "nest" => NestStep(last'.o, last'.pol)]_mcvars
\* one level is the single checker
NestOfOne == [][kind = "checker" /\ last'.fail = -1 =>
                  LET p == <<last'.pol>> IN
                  (NestFirstRej(last'.o, p) > 0) = Rejected(last'.o, last'.pol)]_mcvars
IsC12 == kind \in {"checker", "select"}
RejectedNeverReachesBackend == [][IsC12 => RejectedNeverReachesBackendStep(last'.o, last'.pol)]_mcvars
ListingFiltered == [][IsC12 => ListingFilteredStep(last'.o, last'.pol)]_mcvars
ErrorIsPolicyError == [][IsC12 => ErrorIsPolicyErrorStep(last'.o, last'.pol)]_mcvars
AllowedIsTransparent == [][(IsC12 /\ last'.fail = -1) => AllowedIsTransparentStep(last'.o, last'.pol)]_mcvars
SelectErrorKinds == [][kind = "select" => SelectKindsOK(last'.allow, Repos)]_mcvars
\* consultations are exactly: the static ones up to the first failure; for a listing that was
\* let through, then one Read consultation per item the backend listed
ConsultationsExact ==
  [][(IsC12 /\ last'.fail = -1) => LET o == last'.o
                  cs == StaticCons(o) IN
              IF Rejected(o, last'.pol) THEN cons' = SubSeq(cs, 1, FirstFail(cs, last'.pol))
              ELSE IF o.op = "ListRepos" THEN Len(cons') = 1 + Len(res'.items) /\ cons'[1] = cs[1]
              ELSE cons' = cs]_mcvars

\* a listing cut short by a backend error delivers a prefix of what the full one delivers
FailedListingIsPrefix ==
  [][(IsC12 /\ last'.fail >= 0) =>
       /\ ~wres'.ok /\ wpe' = None /\ bcalls' = BCallsOf(last'.o) /\ BackendUnchanged
       /\ LET full == Filter(res'.items, LAMBDA x : Allowed(last'.pol, x)) IN
          Len(wres'.items) <= Len(full) /\ wres'.items = SubSeq(full, 1, Len(wres'.items))]_mcvars
\* a call the backend refuses: its error, the one call (under the prefix), nothing changed
BackendFaultIsResult ==
  [][last'.fail = -2 => /\ FaultedStep(last'.code)
                        /\ IF kind = "sub" THEN ConfinedCalls(bcalls') /\ bcalls' = BCallsOf(MapOp(last'.o))
                                          ELSE bcalls' = BCallsOf(last'.o) /\ ~Rejected(last'.o, last'.pol)]_mcvars
\* whatever the backend's listing looks like: what is delivered is exactly the allowed entries,
\* in the order and as often as they came; the backend is asked once and nothing changes
ScriptedListingFiltered ==
  [][last'.fail = -3 => /\ \A i \in 1..Len(wres'.items) : Allowed(last'.pol, wres'.items[i])
                        /\ \E k \in 0..Len(res'.items) : wres'.items = Filter(SubSeq(res'.items, 1, k), LAMBDA x : Allowed(last'.pol, x))
                        /\ BackendUnchanged /\ bcalls' = BCallsOf(last'.o) /\ wpe' = None]_mcvars
IsSub == kind = "sub"
Confined == [][IsSub => ConfinedCalls(bcalls')]_mcvars
EqualsRestriction == [][(IsSub /\ last'.fail = -1) => EqualsRestrictionStep(last'.o)]_mcvars
ListingExact == [][(IsSub /\ last'.fail = -1) => ListingExactStep(last'.o)]_mcvars
SubFailedListingIsPrefix == [][(IsSub /\ last'.fail >= 0) => SubFailedListingStep(last'.o) /\ ConfinedCalls(bcalls')]_mcvars
ScopesRewritten == [][IsSub => ScopesRewrittenStep(last'.sc) /\ (last'.o.op \in IfaceOps /\ (\A n \in OpNames(last'.o) : ValidName(n)) => Len(bscopes') = 1)]_mcvars
\* the name mapping itself, over every enumerated caller string
NamesOK == \A n \in {x.s : x \in AllNames} : InvalidStaysInvalid(n) /\ ValidGoesUnder(n)
\* the siblings of the prefix are not under it, and stripping inverts the mapping
ViewOK == /\ \A x \in Repos : x \in Image <=> (Under(x) /\ ValidChars(SubSeq(Chars[x], Len(PrefixChars) + 1, Len(Chars[x]))))
          /\ \A y \in ViewRepos : Strip(SubName(y)) = y
ComposeLaw == \A p1, p2 \in {"foo", "org", "team", "a"} : ComposeOK(p1, p2, {x.s : x \in N1 \cup N2} \ {""}, MCScopes)
FTypeOK == TypeOK /\ (IsSub => NamesOK /\ ViewOK /\ ComposeLaw)

FView == <<state, kind, step>>
=============================================================================
