SPECIFICATION CSpec
CONSTANTS
  Repos = {"r1"}
  Tags = {"t1"}
  Cids = {"b0", "b1", "b2", "img", "idx", "idy", "sub", "bad", "idz", "imx", "idw", "sub2"}
  BlobIds = {"b1", "b2"}
  ManIds = {"img", "sub2"}
  Cat <- MCCat
  UploadIds = {}
  ImmChoices = {TRUE}
  BlockSize = 8192
  Pos <- MCPos
  CoverKinds = {"PushBlob", "PushManifest", "DeleteBlob", "DeleteManifest"}
  PrintKinds = {"DeleteBlob", "DeleteManifest"}
  PrintMinMans = 2
VIEW CoverView
CHECK_DEADLOCK FALSE
