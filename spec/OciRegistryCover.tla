------------------------ MODULE OciRegistryCover ------------------------
(* Transition coverage of the reference model (one implementation test per transition of
   the state graph): breadth-first search with the abstract state as VIEW visits every
   reachable state once, reached by a shortest history h; for every operation applicable
   there the history h \o <<o>> is printed as a scenario.  Replayed on the real code with
   a state snapshot after every call, this exercises every (state, operation) pair of the
   small universe - in particular every "delete something a tag reaches" situation. *)
EXTENDS OciRegistryMC, Json

CONSTANTS CoverKinds,    \* operation names to explore with and to cover ({} = all)
          PrintKinds,    \* of these, the operations whose transitions are printed ({} = all of CoverKinds)
          PrintMinMans   \* if > 0: print only transitions out of states where some repository holds at least this many manifests and a tag
VARIABLE h

CInit == Init /\ h = <<>>
CoverOps == {o \in (IF CoverKinds = {} THEN Ops ELSE Ops \cup WireOpSet) : (CoverKinds = {} \/ o.op \in CoverKinds)
                          /\ (o.op = "PushBlob" => o.dd = o.c)
                          /\ (o.op = "GetBlobRange" => <<o.o0, o.o1>> \in {<<0, 1>>, <<1, 2>>, <<1, -1>>, <<2, 1>>, <<1, 1>>, <<2, 3>>})
                          /\ (o.op \in {"ListTags", "ListRepos"} => o.startpos \in {0, 2, 3})}
CNext == \E o \in CoverOps :
           /\ Apply(o)
           /\ h' = Append(h, o)
           /\ IF (PrintKinds = {} \/ o.op \in PrintKinds) /\ (PrintMinMans = 0 \/ \E r \in Repos : Cardinality(DOMAIN mans[r]) >= PrintMinMans /\ DOMAIN tags[r] # {})
                THEN PrintT(<<"MBT", ToJson([imm |-> imm, ops |-> h'])>>) ELSE TRUE
CSpec == CInit /\ [][CNext]_<<vars, h>>
CoverView == state
=========================================================================
