SPECIFICATION Spec
CONSTANTS
  Strs <- MCStrs
  Cls <- MCCls
  U <- MCU9
  PairIdx <- Idx6
INVARIANT Emit
CHECK_DEADLOCK FALSE
