SPECIFICATION TSpec
CONSTANTS
  Methods <- InterfaceMethods
  IterMethods <- InterfaceIterMethods
  StrictErrName = FALSE
POSTCONDITION Accepted
CHECK_DEADLOCK FALSE
