--------------------------- MODULE OciTestContent ---------------------------
(***************************************************************************)
(* The content pusher of package ocitest (ocitest.go: RepoContent,          *)
(* PushRepoContent, completedManifests), as it is at HEAD, composed with    *)
(* the registry reference model (OciRegistry, mutable mode).                *)
(*                                                                         *)
(* A content (one repository) is a record                                  *)
(*   [blobs |-> set of blob identifiers,                                    *)
(*    mans  |-> [manifest identifier -> [config  |-> blob identifier,       *)
(*                                       layers  |-> sequence of blob ids,  *)
(*                                       subject |-> identifier or None]],  *)
(*    tags  |-> [tag -> manifest identifier]]                               *)
(* Identifiers are symbolic: the pusher replaces them by digests.  Any of   *)
(* them may name nothing (an unknown identifier, a blob identifier where a  *)
(* manifest is wanted, a manifest of a cycle).                              *)
(*                                                                         *)
(* What HEAD does (read off completedManifests / PushRepoContent):          *)
(*  - it computes the manifests in passes over the map of manifests (map    *)
(*    order: any order).  A manifest whose subject is not computed yet is   *)
(*    skipped and its subject identifier noted in `required`; noting a NEW  *)
(*    identifier counts as progress, and so does every computed manifest.   *)
(*    A pass that skipped nothing ends the loop; a pass that skipped        *)
(*    something without progress ends it with the error                     *)
(*       "no manifest found for ids <required identifiers not computed>"    *)
(*    (so: self-reference, cycles, an unknown subject identifier and a      *)
(*    blob identifier as subject are all reported as an ERROR, before       *)
(*    anything is pushed; the code comment says "panic", the code returns); *)
(*  - computing a manifest whose config or layer identifier is not a blob   *)
(*    identifier of the content PANICS (fillBlobDescriptor), before         *)
(*    anything is pushed;                                                   *)
(*  - then: every blob (map order), every manifest in the order computed,   *)
(*    every tag (map order); a tag naming an identifier that is not a       *)
(*    manifest of the content is an ERROR at that point: blobs, manifests   *)
(*    and the tags visited before it stay pushed.                           *)
(*  PushContent does this for one repository after the other (map order)    *)
(*  and stops at the first error: repositories visited before it stay       *)
(*  pushed, the others are not touched (judged in OciTestTrace, ExpectOK).  *)
(*                                                                         *)
(* The first part of the module is pure (operators on a content C): the     *)
(* declarative statement of what can be completed and the outcome.  The     *)
(* second part is the algorithm as actions; TLC checks over all small       *)
(* contents that the algorithm terminates, agrees with the declarative      *)
(* outcome whatever the map orders, computes every manifest after its       *)
(* subject, is never refused by the registry and leaves exactly the         *)
(* content there.  OciTestTrace evaluates the pure part on the contents     *)
(* the harness hands to the real PushContent.                               *)
(***************************************************************************)
EXTENDS OciRegistry

CONSTANT TheRepo     \* the repository pushed to

\* ------------------------------------------------------------------ pure --
MansOf(C) == DOMAIN C.mans
SeqRange(s) == {s[i] : i \in 1..Len(s)}
BlobRefs(C, m) == {C.mans[m].config} \cup SeqRange(C.mans[m].layers)
\* every blob identifier the manifest names is a blob of the content
Fillable(C, m) == BlobRefs(C, m) \subseteq C.blobs

\* Following subject links from identifier x for at most n manifests: None when the chain ends at a
\* manifest without subject, "stuck" when it leaves the manifests of the content or does not end.
RECURSIVE Walk(_, _, _)
Walk(C, x, n) ==
  IF x = None THEN None
  ELSE IF x \notin MansOf(C) \/ n = 0 THEN "stuck"
  ELSE Walk(C, C.mans[x].subject, n - 1)
\* m can be computed: its subject chain is finite and stays inside the manifests of the content
Grounded(C, m) == Walk(C, m, Cardinality(MansOf(C))) = None
GroundedSet(C) == {m \in MansOf(C) : Grounded(C, m)}

Outcome(C) ==
  IF \E m \in GroundedSet(C) : ~Fillable(C, m) THEN "panic"
  ELSE IF GroundedSet(C) # MansOf(C) THEN "nomanifest"
  ELSE IF \E t \in DOMAIN C.tags : C.tags[t] \notin MansOf(C) THEN "tag"
  ELSE "ok"
\* the identifiers the "no manifest found" error lists
Missing(C) == {C.mans[m].subject : m \in MansOf(C) \ GroundedSet(C)}
GoodTags(C) == {t \in DOMAIN C.tags : C.tags[t] \in MansOf(C)}

\* Content ids of the model's catalogue.  A blob identifier is its own content id; the bytes of a
\* computed manifest are determined by its own fields and, through the subject descriptor's digest,
\* by the manifests of its subject chain: its content id is the chain "m<s1<s2..." (a string).
BlobCid(b) == b
RECURSIVE ChainName(_, _, _)
ChainName(C, m, n) ==
  LET s == C.mans[m].subject IN
  IF s = None \/ n = 0 THEN m
  ELSE IF s \notin MansOf(C) THEN m \o "<?"
  ELSE m \o "<" \o ChainName(C, s, n - 1)
ManCid(C, m) == ChainName(C, m, Cardinality(MansOf(C)))

\* ------------------------------------------------------------- algorithm --
VARIABLES content,   \* the content being pushed
          pc,        \* "choose" (the content is picked), "complete" (completedManifests), "push" (PushRepoContent's pushes), "done"
          done,      \* manifests computed so far (the map `manifests`)
          seq,       \* ... in the order computed (manifestSeq)
          required,  \* subject identifiers some pass has waited for
          todo,      \* manifests the current pass has not visited yet
          progress,  \* madeProgress
          needMore,  \* needMore
          passes,    \* number of passes begun
          bleft,     \* blobs not pushed yet
          mi,        \* next element of seq to push
          tleft,     \* tags not visited yet
          out,       \* "" while running; "ok", "nomanifest", "tag", "panic"; "refused": the registry refused a push
          missing    \* identifiers listed by the "no manifest found" error
pvars == <<content, pc, done, seq, required, todo, progress, needMore, passes, bleft, mi, tleft, out, missing>>
allvars == <<vars, pvars>>

\* The content is picked by a first step, Start(C) (a configuration says which contents: OciTestContentMC).
NoContent == [blobs |-> {}, mans |-> <<>>, tags |-> <<>>]
PInit ==
  /\ Init /\ imm = FALSE
  /\ content = NoContent
  /\ pc = "choose" /\ done = {} /\ seq = <<>> /\ required = {}
  /\ todo = {} /\ progress = FALSE /\ needMore = FALSE /\ passes = 1
  /\ bleft = {} /\ mi = 1 /\ tleft = {}
  /\ out = "" /\ missing = {}
Start(C) ==
  /\ pc = "choose"
  /\ content' = C
  /\ pc' = "complete"
  /\ todo' = MansOf(C) /\ bleft' = C.blobs /\ tleft' = DOMAIN C.tags
  /\ UNCHANGED <<done, seq, required, progress, needMore, passes, mi, out, missing, vars>>

Finish(o, miss) == pc' = "done" /\ out' = o /\ missing' = miss

\* one iteration of `for id, m := range repoc.Manifests` (manifests computed earlier are skipped there)
Visit(m) ==
  /\ pc = "complete" /\ m \in todo
  /\ todo' = todo \ {m}
  /\ LET s == content.mans[m].subject IN
     IF s # None /\ s \notin done THEN
        \* need(subject): wait for it
        /\ needMore' = TRUE
        /\ required' = required \cup {s}
        /\ progress' = (progress \/ s \notin required)
        /\ UNCHANGED <<done, seq, pc, out, missing>>
     ELSE IF ~Fillable(content, m) THEN
        \* fillBlobDescriptor: panic("no blob found with id ...")
        /\ Finish("panic", {})
        /\ UNCHANGED <<done, seq, required, progress, needMore>>
     ELSE
        /\ done' = done \cup {m} /\ seq' = Append(seq, m)
        /\ progress' = TRUE
        /\ UNCHANGED <<required, needMore, pc, out, missing>>
  /\ UNCHANGED <<content, passes, bleft, mi, tleft, vars>>

EndPass ==
  /\ pc = "complete" /\ todo = {}
  /\ IF ~needMore THEN
        pc' = "push" /\ UNCHANGED <<todo, progress, needMore, passes, out, missing>>
     ELSE IF ~progress THEN
        \* the identifiers computed meanwhile are taken off the list
        Finish("nomanifest", required \ done) /\ UNCHANGED <<todo, progress, needMore, passes>>
     ELSE
        /\ todo' = MansOf(content) \ done /\ progress' = FALSE /\ needMore' = FALSE /\ passes' = passes + 1
        /\ UNCHANGED <<pc, out, missing>>
  /\ UNCHANGED <<content, done, seq, required, bleft, mi, tleft, vars>>

\* a push the registry refuses ends PushRepoContent with an error
AfterPush == IF res'.ok THEN UNCHANGED <<pc, out, missing>> ELSE Finish("refused", {})

PushOneBlob(b) ==
  /\ pc = "push" /\ b \in bleft
  /\ PushBlob(TheRepo, BlobCid(b), BlobCid(b), Cat[BlobCid(b)].size)
  /\ bleft' = bleft \ {b}
  /\ AfterPush
  /\ UNCHANGED <<content, done, seq, required, todo, progress, needMore, passes, mi, tleft>>

PushNextManifest ==
  /\ pc = "push" /\ bleft = {} /\ mi <= Len(seq)
  /\ PushManifest(TheRepo, None, ManCid(content, seq[mi]), "image")
  /\ mi' = mi + 1
  /\ AfterPush
  /\ UNCHANGED <<content, done, seq, required, todo, progress, needMore, passes, bleft, tleft>>

PushOneTag(t) ==
  /\ pc = "push" /\ bleft = {} /\ mi > Len(seq) /\ t \in tleft
  /\ tleft' = tleft \ {t}
  /\ IF content.tags[t] \notin done THEN
        \* "tag %q refers to unknown manifest id %q"
        Finish("tag", {}) /\ UNCHANGED vars
     ELSE PushManifest(TheRepo, t, ManCid(content, content.tags[t]), "image") /\ AfterPush
  /\ UNCHANGED <<content, done, seq, required, todo, progress, needMore, passes, bleft, mi>>

Return ==
  /\ pc = "push" /\ bleft = {} /\ mi > Len(seq) /\ tleft = {}
  /\ Finish("ok", {})
  /\ UNCHANGED <<content, done, seq, required, todo, progress, needMore, passes, bleft, mi, tleft, vars>>

PNext ==
  \/ \E m \in todo : Visit(m)
  \/ EndPass
  \/ \E b \in bleft : PushOneBlob(b)
  \/ PushNextManifest
  \/ \E t \in tleft : PushOneTag(t)
  \/ Return
\* "done" stutters, so that a deadlock reported by TLC is a pusher that stops without an outcome
Stutter == pc = "done" /\ UNCHANGED allvars
\* the pusher run on any content of the set S
PNextOver(S) == (\E C \in S : Start(C)) \/ PNext \/ Stutter
PSpecOver(S) == PInit /\ [][PNextOver(S)]_allvars /\ WF_allvars((\E C \in S : Start(C)) \/ PNext)

\* ------------------------------------------------------------ properties --
\* termination: every behaviour reaches "done" (PassBound says how soon the loop ends)
Terminates == <>(pc = "done")
PassBound == passes <= Cardinality(MansOf(content)) + 1
\* ... as a safety property (TLC's liveness checker is slow with one initial state per content): a natural
\* number that every step decreases; with no deadlock short of "done" every behaviour ends there
PushBudget == Cardinality(content.blobs) + Cardinality(MansOf(content)) + Cardinality(DOMAIN content.tags) + 1
Measure ==
  LET nm == Cardinality(MansOf(content)) IN
  CASE pc = "complete" -> (nm + 1 - passes) * (nm + 1) + Cardinality(todo) + 1 + PushBudget
    [] pc = "push" -> Cardinality(bleft) + (Len(seq) + 1 - mi) + Cardinality(tleft) + 1
    [] pc = "choose" -> 1000000
    [] OTHER -> 0
MeasureNat == Measure >= 0
Decreases == [][Measure' < Measure]_allvars

\* every manifest is computed (hence pushed) after its subject
IndexIn(s, x) == CHOOSE i \in 1..Len(s) : s[i] = x
SubjectFirst ==
  /\ SeqRange(seq) = done /\ Len(seq) = Cardinality(done)
  /\ \A i \in 1..Len(seq) :
       LET s == content.mans[seq[i]].subject IN
       s # None => (s \in done /\ IndexIn(seq, s) < i)
\* what is computed is exactly what can be; the pushes begin only when everything is
OnlyGrounded == done \subseteq GroundedSet(content)
AllBeforePush == pc = "push" => done = MansOf(content)

\* the outcome is the declarative one, whatever the map orders were
OutcomeAgrees ==
  pc = "done" => /\ out = Outcome(content)
                 /\ missing = (IF out = "nomanifest" THEN Missing(content) ELSE {})
NeverRefused == out # "refused"

Empty == blobs[TheRepo] = {} /\ DOMAIN mans[TheRepo] = {} /\ DOMAIN tags[TheRepo] = {}
\* nothing is pushed before everything is computed, nor when the content cannot be completed
NothingUntilComplete == (pc \in {"choose", "complete"} \/ out \in {"panic", "nomanifest"}) => Empty

\* the catalogue the configuration supplies says of each computed manifest what the content says
CatAgrees ==
  \A m \in done :
    LET v == View(ManCid(content, m), "image")
        s == content.mans[m].subject IN
    /\ v.wf /\ v.blobs = {BlobCid(b) : b \in BlobRefs(content, m)} /\ v.mans = {}
    /\ v.subject = (IF s = None THEN None ELSE ManCid(content, s))

\* every push is acceptable to the registry when it is made, and a subject is there before its referrer
NextPushAcceptable ==
  (pc = "push" /\ bleft = {} /\ mi <= Len(seq)) =>
     LET m == seq[mi]
         s == content.mans[m].subject IN
     /\ Acceptable(TheRepo, ManCid(content, m), "image")
     /\ s # None => Has(mans[TheRepo], ManCid(content, s))
TagPushAcceptable ==
  (pc = "push" /\ bleft = {} /\ mi > Len(seq)) =>
     \A t \in tleft : content.tags[t] \in done => Acceptable(TheRepo, ManCid(content, content.tags[t]), "image")

Holds(C, tagset) ==
  /\ blobs[TheRepo] = {BlobCid(b) : b \in C.blobs}
  /\ DOMAIN mans[TheRepo] = {ManCid(C, m) : m \in MansOf(C)}
  /\ \A c \in DOMAIN mans[TheRepo] : mans[TheRepo][c] = "image"
  /\ DOMAIN tags[TheRepo] = tagset
  /\ \A t \in tagset : tags[TheRepo][t] = [c |-> ManCid(C, C.tags[t]), mt |-> "image"]
\* acyclic, complete content: the registry ends up holding exactly the content
FinalExact == (pc = "done" /\ out = "ok") => Holds(content, DOMAIN content.tags)
\* a tag naming no manifest: blobs and manifests are there, and those of the good tags visited before it
TagErrorLeaves ==
  (pc = "done" /\ out = "tag") =>
     \E ts \in SUBSET GoodTags(content) : Holds(content, ts)
OtherReposUntouched == \A r \in Repos \ {TheRepo} : blobs[r] = {} /\ DOMAIN mans[r] = {} /\ DOMAIN tags[r] = {}

PTypeOK ==
  /\ pc \in {"choose", "complete", "push", "done"}
  /\ out \in {"", "ok", "nomanifest", "tag", "panic", "refused"}
  /\ done \subseteq MansOf(content) /\ todo \subseteq MansOf(content)
  /\ bleft \subseteq content.blobs /\ tleft \subseteq DOMAIN content.tags
  /\ (pc = "done") = (out # "")
=============================================================================
