SPECIFICATION Spec
CONSTANTS
  MaxSegs = 4
  ReduceAt = 99
  QLevel = 1
  LawSegs = 3
  AllSegs = 1
  GetSegs = 3
  KOk = 40
  KErr = 4000
  HandleK = 4
  Seed = 1
  CompOK <- MCCompOK
  TagOK <- MCTagOK
  DigestOK <- MCDigestOK
  IdOf <- MCIdOf
INVARIANT Check
CHECK_DEADLOCK FALSE
