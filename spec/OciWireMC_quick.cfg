SPECIFICATION Spec
CONSTANTS
  MaxSegs = 4
  QLevel = 1
  LawSegs = 3
  AllSegs = 1
  KOk = 40
  KErr = 1500
  HandleK = 4
  Seed = 1
  CompOK <- MCCompOK
  TagOK <- MCTagOK
  DigestOK <- MCDigestOK
  IdOf <- MCIdOf
INVARIANT Check
CHECK_DEADLOCK FALSE
