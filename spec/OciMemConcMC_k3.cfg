SPECIFICATION Spec
CONSTANTS
  GetTagSteps = 1
  CommitSnapshots = TRUE
  CommitSerialized = TRUE
  TwoPhaseCommit = TRUE
  Prog <- ProgRB
INVARIANTS Linearizable StoredMatchesKey TagNeverFalselyMissing
VIEW ConcView
CHECK_DEADLOCK FALSE
