SPECIFICATION TSpec
CONSTANTS
  Repos <- TrRepos
  Tags <- TrTags
  Cids <- TrCids
  BlobIds = {}
  ManIds = {}
  Cat <- TrCat
  UploadIds <- TrUploads
  ImmChoices = {FALSE}
  BlockSize <- TrBlockSize
  Pos <- TrPos
  Policies = {"seq", "conc"}
  ListFaults = {}
VIEW TraceView
POSTCONDITION Accepted
CHECK_DEADLOCK FALSE
