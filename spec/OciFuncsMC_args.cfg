SPECIFICATION ArgSpec
CONSTANTS
  Methods <- InterfaceMethods
  IterMethods <- InterfaceIterMethods
INVARIANT ArgProps
INVARIANT ArgExport
CHECK_DEADLOCK FALSE
