SPECIFICATION GSpec
CONSTANTS
  Repos = {"r1", "r2"}
  Tags = {"t1", "t2"}
  Cids = {"b0", "b1", "b2", "img", "idx", "idy", "sub", "bad"}
  BlobIds = {"b0", "b1", "b2"}
  ManIds = {"img", "idx", "idy", "sub", "bad"}
  Cat <- MCCat
  UploadIds = {"u1", "u2"}
  ImmChoices = {TRUE, FALSE}
  BlockSize = 8192
  Pos <- MCPos
  GenDepth = 24
  GenKinds = {}
CHECK_DEADLOCK FALSE
