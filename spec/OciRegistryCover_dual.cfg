SPECIFICATION CSpec
CONSTANTS
  Repos = {"r1"}
  Tags = {"t1"}
  Cids = {"b0", "b1", "b2", "img", "idx", "idy", "sub", "bad", "idz", "imx", "idw"}
  BlobIds = {"b1", "b2", "sub"}
  ManIds = {"sub", "imx", "idw"}
  Cat <- MCCat
  UploadIds = {}
  ImmChoices = {TRUE}
  BlockSize = 8192
  Pos <- MCPos
  CoverKinds = {"PushBlob", "PushManifest", "DeleteBlob", "DeleteManifest"}
  PrintKinds = {"DeleteBlob", "DeleteManifest"}
  PrintMinMans = 3
VIEW CoverView
CHECK_DEADLOCK FALSE
