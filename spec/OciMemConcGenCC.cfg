SPECIFICATION Spec
CONSTANTS
  GetTagSteps = 1
  CommitSnapshots = TRUE
  CommitSerialized = FALSE
  TwoPhaseCommit = TRUE
  Prog <- ProgCC
INVARIANTS Emit
CHECK_DEADLOCK FALSE
