SPECIFICATION Spec
CONSTANTS
  Base = {"a", "x", "A", "0", ".", "-", "_", ":", "/", "@", "[", "]", "!"}
  MaxFlat = 5
  FullLen = 4
  MaxMacroFlat = 3
  PartsLevel = 2
  LongMacros = {"HL261", "HL262", "HL300", "HL1000", "HL4096", "A300", "A1000", "D4096"}
INVARIANT MCLaws
CHECK_DEADLOCK FALSE
