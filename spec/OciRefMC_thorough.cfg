SPECIFICATION Spec
CONSTANTS
  MaxFlat = 5
  MaxMacroFlat = 3
  PartsLevel = 2
INVARIANT MCLaws
INVARIANT Emit
CHECK_DEADLOCK FALSE
