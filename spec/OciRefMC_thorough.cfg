SPECIFICATION Spec
CONSTANTS
  Base = {"a", "x", "A", "0", ".", "-", "_", ":", "/", "@", "[", "]", "!"}
  MaxFlat = 5
  FullLen = 4
  MaxMacroFlat = 3
  PartsLevel = 2
INVARIANT MCLaws
CHECK_DEADLOCK FALSE
