SPECIFICATION MCSpec
CONSTANTS
  DefaultN = 1000
  Fuel = 10
  Tier = "quick"
  SampleMod = 24
INVARIANTS PagingLossless PrefixDelivered OnlyListed NoDuplicates Ascending StrictlyAfterStart ErrorOnlyWithCause DeclinedAtK BoundedRequests Reiterable ClosedFormAgrees Emit
PROPERTIES StopsWhenDeclined Terminates
CHECK_DEADLOCK FALSE
