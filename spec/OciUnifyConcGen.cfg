SPECIFICATION Spec
CONSTANTS
  Hist = TRUE
INVARIANT Emit
CHECK_DEADLOCK FALSE
