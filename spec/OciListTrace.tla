---------------------------- MODULE OciListTrace ----------------------------
(***************************************************************************)
(* Trace validation for C05.  The trace (ndjson, env TRACE_FILE) starts    *)
(* with a header line; then, per case, a `reset` line and one `list` line: *)
(* the stack (the node records of OciList, sets as arrays), the kind of    *)
(* listing, the start position a, the consumer's stop point k, and what    *)
(* the real code did: every page request the recording handlers saw        *)
(* (reqs) and every call of the consumer (calls), plus the number of calls *)
(* made after the consumer declined or an error was delivered (after).     *)
(* The step requires the recorded requests and calls to be exactly         *)
(* Observed(Stream(stack, a), k), and then evaluates the properties of      *)
(* OciList on the RECORDED calls.                                          *)
(***************************************************************************)
EXTENDS OciList, Json, IOUtils, TraceHdr

VARIABLE l      \* next trace line
Trace == ndJsonDeserialize(IOEnv.TRACE_FILE)
TrDefaultN == Hdr.defaultN

RECURSIVE Conv(_)
Conv(j) ==
  CASE j.t = "mem" -> [t |-> "mem", s |-> ToSet(j.s), absent |-> j.absent]
    [] j.t = "http" -> [t |-> "http", hop |-> j.hop, n |-> j.n, max |-> j.max, link |-> j.link, x |-> Conv(j.x)]
    [] j.t = "select" -> [t |-> "select", p |-> ToSet(j.p), x |-> Conv(j.x)]
    [] j.t = "sub" -> [t |-> "sub", lo |-> j.lo, cnt |-> j.cnt, x |-> Conv(j.x)]
    [] j.t = "unify" -> [t |-> "unify", x |-> Conv(j.x), y |-> Conv(j.y)]
    [] j.t = "debug" -> [t |-> "debug", x |-> Conv(j.x)]
    [] j.t = "fail" -> [t |-> "fail", at |-> j.at, x |-> Conv(j.x)]

\* a recorded page request r against the specification's q
ReqMatch(r, q) ==
  /\ r.hop = q.hop /\ r.n = q.n /\ r.last = q.last /\ r.code = q.code
  /\ r.cnt = q.cnt
  /\ r.link = q.link
  /\ q.code = "" => r.status = 200
  /\ q.link => r.linklast = q.linklast /\ r.linkn = q.n /\ r.linksame
\* a recorded consumer call c against the specification's y
CallMatch(c, y) ==
  /\ c.e = y.e
  /\ y.e = "item" => c.x = y.x
  /\ y.e = "err" => y.code \in ToSet(c.is)
SeqMatch(rec, exp, M(_, _)) == Len(rec) = Len(exp) /\ \A j \in 1..Len(rec) : M(rec[j], exp[j])

RecordedCall(c) == IF c.e = "item" THEN Item(c.x) ELSE Err(IF c.is = <<>> THEN "?" ELSE c.is[1])

\* the properties of OciList on recorded values
Props(c, cs, nr, s) ==
  /\ LosslessOf(c, cs, s) /\ PrefixOf(c, cs, s) /\ OnlyListedOf(c, cs) /\ NoDuplicatesOf(cs) /\ AscendingOf(cs)
  /\ AfterStartOf(c, cs) /\ ErrorCauseOf(c, cs, s) /\ DeclinedAtKOf(c, cs, s) /\ BoundedOf(c, nr, s)

FinOf(c, rc) == IF rc # <<>> /\ rc[Len(rc)].e = "err" THEN "failed"
                ELSE IF c.k > 0 /\ Len(rc) = c.k THEN "declined" ELSE "done"

IsEvent(op) == l <= Len(Trace) /\ Trace[l].op = op

TraceReset == IsEvent("reset") /\ l' = l + 1 /\ UNCHANGED vars

\* One run of a listing value: p = [k, reqs, calls, after, runaway] against the stream str.
PassOK(c, str, p) ==
  LET ck == [c EXCEPT !.k = p.k]
      o == Observed(str, p.k)
      rc == [j \in 1..Len(p.calls) |-> RecordedCall(p.calls[j])]
  IN /\ p.after = 0                 \* no call after a decline or after an error
     /\ ~p.runaway
     /\ SeqMatch(p.reqs, Reqs(o), ReqMatch)
     /\ SeqMatch(p.calls, Yields(o), CallMatch)
     \* the properties, evaluated on what the real iterator delivered
     /\ Props(ck, rc, Len(p.reqs), FinOf(ck, rc))

\* The listing value is obtained once and run several times (e.more: the runs after the
\* first): the first run includes what creating the value did, the later ones do not.
TraceList ==
  /\ IsEvent("list")
  /\ LET e == Trace[l]
         c == [kind |-> e.kind, a |-> e.a, k |-> e.k, cut |-> e.cut, node |-> Conv(e.node)]
         s == Run(c)
         s2 == Again(c.node, c.a, c.kind)
         first == [k |-> e.k, reqs |-> e.reqs, calls |-> e.calls, after |-> e.after, runaway |-> e.runaway]
         rc == [j \in 1..Len(e.calls) |-> RecordedCall(e.calls[j])]
     IN /\ PassOK(c, s, first)
        /\ e.cut >= 0 => e.more = <<>>     \* (a listing whose context is done is run once)
        /\ \A j \in 1..Len(e.more) : PassOK(c, s2, e.more[j])
        /\ cfg' = c /\ stream' = s /\ i' = Len(Observed(s, c.k)) /\ calls' = rc /\ nreq' = Len(e.reqs) /\ st' = FinOf(c, rc)
  /\ l' = l + 1

\* Large universes (one hop over a registry holding all of 1..m): the calls are recorded as
\* maximal runs of consecutive ranks, the specification is the closed form Big.
BigPassOK(nd, m, a, p) ==
  LET b == Big(nd, m, a, p.k) IN
  /\ p.after = 0 /\ ~p.runaway
  /\ SeqMatch(p.reqs, b.reqs, ReqMatch)
  /\ Len(p.runs) = Len(b.runs) /\ \A j \in 1..Len(p.runs) : p.runs[j] = b.runs[j]
  /\ IF b.err = "" THEN p.errs = <<>> ELSE Len(p.errs) = 1 /\ b.err \in ToSet(p.errs[1])
TraceBig ==
  /\ IsEvent("biglist")
  /\ LET e == Trace[l]  nd == Conv(e.node) IN
       /\ nd.t = "http" /\ nd.x.t = "mem" /\ nd.x.s = {} /\ e.m > 0    \* (the m items are not spelled out)
       /\ \A j \in 1..Len(e.passes) : BigPassOK(nd, e.m, e.a, e.passes[j])
  /\ l' = l + 1 /\ UNCHANGED vars

TInit == /\ l = 2
         /\ cfg = [kind |-> "none"] /\ stream = <<>> /\ i = 0 /\ calls = <<>> /\ nreq = 0 /\ st = "start"
TNext == TraceReset \/ TraceList \/ TraceBig
TSpec == TInit /\ [][TNext]_<<l, vars>>
Accepted == TLCGet("stats").diameter = Len(Trace)
=============================================================================
