---------------------------- MODULE OciListTrace ----------------------------
(***************************************************************************)
(* Trace validation for C05.  The trace (ndjson, env TRACE_FILE) starts    *)
(* with a header line; then, per case, a `reset` line and one `list` line: *)
(* the stack (the node records of OciList, sets as arrays), the kind of    *)
(* listing, the start position a, the consumer's stop point k, and what    *)
(* the real code did: every page request the recording handlers saw        *)
(* (reqs) and every call of the consumer (calls), plus the number of calls *)
(* made after the consumer declined or an error was delivered (after).     *)
(* The step requires the recorded requests and calls to be exactly         *)
(* Observed(Stream(stack, a), k), and then evaluates the properties of      *)
(* OciList on the RECORDED calls.                                          *)
(***************************************************************************)
EXTENDS OciList, Json, IOUtils, TraceHdr

VARIABLE l      \* next trace line
Trace == ndJsonDeserialize(IOEnv.TRACE_FILE)
TrDefaultN == Hdr.defaultN

RECURSIVE Conv(_)
Conv(j) ==
  CASE j.t = "mem" -> [t |-> "mem", s |-> ToSet(j.s), absent |-> j.absent]
    [] j.t = "http" -> [t |-> "http", hop |-> j.hop, n |-> j.n, max |-> j.max, link |-> j.link, x |-> Conv(j.x)]
    [] j.t = "select" -> [t |-> "select", p |-> ToSet(j.p), x |-> Conv(j.x)]
    [] j.t = "sub" -> [t |-> "sub", lo |-> j.lo, cnt |-> j.cnt, x |-> Conv(j.x)]
    [] j.t = "unify" -> [t |-> "unify", x |-> Conv(j.x), y |-> Conv(j.y)]
    [] j.t = "debug" -> [t |-> "debug", x |-> Conv(j.x)]

\* a recorded page request r against the specification's q
ReqMatch(r, q) ==
  /\ r.hop = q.hop /\ r.n = q.n /\ r.last = q.last /\ r.code = q.code
  /\ r.cnt = q.cnt
  /\ r.link = q.link
  /\ q.code = "" => r.status = 200
  /\ q.link => r.linklast = q.linklast /\ r.linkn = q.n /\ r.linksame
\* a recorded consumer call c against the specification's y
CallMatch(c, y) ==
  /\ c.e = y.e
  /\ y.e = "item" => c.x = y.x
  /\ y.e = "err" => y.code \in ToSet(c.is)
SeqMatch(rec, exp, M(_, _)) == Len(rec) = Len(exp) /\ \A j \in 1..Len(rec) : M(rec[j], exp[j])

RecordedCall(c) == IF c.e = "item" THEN Item(c.x) ELSE Err(IF c.is = <<>> THEN "?" ELSE c.is[1])

\* the properties of OciList on recorded values
Props(c, cs, nr, s) ==
  /\ LosslessOf(c, cs, s) /\ PrefixOf(c, cs, s) /\ OnlyListedOf(c, cs) /\ NoDuplicatesOf(cs) /\ AscendingOf(cs)
  /\ AfterStartOf(c, cs) /\ ErrorCauseOf(c, cs, s) /\ DeclinedAtKOf(c, cs, s) /\ BoundedOf(c, nr, s)

IsEvent(op) == l <= Len(Trace) /\ Trace[l].op = op

TraceReset == IsEvent("reset") /\ l' = l + 1 /\ UNCHANGED vars

TraceList ==
  /\ IsEvent("list")
  /\ LET e == Trace[l]
         c == [kind |-> e.kind, a |-> e.a, k |-> e.k, node |-> Conv(e.node)]
         s == Stream(c.node, c.a, c.kind)
         o == Observed(s, c.k)
         rc == [j \in 1..Len(e.calls) |-> RecordedCall(e.calls[j])]
         fin == IF rc # <<>> /\ rc[Len(rc)].e = "err" THEN "failed"
                ELSE IF c.k > 0 /\ Len(rc) = c.k THEN "declined" ELSE "done"
     IN /\ e.after = 0                 \* no call after a decline or after an error
        /\ ~e.runaway
        /\ SeqMatch(e.reqs, Reqs(o), ReqMatch)
        /\ SeqMatch(e.calls, Yields(o), CallMatch)
        \* the properties, evaluated on what the real iterator delivered
        /\ Props(c, rc, Len(e.reqs), fin)
        /\ cfg' = c /\ stream' = s /\ i' = Len(o) /\ calls' = rc /\ nreq' = Len(e.reqs) /\ st' = fin
  /\ l' = l + 1

TInit == /\ l = 2
         /\ cfg = [kind |-> "none"] /\ stream = <<>> /\ i = 0 /\ calls = <<>> /\ nreq = 0 /\ st = "start"
TNext == TraceReset \/ TraceList
TSpec == TInit /\ [][TNext]_<<l, vars>>
Accepted == TLCGet("stats").diameter = Len(Trace)
=============================================================================
