SPECIFICATION GSpec
CONSTANTS
  Repos = {"r1"}
  Tags = {}
  Cids = {"b0", "b1", "b2", "b3", "b4"}
  BlobIds = {"b0", "b1", "b2", "b3", "b4"}
  ManIds = {}
  Cat <- UCat
  UploadIds = {"u1"}
  ImmChoices = {FALSE}
  BlockSize = 8
  Pos <- UPos
  Honest = TRUE
  MinChunk = 1
  Hints = {0, 1, 2, 3}
  MaxSent = 4
  GenDepth = 12
CHECK_DEADLOCK FALSE
