SPECIFICATION OTSpec
CONSTANTS
  Repos <- TrRepos
  Tags <- TrTags
  Cids <- OTCids
  BlobIds = {}
  ManIds = {}
  Cat <- OTCat
  UploadIds <- TrUploads
  ImmChoices = {FALSE}
  BlockSize <- TrBlockSize
  Pos <- OTPos
  K1_DeclaredTypeGoverns = FALSE
  F12_PushBlobUncoded = FALSE
  OT1_PanicOnUnknownBlob = FALSE
POSTCONDITION Accepted
CHECK_DEADLOCK FALSE
