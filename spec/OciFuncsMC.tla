----------------------------- MODULE OciFuncsMC -----------------------------
(***************************************************************************)
(* Exhaustive configurations of OciFuncs, and the export of every case     *)
(* with its predicted outcome (direction A).                               *)
(*                                                                         *)
(* CaseSpec (OciFuncsMC.cfg): one initial state per case                   *)
(*    18 methods x Family (each field alone, all but one, all, none)       *)
(*    x constructor set/unset x nil/non-nil table  = 2 736 states;         *)
(*    every state is checked for the per-case properties, and every        *)
(*    realizable case is printed as an MBT line for the harness (a nil     *)
(*    table has no fields, so of the nil-table cases only F = {} without   *)
(*    constructor is exported; a delegating case is exported once per stub *)
(*    return mode).                                                        *)
(* TableSpec (OciFuncsMC_full.cfg): one state per table value,             *)
(*    ALL 2^18 field subsets x constructor x nil/non-nil = 1 048 576       *)
(*    states, each checked for all 18 methods.                             *)
(***************************************************************************)
EXTENDS OciFuncs, Json, TLC

VARIABLE c

Family == {{f} : f \in Methods} \cup {Methods \ {f} : f \in Methods} \cup {Methods, {}}

\* The pairwise form of the property over the whole family, evaluated once.
ASSUME OwnFieldOnly(Family)

PropsAt(m, F, custom, nilRecv) ==
  /\ OwnFieldOnlyAt(m, F, custom, nilRecv)
  /\ TotalAt(m, F, custom, nilRecv)
  /\ NilIsEmptyAt(m, F, custom, nilRecv)
  /\ IterOnceAt(m, F, custom, nilRecv)

-----------------------------------------------------------------------------
CaseInit == c \in [m : Methods, F : Family, custom : BOOLEAN, nilRecv : BOOLEAN]
CaseNext == UNCHANGED c
CaseSpec == CaseInit /\ [][CaseNext]_c
CaseProps == PropsAt(c.m, c.F, c.custom, c.nilRecv)

Realizable == c.nilRecv => (c.F = {} /\ ~c.custom)
\* The stub installed in m's field is programmed by the harness to return a value and no
\* error ("val") or a value together with an error ("err"); both are tried where it matters.
\* or, in the field-set family, the zero value of every result type with a nil error ("zero": nil
\* reader / writer / iterator, zero descriptor) or with an error ("zeroerr").  A delegating call
\* returns the delegate's results verbatim, whatever they are.
SretsFor(o) == IF o.kind = "delegate" THEN {"val", "err"} ELSE {"val"}
SretsAll(m, o) == IF o.kind # "delegate" THEN {"val"}
                  ELSE {"val", "err", "zero", "zeroerr"} \cup (IF m \in IterMethods THEN {"mid"} ELSE {})
\* (stub mode, constructor kind) variants of one case of the field-set family: a delegating case under
\* every stub mode ("mid": an iterator with errors in the middle) and, if a constructor is set, also
\* with one that would panic (it must not be invoked); an unset method under every constructor kind.
Variants(m, o, custom) ==
  CASE o.kind = "delegate" -> {<<s, IF custom THEN "tag" ELSE "none">> : s \in SretsAll(m, o)}
                              \cup (IF custom THEN {<<"val", "panic">>} ELSE {})
    [] o.kind = "custom" -> {<<"val", k>> : k \in CtorKinds}
    [] OTHER -> {<<"val", IF custom THEN "tag" ELSE "none">>}
Export ==
  Realizable =>
    LET o == Call(c.m, c.F, c.custom, c.nilRecv)
        x == Effects(c.m, o) IN
    \A v \in Variants(c.m, o, c.custom) :
      PrintT(<<"MBT", ToJson([m |-> c.m, F |-> c.F, custom |-> c.custom, nilrecv |-> c.nilRecv, sret |-> v[1], ck |-> v[2],
                              panics |-> (o.kind = "custom" /\ CtorPanics(v[2])),
                              pred |-> o.kind, to |-> o.to, ctors |-> x.ctors,
                              values |-> x.values, error |-> x.error, yields |-> x.yields])>>)

-----------------------------------------------------------------------------
(* ArgSpec (OciFuncsMC_args.cfg): the cases again over the special argument values:        *)
(* 18 methods x {each field alone, all, none, all but the own} x constructor (another      *)
(* field alone: without constructor only) x every                                          *)
(* argument profile of the method (156 in total), plus the nil table per profile;         *)
ArgFamily(m) == {{f} : f \in Methods} \cup {Methods, {}, Methods \ {m}}
\* ... and over the contexts: the same field sets under a cancelled, an expired and the nil
\* context, with generated ordinary arguments (av = <<>>).
ArgInit ==
  c \in UNION {
         {[m |-> m, F |-> F, custom |-> cu, nilRecv |-> FALSE, av |-> av, cx |-> "live"] :
              F \in {{}, {m}, Methods, Methods \ {m}}, cu \in BOOLEAN, av \in ArgProfiles(m)}
         \cup {[m |-> m, F |-> {f}, custom |-> FALSE, nilRecv |-> FALSE, av |-> av, cx |-> "live"] :
              f \in Methods \ {m}, av \in ArgProfiles(m)}   \* another field alone: without constructor only
         \cup {[m |-> m, F |-> {}, custom |-> FALSE, nilRecv |-> TRUE, av |-> av, cx |-> "live"] : av \in ArgProfiles(m)}
         \cup {[m |-> m, F |-> F, custom |-> cu, nilRecv |-> FALSE, av |-> <<>>, cx |-> x] :
              F \in ArgFamily(m), cu \in BOOLEAN, x \in CtxVals \ {"live"}}
         \cup {[m |-> m, F |-> {}, custom |-> FALSE, nilRecv |-> TRUE, av |-> <<>>, cx |-> x] : x \in CtxVals \ {"live"}}
       : m \in Methods}
ArgSpec == ArgInit /\ [][UNCHANGED c]_c
ArgProps == PropsAt(c.m, c.F, c.custom, c.nilRecv) /\ ArgsIrrelevantAt(c.m, c.F, c.custom, c.nilRecv)
ArgExport ==
  LET o == CallWithArgs(c.m, c.F, c.custom, c.nilRecv, c.av, c.cx)
      x == Effects(c.m, o) IN
  \A s \in SretsFor(o) :
    PrintT(<<"MBT", ToJson([m |-> c.m, F |-> c.F, custom |-> c.custom, nilrecv |-> c.nilRecv, sret |-> s, av |-> c.av, cx |-> c.cx,
                            ck |-> (IF c.custom THEN "tag" ELSE "none"), panics |-> FALSE,
                            pred |-> o.kind, to |-> o.to, ctors |-> x.ctors,
                            values |-> x.values, error |-> x.error, yields |-> x.yields])>>)
-----------------------------------------------------------------------------
\* The subset lattice is walked from the empty table by setting one more field per step, so
\* that the enumeration is spread over TLC's workers (as 2^20 initial states: 2 min; so: 25 s).
TableInit == c \in [F : {{}}, custom : BOOLEAN, nilRecv : BOOLEAN]
TableNext == \E f \in Methods \ c.F : c' = [c EXCEPT !.F = @ \cup {f}]
TableSpec == TableInit /\ [][TableNext]_c
TableProps == \A m \in Methods : PropsAt(m, c.F, c.custom, c.nilRecv)
=============================================================================
