SPECIFICATION Spec
CONSTANTS
  Strs <- MCStrs
  Cls <- MCCls
  U <- MCU9
  PairIdx <- Idx9
INVARIANT Emit
CHECK_DEADLOCK FALSE
