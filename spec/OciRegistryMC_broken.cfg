SPECIFICATION Spec
CONSTANTS
  Repos = {"r1"}
  Tags = {"t1"}
  Cids = {"b0", "b1", "b2", "img", "idx", "idy", "sub", "bad", "idz"}
  BlobIds = {"b1"}
  ManIds = {"img", "bad", "idz"}
  Cat <- MCCat
  UploadIds = {}
  ImmChoices = {TRUE, FALSE}
  BlockSize = 8
  Pos <- MCPos
INVARIANTS TypeOK TaggedPresent
PROPERTIES TagStable TaggedStays ClosureKept FailedCallStoresNothing OnlyPushedAppears
CONSTRAINT BufBound
VIEW StateView
CHECK_DEADLOCK FALSE
