SPECIFICATION GSpec
CONSTANTS
  Repos = {"r1"}
  Tags = {"t1"}
  Cids = {"b0", "b1", "b2", "img", "idx", "idy", "sub", "bad"}
  BlobIds = {"b1", "b2"}
  ManIds = {"img", "idx", "idy", "sub"}
  Cat <- MCCat
  UploadIds = {}
  ImmChoices = {TRUE}
  BlockSize = 8192
  Pos <- MCPos
  GenDepth = 24
  GenKinds = {"PushBlob", "PushManifest", "DeleteBlob", "DeleteManifest", "DeleteTag", "GetTag", "GetBlob", "Referrers"}
CHECK_DEADLOCK FALSE
