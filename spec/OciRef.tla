------------------------------- MODULE OciRef -------------------------------
(***************************************************************************)
(* C17: the reference grammar of cue-labs/oci over SEQUENCES OF CHARACTER   *)
(* CODES (byte values 0..255).                                             *)
(*                                                                         *)
(*   reference  ::=  [ host "/" ] repository [ ":" tag ] [ "@" digest ]    *)
(*                                                                         *)
(* The four recognisers are explicit small automata over a partition of    *)
(* the bytes into character classes.  Splits(s) is the set of all          *)
(* decompositions of s whose parts satisfy their recognisers and limits;   *)
(* ParseRelative / Parse are defined from it; PrintRef is the printer.     *)
(* CodeParseRelative is the rule as the code is written (leftmost-first    *)
(* regexp match, then tag / digest / length checks on the captures); the   *)
(* model-checked law CodeRuleIsSplitRule says the two coincide.            *)
(* Route is ocirequest.parse for method GET over a URL path.               *)
(*                                                                         *)
(* Bound to ociregistry/ociref/reference.go, ociregistry/valid.go and      *)
(* ociregistry/internal/ocirequest/request.go by OciRefMC (direction A)    *)
(* and OciRefTrace (direction B).                                          *)
(***************************************************************************)
EXTENDS Integers, Sequences, FiniteSets

MaxTagLen == 128      \* checkTag: len(s) > 128 -> "tag too long"
MaxRepoLen == 255     \* ParseRelative: len(ref.Repository) > 255 (IsValidRepository has NO limit)

ChNl == 10
ChDash == 45
ChDot == 46
ChSlash == 47
ChColon == 58
ChAt == 64
ChLb == 91
ChRb == 93
ChUs == 95

\* ---------------------------------------------------------------- classes
\* A partition of the bytes.  "hexlow" = a-f, "lower" = g-z, "hexup" = A-F,
\* "upper" = G-Z; every byte >= 128 (so every non-ASCII rune and every
\* invalid UTF-8 byte) is "other".
ClassOf == [c \in 0..255 |->
  IF c \in 97..102 THEN "hexlow" ELSE IF c \in 103..122 THEN "lower"
  ELSE IF c \in 65..70 THEN "hexup" ELSE IF c \in 71..90 THEN "upper"
  ELSE IF c \in 48..57 THEN "digit"
  ELSE IF c = ChDot THEN "." ELSE IF c = ChDash THEN "-" ELSE IF c = ChUs THEN "_"
  ELSE IF c = ChColon THEN ":" ELSE IF c = ChSlash THEN "/" ELSE IF c = ChAt THEN "@"
  ELSE IF c = ChLb THEN "[" ELSE IF c = ChRb THEN "]"
  ELSE IF c = ChNl THEN "nl" ELSE "other"]
Cls(c) == IF c \in 0..255 THEN ClassOf[c] ELSE "other"

LowAlnum == {"hexlow", "lower", "digit"}                 \* [a-z0-9]
Alnum == LowAlnum \cup {"hexup", "upper"}                \* [a-zA-Z0-9]
WordCls == Alnum \cup {"_"}                              \* isWord
HexLow == {"hexlow", "digit"}                            \* [a-f0-9]
V6Cls == {"hexlow", "hexup", "digit", ":"}               \* [a-fA-F0-9:]

\* Runs a deterministic automaton from state st0 over s: f[i] is the state after s[1..i];
\* "bad" is the absorbing reject state of every automaton below.  (A recursive FUNCTION:
\* TLC evaluates it in about 1.5 us per character; a RECURSIVE operator costs ten times that.)
Run(Step(_, _), s, st0) ==
  LET f[i \in 0..Len(s)] == IF i = 0 THEN st0 ELSE Step(f[i - 1], Cls(s[i])) IN f[Len(s)]

IndexOf(s, c) ==                                         \* first position of c in s, 0 if none
  LET n == Len(s)
      g[i \in 1..(n + 1)] == IF i = n + 1 THEN 0 ELSE IF s[i] = c THEN i ELSE g[i + 1]
  IN g[1]
LastIndexOf(s, c) ==                                     \* last position of c in s, 0 if none
  LET g[i \in 0..Len(s)] == IF i = 0 THEN 0 ELSE IF s[i] = c THEN i ELSE g[i - 1]
  IN g[Len(s)]
Positions(s, c) == {i \in 1..Len(s) : s[i] = c}
From(s, i) == SubSeq(s, i, Len(s))                       \* s[i..]
HasPrefix(s, p) == Len(s) >= Len(p) /\ SubSeq(s, 1, Len(p)) = p
HasSuffix(s, p) == Len(s) >= Len(p) /\ SubSeq(s, Len(s) - Len(p) + 1, Len(s)) = p

\* ------------------------------------------------------------- repository
\* pathComponent ("/" pathComponent)*,  pathComponent = alnum+ (sep alnum+)*,
\* sep = "." | "_" | "__" | "-"+          (lower case and digits only)
RepoStep(st, k) ==
  CASE st = "start" -> IF k \in LowAlnum THEN "alnum" ELSE "bad"
    [] st = "alnum" -> IF k \in LowAlnum THEN "alnum"
                       ELSE IF k = "." THEN "sep" ELSE IF k = "_" THEN "us1"
                       ELSE IF k = "-" THEN "dash" ELSE IF k = "/" THEN "start" ELSE "bad"
    [] st = "sep"   -> IF k \in LowAlnum THEN "alnum" ELSE "bad"          \* after "." or "__"
    [] st = "us1"   -> IF k \in LowAlnum THEN "alnum" ELSE IF k = "_" THEN "sep" ELSE "bad"
    [] st = "dash"  -> IF k \in LowAlnum THEN "alnum" ELSE IF k = "-" THEN "dash" ELSE "bad"
    [] OTHER -> "bad"
IsRepository(s) == Run(RepoStep, s, "start") = "alnum"

\* -------------------------------------------------------------------- tag
\* word (word | "." | "-")*, at most 128 bytes.  The empty sequence is not a tag.
TagStep(st, k) ==
  CASE st = "t0" -> IF k \in WordCls THEN "t" ELSE "bad"
    [] st = "t"  -> IF k \in WordCls \/ k \in {".", "-"} THEN "t" ELSE "bad"
    [] OTHER -> "bad"
IsTag(s) == Len(s) <= MaxTagLen /\ Run(TagStep, s, "t0") = "t"

\* ------------------------------------------------------------------- host
\* label ("." label)+ [":" port] | label ":" port | "[" v6+ "]" [":" port]
\* label = alnum ((alnum | "-")* alnum)?   port = digit+
\* lab0/dash0: inside the first label; lab1/dash1: inside a later one (a dot was seen).
HostStep(st, k) ==
  CASE st = "h0"    -> IF k \in Alnum THEN "lab0" ELSE IF k = "[" THEN "v6open" ELSE "bad"
    [] st = "lab0"  -> IF k \in Alnum THEN "lab0" ELSE IF k = "-" THEN "dash0"
                       ELSE IF k = "." THEN "dot" ELSE IF k = ":" THEN "colon" ELSE "bad"
    [] st = "dash0" -> IF k \in Alnum THEN "lab0" ELSE IF k = "-" THEN "dash0" ELSE "bad"
    [] st = "dot"   -> IF k \in Alnum THEN "lab1" ELSE "bad"
    [] st = "lab1"  -> IF k \in Alnum THEN "lab1" ELSE IF k = "-" THEN "dash1"
                       ELSE IF k = "." THEN "dot" ELSE IF k = ":" THEN "colon" ELSE "bad"
    [] st = "dash1" -> IF k \in Alnum THEN "lab1" ELSE IF k = "-" THEN "dash1" ELSE "bad"
    [] st = "v6open" -> IF k \in V6Cls THEN "v6in" ELSE "bad"
    [] st = "v6in"  -> IF k \in V6Cls THEN "v6in" ELSE IF k = "]" THEN "v6close" ELSE "bad"
    [] st = "v6close" -> IF k = ":" THEN "colon" ELSE "bad"
    [] st = "colon" -> IF k = "digit" THEN "port" ELSE "bad"
    [] st = "port"  -> IF k = "digit" THEN "port" ELSE "bad"
    [] OTHER -> "bad"
IsHost(s) == Run(HostStep, s, "h0") \in {"lab1", "v6close", "port"}

\* ----------------------------------------------------------------- digest
\* go-digest v1.0.0 Digest.Validate: the text before the FIRST ":" must be a registered
\* AND linked-in algorithm (sha256 / sha384 / sha512), the rest exactly 64 / 96 / 128
\* characters of [a-f0-9].  For every other algorithm name Validate returns an error
\* (ErrDigestUnsupported if the text is well formed, ErrDigestInvalidFormat if not), so
\* no other algorithm is ever accepted: that is what is modelled.
Sha256 == <<115, 104, 97, 50, 53, 54>>
Sha384 == <<115, 104, 97, 51, 56, 52>>
Sha512 == <<115, 104, 97, 53, 49, 50>>
Algorithms == {[name |-> Sha256, hex |-> 64], [name |-> Sha384, hex |-> 96], [name |-> Sha512, hex |-> 128]}
IsDigest(s) ==
  LET i == IndexOf(s, ChColon) IN
  /\ i > 1 /\ i < Len(s)
  /\ \E a \in Algorithms :
       /\ Len(s) - i = a.hex
       /\ SubSeq(s, 1, i - 1) = a.name
       /\ \A k \in (i + 1)..Len(s) : Cls(s[k]) \in HexLow

\* ------------------------------------------------------- print and splits
NoRef == [host |-> <<>>, repo |-> <<>>, tag |-> <<>>, digest |-> <<>>]
PrintRef(p) ==
  (IF p.host # <<>> THEN p.host \o <<ChSlash>> ELSE <<>>) \o p.repo
  \o (IF p.tag # <<>> THEN <<ChColon>> \o p.tag ELSE <<>>)
  \o (IF p.digest # <<>> THEN <<ChAt>> \o p.digest ELSE <<>>)

ValidParts(p) ==
  /\ p.host = <<>> \/ IsHost(p.host)
  /\ IsRepository(p.repo) /\ Len(p.repo) <= MaxRepoLen
  /\ p.tag = <<>> \/ IsTag(p.tag)
  /\ p.digest = <<>> \/ IsDigest(p.digest)

\* The decomposition of s that cuts a host before position i (a "/"; 0 = no host), a tag
\* after position j (a ":"; 0 = no tag) and a digest after position k (an "@"; 0 = none).
Cut(s, i, j, k) ==
  LET n == Len(s)
      rEnd == IF j > 0 THEN j - 1 ELSE IF k > 0 THEN k - 1 ELSE n
      tEnd == IF k > 0 THEN k - 1 ELSE n
  IN [host |-> SubSeq(s, 1, i - 1), repo |-> SubSeq(s, i + 1, rEnd),
      tag |-> IF j > 0 THEN SubSeq(s, j + 1, tEnd) ELSE <<>>,
      digest |-> IF k > 0 THEN SubSeq(s, k + 1, n) ELSE <<>>]

\* Every p with PrintRef(p) = s cuts s at a "/", a ":" and an "@" in that order, so it is
\* enough to try those positions.  (The host filter is only a shortcut: ValidParts
\* repeats it.)
Splits(s) ==
  LET HostCuts == {i \in {0} \cup Positions(s, ChSlash) : i = 0 \/ IsHost(SubSeq(s, 1, i - 1))}
      TagCuts(i) == {0} \cup {j \in Positions(s, ChColon) : j > i}
      DigCuts(i, j) == {0} \cup {k \in Positions(s, ChAt) : k > i /\ k > j}
      Cand == UNION {UNION {{Cut(s, i, j, k) : k \in DigCuts(i, j)} : j \in TagCuts(i)} : i \in HostCuts}
  IN {p \in Cand : ValidParts(p) /\ PrintRef(p) = s}

Fail == [ok |-> FALSE, ref |-> NoRef]
Ok(p) == [ok |-> TRUE, ref |-> p]
\* ParseRelative: the hosted split if there is one, else the host-less one, else an error.
\* (Uniqueness of either kind is the law AtMostOneSplitOfEachKind.)
ParseRelativeOf(S) ==
  LET H == {p \in S : p.host # <<>>} IN
  IF H # {} THEN Ok(CHOOSE p \in H : TRUE)
  ELSE IF S # {} THEN Ok(CHOOSE p \in S : TRUE) ELSE Fail
\* Parse: the same, but a reference without a host is an error.
ParseOf(S) == LET r == ParseRelativeOf(S) IN IF r.ok /\ r.ref.host # <<>> THEN r ELSE Fail
ParseRelative(s) == ParseRelativeOf(Splits(s))
Parse(s) == ParseOf(Splits(s))

\* ------------------------------------------------- the rule as coded (regexp)
\* referencePat = ^(?:(?:(HOST)/)?(REPO)(?::([^@]+))?(?:@(.+))?)$ with leftmost-first
\* semantics: the optional host group is tried first, so a match with a host is preferred
\* whenever one exists.  The host cannot contain "/", the repository neither ":" nor "@",
\* the tag capture no "@": every boundary is at the FIRST such character.  "." does not
\* match a newline.  Bytes >= 128 are matched by [^@] and "." (as U+FFFD or as runes).
RxRest(u) ==    \* REPO(:TAG)?(@DIGEST)? anchored on u; the captures, or ok = FALSE
  LET n == Len(u)
      c == IndexOf(u, ChColon)
      a == IndexOf(u, ChAt)
      j == IF c > 0 /\ (a = 0 \/ c < a) THEN c ELSE 0       \* a tag capture starts after j
      rEnd == IF j > 0 THEN j - 1 ELSE IF a > 0 THEN a - 1 ELSE n
      tEnd == IF a > 0 THEN a - 1 ELSE n
      tag == IF j > 0 THEN SubSeq(u, j + 1, tEnd) ELSE <<>>
      dig == IF a > 0 THEN SubSeq(u, a + 1, n) ELSE <<>>
  IN IF /\ IsRepository(SubSeq(u, 1, rEnd))
        /\ j > 0 => tag # <<>>
        /\ a > 0 => (dig # <<>> /\ IndexOf(dig, ChNl) = 0)
     THEN [ok |-> TRUE, repo |-> SubSeq(u, 1, rEnd), tag |-> tag, digest |-> dig]
     ELSE [ok |-> FALSE, repo |-> <<>>, tag |-> <<>>, digest |-> <<>>]
RxMatch(s) ==
  LET i == IndexOf(s, ChSlash)
      hosted == IF i > 1 /\ IsHost(SubSeq(s, 1, i - 1)) THEN RxRest(From(s, i + 1)) ELSE RxRest(<<>>)
      bare == RxRest(s)
  IN IF hosted.ok THEN [ok |-> TRUE, host |-> SubSeq(s, 1, i - 1), repo |-> hosted.repo, tag |-> hosted.tag, digest |-> hosted.digest]
     ELSE IF bare.ok THEN [ok |-> TRUE, host |-> <<>>, repo |-> bare.repo, tag |-> bare.tag, digest |-> bare.digest]
     ELSE [ok |-> FALSE, host |-> <<>>, repo |-> <<>>, tag |-> <<>>, digest |-> <<>>]
CodeParseRelative(s) ==
  LET m == RxMatch(s) IN
  IF ~m.ok THEN Fail
  ELSE IF m.digest # <<>> /\ ~IsDigest(m.digest) THEN Fail
  ELSE IF m.tag # <<>> /\ ~IsTag(m.tag) THEN Fail
  ELSE IF Len(m.repo) > MaxRepoLen THEN Fail
  ELSE Ok([host |-> m.host, repo |-> m.repo, tag |-> m.tag, digest |-> m.digest])
CodeParse(s) == LET r == CodeParseRelative(s) IN IF r.ok /\ r.ref.host # <<>> THEN r ELSE Fail

\* ------------------------------------------------------------------ router
\* ocirequest.parse(method = "GET", URL path p, empty query), reduced to what reaches the
\* backend: call = the ociregistry.Interface method ociserver invokes first ("-" = none),
\* repo / ref = its repository and tag-or-digest arguments.  kind "uploadinfo" is
\* GET /v2/<repo>/blobs/uploads/<id>: the upload-id codec is outside C17, so there the
\* model only fixes the repository (the call may or may not happen).
W_v2 == <<47, 118, 50>>                                                   \* "/v2"
W_v2s == <<47, 118, 50, 47>>                                              \* "/v2/"
W_catalog == <<95, 99, 97, 116, 97, 108, 111, 103>>                       \* "_catalog"
W_sblobsuploadss == <<47, 98, 108, 111, 98, 115, 47, 117, 112, 108, 111, 97, 100, 115, 47>>  \* "/blobs/uploads/"
W_sblobsuploads == <<47, 98, 108, 111, 98, 115, 47, 117, 112, 108, 111, 97, 100, 115>>       \* "/blobs/uploads"
W_sblobs == <<47, 98, 108, 111, 98, 115>>                                 \* "/blobs"
W_blobs == <<98, 108, 111, 98, 115>>                                      \* "blobs"
W_uploads == <<117, 112, 108, 111, 97, 100, 115>>                         \* "uploads"
W_manifests == <<109, 97, 110, 105, 102, 101, 115, 116, 115>>             \* "manifests"
W_tags == <<116, 97, 103, 115>>                                           \* "tags"
W_list == <<108, 105, 115, 116>>                                          \* "list"
W_referrers == <<114, 101, 102, 101, 114, 114, 101, 114, 115>>            \* "referrers"

RErr == [kind |-> "error", call |-> "-", repo |-> <<>>, ref |-> <<>>]
RCall(kind, call, repo, ref) == [kind |-> kind, call |-> call, repo |-> repo, ref |-> ref]
Route(p) ==
  IF p = W_v2 \/ p = W_v2s THEN RCall("ping", "-", <<>>, <<>>)
  ELSE IF ~HasPrefix(p, W_v2s) THEN RErr
  ELSE LET q == From(p, 5) IN
  IF q = W_catalog THEN RCall("catalog", "Repositories", <<>>, <<>>)
  ELSE IF HasSuffix(q, W_sblobsuploadss) \/ HasSuffix(q, W_sblobsuploads) THEN RErr   \* POST only
  ELSE LET i == LastIndexOf(q, ChSlash) IN
  IF i = 0 THEN RErr
  ELSE LET last == From(q, i + 1)
           rest == SubSeq(q, 1, i - 1)
           j == LastIndexOf(rest, ChSlash) IN
  IF j = 0 THEN RErr
  ELSE LET word == From(rest, j + 1)
           repo == SubSeq(rest, 1, j - 1) IN
  IF word = W_blobs THEN
       IF IsDigest(last) /\ IsRepository(repo) THEN RCall("blob", "GetBlob", repo, last) ELSE RErr
  ELSE IF word = W_manifests THEN
       IF ~IsRepository(repo) THEN RErr
       ELSE IF IsDigest(last) THEN RCall("manifest", "GetManifest", repo, last)
       ELSE IF IsTag(last) THEN RCall("manifest", "GetTag", repo, last)
       ELSE RErr
  ELSE IF word = W_tags THEN
       IF last = W_list /\ IsRepository(repo) THEN RCall("tags", "Tags", repo, <<>>) ELSE RErr
  ELSE IF word = W_referrers THEN
       IF IsDigest(last) /\ IsRepository(repo) THEN RCall("referrers", "Referrers", repo, last) ELSE RErr
  ELSE IF word = W_uploads THEN
       IF HasSuffix(repo, W_sblobs) /\ IsRepository(SubSeq(repo, 1, Len(repo) - 6)) /\ last # <<>>
       THEN RCall("uploadinfo", "PushBlobChunkedResume", SubSeq(repo, 1, Len(repo) - 6), <<>>) ELSE RErr
  ELSE RErr

ManifestPath(repo, x) == W_v2s \o repo \o <<ChSlash>> \o W_manifests \o <<ChSlash>> \o x
BlobPath(repo, x) == W_v2s \o repo \o <<ChSlash>> \o W_blobs \o <<ChSlash>> \o x
TagsPath(repo) == W_v2s \o repo \o <<ChSlash>> \o W_tags \o <<ChSlash>> \o W_list
ReferrersPath(repo, x) == W_v2s \o repo \o <<ChSlash>> \o W_referrers \o <<ChSlash>> \o x

\* ------------------------------------------------------------------- laws
\* (predicates over one string s; OciRefMC enumerates s.  TLC does not memoise operator
\* applications, so the laws take the split set and the parse results as arguments and
\* Laws(s) computes each once.)
AnyRepo == <<102, 111, 111>>   \* "foo"

PredicatesTotal(s) ==
  /\ IsHost(s) \in BOOLEAN /\ IsRepository(s) \in BOOLEAN /\ IsTag(s) \in BOOLEAN /\ IsDigest(s) \in BOOLEAN
  /\ ~IsHost(<<>>) /\ ~IsRepository(<<>>) /\ ~IsTag(<<>>) /\ ~IsDigest(<<>>)

AtMostOneHostedSplit(S) == Cardinality({p \in S : p.host # <<>>}) <= 1
AtMostOneHostlessSplit(S) == Cardinality({p \in S : p.host = <<>>}) <= 1

\* r = the result of parsing s: if defined, printing it gives back s and every part is valid
PartitionExactFor(r, s) ==
  r.ok => /\ PrintRef(r.ref) = s
          /\ r.ref.host = <<>> \/ IsHost(r.ref.host)
          /\ IsRepository(r.ref.repo) /\ Len(r.ref.repo) <= MaxRepoLen
          /\ r.ref.tag = <<>> \/ IsTag(r.ref.tag)
          /\ r.ref.digest = <<>> \/ IsDigest(r.ref.digest)

\* valid parts with a non-empty host print to a string that parses back to the same parts
PrintParseFor(p) ==
  (ValidParts(p) /\ p.host # <<>>) =>
     LET c == PrintRef(p) IN
     /\ Parse(c) = Ok(p) /\ ParseRelative(c) = Ok(p)
     /\ CodeParse(c) = Ok(p) /\ CodeParseRelative(c) = Ok(p)

DigestTagDisjoint(s) == ~(IsDigest(s) /\ IsTag(s))

\* what the router accepts as a repository / tag / digest path element is exactly what the
\* predicates accept
RouterAgrees(s) ==
  LET isRepo == IsRepository(s)
      isTag == IsTag(s)
      isDig == IsDigest(s)
      slash == IndexOf(s, ChSlash) > 0
  IN
  /\ Route(TagsPath(s)) = (IF isRepo THEN RCall("tags", "Tags", s, <<>>) ELSE RErr)
  /\ Route(ManifestPath(s, <<97>>)) = (IF isRepo THEN RCall("manifest", "GetTag", s, <<97>>) ELSE RErr)
  /\ LET r == Route(ManifestPath(AnyRepo, s)) IN
       /\ isDig <=> r = RCall("manifest", "GetManifest", AnyRepo, s)
       /\ isTag <=> r = RCall("manifest", "GetTag", AnyRepo, s)
       /\ (~slash /\ ~isDig /\ ~isTag) => r = RErr
  /\ LET r == Route(BlobPath(AnyRepo, s)) IN
       /\ isDig <=> r = RCall("blob", "GetBlob", AnyRepo, s)
       /\ (~slash /\ ~isDig) => r = RErr
  /\ LET r == Route(ReferrersPath(AnyRepo, s)) IN
       isDig <=> r = RCall("referrers", "Referrers", AnyRepo, s)

LawsOn(s, S) ==      \* S = Splits(s)
  LET rel == ParseRelativeOf(S)
      abs == ParseOf(S)
      crel == CodeParseRelative(s)
      cabs == CodeParse(s)
  IN
  /\ PredicatesTotal(s)
  /\ AtMostOneHostedSplit(S) /\ AtMostOneHostlessSplit(S)
  \* PartitionExact, for the split rule and for the rule as coded
  /\ PartitionExactFor(rel, s) /\ PartitionExactFor(abs, s)
  /\ PartitionExactFor(crel, s) /\ PartitionExactFor(cabs, s)
  /\ abs.ok => abs.ref.host # <<>>
  /\ cabs.ok => cabs.ref.host # <<>>
  \* PrintParse over strings: p \in Splits(s) means ValidParts(p) /\ PrintRef(p) = s, so
  \* PrintParseFor(p) reads: every hosted split of s is what all four parsers return for s
  /\ \A p \in S : p.host # <<>> => (abs = Ok(p) /\ rel = Ok(p) /\ cabs = Ok(p) /\ crel = Ok(p))
  \* CodeRuleIsSplitRule: preferring the hosted regexp match and THEN checking its captures
  \* never differs from "the hosted split if one exists, else the host-less one" (a hosted
  \* regexp match whose captures fail the checks never hides a valid host-less reading)
  /\ crel = rel /\ cabs = abs
  /\ DigestTagDisjoint(s)
  /\ RouterAgrees(s)
Laws(s) == LawsOn(s, Splits(s))

\* everything the specification says about one string (what OciRefMC exports and what
\* OciRefTrace compares the implementation's outputs with)
VerdictOn(s, S) ==   \* S = Splits(s)
  [host |-> IsHost(s), repo |-> IsRepository(s), tag |-> IsTag(s), digest |-> IsDigest(s),
   rel |-> ParseRelativeOf(S), abs |-> ParseOf(S)]
Verdict(s) == VerdictOn(s, Splits(s))
\* ... in the shape that travels through JSON
RefSeq(p) == <<p.host, p.repo, p.tag, p.digest>>
SeqRef(q) == [host |-> q[1], repo |-> q[2], tag |-> q[3], digest |-> q[4]]
Export(v) == [valid |-> <<v.host, v.repo, v.tag, v.digest>>,
              rel |-> [ok |-> v.rel.ok, ref |-> RefSeq(v.rel.ref)],
              abs |-> [ok |-> v.abs.ok, ref |-> RefSeq(v.abs.ref)]]
=============================================================================
