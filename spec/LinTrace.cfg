SPECIFICATION LSpec
CONSTANTS
  Repos <- TrRepos
  Tags <- TrTags
  Cids <- TrCids
  BlobIds = {}
  ManIds = {}
  Cat <- TrCat
  UploadIds <- TrUploads
  ImmChoices = {FALSE}
  BlockSize <- TrBlockSize
  Pos <- TrPos
  K1_DeclaredTypeGoverns = FALSE
  F12_PushBlobUncoded = FALSE
  K3_CommitTwoPhase = FALSE
  MaxG = 8
CONSTRAINT HWC
POSTCONDITION LAccepted
VIEW LView
CHECK_DEADLOCK FALSE
