--------------------------- MODULE OciUnifyConc ---------------------------
(***************************************************************************)
(* ociunify.runReadConcurrent and its two callers (runReadBlobReader for   *)
(* GetBlob / GetBlobRange / GetManifest: the winner's context is cancelled *)
(* when the returned reader is closed; runRead for ResolveBlob /           *)
(* ResolveManifest: cancelled at return), as a PlusCal algorithm.          *)
(*                                                                         *)
(* Processes: main (the calling goroutine), sender 0/1 (the two goroutines *)
(* it starts), member 0/1 (the environment: the member registries' methods; *)
(* outcome ok / fail; mode normal = returns whenever it likes, or           *)
(* untilCancelled = returns only once its context is done; the reader it   *)
(* hands out closes cleanly or returns an error from Close), canceller and *)
(* closer (the caller: cancels the parent context at any point; reads the  *)
(* returned reader partially / to EOF and closes it at any points after    *)
(* the return).                                                            *)
(*                                                                         *)
(* Granularity: one step per channel operation.  `c` is unbuffered, so a   *)
(* send and the matching receive are one joint step (taken by main; the    *)
(* sender acknowledges).  What a goroutine does between two channel        *)
(* operations only sets monotone flags (reader closed, context cancelled)  *)
(* that are observed at quiescence, so it is merged into the step.         *)
(*                                                                         *)
(* The configuration (outcomes, modes, style) is chosen in the initial     *)
(* state, so one TLC run sweeps all 52 configurations.                     *)
(***************************************************************************)
EXTENDS Integers, Sequences, FiniteSets, TLC

CONSTANT Hist       \* TRUE: record the environment's actions in h (schedule generation)

M == {0, 1}
Oks == {"ok0", "ok1"}

(* --algorithm OciUnifyConc
variables
  out \in [M -> {"ok", "fail"}],                \* what member i answers
  mode \in [M -> {"normal", "untilCancelled"}],
  style \in {"reader", "resolve"},
  \* does Close of the reader member i hands out return an error (only a member that
  \* answers ok, asked for a reader, hands one out)
  closeErr \in {f \in [M -> BOOLEAN] : \A i \in M : f[i] => (out[i] = "ok" /\ style = "reader")},
  parentCancelled = FALSE,                      \* the caller's context
  ctxCancelled = [q \in M |-> FALSE],           \* cancel_i() was called
  doneClosed = FALSE,                           \* close(done) (deferred: at return)
  taken = [q \in M |-> FALSE],                  \* main received sender i's result from c
  memberReturned = [q \in M |-> FALSE],         \* f(ctx_i, reg_i, i) returned
  opened = [q \in M |-> FALSE],                 \* member i handed out a reader / result
  closed = [q \in M |-> FALSE],                 \* that reader was closed
  ret = "pending",                              \* "ok0" | "ok1" | "err" | "cancelled"
  retOwner = -1,                                \* whose result (and cancel func) main returned
  parentAtRet = FALSE,                          \* ghost: was the parent cancelled at the return
  readerClosed = FALSE,                         \* the caller closed the returned reader
  readState = "none",                           \* how far the caller has read the returned reader: "none" | "part" | "eof"
  closeRet = "-",                               \* what that Close returned: "ok" | "err" (the member reader's error)
  h = <<>>;                                     \* ghost: the environment's actions in order

define
  CtxDone(i) == parentCancelled \/ ctxCancelled[i]
  \* sender k sits in its select with a result to send
  Ready(k) == memberReturned[k] /\ ~taken[k] /\ pc[20 + k] = "SSelect"
  Rec(x) == IF Hist THEN Append(h, x) ELSE h
end define;

\* The member's method.  In mode normal it returns at any time (it does not look at its
\* context); in mode untilCancelled only once its context is done.
fair process member \in {10, 11}
variable me = self - 10;
begin
MRun:
  await mode[me] = "normal" \/ CtxDone(me);
  if out[me] = "ok" then opened[me] := TRUE; end if;
  memberReturned[me] := TRUE;
  if mode[me] = "normal" then h := Rec(IF me = 0 THEN "rel0" ELSE "rel1"); end if;
end process;

\* sender: r := f(ctx_i, reg, i); select { case c <- {r, cancel_i}: ; case <-done: r.close(); cancel_i() }
fair process sender \in {20, 21}
variable sm = self - 20;
begin
SSelect:
  await memberReturned[sm];
  either
    await taken[sm];                  \* main received the result
  or
    await doneClosed /\ ~taken[sm];   \* main has returned
    if opened[sm] then closed[sm] := TRUE; end if;
    ctxCancelled[sm] := TRUE;
  end either;
end process;

fair process main = 1
variable got = -1;
begin
MSel1:
  either
    with j \in {k \in M : Ready(k)} do
      got := j;
      taken[j] := TRUE;
      if out[j] = "ok" then
        ret := IF j = 0 THEN "ok0" ELSE "ok1";
        retOwner := j;
        doneClosed := TRUE;
        parentAtRet := parentCancelled;
        \* runRead cancels at once; runReadBlobReader hands cancel to the reader
        if style = "resolve" then ctxCancelled[j] := TRUE; end if;
      else
        ctxCancelled[j] := TRUE;      \* r.cancel()
      end if;
    end with;
  or
    await parentCancelled;            \* <-ctx.Done()
    ret := "cancelled";
    doneClosed := TRUE;
    parentAtRet := TRUE;
  end either;
  if ret # "pending" then goto Done; end if;
MSel2:
  \* The first result was a failure.  Try for the second, which might work.
  either
    with j \in {k \in M : Ready(k)} do
      got := j;
      taken[j] := TRUE;
      ret := IF out[j] = "ok" THEN (IF j = 0 THEN "ok0" ELSE "ok1") ELSE "err";
      retOwner := j;
      doneClosed := TRUE;
      parentAtRet := parentCancelled;
      \* an error result: runReadBlobReader / runRead call cancel before returning
      if style = "resolve" \/ out[j] = "fail" then ctxCancelled[j] := TRUE; end if;
    end with;
  or
    await parentCancelled;
    ret := "cancelled";
    doneClosed := TRUE;
    parentAtRet := TRUE;
  end either;
end process;

\* The caller cancels its context: at any point, or never (the process is not fair).
process canceller = 2
begin
CCancel:
  parentCancelled := TRUE;
  h := Rec("cancel");
end process;

\* The caller uses the reader it got: at any point after the return it may read some of it,
\* read it to the end (the member's reader reports io.EOF), and close it - or never.
\* Reading does nothing to the member's context, whatever Read returns.
\* blobReader.Close: the member's reader is closed and, whatever that Close returned,
\* cancel_i() is called (defer); the reader's error is the caller's.
process closer = 3
begin
CUse:
  await pc[1] = "Done" /\ style = "reader" /\ ret \in Oks;
  either
    await readState = "none";
    readState := "part";
    h := Rec("readpart");
    goto CUse;
  or
    await readState # "eof";
    readState := "eof";
    h := Rec("read");
    goto CUse;
  or
    readerClosed := TRUE;
    closeRet := IF closeErr[retOwner] THEN "err" ELSE "ok";
    closed[retOwner] := TRUE;
    ctxCancelled[retOwner] := TRUE;
    h := Rec("close");
  end either;
end process;

end algorithm; *)
\* BEGIN TRANSLATION
VARIABLES pc, out, mode, style, closeErr, parentCancelled, ctxCancelled, 
          doneClosed, taken, memberReturned, opened, closed, ret, retOwner, 
          parentAtRet, readerClosed, readState, closeRet, h

(* define statement *)
CtxDone(i) == parentCancelled \/ ctxCancelled[i]

Ready(k) == memberReturned[k] /\ ~taken[k] /\ pc[20 + k] = "SSelect"
Rec(x) == IF Hist THEN Append(h, x) ELSE h

VARIABLES me, sm, got

vars == << pc, out, mode, style, closeErr, parentCancelled, ctxCancelled, 
           doneClosed, taken, memberReturned, opened, closed, ret, retOwner, 
           parentAtRet, readerClosed, readState, closeRet, h, me, sm, got >>

ProcSet == ({10, 11}) \cup ({20, 21}) \cup {1} \cup {2} \cup {3}

Init == (* Global variables *)
        /\ out \in [M -> {"ok", "fail"}]
        /\ mode \in [M -> {"normal", "untilCancelled"}]
        /\ style \in {"reader", "resolve"}
        /\ closeErr \in {f \in [M -> BOOLEAN] : \A i \in M : f[i] => (out[i] = "ok" /\ style = "reader")}
        /\ parentCancelled = FALSE
        /\ ctxCancelled = [q \in M |-> FALSE]
        /\ doneClosed = FALSE
        /\ taken = [q \in M |-> FALSE]
        /\ memberReturned = [q \in M |-> FALSE]
        /\ opened = [q \in M |-> FALSE]
        /\ closed = [q \in M |-> FALSE]
        /\ ret = "pending"
        /\ retOwner = -1
        /\ parentAtRet = FALSE
        /\ readerClosed = FALSE
        /\ readState = "none"
        /\ closeRet = "-"
        /\ h = <<>>
        (* Process member *)
        /\ me = [self \in {10, 11} |-> self - 10]
        (* Process sender *)
        /\ sm = [self \in {20, 21} |-> self - 20]
        (* Process main *)
        /\ got = -1
        /\ pc = [self \in ProcSet |-> CASE self \in {10, 11} -> "MRun"
                                        [] self \in {20, 21} -> "SSelect"
                                        [] self = 1 -> "MSel1"
                                        [] self = 2 -> "CCancel"
                                        [] self = 3 -> "CUse"]

MRun(self) == /\ pc[self] = "MRun"
              /\ mode[me[self]] = "normal" \/ CtxDone(me[self])
              /\ IF out[me[self]] = "ok"
                    THEN /\ opened' = [opened EXCEPT ![me[self]] = TRUE]
                    ELSE /\ TRUE
                         /\ UNCHANGED opened
              /\ memberReturned' = [memberReturned EXCEPT ![me[self]] = TRUE]
              /\ IF mode[me[self]] = "normal"
                    THEN /\ h' = Rec(IF me[self] = 0 THEN "rel0" ELSE "rel1")
                    ELSE /\ TRUE
                         /\ h' = h
              /\ pc' = [pc EXCEPT ![self] = "Done"]
              /\ UNCHANGED << out, mode, style, closeErr, parentCancelled, 
                              ctxCancelled, doneClosed, taken, closed, ret, 
                              retOwner, parentAtRet, readerClosed, readState, 
                              closeRet, me, sm, got >>

member(self) == MRun(self)

SSelect(self) == /\ pc[self] = "SSelect"
                 /\ memberReturned[sm[self]]
                 /\ \/ /\ taken[sm[self]]
                       /\ UNCHANGED <<ctxCancelled, closed>>
                    \/ /\ doneClosed /\ ~taken[sm[self]]
                       /\ IF opened[sm[self]]
                             THEN /\ closed' = [closed EXCEPT ![sm[self]] = TRUE]
                             ELSE /\ TRUE
                                  /\ UNCHANGED closed
                       /\ ctxCancelled' = [ctxCancelled EXCEPT ![sm[self]] = TRUE]
                 /\ pc' = [pc EXCEPT ![self] = "Done"]
                 /\ UNCHANGED << out, mode, style, closeErr, parentCancelled, 
                                 doneClosed, taken, memberReturned, opened, 
                                 ret, retOwner, parentAtRet, readerClosed, 
                                 readState, closeRet, h, me, sm, got >>

sender(self) == SSelect(self)

MSel1 == /\ pc[1] = "MSel1"
         /\ \/ /\ \E j \in {k \in M : Ready(k)}:
                    /\ got' = j
                    /\ taken' = [taken EXCEPT ![j] = TRUE]
                    /\ IF out[j] = "ok"
                          THEN /\ ret' = (IF j = 0 THEN "ok0" ELSE "ok1")
                               /\ retOwner' = j
                               /\ doneClosed' = TRUE
                               /\ parentAtRet' = parentCancelled
                               /\ IF style = "resolve"
                                     THEN /\ ctxCancelled' = [ctxCancelled EXCEPT ![j] = TRUE]
                                     ELSE /\ TRUE
                                          /\ UNCHANGED ctxCancelled
                          ELSE /\ ctxCancelled' = [ctxCancelled EXCEPT ![j] = TRUE]
                               /\ UNCHANGED << doneClosed, ret, retOwner, 
                                               parentAtRet >>
            \/ /\ parentCancelled
               /\ ret' = "cancelled"
               /\ doneClosed' = TRUE
               /\ parentAtRet' = TRUE
               /\ UNCHANGED <<ctxCancelled, taken, retOwner, got>>
         /\ IF ret' # "pending"
               THEN /\ pc' = [pc EXCEPT ![1] = "Done"]
               ELSE /\ pc' = [pc EXCEPT ![1] = "MSel2"]
         /\ UNCHANGED << out, mode, style, closeErr, parentCancelled, 
                         memberReturned, opened, closed, readerClosed, 
                         readState, closeRet, h, me, sm >>

MSel2 == /\ pc[1] = "MSel2"
         /\ \/ /\ \E j \in {k \in M : Ready(k)}:
                    /\ got' = j
                    /\ taken' = [taken EXCEPT ![j] = TRUE]
                    /\ ret' = (IF out[j] = "ok" THEN (IF j = 0 THEN "ok0" ELSE "ok1") ELSE "err")
                    /\ retOwner' = j
                    /\ doneClosed' = TRUE
                    /\ parentAtRet' = parentCancelled
                    /\ IF style = "resolve" \/ out[j] = "fail"
                          THEN /\ ctxCancelled' = [ctxCancelled EXCEPT ![j] = TRUE]
                          ELSE /\ TRUE
                               /\ UNCHANGED ctxCancelled
            \/ /\ parentCancelled
               /\ ret' = "cancelled"
               /\ doneClosed' = TRUE
               /\ parentAtRet' = TRUE
               /\ UNCHANGED <<ctxCancelled, taken, retOwner, got>>
         /\ pc' = [pc EXCEPT ![1] = "Done"]
         /\ UNCHANGED << out, mode, style, closeErr, parentCancelled, 
                         memberReturned, opened, closed, readerClosed, 
                         readState, closeRet, h, me, sm >>

main == MSel1 \/ MSel2

CCancel == /\ pc[2] = "CCancel"
           /\ parentCancelled' = TRUE
           /\ h' = Rec("cancel")
           /\ pc' = [pc EXCEPT ![2] = "Done"]
           /\ UNCHANGED << out, mode, style, closeErr, ctxCancelled, 
                           doneClosed, taken, memberReturned, opened, closed, 
                           ret, retOwner, parentAtRet, readerClosed, readState, 
                           closeRet, me, sm, got >>

canceller == CCancel

CUse == /\ pc[3] = "CUse"
        /\ pc[1] = "Done" /\ style = "reader" /\ ret \in Oks
        /\ \/ /\ readState = "none"
              /\ readState' = "part"
              /\ h' = Rec("readpart")
              /\ pc' = [pc EXCEPT ![3] = "CUse"]
              /\ UNCHANGED <<ctxCancelled, closed, readerClosed, closeRet>>
           \/ /\ readState # "eof"
              /\ readState' = "eof"
              /\ h' = Rec("read")
              /\ pc' = [pc EXCEPT ![3] = "CUse"]
              /\ UNCHANGED <<ctxCancelled, closed, readerClosed, closeRet>>
           \/ /\ readerClosed' = TRUE
              /\ closeRet' = IF closeErr[retOwner] THEN "err" ELSE "ok"
              /\ closed' = [closed EXCEPT ![retOwner] = TRUE]
              /\ ctxCancelled' = [ctxCancelled EXCEPT ![retOwner] = TRUE]
              /\ h' = Rec("close")
              /\ pc' = [pc EXCEPT ![3] = "Done"]
              /\ UNCHANGED readState
        /\ UNCHANGED << out, mode, style, closeErr, parentCancelled, 
                        doneClosed, taken, memberReturned, opened, ret, 
                        retOwner, parentAtRet, me, sm, got >>

closer == CUse

(* Allow infinite stuttering to prevent deadlock on termination. *)
Terminating == /\ \A self \in ProcSet: pc[self] = "Done"
               /\ UNCHANGED vars

Next == main \/ canceller \/ closer
           \/ (\E self \in {10, 11}: member(self))
           \/ (\E self \in {20, 21}: sender(self))
           \/ Terminating

Spec == /\ Init /\ [][Next]_vars
        /\ \A self \in {10, 11} : WF_vars(member(self))
        /\ \A self \in {20, 21} : WF_vars(sender(self))
        /\ WF_vars(main)

Termination == <>(\A self \in ProcSet: pc[self] = "Done")

\* END TRANSLATION

\* ------------------------------------------------------------ properties --
MainDone == pc[1] = "Done"
Winner == IF ret = "ok0" THEN 0 ELSE IF ret = "ok1" THEN 1 ELSE -1
BothReturned == memberReturned[0] /\ memberReturned[1]
AllSendersDone == \A s \in {20, 21} : pc[s] = "Done"

TypeOK ==
  /\ ret \in {"pending", "ok0", "ok1", "err", "cancelled"}
  /\ retOwner \in {-1, 0, 1}
  /\ MainDone <=> ret # "pending"

\* C16: "the call returns the first successful answer": what is returned as a success is a
\* success of that member, no other success was received before it, and a success that
\* was received while the caller had not cancelled is returned.
ReturnsFirstSuccess ==
  /\ \A i \in M : (ret = (IF i = 0 THEN "ok0" ELSE "ok1")) =>
        /\ out[i] = "ok" /\ taken[i] /\ retOwner = i
        /\ \A k \in M \ {i} : taken[k] => out[k] = "fail"
  /\ (MainDone /\ ~parentAtRet) => (ret \in Oks \/ (out[0] = "fail" /\ out[1] = "fail"))
  /\ \A k \in M : (taken[k] /\ out[k] = "ok") => ret = (IF k = 0 THEN "ok0" ELSE "ok1")

\* "... or an error only when both fail or the caller cancelled"
ErrorOnlyIfBothFailOrCancelled ==
  MainDone => /\ (ret = "err" => (out[0] = "fail" /\ out[1] = "fail" /\ taken[0] /\ taken[1]))
              /\ (ret = "cancelled" => parentAtRet)

\* "the context given to the chosen member stays live until the returned reader is closed
\* and is cancelled afterwards" (live: not cancelled by the unifier; the caller may cancel
\* its own context, which the member's is derived from)
WinnerCtxLiveUntilClose ==
  (style = "reader" /\ Winner # -1) =>
     /\ ~readerClosed => (~ctxCancelled[Winner] /\ ~closed[Winner])
     /\ readerClosed => (ctxCancelled[Winner] /\ closed[Winner])
\* reading happens on a reader that was returned and is not closed yet
ReadOnlyOpenReader == readState # "none" => (style = "reader" /\ Winner # -1)
\* the error of the member reader's Close is passed through to the caller (and, by
\* WinnerCtxLiveUntilClose, does not keep the context from being cancelled)
ClosePassesError ==
  /\ readerClosed => (Winner # -1 /\ closeRet = (IF closeErr[Winner] THEN "err" ELSE "ok"))
  /\ ~readerClosed => closeRet = "-"
\* resolve-style reads cancel at return: nothing received stays uncancelled
ResolveCancelsAtReturn ==
  (style = "resolve" /\ MainDone) => \A k \in M : taken[k] => ctxCancelled[k]
\* whatever main received and did not hand to the caller is cancelled at the return
ReceivedAndDroppedIsCancelled ==
  MainDone => \A k \in M : (taken[k] /\ k # Winner) => ctxCancelled[k]
\* the unifier never closes a reader it did not open, and closes none twice (flags), and a
\* reader is only ever closed after it was opened
ClosedWasOpened == \A k \in M : closed[k] => opened[k]

Inv == TypeOK /\ ReturnsFirstSuccess /\ ErrorOnlyIfBothFailOrCancelled /\ WinnerCtxLiveUntilClose
       /\ ResolveCancelsAtReturn /\ ReceivedAndDroppedIsCancelled /\ ClosedWasOpened /\ ClosePassesError /\ ReadOnlyOpenReader

\* liveness (under Spec: weak fairness of main, senders, members)
\* "every reader opened on the member that was not chosen is closed"
LoserClosed == BothReturned ~> (MainDone /\ \A q \in M : (opened[q] /\ q # Winner) => closed[q])
\* "no goroutine remains blocked once both members have returned"
NoBlockedGoroutine == BothReturned ~> (MainDone /\ AllSendersDone)
\* every member context is released in the end, except the winner's while its reader is open
AllCtxReleased == BothReturned ~> (\A q \in M : ctxCancelled[q] \/ (q = Winner /\ style = "reader" /\ ~readerClosed))
\* the call always returns once both members have
CallReturns == BothReturned ~> MainDone

\* ------------------------------------------------------------- generation --
\* A complete run of the environment: both members have returned and nothing is left to do
\* for main and the senders.  Every such state prints its configuration and the order of the
\* environment's actions: one schedule for the harness.
Quiescent == BothReturned /\ MainDone /\ AllSendersDone
=============================================================================
