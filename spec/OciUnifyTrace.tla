-------------------------- MODULE OciUnifyTrace --------------------------
(***************************************************************************)
(* Trace validation of recorded executions of ociunify.New(m0, m1, policy) *)
(* over two in-memory registries against OciUnify.  Trace (ndjson, env      *)
(* TRACE_FILE): header line (catalogue -> module TraceHdr), then scenarios: *)
(* a `reset` line (tag mode, read policy, lister faults) followed, per      *)
(* call, by one line with the call (made through the unifier, via = "u", or *)
(* directly on a member, via = "m0"/"m1"), its arguments and projected      *)
(* result, and two `snap` lines: the projected state of member 0 and 1.     *)
(***************************************************************************)
EXTENDS OciUnify, Json, IOUtils, TraceHdr

VARIABLE l      \* next trace line

Trace == ndJsonDeserialize(IOEnv.TRACE_FILE)
PosIn(seq) == [x \in ToSet(seq) |-> 2 * (CHOOSE i \in 1..Len(seq) : seq[i] = x)]

TrRepos == ToSet(Hdr.repos)
TrTags == ToSet(Hdr.tags)
TrCids == ToSet(Hdr.cids)
TrUploads == ToSet(Hdr.uploads)
ConvView(v) == [wf |-> v.wf, blobs |-> ToSet(v.blobs), mans |-> {<<x[1], x[2]>> : x \in ToSet(v.mans)},
                subject |-> v.subject, subjectType |-> v.subjectType]
TrCat == [c \in TrCids |->
            [size |-> Hdr.cat[c].size, bytes |-> Hdr.cat[c].bytes,
             as |-> [image |-> ConvView(Hdr.cat[c].as.image), index |-> ConvView(Hdr.cat[c].as.index)]]]
TrPos == [r |-> PosIn(Hdr.repos), t |-> PosIn(Hdr.tags), c |-> PosIn(Hdr.cids)]
TrBlockSize == Hdr.blockSize

\* ------------------------------------------------------------------------
\* Does the logged observation e agree with the answer r the specification allows?
IsCode(e, code) == code \in ToSet(e.is)
CodeMatch(r, e) == r.code = "FAIL" \/ IsCode(e, r.code)
DescMatch(r, e) ==
  /\ e.d = r.d
  /\ e.dsize = Cat[r.d].size
  /\ r.mt # None => e.mt = r.mt
IsList(e) == e.op \in Lists
\* media types a manifest may be listed under by Referrers: the member's own for a direct
\* call, either member's through the unifier
ListedTypes(e, c) ==
  IF e.via = "m0" THEN {mans0[e.r][c]} ELSE IF e.via = "m1" THEN {mans1[e.r][c]} ELSE StoredTypes(e.r, c)
Match(r, e) ==
  /\ r.ok = e.ok
  /\ IF IsList(e) THEN
        \* the items delivered are exactly the specification's; a failing iterator delivers
        \* them first, then the error once, and nothing after it
        /\ e.items = r.items
        /\ e.calls = Len(r.items) + (IF r.ok THEN 0 ELSE 1)
        /\ ~r.ok => CodeMatch(r, e)
        /\ (e.op = "Referrers") =>
              \A i \in 1..Len(e.descs) : /\ e.descs[i].d = e.items[i]
                                         /\ e.descs[i].dsize = Cat[e.descs[i].d].size
                                         /\ e.descs[i].mt \in ListedTypes(e, e.descs[i].d)
     ELSE IF ~e.ok THEN CodeMatch(r, e)
     ELSE CASE r.kind = "desc" -> DescMatch(r, e)
            [] r.kind = "read" -> DescMatch(r, e) /\ e.vid = r.d /\ e.n = Cat[r.d].size /\ ~e.rderr
            [] r.kind = "range" -> DescMatch(r, e) /\ e.slice = r.slice /\ ~e.rderr
            [] r.kind = "n" -> e.n = r.n
            [] OTHER -> TRUE

\* A snapshot of a member must be exactly the specification's state of that member.
SnapIs(e, bl, mn, tg) ==
  \A r \in Repos :
    /\ ToSet(e.blobs[r]) = bl[r]
    /\ DOMAIN e.mans[r] = DOMAIN mn[r]
    /\ \A c \in DOMAIN mn[r] : e.mans[r][c] = mn[r][c]
    /\ DOMAIN e.tags[r] = DOMAIN tg[r]
    /\ \A t \in DOMAIN tg[r] : e.tags[r][t].c = tg[r][t].c /\ e.tags[r][t].mt = tg[r][t].mt
SnapMatch(e) == IF e.member = 0 THEN SnapIs(e, blobs0, mans0, tags0) ELSE SnapIs(e, blobs1, mans1, tags1)

\* ------------------------------------------------------------------------
TInit == Init /\ l = 2

ResetStep(e) ==
  /\ imm' = e.imm
  /\ blobs0' = [r \in Repos |-> {}] /\ blobs1' = [r \in Repos |-> {}]
  /\ mans0' = [r \in Repos |-> <<>>] /\ mans1' = [r \in Repos |-> <<>>]
  /\ tags0' = [r \in Repos |-> <<>>] /\ tags1' = [r \in Repos |-> <<>>]
  /\ ups0' = [r \in Repos |-> <<>>] /\ ups1' = [r \in Repos |-> <<>>]
  /\ touched0' = {} /\ touched1' = {}
  /\ res0' = NoRes /\ res1' = NoRes /\ res' = NoRes
  /\ pol' = e.pol
  /\ lf' = [i \in {0, 1} |-> [k |-> e.lf[i + 1].k, code |-> e.lf[i + 1].code]]
  /\ wf' = NoWF
  /\ issued' = {}
  /\ via' = "-" /\ last' = [op |-> "-"]

\* The properties of OciUnify, evaluated on every step through the unifier of the recorded
\* execution (the primed state is pinned to the real members by the snapshots that follow).
TraceStepProps == StepProps /\ PoliciesAgreeStep /\ EqualStaysEqualStep

TNext ==
  /\ l <= Len(Trace)
  /\ l' = l + 1
  /\ LET e == Trace[l] IN
     CASE e.op = "reset" -> ResetStep(e)
       [] e.op = "snap" -> SnapMatch(e) /\ UNCHANGED vars
       [] e.op = "skip" -> UNCHANGED vars
       [] e.op = "panic" -> FALSE        \* no specification step is a panic
       [] OTHER -> /\ IF e.via = "u" THEN ViaUnifierWF(e, pol, lf, [i \in {0, 1} |-> e.wf[i + 1]])
                      ELSE Direct(IF e.via = "m0" THEN 0 ELSE 1, e)
                   /\ Match(res', e)
                   /\ TraceStepProps
TSpec == TInit /\ [][TNext]_<<vars, l>>

\* The whole trace was consumed: one state per line after the header.
Accepted == TLCGet("stats").diameter = Len(Trace)
TraceView == <<MemView, pol, lf, l>>
=============================================================================
