----------------------------- MODULE OciErrorMC -----------------------------
(***************************************************************************)
(* Exhaustive check of the C07 laws over the whole case domain, and export *)
(* of every case for execution on the real code (direction A).             *)
(*                                                                         *)
(* Domain: (15 standard codes + a custom code + the empty code + no code)  *)
(*   x leaf (standard value | NewError with 6 message shapes x 2 details)  *)
(*   x wrapping (bare, fmt "%w" with and without a prefix, HTTP wrapper    *)
(*     with each sampled status, fmt around a 416 wrapper, a 404 wrapper   *)
(*     around a 416 wrapper)  +  HTTP wrapper around nil                   *)
(*   x carrier kind x 0..MaxHops hops;                                     *)
(* plus the status sweep: every status 400..599 as the own status of a     *)
(* no-code and of a custom-code error; and listings whose backend yields    *)
(* 1 or 2 items and THEN the error, with page sizes 1, 2 and the default;   *)
(* and size classes: messages of 1900..6000 bytes, details of 1..90 digests; *)
(* and writer carriers: the backend's BlobWriter fails (kind WRITER);       *)
(* HTTP wrappers made from a response (resp) besides the nil-response form; *)
(* and a non-conforming origin registry (kind ORIGIN).                      *)
(* A behaviour is one case: Init picks it, each step is one hop.           *)
(*                                                                         *)
(* Two modes, both swept inside one TLC run (Init chooses):                *)
(*   design (Impl416 = FALSE, TrimExact = TRUE): every law, no exception    *)
(*   impl   (Impl416 = TRUE, TrimExact = FALSE): the current code; the laws *)
(*          hold outside the named cells K2Cell, K2bCell, StutterCell and   *)
(*          inside them the deviation is exactly the one the cell names     *)
(***************************************************************************)
EXTENDS OciError, Json

CONSTANTS Modes, MaxHops, Statuses, SweepStatuses, Kinds, Export

SelfNamed == {"MANIFEST_INVALID", "BLOB_UPLOAD_INVALID"}  \* message text = own code prefix
MCStdMsg == [c \in StdCodes |-> IF c \in SelfNamed THEN <<C(c)>> ELSE <<M(c)>>]

\* "-" : no OCI error at all; the lower/mixed-case codes are custom codes (own status or 500)
Codes == StdCodes \cup {"CUSTOM_CODE", "", "-", "denied", "Blob_Unknown", "blob_upload_invalid"}
Shapes == {"plain", "code", "status", "both", "dup", "empty"}
Wraps == {"bare", "fmt", "fmt0", "http", "httpR", "fmthttp416", "http404http416"}

\* the status that ends up on the wire for a leaf of code c under the given wrapping
FinalStatus(c, w, s) == IF c \in StdCodes THEN Table[c]
                        ELSE CASE w \in {"http", "httpR"} -> s [] w = "fmthttp416" -> 416
                               [] w = "http404http416" -> 404 [] OTHER -> 500
CodeTok(c) == C(IF c \in {"", "-"} THEN "UNKNOWN" ELSE c)
ShapeMsg(sh, c, fs) ==
  CASE sh = "plain" -> <<B("b1")>>
    [] sh = "code" -> <<CodeTok(c), B("b1")>>
    [] sh = "status" -> <<S(fs), B("b1")>>
    [] sh = "both" -> <<S(fs), CodeTok(c), B("b1")>>
    [] sh = "dup" -> <<CodeTok(c), CodeTok(c), B("b1")>>
    [] sh = "empty" -> <<E>>

Leaves(c, fs) ==
  IF c = "-" THEN {Plain(ShapeMsg(sh, c, fs)) : sh \in Shapes}
  ELSE {New(c, ShapeMsg(sh, c, fs), d) : sh \in Shapes, d \in {"none", "d1"}}
       \cup (IF c \in StdCodes THEN {Std(c)} ELSE {})

Wrapped(x, w, s) ==
  CASE w = "bare" -> x
    [] w = "fmt" -> Fmt(<<B("b2")>>, <<x>>)
    [] w = "fmt0" -> Fmt(<<>>, <<x>>)
    [] w = "http" -> Http(s, <<x>>)
    [] w = "httpR" -> HttpR(s, <<x>>)      \* the same wrapper made from a response
    [] w = "fmthttp416" -> Fmt(<<B("b2")>>, <<Http(416, <<x>>)>>)
    [] w = "http404http416" -> Http(404, <<Http(416, <<x>>)>>)

WS == {<<w, s>> : w \in Wraps \ {"http", "httpR"}, s \in {0}} \cup {<<w, s>> : w \in {"http", "httpR"}, s \in Statuses}
Domain == UNION {{Wrapped(x, ws[1], ws[2]) : x \in Leaves(c, FinalStatus(c, ws[1], ws[2]))} : c \in Codes, ws \in WS}
          \cup {Http(s, <<>>) : s \in Statuses} \cup {HttpR(s, <<>>) : s \in Statuses}

\* Status sweep: EVERY own status (400..599 in the configs) around a no-code and a custom-code
\* error, so that a status-specific rule anywhere (client HEAD mapping, httpError.Is, table)
\* is met whatever the status.
SweepAll == 400..599
SweepDomain == {Http(s, <<Plain(<<B("b1")>>)>>) : s \in SweepStatuses}
               \cup {Http(s, <<New("CUSTOM_CODE", <<B("b1")>>, "none")>>) : s \in SweepStatuses}
\* Size classes: base texts of 1900..6000 bytes ("L<n>") and details listing 1..90 digests ("D<k>")
\* - error bodies below and above net/http's 2048-byte write buffer (above it the response is
\* chunked) and up to just below the client's 8 KiB read limit.  For the model a long text is a base
\* token and a long detail a detail like any other: every law holds unchanged.  (A long message
\* is never combined with a long detail, so the body stays below the limit; beyond the limit the
\* client documents that the code is lost - not modelled, not generated.)
SizeMsgs == {"L1900", "L2100", "L3000", "L6000"}
SizeDetails == {"D1", "D25", "D30", "D90"}
SizeLeaves == {New(c, <<B(m)>>, "none") : c \in {"MANIFEST_BLOB_UNKNOWN", "MANIFEST_INVALID", "CUSTOM_CODE"}, m \in SizeMsgs}
              \cup {New(c, <<B("b1")>>, d) : c \in {"MANIFEST_BLOB_UNKNOWN", "MANIFEST_INVALID", "CUSTOM_CODE"}, d \in SizeDetails}
              \cup {Plain(<<B(m)>>) : m \in SizeMsgs}
SizeDomain == SizeLeaves \cup {Fmt(<<B("b2")>>, <<x>>) : x \in SizeLeaves} \cup {Http(418, <<x>>) : x \in SizeLeaves}
FullDomain == Domain \cup SweepDomain \cup SizeDomain

\* Listings whose backend iterator yields nitems items and THEN the error (kind "LIST"), with
\* client page sizes below, at and above nitems (0: the default of 1000), for a few trees.
ListTrees == {Std(c) : c \in StdCodes} \cup {Plain(<<B("b1")>>), New("CUSTOM_CODE", <<B("b1")>>, "d1"), Http(418, <<Plain(<<B("b1")>>)>>)}
ListShapes == {<<n, p>> : n \in {1, 2}, p \in {0, 1, 2}}
EffPage(p) == IF p = 0 THEN 1000 ELSE p

\* Writer carriers (kind "WRITER": the error is raised by the backend's BlobWriter in Write, Close or
\* Commit and travels back through PUT / PATCH responses): standard codes, a custom code, a case
\* variant, the empty code and no code; bare, under %w, and under HTTP wrappers with own statuses.
WriterLeaves == {Std(c) : c \in {"DENIED", "BLOB_UPLOAD_UNKNOWN", "RANGE_INVALID", "SIZE_INVALID"}}
                \cup {New(c, <<B("b1")>>, "d1") : c \in {"DIGEST_INVALID", "CUSTOM_CODE", "denied", ""}}
                \cup {Plain(<<B("b1")>>), Plain(<<E>>)}
WriterDomain == WriterLeaves \cup {Fmt(<<B("b2")>>, <<x>>) : x \in WriterLeaves}
                \cup {Http(s, <<x>>) : x \in WriterLeaves, s \in {400, 413, 416, 507}}

\* A NON-CONFORMING ORIGIN (kind "ORIGIN"): a registry that is not ociserver answers with a status
\* that disagrees with the table for the code it sends.  What ociclient makes of that answer is the
\* tree HttpR(status, New(code, message, detail)); relayed through ociserver-over-ociclient hops the
\* tabled code must be answered with its tabled status at every hop, the rest preserved.
OriginPairs == {<<404, "DENIED">>, <<403, "NAME_UNKNOWN">>, <<401, "MANIFEST_UNKNOWN">>, <<400, "BLOB_UPLOAD_INVALID">>,
                <<418, "TOOMANYREQUESTS">>, <<500, "UNAUTHORIZED">>, <<416, "BLOB_UNKNOWN">>, <<503, "RANGE_INVALID">>,
                <<404, "NAME_UNKNOWN">>, <<418, "CUSTOM_CODE">>, <<409, "denied">>, <<404, "UNKNOWN">>}
OriginDomain == {HttpR(p[1], <<New(p[2], m, d)>>) : p \in OriginPairs, m \in {<<B("b1")>>, <<E>>}, d \in {"none", "d1"}}

VARIABLES mode, t0, kind, k, cur, nitems, page
vars == <<mode, t0, kind, k, cur, nitems, page>>
Impl416 == mode = "impl"
TrimExact == mode = "design"

Init == /\ mode \in Modes /\ k = 0
        /\ \/ t0 \in FullDomain /\ kind \in Kinds /\ nitems = 0 /\ page = 0
           \/ t0 \in ListTrees /\ kind = "LIST" /\ \E sh \in ListShapes : nitems = sh[1] /\ page = sh[2]
           \/ t0 \in WriterDomain /\ kind = "WRITER" /\ nitems = 0 /\ page = 0
           \/ t0 \in OriginDomain /\ kind = "ORIGIN" /\ nitems = 0 /\ page = 0
        /\ cur = t0
Next == k < MaxHops /\ k' = k + 1 /\ cur' = Hop(cur, kind, TrimExact) /\ UNCHANGED <<mode, t0, kind, nitems, page>>
Spec == Init /\ [][Next]_vars

Is(t) == IsSet(t, Impl416)
Body == kind # "HEAD"
InK2 == Impl416 /\ K2Cell(t0)
InK2b == Impl416 /\ K2bCell(t0)
InStutter == ~TrimExact /\ StutterCell(t0)

\* ------------------------------------------------------------------ the laws
\* the hopped error is an HTTP error whose status is the table's / the error's own / 500
StatusPerTable == k >= 1 => /\ HasHttp(cur) /\ FirstHttp(cur).status = Status(t0)
                            /\ Status(cur) = Status(t0)
                            /\ WireCode(t0) \in StdCodes => FirstHttp(cur).status = Table[WireCode(t0)]
\* errors.Is against every standard value answers as on the original
IsPreserved == (k >= 1 /\ Body) =>
  IF InK2 THEN Is(cur) = Is(t0) \cup {"RANGE_INVALID"}
  ELSE IF InK2b THEN Is(cur) = Is(t0) \ {"RANGE_INVALID"}
  ELSE Is(cur) = Is(t0)
\* the cells are real: inside them the answer for ErrRangeInvalid does change
CellsExact == (k >= 1 /\ Body) => /\ InK2 => "RANGE_INVALID" \notin Is(t0)
                                  /\ InK2b => "RANGE_INVALID" \in Is(t0)
                                  /\ ~(InK2 /\ InK2b)
CodePreserved == (k >= 1 /\ Body) => /\ HasErr(cur) /\ FirstErr(cur).code = WireCode(t0)
                                     /\ WireCode(cur) = WireCode(t0)
DetailPreserved == (k >= 1 /\ Body) => WireDetail(cur) = WireDetail(t0)
\* HEAD: only the status crosses; identity is kept for the codes that own their status
HeadLaw == (k >= 1 /\ ~Body) =>
  /\ cur = HeadErr(Status(t0))
  /\ \A c \in StdCodes : (Is(t0) = {c} /\ WireCode(t0) = c /\ Table[c] \in DOMAIN HeadRep /\ HeadRep[Table[c]] = c)
                            => Is(cur) = Is(t0)
  /\ (Is(t0) = {"RANGE_INVALID"} /\ Status(t0) = 416) => Is(cur) = Is(t0)
\* after the first hop the message no longer changes (no accumulating prefixes)
MessageFixedPoint == k >= 1 =>
  LET nxt == Hop(cur, kind, TrimExact) IN
  IF InStutter /\ Body /\ k = 1
  THEN Msg(nxt) = Msg(cur) \o <<C(WireCode(t0))>>       \* the one stutter of the current code
  ELSE Msg(nxt) = Msg(cur)
\* and the first hop's message is the wire message behind one status and one code prefix
FirstHopMessage == (k = 1 /\ Body) =>
  Msg(cur) = <<S(Status(t0)), C(WireCode(t0))>> \o (IF WireMsg(t0, TrimExact) = <<E>> THEN <<>> ELSE WireMsg(t0, TrimExact))

\* a listing that fails after items: the error still arrives at every level (cur is that error and
\* the laws above hold for it); the items handed over before it never grow and never exceed nitems,
\* and a page larger than the item count hands over none
ItemsLaw == LET d(j) == Delivered(nitems, EffPage(page), j) IN
            /\ d(k) <= nitems
            /\ k >= 1 => d(k) <= d(k - 1)
            /\ (k >= 1 /\ EffPage(page) >= nitems) => d(k) = 0

\* ------------------------------------------------------------------- export
Emit == (Export /\ k = 0) => PrintT(<<"MBT", ToJson([err |-> t0, kind |-> kind, sweep |-> t0 \in SweepDomain, size |-> t0 \in SizeDomain, nitems |-> nitems, page |-> page])>>)
=============================================================================
