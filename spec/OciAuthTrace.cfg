SPECIFICATION TSpec
CONSTANTS
  Hosts <- TrHosts
  Realms <- TrRealms
  RS <- TrRS
  Slots <- TrSlots
  CfgSet = {}
  OfferSets = {}
  Lives = {}
  TPS = 2
  MaxClock = 1000000
  MaxCalls = 1000000
  MaxTok = 1000000
  MaxRT = 1000000
  Bodies = {}
  Statuses = {}
  TickWhile = {}
  Check10 = TRUE
  Check11 = TRUE
CONSTRAINT HWC
INVARIANT Inv
POSTCONDITION Accepted
CHECK_DEADLOCK FALSE
