SPECIFICATION Spec
CONSTANTS
  GetTagSteps = 2
  CommitSnapshots = FALSE
  TwoPhaseCommit = FALSE
  Prog <- ProgBase
INVARIANTS Linearizable StoredMatchesKey TagNeverFalselyMissing
VIEW ConcView
CHECK_DEADLOCK FALSE
