------------------------- MODULE OciTestContentMC -------------------------
(* Exhaustive configurations of OciTestContent: every content over a small universe of       *)
(* identifiers.  Blob identifiers b1..b3, manifest identifiers m1..m4 (a content has the      *)
(* first n of them); config and layers of each manifest are fixed per identifier (Shape), the *)
(* set of blobs of the content varies, so that a manifest may name a blob the content lacks;  *)
(* the subject of each manifest ranges over: none, every manifest identifier (itself          *)
(* included: self-reference, chains, forks, cycles), an identifier naming nothing, and a blob *)
(* identifier; tags t1, t2 are absent or name any manifest or an identifier naming nothing.   *)
EXTENDS OciTestContent, Json

MCBlobs == {"b1", "b2", "b3"}
MCMSeq == <<"m1", "m2", "m3", "m4">>
MCMans == SeqRange(MCMSeq)
Unknown == "zz"
Shape == [m \in MCMans |->
            CASE m = "m1" -> [config |-> "b1", layers |-> <<>>]
              [] m = "m2" -> [config |-> "b1", layers |-> <<"b2">>]
              [] m = "m3" -> [config |-> "b2", layers |-> <<"b3", "b1">>]
              [] m = "m4" -> [config |-> "b3", layers |-> <<"b2", "b2">>]]

FirstMans(n) == {MCMSeq[i] : i \in 1..n}
SubjChoices(M) == {None, Unknown, "b1"} \cup M
ManMaps(M) == {[m \in M |-> [config |-> Shape[m].config, layers |-> Shape[m].layers, subject |-> f[m]]] : f \in [M -> SubjChoices(M)]}
TagMaps(M, TU) == UNION {[T -> M \cup {Unknown}] : T \in SUBSET TU}
Space(ns, blobsets, TU) ==
  UNION {{[blobs |-> b, mans |-> mm, tags |-> tg] : b \in blobsets, mm \in ManMaps(FirstMans(n)), tg \in TagMaps(FirstMans(n), TU)} : n \in ns}
\* a fixed pair of tags (one good, one naming nothing) instead of all bindings
FewTags(M) == {<<>>} \cup (IF M = {} THEN {} ELSE {[t \in {"t1", "t2"} |-> IF t = "t1" THEN CHOOSE m \in M : TRUE ELSE Unknown],
                                                   [t \in {"t1", "t2"} |-> CHOOSE m \in M : TRUE]})
SpaceFewTags(ns, blobsets) ==
  UNION {{[blobs |-> b, mans |-> mm, tags |-> tg] : b \in blobsets, mm \in ManMaps(FirstMans(n)), tg \in FewTags(FirstMans(n))} : n \in ns}

\* The spaces (TLC evaluates every zero-arity definition when it starts: the configuration selects one).
CONSTANT SpaceSel
MCContents0 ==
  CASE SpaceSel = "tiny" ->      \* every subject relation on up to 2 manifests, every set of blobs, every binding of two tags
         Space(0..2, SUBSET MCBlobs, {"t1", "t2"})
    [] SpaceSel = "live" ->      \* small enough for TLC's liveness checker (one initial state per content)
         Space(0..2, {MCBlobs, {"b1"}}, {"t1"})
    [] SpaceSel = "all3" ->      \* every subject relation on up to 3 manifests, every set of blobs, every binding of two tags
         Space(0..3, SUBSET MCBlobs, {"t1", "t2"})
    [] SpaceSel = "subj3" ->     \* every subject relation on 3 manifests, all blobs present or one missing, few tags
         SpaceFewTags({3}, {MCBlobs, {"b1", "b2"}})
    [] SpaceSel = "subj4" ->     \* every subject relation on 4 manifests (7^4 = 2401), all blobs present or one missing, few tags
         SpaceFewTags({4}, {MCBlobs, {"b1", "b2"}})
    [] SpaceSel = "gen" ->       \* what is exported to the harness
         Space(0..3, {MCBlobs, {"b1", "b3"}}, {"t1", "t2"})
    [] SpaceSel = "genquick" ->
         Space(0..2, {MCBlobs, {"b1", "b3"}}, {"t1", "t2"}) \cup SpaceFewTags({3}, {MCBlobs})
MCContents == MCContents0

\* ---- the catalogue: blobs, and one manifest content per subject chain without repetition
RECURSIVE ChainsOver(_)
ChainsOver(S) == {<<>>} \cup UNION {{<<x>> \o s : s \in ChainsOver(S \ {x})} : x \in S}
RECURSIVE SeqName(_)
SeqName(s) == IF Len(s) = 1 THEN s[1] ELSE s[1] \o "<" \o SeqName(Tail(s))
MCChains == ChainsOver(MCMans) \ {<<>>}
MCEntries == {<<SeqName(s), s>> : s \in MCChains}
MCCids0 == MCBlobs \cup {e[1] : e \in MCEntries}
MCCids == MCCids0
NoView == [wf |-> FALSE, blobs |-> {}, mans |-> {}, subject |-> None, subjectType |-> None]
BlobSize(b) == CASE b = "b1" -> 1 [] b = "b2" -> 2 [] OTHER -> 3
MCCat0 ==
  [c \in MCCids0 |->
     IF c \in MCBlobs THEN [size |-> BlobSize(c), bytes |-> [i \in 1..BlobSize(c) |-> i], as |-> [image |-> NoView, index |-> NoView]]
     ELSE LET s == (CHOOSE e \in MCEntries : e[1] = c)[2]
              sub == IF Len(s) = 1 THEN None ELSE SeqName(Tail(s))
              st == IF Len(s) = 1 THEN None ELSE "image"
          IN [size |-> 100 + Len(s), bytes |-> <<300>>,
              as |-> [image |-> [wf |-> TRUE, blobs |-> {Shape[s[1]].config} \cup SeqRange(Shape[s[1]].layers), mans |-> {},
                                 subject |-> sub, subjectType |-> st],
                      index |-> [wf |-> TRUE, blobs |-> {}, mans |-> {}, subject |-> sub, subjectType |-> st]]]]
MCCat == MCCat0
MCPos0 == [r |-> [x \in Repos |-> 2], t |-> [x \in Tags |-> 2], c |-> [x \in MCCids0 |-> 2]]
MCPos == MCPos0

\* ---- export of the contents (direction A): one line per content, printed on the state that has picked it
IsInitial == pc = "complete" /\ passes = 1 /\ todo = MansOf(content)
Emit == IsInitial => PrintT(<<"MBT", ToJson([blobs |-> content.blobs, mans |-> content.mans, tags |-> content.tags,
                                              outcome |-> Outcome(content)])>>)
GenSpec == PInit /\ [][Choose]_allvars
=============================================================================
