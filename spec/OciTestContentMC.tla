------------------------- MODULE OciTestContentMC -------------------------
(* Exhaustive configurations of OciTestContent: every content over a small universe of       *)
(* identifiers.  Blob identifiers b1..b3, manifest identifiers m1..m4 (a content has the      *)
(* first n of them); config and layers of each manifest are fixed per identifier (Shape), the *)
(* set of blobs of the content varies, so that a manifest may name a blob the content lacks;  *)
(* the subject of each manifest ranges over: none, every manifest identifier (itself          *)
(* included: self-reference, chains, forks, cycles), an identifier naming nothing, and a blob *)
(* identifier; tags t1, t2 are absent or name any manifest or an identifier naming nothing.   *)
EXTENDS OciTestContent, Json

MCBlobs == {"b1", "b2", "b3"}
MCMSeq == <<"m1", "m2", "m3", "m4">>
MCMans == SeqRange(MCMSeq)
Unknown == "zz"
Shape == [m \in MCMans |->
            CASE m = "m1" -> [config |-> "b1", layers |-> <<>>]
              [] m = "m2" -> [config |-> "b1", layers |-> <<"b2">>]
              [] m = "m3" -> [config |-> "b2", layers |-> <<"b3", "b1">>]
              [] m = "m4" -> [config |-> "b3", layers |-> <<"b2", "b2">>]]

FirstMans(n) == {MCMSeq[i] : i \in 1..n}
SubjChoices(M) == {None, Unknown, "b1"} \cup M
ManMap(M, f) == [m \in M |-> [config |-> Shape[m].config, layers |-> Shape[m].layers, subject |-> f[m]]]
AllTags(M) == UNION {[T -> M \cup {Unknown}] : T \in SUBSET {"t1", "t2"}}
\* a fixed choice of tags (none; one good and one naming nothing; two good) instead of all bindings
FewTags(M) == {<<>>} \cup (IF M = {} THEN {} ELSE {[t \in {"t1", "t2"} |-> IF t = "t1" THEN CHOOSE m \in M : TRUE ELSE Unknown],
                                                   [t \in {"t1", "t2"} |-> CHOOSE m \in M : TRUE]})
OneTag(M) == UNION {[T -> M \cup {Unknown}] : T \in SUBSET {"t1"}}

\* The space explored (the configuration selects one): numbers of manifests, sets of blobs, tag bindings.
CONSTANT SpaceSel
Sp == CASE SpaceSel = "tiny" ->   \* up to 2 manifests, every set of blobs, every binding of two tags
             [ns |-> 0..2, bs |-> SUBSET MCBlobs, tg |-> "all"]
        [] SpaceSel = "live" ->   \* small, for TLC's liveness checker
             [ns |-> 0..2, bs |-> {MCBlobs, {"b1"}}, tg |-> "one"]
        [] SpaceSel = "all3" ->   \* up to 3 manifests, every set of blobs, every binding of two tags
             [ns |-> 0..3, bs |-> SUBSET MCBlobs, tg |-> "all"]
        [] SpaceSel = "mix3" ->   \* 3 manifests, three sets of blobs, every binding of two tags
             [ns |-> {3}, bs |-> {MCBlobs, {"b1", "b2"}, {}}, tg |-> "all"]
        [] SpaceSel = "subj3" ->  \* 3 manifests, all blobs or one missing, few tags
             [ns |-> {3}, bs |-> {MCBlobs, {"b1", "b2"}}, tg |-> "few"]
        [] SpaceSel = "subj4" ->  \* 4 manifests: 7^4 = 2401 subject relations; all blobs or one missing, few tags
             [ns |-> {4}, bs |-> {MCBlobs, {"b1", "b2"}}, tg |-> "few"]
        [] SpaceSel = "gen" ->    \* exported to the harness
             [ns |-> 0..3, bs |-> {MCBlobs, {"b1", "b3"}}, tg |-> "all"]
        [] SpaceSel = "genquick" ->
             [ns |-> 0..3, bs |-> {MCBlobs}, tg |-> "few"]
TagChoices(M) == CASE Sp.tg = "all" -> AllTags(M) [] Sp.tg = "one" -> OneTag(M) [] OTHER -> FewTags(M)
\* picked component by component (TLC sorts a set it enumerates, quadratically for sets of records)
MCChoose ==
  \E n \in Sp.ns :
    LET M == FirstMans(n)
        tgs == TagChoices(M)
        subjs == [M -> SubjChoices(M)] IN
    \E b \in Sp.bs : \E f \in subjs : \E tg \in tgs :
      Start([blobs |-> b, mans |-> ManMap(M, f), tags |-> tg])
MCNext == MCChoose \/ PNext \/ Stutter
MCSpec == PInit /\ [][MCNext]_allvars /\ WF_allvars(MCChoose \/ PNext)
MCSafeSpec == PInit /\ [][MCNext]_allvars

\* ---- the catalogue: blobs, and one manifest content per subject chain without repetition
RECURSIVE ChainsOver(_)
ChainsOver(S) == {<<>>} \cup UNION {{<<x>> \o s : s \in ChainsOver(S \ {x})} : x \in S}
RECURSIVE SeqName(_)
SeqName(s) == IF Len(s) = 1 THEN s[1] ELSE s[1] \o "<" \o SeqName(Tail(s))
MCChains == ChainsOver(MCMans) \ {<<>>}
MCEntries == {<<SeqName(s), s>> : s \in MCChains}
MCCids0 == MCBlobs \cup {e[1] : e \in MCEntries}
MCCids == MCCids0
NoView == [wf |-> FALSE, blobs |-> {}, mans |-> {}, subject |-> None, subjectType |-> None]
BlobSize(b) == CASE b = "b1" -> 1 [] b = "b2" -> 2 [] OTHER -> 3
MCCat0 ==
  [c \in MCCids0 |->
     IF c \in MCBlobs THEN [size |-> BlobSize(c), bytes |-> [i \in 1..BlobSize(c) |-> i], as |-> [image |-> NoView, index |-> NoView]]
     ELSE LET s == (CHOOSE e \in MCEntries : e[1] = c)[2]
              sub == IF Len(s) = 1 THEN None ELSE SeqName(Tail(s))
              st == IF Len(s) = 1 THEN None ELSE "image"
          IN [size |-> 100 + Len(s), bytes |-> <<300>>,
              as |-> [image |-> [wf |-> TRUE, blobs |-> {Shape[s[1]].config} \cup SeqRange(Shape[s[1]].layers), mans |-> {},
                                 subject |-> sub, subjectType |-> st],
                      index |-> [wf |-> TRUE, blobs |-> {}, mans |-> {}, subject |-> sub, subjectType |-> st]]]]
MCCat == MCCat0
MCPos0 == [r |-> [x \in Repos |-> 2], t |-> [x \in Tags |-> 2], c |-> [x \in MCCids0 |-> 2]]
MCPos == MCPos0

\* ---- export of the contents (direction A): one line per content, printed on the state that has picked it
IsInitial == pc = "complete" /\ passes = 1 /\ todo = MansOf(content)
Emit == IsInitial => PrintT(<<"MBT", ToJson([blobs |-> content.blobs, mans |-> content.mans, tags |-> content.tags,
                                              outcome |-> Outcome(content)])>>)
GenSpec == PInit /\ [][MCChoose]_allvars
=============================================================================
