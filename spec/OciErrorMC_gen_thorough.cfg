SPECIFICATION Spec
CONSTANTS
  StdMsg <- MCStdMsg
  Modes = {"impl"}
  MaxHops = 0
  Statuses = {400, 401, 403, 404, 416, 418, 429, 500, 503, 599}
  SweepStatuses <- SweepAll
  Kinds = {"BODY", "HEAD"}
  Export = TRUE
INVARIANTS Emit
CHECK_DEADLOCK FALSE
