SPECIFICATION Spec
CONSTANTS
  StdMsg <- MCStdMsg
  Impl416 = TRUE
  TrimExact = FALSE
  MaxHops = 0
  Statuses = {400, 401, 403, 404, 416, 418, 429, 500, 503, 599}
  Kinds = {"BODY", "HEAD"}
  Export = TRUE
INVARIANTS Emit
CHECK_DEADLOCK FALSE
