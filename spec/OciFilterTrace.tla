--------------------------- MODULE OciFilterTrace ---------------------------
(***************************************************************************)
(* Trace validation of recorded executions of ocifilter.AccessChecker,      *)
(* ocifilter.Select and ocifilter.Sub (harness/filter.go) against           *)
(* OciFilter.  File layout: a header (catalogue, backend repositories in    *)
(* byte order, the Sub prefix, the byte sequence of every string used as a  *)
(* name), then scenarios: a `reset` line (wrapper kind, policy table or     *)
(* allow set), calls made directly on the in-memory registry (via =         *)
(* "backend": what the backend holds beforehand), calls made through the    *)
(* wrapper (via = "wrapper") with the policy consultations, the backend     *)
(* calls and the context scopes those carried, and after each call a        *)
(* `snap` of the in-memory registry over all backend repositories.          *)
(***************************************************************************)
EXTENDS OciFilter, Json, IOUtils, TraceHdr

VARIABLES l,      \* next trace line
          kind,   \* wrapper of the current scenario
          pol,    \* its policy table (checker: given; select: derived from the allow set)
          allow,
          fail,   \* >= 0: the backend's repository listing fails after that many items
          tree,   \* kind "tree": the wrappers, each [kind, parent (0 = backend), pol, allow]
          faults, \* <<method, code>> pairs: the backend answers that method with that error
          script  \* [on |-> BOOLEAN, items |-> what the backend's repository listing delivers if on]
tvars == <<kind, pol, allow, fail, tree, faults, script>>

Trace == ndJsonDeserialize(IOEnv.TRACE_FILE)
ToSet(s) == {s[i] : i \in 1..Len(s)}
PosOf(seq) == [x \in ToSet(seq) |-> 2 * (CHOOSE i \in 1..Len(seq) : seq[i] = x)]

\* constants from the header; the *0 definitions are what TLC caches (a definition
\* substituted for a constant is re-evaluated on every reference, one referenced by name is not)
TrRepos0 == ToSet(Hdr.repos)
TrTags0 == ToSet(Hdr.tags)
TrCids0 == ToSet(Hdr.cids)
TrUploads0 == ToSet(Hdr.uploads)
ConvView(v) == [wf |-> v.wf, blobs |-> ToSet(v.blobs), mans |-> {<<x[1], x[2]>> : x \in ToSet(v.mans)},
                subject |-> v.subject, subjectType |-> v.subjectType]
TrCat0 == [c \in TrCids0 |->
            [size |-> Hdr.cat[c].size, bytes |-> Hdr.cat[c].bytes,
             as |-> [image |-> ConvView(Hdr.cat[c].as.image), index |-> ConvView(Hdr.cat[c].as.index)]]]
TrPos0 == [r |-> PosOf(Hdr.repos), t |-> PosOf(Hdr.tags), c |-> PosOf(Hdr.cids)]
TrChars0 == LET ps == ToSet(Hdr.chars) IN [n \in {p[1] : p \in ps} |-> (CHOOSE p \in ps : p[1] = n)[2]]
TrRepos == TrRepos0
TrTags == TrTags0
TrCids == TrCids0
TrUploads == TrUploads0
TrCat == TrCat0
TrPos == TrPos0
TrChars == TrChars0
TrPrefix == Hdr.prefix
TrBlockSize == Hdr.blockSize

\* The header's orders are the byte orders of the names, and its view is the view.
HeaderOK ==
  /\ \A x, y \in Repos : Pos.r[x] < Pos.r[y] <=> Less(Chars[x], Chars[y])
  /\ Prefix # "" => /\ ToSet(Hdr.view) = ViewRepos
                    /\ \A y \in ViewRepos : PosOf(Hdr.view)[y] = ViewPos.r[y]
                    /\ ValidName(Prefix)
                    \* nothing under the prefix is missing from the name table
                    /\ \A x \in Repos : Under(x) => x \in Image
ASSUME HeaderOK

\* ------------------------------------------------------------------------
\* Does the logged observation e agree with the specification's result r?
IsCode(e, code) == code \in ToSet(e.is)
CodeMatch(r, e) == r.code = "FAIL" \/ IsCode(e, r.code)
DescMatch(r, e) == e.d = r.d /\ e.dsize = Cat[r.d].size /\ (r.mt # None => e.mt = r.mt)
Match(r, e) ==
  /\ r.ok = e.ok
  /\ IF ~e.ok THEN CodeMatch(r, e)
     ELSE CASE r.kind = "desc" -> DescMatch(r, e)
            [] r.kind = "read" -> DescMatch(r, e) /\ e.vid = r.d /\ e.n = Cat[r.d].size /\ ~e.rderr
            [] r.kind = "range" -> DescMatch(r, e) /\ e.slice = r.slice /\ ~e.rderr
            [] r.kind = "items" -> e.items = r.items /\ e.calls = Len(r.items)
            [] r.kind = "n" -> e.n = r.n
            [] OTHER -> TRUE
  /\ (~e.ok /\ e.op \in {"ListTags", "ListRepos", "Referrers"}) => e.calls = Len(e.items) + 1
  /\ (e.ok /\ e.op = "Referrers") =>
        \A i \in 1..Len(e.descs) : /\ e.descs[i].dsize = Cat[e.descs[i].d].size
                                   /\ e.descs[i].mt = mans'[IF kind = "sub" /\ e.via = "wrapper" THEN SubName(e.r) ELSE e.r][e.descs[i].d]

SnapMatch(e) ==
  \A r \in Repos :
    /\ ToSet(e.blobs[r]) = blobs[r]
    /\ DOMAIN e.mans[r] = DOMAIN mans[r]
    /\ \A c \in DOMAIN mans[r] : e.mans[r][c] = mans[r][c]
    /\ DOMAIN e.tags[r] = DOMAIN tags[r]
    /\ \A t \in DOMAIN tags[r] : e.tags[r][t].c = tags[r][t].c /\ e.tags[r][t].mt = tags[r][t].mt

ScopeOf(j) == [unl |-> j.unl, set |-> {<<t[1], t[2], t[3]>> : t \in ToSet(j.triples)}]
ConsOf(cs) == [i \in 1..Len(cs) |-> <<cs[i].n, cs[i].k>>]
NamesOnly(s) == [i \in 1..Len(s) |-> s[i][1]]

\* A returned listing sequence is consumed several times by the harness: e.again holds what
\* the second, third, ... consumption delivered.  Each must deliver what the first did; the
\* backend may be asked again each time (a lazy wrapper) but only ever the same question
\* under the same scope.
LazyOps == {"ListRepos", "ListTags", "Referrers"}
Iters(e) == 1 + Len(e.again)
AgainOK(e) == \A i \in 1..Len(e.again) : e.again[i].ok = e.ok /\ ((e.ok \/ e.op = "ListRepos") => e.again[i].items = e.items)
BackendCallsOK(e, want) ==
  IF e.op \in LazyOps /\ want # <<>>
    THEN Len(e.backend) \in 1..Iters(e) /\ \A i \in 1..Len(e.backend) : e.backend[i] = want[1]
    ELSE e.backend = want
RECURSIVE Rep(_, _)
Rep(s, k) == IF k = 0 THEN <<>> ELSE s \o Rep(s, k - 1)

\* where in the view's name space the start string of a listing lies, from its bytes
StartPosOK(e) ==
  e.startpos = IF e.start = "" THEN 0
               ELSE IF e.start \in ViewRepos THEN ViewPos.r[e.start]
               ELSE 2 * Cardinality({y \in ViewRepos : Less(Chars[y], Chars[e.start])}) + 1

\* ------------------------------------------------------------------------
TInit == Init /\ l = 2 /\ kind = "-" /\ pol = <<>> /\ allow = {} /\ fail = -1 /\ tree = <<>> /\ faults = {} /\ script = [on |-> FALSE, items |-> <<>>]
        /\ wres = NoRes /\ wpe = None /\ cons = <<>> /\ bcalls = <<>> /\ bscopes = <<>>

ResetStep(e) ==
  /\ imm' = e.imm
  /\ blobs' = [r \in Repos |-> {}]
  /\ mans' = [r \in Repos |-> <<>>]
  /\ tags' = [r \in Repos |-> <<>>]
  /\ ups' = [r \in Repos |-> <<>>]
  /\ touched' = {}
  /\ res' = NoRes
  /\ wres' = NoRes /\ wpe' = None /\ cons' = <<>> /\ bcalls' = <<>> /\ bscopes' = <<>>
  /\ kind' = e.kind
  /\ fail' = e.failafter
  /\ tree' = e.tree
  /\ faults' = {<<x[1], x[2]>> : x \in ToSet(e.faults)}
  /\ script' = [on |-> e.scripted, items |-> e.script]
  \* a stack of Sub views is the one view under the composed prefix
  /\ e.kind = "sub" => ChainPrefix(e.chain) = Prefix
  /\ allow' = ToSet(e.allow)
  /\ pol' = IF e.kind = "select" THEN SelPol(ToSet(e.allow), Repos) ELSE e.pol

\* a call made directly on the in-memory registry
BackendStep(e) ==
  /\ Apply(e) /\ Match(res', e)
  /\ UNCHANGED <<wvars, tvars>>

\* C12: a call through AccessChecker / Select
Faulted(op) == \E x \in faults : x[1] = op
FaultCode(op) == (CHOOSE x \in faults : x[1] = op)[2]
\* a listing over a backend whose listing is scripted and / or fails part way
Failing(e) == (fail >= 0 \/ script.on) /\ e.op = "ListRepos" /\ ~Rejected(e, pol)
CheckedStep(e) ==
  LET sc == ScopeOf(e.scope) IN
  \* (a name outside the backend's universe is an ill-formed one)
  /\ \A n \in CNames(e) \ Repos : ~ValidName(n)
  /\ IF Failing(e) THEN CheckedListing(e, pol, sc, script.on, script.items, fail) /\ e.items = wres'.items
     ELSE IF Faulted(e.op) /\ ~Rejected(e, pol) THEN CheckedFault(e, pol, sc, FaultCode(e.op)) /\ FaultedStep(FaultCode(e.op))
     ELSE CheckedApply(e, pol, sc)
  /\ Match(wres', e)
  \* a name that comes with an error (consumers may look at it) is nothing the policy rejects
  /\ e.op = "ListRepos" => \A i \in 1..Len(e.errwith) : ErrItemOK(e.errwith[i], pol)
  \* the policy was consulted exactly as predicted (Select's allow function sees the names only)
  \* (a listing consumed k times checks its items k times)
  /\ LET want == ConsOf(cons')
         st == Len(StaticCons(e)) IN
     \E k \in 1..Iters(e) :
        LET w == IF Len(want) > st THEN SubSeq(want, 1, st) \o Rep(SubSeq(want, st + 1, Len(want)), k) ELSE want IN
        IF kind = "checker" THEN e.cons = w ELSE NamesOnly(e.cons) = NamesOnly(w)
  /\ AgainOK(e)
  \* the backend received exactly the predicted calls, each under the caller's own scope
  /\ BackendCallsOK(e, bcalls')
  /\ Len(e.bscopes) = NIface(e.backend)
  /\ \A i \in 1..Len(e.bscopes) : ScopeOf(e.bscopes[i]) = sc
  \* the error is the policy's own (its identity, not just its code); no policy error otherwise
  /\ kind = "checker" => ToSet(e.pes) = (IF wpe' = None THEN {} ELSE {wpe'})
  /\ IF Failing(e) \/ (Faulted(e.op) /\ ~Rejected(e, pol))
                   THEN /\ RejectedNeverReachesBackendStep(e, pol) /\ ListingFilteredStep(e, pol)
                         /\ ErrorIsPolicyErrorStep(e, pol) /\ BackendUnchanged
                   ELSE C12Step(e, pol)
  /\ kind = "select" => SelectKindsOK(allow, Repos)
  /\ UNCHANGED tvars

\* C12, wrappers built on wrappers: the call goes through wrapper e.node; the policies on the path
\* from it down to the backend are what OciFilter!NestApply is given, outermost first.
RECURSIVE PathOf(_)
PathOf(n) == IF n = 0 THEN <<>> ELSE <<n>> \o PathOf(tree[n].parent)
NodePol(nd) == IF nd.kind = "select" THEN SelPol(ToSet(nd.allow), Repos) ELSE nd.pol
\* (a repository listing consumed k times: the outermost wrapper makes its own "*" consultation
\* once, when called, and checks the items k times; it asks the wrapper below for its listing anew
\* each time, so everything further in happens k times over)
LevelConsOK(got, want, st, k, isSelect, lvl, op) ==
  LET w == IF op = "ListRepos" /\ lvl > 1 THEN Rep(want, k)
           ELSE IF Len(want) > st THEN SubSeq(want, 1, st) \o Rep(SubSeq(want, st + 1, Len(want)), k) ELSE want IN
  IF isSelect THEN NamesOnly(got) = NamesOnly(ConsOf(w)) ELSE got = ConsOf(w)
TreeStep(e) ==
  LET sc == ScopeOf(e.scope)
      path == PathOf(e.node)
      pols == [i \in 1..Len(path) |-> NodePol(tree[path[i]])]
      j == NestFirstRej(e, pols) IN
  /\ NestApply(e, pols, sc)
  /\ Match(wres', e)
  \* every level was consulted exactly as predicted, and no wrapper off the path was asked anything
  /\ Len(e.lcons) = Len(path)
  /\ \E k \in 1..Iters(e) :
        \A i \in 1..Len(path) : LevelConsOK(e.lcons[i], cons'[i], Len(StaticCons(e)), k, tree[path[i]].kind = "select", i, e.op)
  /\ e.offpath = <<>>
  /\ AgainOK(e)
  /\ BackendCallsOK(e, bcalls')
  /\ Len(e.bscopes) = NIface(e.backend)
  /\ \A i \in 1..Len(e.bscopes) : ScopeOf(e.bscopes[i]) = sc
  /\ ToSet(e.pes) = (IF j > 0 /\ tree[path[j]].kind = "checker" THEN {wpe'} ELSE {})
  /\ e.op = "ListRepos" => \A i \in 1..Len(e.errwith) : \A lv \in 1..Len(pols) : ErrItemOK(e.errwith[i], pols[lv])
  /\ NestStep(e, pols)
  /\ UNCHANGED tvars

\* C13: a call through Sub
InvalidCallOK(e) ==
  \* a caller string that is not a repository name: at most the one call, of the same method,
  \* and every name it carries is under the prefix or not a repository name at all
  /\ Len(e.backend) <= (IF e.op \in LazyOps THEN Iters(e) ELSE 1)
  /\ \A i \in 1..Len(e.backend) : e.backend[i].m = e.op
SubFailing(e) == fail >= 0 /\ e.op = "ListRepos"
SubFaulted(e) == Faulted(e.op) /\ (\A n \in OpNames(e) : ValidName(n))
SubStep(e) ==
  LET sc == ScopeOf(e.scope) IN
  /\ IF SubFailing(e) THEN SubListFail(e, sc, fail) /\ e.items = wres'.items
     ELSE IF SubFaulted(e) THEN SubFault(e, sc, FaultCode(e.op)) /\ FaultedStep(FaultCode(e.op))
     ELSE SubApply(e, sc)
  /\ Match(wres', e)
  /\ e.cons = <<>>
  /\ e.op = "ListRepos" => StartPosOK(e)
  /\ IF e.op = "ListRepos" \/ (\A n \in OpNames(e) : ValidName(n))
       THEN BackendCallsOK(e, bcalls')
       ELSE InvalidCallOK(e)
  /\ AgainOK(e)
  /\ ConfinedCalls(e.backend)
  /\ \A i \in 1..Len(e.bscopes) : ScopesRewrittenOne(sc, ScopeOf(e.bscopes[i]))
  /\ Len(e.bscopes) = NIface(e.backend)
  /\ IF SubFailing(e) THEN SubFailedListingStep(e) /\ ScopesRewrittenStep(sc)
     ELSE IF SubFaulted(e) THEN ScopesRewrittenStep(sc) /\ ConfinedCalls(bcalls') /\ OutsideUnchanged
     ELSE C13Step(e, sc)
  /\ e.op = "ListRepos" => \A i \in 1..Len(e.errwith) : e.errwith[i] = "" \/ e.errwith[i] \in ViewRepos
  /\ UNCHANGED tvars

\* One call of the concurrent stage: several goroutines call through ONE Sub view at the same
\* time, each with a scope of its own.  The clause "scopes are rewritten for every method" is a
\* statement about each call, whatever else is in flight: the backend saw this call's own scope,
\* rewritten, and this call's own name, prefixed.  (Events are the distinct observations.)
ConcStep(e) ==
  /\ kind = "sub"
  /\ ScopesRewrittenOne(ScopeOf(e.scope), ScopeOf(e.bscope))
  /\ e.br = (IF e.m = "ListRepos" THEN "" ELSE SubName(e.r))
  /\ UNCHANGED <<fvars, tvars>>

TNext ==
  /\ l <= Len(Trace)
  /\ l' = l + 1
  /\ LET e == Trace[l] IN
     CASE e.op = "reset" -> ResetStep(e)
       [] e.op = "snap" -> SnapMatch(e) /\ UNCHANGED <<fvars, tvars>>
       [] e.op = "skip" -> UNCHANGED <<fvars, tvars>>
       [] e.op = "panic" -> FALSE
       [] e.op = "cscope" -> ConcStep(e)
       [] OTHER -> IF e.via = "backend" THEN BackendStep(e)
                   ELSE IF kind = "sub" THEN SubStep(e)
                   ELSE IF kind = "tree" THEN TreeStep(e) ELSE CheckedStep(e)
TSpec == TInit /\ [][TNext]_<<fvars, l, tvars>>

Accepted == TLCGet("stats").diameter = Len(Trace)
=============================================================================
