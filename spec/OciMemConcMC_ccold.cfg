SPECIFICATION Spec
CONSTANTS
  GetTagSteps = 1
  CommitSnapshots = TRUE
  CommitSerialized = FALSE
  TwoPhaseCommit = TRUE
  Prog <- ProgCC
INVARIANTS Linearizable StoredMatchesKey TagNeverFalselyMissing
VIEW ConcView
CHECK_DEADLOCK FALSE
