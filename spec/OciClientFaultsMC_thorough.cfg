SPECIFICATION MCSpecQ
CONSTANTS
  DefaultN = 5
  Threshold = 4
  ErrLimit = 8192
  DefaultChunk = 50
  MaxAlloc = 100
  PageSizeRule = "le0"
  GuardLocation = TRUE
  GuardAlloc = TRUE
  StrictRangeTooLong = FALSE
  PageSizes <- PS4
  MaxResp = 3
  MaxCalls = 4
  Families <- AllFamilies
  SizesForAll = TRUE
  Level = "full"
INVARIANT Props
PROPERTY AlwaysReturns
