----------------------------- MODULE OciRefTrace -----------------------------
(***************************************************************************)
(* Trace validation for C17.  The trace (ndjson, env TRACE_FILE) is a       *)
(* header line followed by scenarios: a `reset` line, then events, each    *)
(* holding an input (as character codes) and what the REAL code returned:  *)
(*   ref    - ociref.IsValidHost/Repository/Tag/Digest, ParseRelative,     *)
(*            Parse (+ String of the result), ociregistry.IsValid*         *)
(*   print  - ociref.Reference{...}.String() and Parse of that string      *)
(*   route  - GET <path> served by ociserver.New(recording backend, nil):  *)
(*            first backend call and its arguments, number of calls, status*)
(*   client - ociclient ResolveTag/GetTag/GetManifest/GetBlob with a       *)
(*            recording transport: was a request sent, method, path        *)
(* TLC evaluates OciRef on every input and requires the logged outputs to  *)
(* be what the specification says.  A `panic` event has no action.         *)
(***************************************************************************)
EXTENDS OciRef, Json, IOUtils, TLC, TraceHdr

VARIABLE l

Trace == ndJsonDeserialize(IOEnv.TRACE_FILE)

\* x = logged {ok, ref = <<host, repo, tag, digest>>, str}; r = the specification's result
ParseMatches(x, r) ==
  /\ x.ok = r.ok
  /\ r.ok => (x.ref = RefSeq(r.ref) /\ x.str = PrintRef(r.ref))
\* the property read directly on the implementation's outputs: a defined result prints back
\* to the input and all its parts are valid and within the limits
ImplPartition(x, s) == PartitionExactFor([ok |-> x.ok, ref |-> SeqRef(x.ref)], s) /\ (x.ok => x.str = s)

\* the implementation's own predicates, asked about the parts its parser returned (pv:
\* 0 false, 1 true, 2 not asked: empty part or failed parse), say what the grammar says;
\* with ImplPartition: every returned part satisfies its own predicate
Asked(part, isValid) == IF part = <<>> THEN 2 ELSE IF isValid THEN 1 ELSE 0
PartPredicates(x) ==
  IF ~x.ok THEN x.pv = <<2, 2, 2, 2>>
  ELSE /\ x.pv = <<Asked(x.ref[1], IsHost(x.ref[1])), Asked(x.ref[2], IsRepository(x.ref[2])),
                   Asked(x.ref[3], IsTag(x.ref[3])), Asked(x.ref[4], IsDigest(x.ref[4]))>>
       /\ \A i \in 1..4 : x.pv[i] # 0

RefOk(e) ==
  LET v == Verdict(e.s) IN
  /\ e.host = v.host /\ e.repo = v.repo /\ e.tag = v.tag /\ e.digest = v.digest
  /\ e.lrepo = v.repo /\ e.ltag = v.tag /\ e.ldigest = v.digest       \* ociregistry/valid.go
  /\ ParseMatches(e.rel, v.rel) /\ ParseMatches(e.abs, v.abs)
  /\ ImplPartition(e.rel, e.s) /\ ImplPartition(e.abs, e.s)
  /\ PartPredicates(e.rel) /\ PartPredicates(e.abs)
  \* Parse and ParseRelative agree: Parse is ParseRelative restricted to references with a host
  /\ e.abs.ok => (e.rel.ok /\ e.abs.ref = e.rel.ref /\ e.abs.str = e.rel.str)
  /\ (e.rel.ok /\ e.rel.ref[1] # <<>>) => e.abs.ok
  /\ e.abs.ok => e.abs.ref[1] # <<>>
  /\ IF "pred" \in DOMAIN e
     THEN e.pred = Export(v)     \* TLC-generated case: the exported prediction is the verdict
     \* any other string: the laws of the model are checked on it as well; a failure is an
     \* error of the specification, not of the implementation (TLC stops with this message)
     ELSE Assert(Laws(e.s), <<"OciRef law violated on a logged string (specification error)", e.s>>)

\* the printer, and the round trip: valid parts with a non-empty host print to a string
\* that Parse gives back as the same parts
PrintOk(e) ==
  LET p == SeqRef(e.p) IN
  /\ e.str = PrintRef(p)
  /\ (ValidParts(p) /\ p.host # <<>>) => (e.back.ok /\ e.back.ref = e.p /\ e.back.str = e.str)
  /\ PartPredicates(e.back)

RouteOk(e) ==
  LET r == Route(e.path) IN
  IF r.kind = "uploadinfo"
  THEN IF e.ncalls = 0 THEN e.call = "-" ELSE (e.ncalls = 1 /\ e.call = r.call /\ e.repo = r.repo)
  ELSE /\ e.call = r.call /\ e.repo = r.repo /\ e.ref = r.ref
       /\ e.ncalls = (IF r.call = "-" THEN 0 ELSE 1)
       /\ r.kind = "error" => e.status >= 400

\* The client validates what it is given with the same router code: a valid repository with
\* a valid tag / digest must produce exactly the expected request; anything else must end
\* without a panic, and a call that sends nothing reports an error.
ClientOk(e) ==
  LET byTag == e.fn \in {"ResolveTag", "GetTag"}
      valid == IsRepository(e.repo) /\ (IF byTag THEN IsTag(e.ref) ELSE IsDigest(e.ref))
      path == IF e.fn = "GetBlob" THEN BlobPath(e.repo, e.ref) ELSE ManifestPath(e.repo, e.ref)
  IN /\ e.fn \in {"ResolveTag", "GetTag", "GetManifest", "GetBlob"}
     /\ valid => (e.sent /\ e.path = path /\ e.method = (IF e.fn = "ResolveTag" THEN "HEAD" ELSE "GET"))
     /\ ~e.sent => e.err

TInit == l = 2
TNext ==
  /\ l <= Len(Trace)
  /\ l' = l + 1
  /\ LET e == Trace[l] IN
     CASE e.op = "reset" -> TRUE
       [] e.op = "ref" -> RefOk(e)
       [] e.op = "print" -> PrintOk(e)
       [] e.op = "route" -> RouteOk(e)
       [] e.op = "client" -> ClientOk(e)
       [] OTHER -> FALSE          \* "panic" (or anything unknown): no action
TSpec == TInit /\ [][TNext]_l

\* The whole trace was consumed: one state per line after the header.
Accepted == TLCGet("stats").diameter = Len(Trace)
=============================================================================
