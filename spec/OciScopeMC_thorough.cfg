SPECIFICATION Spec
CONSTANTS
  Strs <- MCStrs
  Cls <- MCCls
  U <- MCU9
  PairIdx <- Idx9
INVARIANT Laws
INVARIANT ParsePermutedRepeated
CHECK_DEADLOCK FALSE
