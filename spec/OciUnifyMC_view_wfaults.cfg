SPECIFICATION SpecView
CONSTANTS
  Repos = {"r1"}
  Tags = {"t1"}
  Cids = {"b1", "b2", "img", "sub"}
  BlobIds = {"b1", "b2"}
  ManIds = {"img", "sub"}
  Cat <- MCCat
  UploadIds = {}
  ImmChoices = {FALSE}
  BlockSize = 8
  Pos <- MCPos
  Policies = {"seq", "conc"}
  ListFaults <- NoFaults
  MTs = {"image"}
  WriteFaults = TRUE
  Depth = 0
INVARIANTS TypeOK
PROPERTIES UnionView TagConflictNeverSilent WriteBoth ReadsChangeNothing PoliciesAgree
VIEW MCView
CHECK_DEADLOCK FALSE
