SPECIFICATION Spec
CONSTANTS
  GetTagSteps = 1
  CommitSnapshots = TRUE
  TwoPhaseCommit = TRUE
  Prog <- ProgRB
INVARIANTS Emit
CHECK_DEADLOCK FALSE
