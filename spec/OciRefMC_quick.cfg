SPECIFICATION Spec
CONSTANTS
  Base = {"a", "A", "0", ".", "-", "_", ":", "/", "@", "[", "]", "!"}
  MaxFlat = 4
  FullLen = 4
  MaxMacroFlat = 2
  PartsLevel = 1
  LongMacros = {"HL261", "HL262", "HL300"}
INVARIANT MCLaws
CHECK_DEADLOCK FALSE
