SPECIFICATION Spec
CONSTANTS
  MaxFlat = 4
  MaxMacroFlat = 2
  PartsLevel = 1
INVARIANT MCLaws
INVARIANT Emit
CHECK_DEADLOCK FALSE
