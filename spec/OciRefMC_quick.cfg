SPECIFICATION Spec
CONSTANTS
  Base = {"a", "A", "0", ".", "-", "_", ":", "/", "@", "[", "]", "!"}
  MaxFlat = 4
  FullLen = 4
  MaxMacroFlat = 2
  PartsLevel = 1
INVARIANT MCLaws
CHECK_DEADLOCK FALSE
