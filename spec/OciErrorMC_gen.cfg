SPECIFICATION Spec
CONSTANTS
  StdMsg <- MCStdMsg
  Modes = {"impl"}
  MaxHops = 0
  Statuses = {400, 404, 416, 429, 500}
  SweepStatuses <- SweepAll
  Kinds = {"BODY", "HEAD"}
  Export = TRUE
INVARIANTS Emit
CHECK_DEADLOCK FALSE
