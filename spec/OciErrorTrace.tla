---------------------------- MODULE OciErrorTrace ----------------------------
(***************************************************************************)
(* Trace validation for C07.  The trace (ndjson, env TRACE_FILE) starts    *)
(* with a header (the token sequences of the 15 standard messages, as the  *)
(* harness tokenised them), then `reset` lines and one `case` line per     *)
(* executed case: the abstract error tree, the carrier, the hop count K,   *)
(* what the error looked like at every level 0..K (lv[1] is the original,  *)
(* lv[j+1] is the error returned by the client j hops above the backend),  *)
(* and what the tap under each of those clients saw on the wire.           *)
(* Every line is judged against OciError:                                  *)
(*   level 0   the Go value is the tree the case names                     *)
(*   StatusPerTable, CodePreserved, DetailPreserved at every level / tap   *)
(*   IsPreserved: the errors.Is vector at every level equals the one       *)
(*             logged for the original (identities the single wire error   *)
(*             cannot carry - further joined codes - may be lost)          *)
(*   first hop message = one status prefix + one code prefix + Error()     *)
(*             minus one status prefix minus one code prefix               *)
(*   MessageFixedPoint: every later level repeats the first hop's message  *)
(*   HEAD carriers: status kept, the status-derived representative         *)
(*   listings whose backend yields items and THEN the error: the error     *)
(*             arrives at every level (all laws above), after exactly the  *)
(*             items of the pages before the failing one                   *)
(*   origin cases: level 0 is what a real ociclient made of the answer of  *)
(*             a non-conforming registry (status disagreeing with the      *)
(*             table); every relaying hop answers the tabled status        *)
(*   writer carriers (the backend's BlobWriter fails in Write, Close or    *)
(*             Commit): status, code, detail, identity as above; the       *)
(*             registry's message must survive as the end of the message   *)
(***************************************************************************)
EXTENDS OciError, Json, IOUtils, TraceHdr

CONSTANTS
  K2_Status416ImpliesRangeInvalid,  \* known finding: after a hop BLOB_UPLOAD_INVALID also matches ErrRangeInvalid
  K2b_Wrapped416LosesRangeInvalid   \* known finding: a 416 wrapper's ErrRangeInvalid match is lost when another status goes on the wire

VARIABLE l

Trace == ndJsonDeserialize(IOEnv.TRACE_FILE)
TrStdMsg == [c \in StdCodes |-> Hdr.stdmsg[c]]
ToSet(s) == {s[i] : i \in 1..Len(s)}
RI == "RANGE_INVALID"

\* Writer carriers: the error is raised by a method of the backend's BlobWriter, reached through
\* the closing PUT of PushBlob (WPushBlob), Write within the chunk size then Commit (WWriteCommit),
\* a Write overflowing the chunk size sent as PATCH (WWritePatch), Close flushing a PATCH (WClose),
\* Commit with nothing written (WCommit).
WriterFail == ("WPushBlob" :> "W.Write") @@ ("WWriteCommit" :> "W.Write") @@ ("WWritePatch" :> "W.Write") @@
              ("WClose" :> "W.Close") @@ ("WCommit" :> "W.Commit")
WriterCarriers == DOMAIN WriterFail
HeadCarriers == {"ResolveBlob", "ResolveManifest", "ResolveTag"}
Carriers == HeadCarriers \cup {"GetBlob", "GetBlobRange", "GetManifest", "GetTag", "PushBlob", "PushBlobChunked",
             "PushBlobChunkedResume", "MountBlob", "PushManifest", "DeleteBlob", "DeleteManifest", "DeleteTag",
             "Repositories", "Tags", "Referrers"} \cup WriterCarriers
\* ociclient.PushBlob opens an upload session first: the backend method it reaches is PushBlobChunked
BackendMethod(c) == IF c = "PushBlob" THEN "PushBlobChunked" ELSE IF c \in WriterCarriers THEN WriterFail[c] ELSE c
IsSuffix(m, x) == Len(m) <= Len(x) /\ SubSeq(x, Len(x) - Len(m) + 1, Len(x)) = m
Strip(m) == IF m = <<E>> THEN <<>> ELSE m

\* level 0: the value built by the harness is the tree of the case
Level0OK(t, o) ==
  /\ o.isErr
  /\ o.http = HasHttp(t)
  /\ o.resp = (HasHttp(t) /\ FirstHttp(t).resp)
  /\ o.status = (IF HasHttp(t) THEN FirstHttp(t).status ELSE 0)
  /\ o.hasCode = HasErr(t)
  /\ o.code = (IF HasErr(t) THEN FirstErr(t).code ELSE "")
  /\ o.detail = WireDetail(t)
  /\ ToSet(o.is) \in {IsSet(t, TRUE), IsSet(t, FALSE)}
  /\ o.msg = Msg(t)

\* IsPreserved against the original's logged vector `ref`
IsOK(t, ref, got) ==
  LET lo == ref \ Secondary(t) IN
  \/ lo \subseteq got /\ got \subseteq ref
  \/ /\ K2_Status416ImpliesRangeInvalid
     /\ WireCode(t) = "BLOB_UPLOAD_INVALID" /\ RI \notin ref /\ RI \in got
     /\ lo \subseteq got /\ (got \ {RI}) \subseteq ref
  \/ /\ K2b_Wrapped416LosesRangeInvalid
     /\ RI \in ref /\ RI \notin CodeIds(t) /\ Status(t) # 416 /\ RI \notin got
     /\ (lo \ {RI}) \subseteq got /\ got \subseteq ref

ListCarriers == {"Repositories", "Tags", "Referrers"}
\* ociclient.Referrers does not page: one request, so the error arrives alone
EffPage(e) == IF e.carrier = "Referrers" \/ e.page = 0 THEN 1000 ELSE e.page
Upto(n) == [i \in 1..n |-> i]

BodyLevelOK(t, ref, o, w, k, o1, w1, writer) ==
  /\ o.isErr /\ o.http /\ o.resp /\ o.status = Status(t)
  /\ o.hasCode /\ o.code = WireCode(t)
  /\ o.detail = WireDetail(t)
  /\ IsOK(t, ref, ToSet(o.is))
  /\ w.status = Status(t) /\ ~w.empty /\ w.json /\ w.n = 1 /\ w.nreq >= 1
  /\ w.code = WireCode(t)
  /\ w.detail = WireDetail(t)
  /\ IF writer
     \* servers and clients prepend their own context ("cannot flush data before commit", ...) on
     \* these paths at every hop; what must survive is the registry's message, at the end
     THEN \E x \in BOOLEAN : IsSuffix(Strip(WireMsg(t, x)), o.msg) /\ IsSuffix(Strip(WireMsg(t, x)), w.msg)
     ELSE /\ IF k = 1 THEN w.msg \in {WireMsg(t, FALSE), WireMsg(t, TRUE)}
             ELSE w.msg = w1.msg /\ o.msg = o1.msg
          /\ o.msg = <<S(Status(t)), C(WireCode(t))>> \o (IF w.msg = <<E>> THEN <<>> ELSE w.msg)

HeadLevelOK(t, o, w) ==
  LET h == HeadErr(Status(t)) IN
  /\ o.isErr /\ o.http /\ o.resp /\ o.status = Status(t)
  /\ o.hasCode = HasErr(h)
  /\ o.code = (IF HasErr(h) THEN FirstErr(h).code ELSE "")
  /\ o.detail = "none"
  /\ ToSet(o.is) = IsSet(h, TRUE)
  /\ o.msg = Msg(h)
  /\ w.status = Status(t) /\ w.empty /\ w.nreq = 1 /\ w.method = "HEAD"

CaseOK(e) ==
  LET t == e.err
      K == e.hops
      ref == ToSet(e.lv[1].is) IN
  /\ e.carrier \in Carriers
  /\ K >= 1 /\ Len(e.lv) = K + 1 /\ Len(e.wire) = K
  /\ e.nitems >= 0 /\ e.page >= 0
  /\ (e.carrier \notin ListCarriers) => (e.nitems = 0 /\ e.page = 0)
  \* a non-conforming origin: the original is what ociclient made of a foreign registry's answer
  /\ e.origin => /\ t.k = "http" /\ t.resp /\ Len(t.kids) = 1 /\ t.kids[1].k = "new"
                 /\ e.carrier \notin HeadCarriers \cup WriterCarriers /\ e.nitems = 0
  /\ Len(e.reached) >= 1 /\ ToSet(e.reached) = {IF e.origin THEN "origin" ELSE BackendMethod(e.carrier)}
  /\ (e.nitems = 0 /\ e.carrier \notin WriterCarriers) => Len(e.reached) = 1
  /\ Level0OK(t, e.lv[1]) /\ e.lv[1].items = <<>>
  \* a listing that fails after items: exactly the items of the pages before the failing one, then the error
  /\ \A k \in 1..K : /\ e.lv[k + 1].items = Upto(Delivered(e.nitems, EffPage(e), k))
                      /\ (e.nitems = 0 /\ e.carrier \notin WriterCarriers) => e.wire[k].nreq = 1
  /\ \A k \in 1..K :
       IF e.carrier \in HeadCarriers THEN HeadLevelOK(t, e.lv[k + 1], e.wire[k])
       ELSE BodyLevelOK(t, ref, e.lv[k + 1], e.wire[k], k, e.lv[2], e.wire[1], e.carrier \in WriterCarriers)

TInit == l = 2
TNext ==
  /\ l <= Len(Trace)
  /\ l' = l + 1
  /\ LET e == Trace[l] IN
     CASE e.op = "reset" -> TRUE
       [] e.op = "case" -> CaseOK(e)
       [] OTHER -> FALSE          \* e.g. "panic": no such step
TSpec == TInit /\ [][TNext]_l

Accepted == TLCGet("stats").diameter = Len(Trace)
=============================================================================
