SPECIFICATION TSpec
CONSTANTS
  StdMsg <- TrStdMsg
  K2_Status416ImpliesRangeInvalid = FALSE
  K2b_Wrapped416LosesRangeInvalid = FALSE
POSTCONDITION Accepted
CHECK_DEADLOCK FALSE
