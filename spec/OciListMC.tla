----------------------------- MODULE OciListMC -----------------------------
(***************************************************************************)
(* Exhaustive sweep of listing configurations inside ONE TLC run: the      *)
(* configuration (stack, contents, start point, consumer stop point) is    *)
(* chosen in the initial state.  A sample of the configurations is         *)
(* exported (PrintT "MBT" lines) to be executed on the real code.          *)
(***************************************************************************)
EXTENDS OciList, Json, IOUtils, FiniteSetsExt

CONSTANTS Tier,        \* "quick" | "thorough"
          SampleMod    \* export the configurations with id % SampleMod = seed % SampleMod

Quick == Tier = "quick"
N1 == IF Quick THEN 5 ELSE 6     \* universe of the single-hop sweep
N2 == IF Quick THEN 4 ELSE 5     \* universe of the composite stacks
N3 == IF Quick THEN 3 ELSE 4     \* universe of two paging hops / paged members

PageSizes == {-1, 0, 1, 2, 3, 4}
Maxes == {0, 2, 3}
Hop(n, m, lk) == [n |-> n, max |-> m, link |-> lk]
HopsFull == {Hop(n, m, lk) : n \in PageSizes, m \in Maxes, lk \in BOOLEAN}
HopsMid == {Hop(n, m, lk) : n \in (IF Quick THEN {0, 1, 2} ELSE {0, 1, 2, 3}), m \in {0, 2}, lk \in BOOLEAN}
HopsSmall == {Hop(n, 0, lk) : n \in (IF Quick THEN {1, 2} ELSE {1, 2, 3}), lk \in BOOLEAN}
HopsTiny == IF Quick THEN {Hop(1, 0, TRUE), Hop(2, 0, FALSE)} ELSE {Hop(1, 0, TRUE), Hop(2, 0, FALSE), Hop(3, 0, TRUE)}
\* consumer stop points (0: never declines)
KsFull(u) == IF Quick THEN {0, 2, 3} ELSE 0..u + 1
Ks(u) == IF Quick THEN {0, 1, 2} ELSE 0..u + 1

Mem(S) == [t |-> "mem", s |-> S, absent |-> FALSE]
Absent == [t |-> "mem", s |-> {}, absent |-> TRUE]
Http(hop, h, x) == [t |-> "http", hop |-> hop, n |-> h.n, max |-> h.max, link |-> h.link, x |-> x]
Select(p, x) == [t |-> "select", p |-> p, x |-> x]
Sub(lo, cnt, x) == [t |-> "sub", lo |-> lo, cnt |-> cnt, x |-> x]
Unify(x, y) == [t |-> "unify", x |-> x, y |-> y]
Debug(x) == [t |-> "debug", x |-> x]
Fail(at, x) == [t |-> "fail", at |-> at, x |-> x]

Mems(n) == {Mem(S) : S \in SUBSET (1..n)}
MemsA(n) == Mems(n) \cup {Absent}
\* second members of a unifier: a few sets that overlap, interleave with or miss the first
Seconds(n) == {Mem(S) : S \in {{}, {1}, {n}, {x \in 1..n : x % 2 = 0}, {x \in 1..n : x % 2 = 1}, 1..n}}
SecondsA(n) == IF Quick THEN {Absent, Mem({}), Mem({1, n})} ELSE MemsA(n)
Preds(n) == {1..n, {x \in 1..n : x % 2 = 1}, {x \in 1..n : x > 1 /\ x < n}, {}}

\* families of stacks: [kind, u |-> size of the top-level universe, starts, ks, nodes]
Fam(kind, u, ks, nodes) == [kind |-> kind, u |-> u, starts |-> IF kind = "refs" THEN {0} ELSE 0..2 * u + 1, ks |-> ks, nodes |-> nodes, cuts |-> {-1}]
\* the same with a consumer context that is done after `cut` items
CtxFam(kind, u, ks, cuts, nodes) ==
  [Fam(kind, u, ks, nodes) EXCEPT !.cuts = cuts, !.starts = IF kind = "refs" THEN {0} ELSE IF Quick THEN {0, 3} ELSE {0, 1, 2, 3, 2 * u}]
Repos ==
  <<Fam("repos", N1, 0..N1 + 1, Mems(N1)),
    Fam("repos", N1, KsFull(N1), {Http(1, h, m) : h \in HopsFull, m \in Mems(N1)}),
    Fam("repos", N3, Ks(N3), {Http(2, h, Http(1, g, m)) : h \in HopsMid, g \in HopsTiny, m \in Mems(N3)}),
    Fam("repos", N2, 0..N2 + 1, {Select(p, m) : p \in Preds(N2), m \in Mems(N2)}),
    Fam("repos", N2, Ks(N2), {Http(1, h, Select(p, m)) : h \in HopsTiny, p \in Preds(N2), m \in Mems(N2)}),
    Fam("repos", N2, Ks(N2), {Select(p, Http(1, h, m)) : h \in HopsTiny, p \in Preds(N2), m \in Mems(N2)}),
    Fam("repos", N2, Ks(N2), {Debug(Http(1, h, Debug(m))) : h \in HopsSmall, m \in Mems(N2)}),
    Fam("repos", N2, Ks(N2), {Unify(m, m2) : m \in Mems(N2), m2 \in Seconds(N2)}),
    Fam("repos", N3, Ks(N3), {Http(1, h, Unify(m, m2)) : h \in HopsSmall, m \in Mems(N3), m2 \in Seconds(N3)}),
    Fam("repos", N3, Ks(N3), {Unify(Http(1, h, m), Http(2, g, m2)) : h \in HopsSmall, g \in HopsTiny, m \in Mems(N3), m2 \in Seconds(N3)}),
    \* a server that refuses the page size, in front of a unifier with a paged member
    Fam("repos", N3, {0, 1}, {Http(2, Hop(n, 2, TRUE), Debug(Unify(Http(1, g, m), m2))) : n \in {2, 3}, g \in HopsTiny, m \in Mems(N3), m2 \in Seconds(N3)})>>

\* Sub changes the universe: the view has cnt elements of the N2 underneath
SubFam(lo, cnt) ==
  Fam("repos", cnt, Ks(cnt),
      {Sub(lo, cnt, m) : m \in Mems(N2)}
        \cup {Http(1, h, Sub(lo, cnt, m)) : h \in HopsTiny, m \in Mems(N2)}
        \cup {Sub(lo, cnt, Http(1, h, m)) : h \in HopsTiny, m \in Mems(N2)})
Subs == <<SubFam(0, N2), SubFam(1, N2 - 2), SubFam(1, N2 - 1), SubFam(0, N2 - 1)>>

\* tags: as repositories, but the repository may be unknown to a registry, and
\* Select / Sub (which admit / rename the listed repository) leave the items alone
Tags ==
  <<Fam("tags", N2, Ks(N2), {Http(1, h, m) : h \in HopsMid, m \in MemsA(N2)}),
    Fam("tags", N3, Ks(N3), {Unify(m, m2) : m \in MemsA(N3), m2 \in MemsA(N3)}),
    Fam("tags", N3, Ks(N3), {Http(1, h, Unify(m, m2)) : h \in HopsSmall, m \in MemsA(N3), m2 \in SecondsA(N3)}),
    Fam("tags", N3, Ks(N3), {Unify(Http(1, h, m), m2) : h \in HopsSmall \cup {Hop(3, 2, TRUE)}, m \in MemsA(N3), m2 \in SecondsA(N3)}),
    Fam("tags", N3, Ks(N3), {Unify(m2, Http(1, h, m)) : h \in HopsSmall \cup {Hop(3, 2, TRUE)}, m \in MemsA(N3), m2 \in SecondsA(N3)}),
    Fam("tags", N3, Ks(N3), {Sub(1, 1, Select({}, Http(1, h, m))) : h \in HopsSmall, m \in MemsA(N3)})>>

\* referrers: no start point; ociclient does not page them
Refs ==
  <<Fam("refs", N2, 0..N2 + 1, {Http(1, h, m) : h \in HopsMid, m \in MemsA(N2)}),
    Fam("refs", N3, Ks(N3), {Http(2, h, Http(1, g, m)) : h \in HopsSmall, g \in HopsSmall, m \in MemsA(N3)}),
    Fam("refs", N3, Ks(N3), {Unify(m, m2) : m \in MemsA(N3), m2 \in MemsA(N3)}),
    Fam("refs", N3, Ks(N3), {Http(1, h, Unify(m, m2)) : h \in HopsSmall, m \in MemsA(N3), m2 \in MemsA(N3)}),
    Fam("refs", N3, Ks(N3), {Unify(Http(1, h, m), m2) : h \in HopsSmall, m \in MemsA(N3), m2 \in MemsA(N3)}),
    Fam("refs", N3, Ks(N3), {Debug(Select({}, Sub(0, 1, m))) : m \in MemsA(N3)})>>

\* errors AFTER items, seen through the wrappers: a source that fails part-way (directly,
\* behind a paging hop - a later page request fails -, as one member of a unifier), and a
\* unifier one of whose members refuses the page size
Fails(n) == {Fail(at, m) : at \in 1..n, m \in {Mem(1..n), Mem({x \in 1..n : x % 2 = 1}), Mem({x \in 1..n : x > 1})}}
Late(kind) ==
  <<Fam(kind, N3, Ks(N3), {Debug(f) : f \in Fails(N3)} \cup {Select(1..N3, Debug(f)) : f \in Fails(N3)}),
    Fam(kind, N3, Ks(N3), {Debug(Http(1, h, f)) : h \in HopsSmall, f \in Fails(N3)}),
    Fam(kind, N3, Ks(N3), {Http(1, h, Debug(f)) : h \in HopsTiny, f \in Fails(N3)}),
    Fam(kind, N3, Ks(N3), {Debug(Unify(f, m2)) : f \in Fails(N3), m2 \in Seconds(N3)}
                          \cup {Debug(Unify(m2, Debug(f))) : f \in Fails(N3), m2 \in Seconds(N3)}),
    Fam(kind, N3, Ks(N3), {Debug(Unify(Http(1, Hop(3, 2, TRUE), m), m2)) : m \in Mems(N3), m2 \in Seconds(N3)})>>

\* contexts cancelled before the first request / between pages / after the last
Ctx(kind) ==
  <<CtxFam(kind, N2, {0, 3}, 0..N2, {Http(1, h, m) : h \in HopsSmall, m \in Mems(N2)}),
    CtxFam(kind, N3, {0, 2}, 0..N3, {Debug(Select(1..N3, Http(1, h, m))) : h \in HopsSmall, m \in Mems(N3)}
                                      \cup {Sub(0, N3, Http(1, h, m)) : h \in HopsSmall, m \in Mems(N3)}),
    CtxFam(kind, N3, {0, 2}, 0..N3, {Http(2, h, Http(1, g, m)) : h \in HopsSmall, g \in HopsTiny, m \in Mems(N3)}),
    CtxFam(kind, N3, {0}, 1..N3, {Http(2, h, Unify(Http(1, g, m), m2)) : h \in HopsTiny, g \in HopsTiny, m \in Mems(N3), m2 \in Seconds(N3)}
                                 \cup {Unify(Http(1, g, m), m2) : g \in HopsTiny, m \in Mems(N3), m2 \in Seconds(N3)})>>
CtxRefs ==
  <<CtxFam("refs", N3, {0, 2}, 0..N3, {Http(1, h, m) : h \in HopsTiny, m \in MemsA(N3)} \cup {Debug(Http(2, h, Http(1, h, m))) : h \in HopsTiny, m \in Mems(N3)} \cup Mems(N3))>>

Families == Ctx("repos") \o Ctx("tags") \o CtxRefs \o Repos \o Subs \o Tags \o Refs \o Late("repos") \o Late("tags") \o Late("refs")

MCInit ==
  /\ \E j \in 1..Len(Families) : LET f == Families[j] IN
       \E nd \in f.nodes, a \in f.starts, k \in f.ks, cut \in f.cuts :
          cfg = [kind |-> f.kind, a |-> a, k |-> k, cut |-> cut, node |-> nd]
  /\ stream = <<>> /\ i = 0 /\ calls = <<>> /\ nreq = 0 /\ st = "start"
MCSpec == MCInit /\ [][Next]_vars /\ WF_vars(Next)

\* ------------------------------------------------------------------------
\* export (direction A): a seed-dependent sample, chosen by a hash of the configuration
RECURSIVE NodeId(_)
NodeId(nd) ==
  CASE nd.t = "mem" -> MapThenSumSet(LAMBDA x : 2 ^ x, nd.s) + (IF nd.absent THEN 1 ELSE 0)
    [] nd.t = "http" -> 3 * NodeId(nd.x) + 5 * (nd.n + 1) + 11 * nd.max + (IF nd.link THEN 7 ELSE 0)
    [] nd.t = "select" -> 5 * NodeId(nd.x) + MapThenSumSet(LAMBDA x : x * x, nd.p)
    [] nd.t = "sub" -> 7 * NodeId(nd.x) + nd.lo + 3 * nd.cnt
    [] nd.t = "unify" -> 11 * NodeId(nd.x) + 13 * NodeId(nd.y)
    [] nd.t = "debug" -> 1 + NodeId(nd.x)
    [] nd.t = "fail" -> 2 * NodeId(nd.x) + 19 * nd.at
CfgId(c) == NodeId(c.node) + 17 * c.a + 29 * c.k + 7 * (c.cut + 1)
SampleRem == atoi(IOEnv.C05_SEED) % SampleMod
Emit == (st = "start" /\ CfgId(cfg) % SampleMod = SampleRem) => PrintT(<<"MBT", ToJson(cfg)>>)
=============================================================================
