SPECIFICATION GSpec
CONSTANTS
  Repos = {"r1"}
  Tags = {"t1", "t2"}
  Cids = {"b0", "b1", "b2", "img", "idx", "idy", "sub", "bad"}
  BlobIds = {"b1"}
  ManIds = {"img", "idx"}
  Cat <- MCCat
  UploadIds = {}
  ImmChoices = {FALSE}
  BlockSize = 8192
  Pos <- MCPos
  GenDepth = 14
  GenKinds = {"PushBlob", "PushManifest", "DeleteTag", "DeleteManifest", "ListTags", "ResolveTag", "GetTag"}
CHECK_DEADLOCK FALSE
