----------------------------- MODULE OciWireMC -----------------------------
(***************************************************************************)
(* Exhaustive evaluation of OciWire on an enumerated domain, and export of  *)
(* cases with the predicted response (direction A).                        *)
(*                                                                         *)
(* mode "route":  the path is a prefix (/v2/ or one of three wrong ones)   *)
(*   followed by up to MaxSegs tokens; a state is the sequence of token    *)
(*   indices, and the invariant evaluates Parse / Handle and the five      *)
(*   properties for EVERY method and EVERY query of the level inside that  *)
(*   state (shapes = states x methods x queries).  Tokens are character    *)
(*   sequences; what each one is comes from the recognisers (memoised in   *)
(*   tables over the finite token set, see the cfg).                       *)
(* mode "handle": one state per element of HandleCases: request kind x     *)
(*   backend answers (success, the 15 standard codes, uncoded; for writers *)
(*   and iterators also the answers of Write / Close / Commit / the item   *)
(*   stream) x header classes x bodies x option sets, on canonical paths.  *)
(*                                                                         *)
(* Cases leave TLC as PrintT(<<"MBT", ToJson([rq, sc, o, want])>>): all of  *)
(* the handle cases and short routes, a pseudo-random 1/K of the rest.     *)
(***************************************************************************)
EXTENDS OciWire, Json

CONSTANTS MaxSegs,      \* longest token sequence after the prefix
          ReduceAt,     \* sequences of this length or more: first token from the Reduced set
          QLevel,       \* 1: 8 query shapes, 2: 24, 3: the product (163)
          LawSegs,      \* RepoSegmentwise / Split-Join laws checked on token sequences up to this length
          AllSegs,      \* every /v2/ shape with at most this many tokens is exported
          GetSegs,      \* ... and every GET /v2/ shape without a query with at most this many tokens
          KOk, KErr,    \* other shapes: 1 in KOk of the well-formed ones, 1 in KErr of the others
          HandleK,      \* 1 in HandleK of the handle cases is exported (1 = all)
          Seed

VARIABLES mode, pre, si, hc
vars == <<mode, pre, si, hc>>

\* ------------------------------------------------------------------ tokens
T_foo == <<102, 111, 111>>   \* "foo"
T_Foo == <<70, 111, 111>>   \* "Foo"
T_empty == <<>>   \* ""
T_dashx == <<45, 120>>   \* "-x"
T_v10 == <<118, 49, 46, 48>>   \* "v1.0"
T_idok == <<97, 87, 81>>   \* "aWQ"
T_idbad == <<37, 37, 37>>   \* "%%%"
D1 == <<115, 104, 97, 50, 53, 54, 58, 101, 51, 98, 48, 99, 52, 52, 50, 57, 56, 102, 99, 49, 99, 49, 52, 57, 97, 102, 98, 102, 52, 99, 56, 57, 57, 54, 102, 98, 57, 50, 52, 50, 55, 97, 101, 52, 49, 101, 52, 54, 52, 57, 98, 57, 51, 52, 99, 97, 52, 57, 53, 57, 57, 49, 98, 55, 56, 53, 50, 98, 56, 53, 53>>   \* "sha256:e3b0c44298fc1..."
Dbad == <<115, 104, 97, 50, 53, 54, 58, 122, 122>>   \* "sha256:zz"
D512 == <<115, 104, 97, 53, 49, 50, 58, 99, 102, 56, 51, 101, 49, 51, 53, 55, 101, 101, 102, 98, 56, 98, 100, 102, 49, 53, 52, 50, 56, 53, 48, 100, 54, 54, 100, 56, 48, 48, 55, 100, 54, 50, 48, 101, 52, 48, 53, 48, 98, 53, 55, 49, 53, 100, 99, 56, 51, 102, 52, 97, 57, 50, 49, 100, 51, 54, 99, 101, 57, 99, 101, 52, 55, 100, 48, 100, 49, 51, 99, 53, 100, 56, 53, 102, 50, 98, 48, 102, 102, 56, 51, 49, 56, 100, 50, 56, 55, 55, 101, 101, 99, 50, 102, 54, 51, 98, 57, 51, 49, 98, 100, 52, 55, 52, 49, 55, 97, 56, 49, 97, 53, 51, 56, 51, 50, 55, 97, 102, 57, 50, 55, 100, 97, 51, 101>>   \* "sha512:cf83e1357eefb..."
D2 == <<115, 104, 97, 50, 53, 54, 58, 51, 54, 48, 56, 98, 99, 97, 49, 101, 52, 52, 101, 97, 54, 99, 52, 100, 50, 54, 56, 101, 98, 54, 100, 98, 48, 50, 50, 54, 48, 50, 54, 57, 56, 57, 50, 99, 48, 98, 52, 50, 98, 56, 54, 98, 98, 102, 49, 101, 55, 55, 97, 54, 102, 97, 49, 54, 99, 51, 99, 57, 50, 56, 50>>   \* "sha256:3608bca1e44ea..."
T_v1 == <<118, 49>>   \* "v1"
T_bar == <<98, 97, 114>>   \* "bar"

\* the alphabet of path tokens (routing words included: they are also valid names and tags)
TokSeq == <<T_foo, T_Foo, T_empty, W_blobs, W_manifests, W_uploads, W_tags, W_list, W_referrers, W_catalog, W_v2,
            D1, Dbad, T_v10, T_dashx, T_idok, T_idbad>>
NTok == Len(TokSeq)
Reduced == {1, 2, 3, 4, 12, 15}      \* indices in TokSeq, see Next
Methods == <<"GET", "HEAD", "PUT", "POST", "PATCH", "DELETE", "OPTIONS">>

\* ----------------------------------------------------------------- queries
Absent == [has |-> FALSE, v |-> <<>>]
Val(v) == [has |-> TRUE, v |-> v]
R_foobar == <<102, 111, 111, 47, 98, 97, 114>>     \* "foo/bar"
Q0 == [ok |-> TRUE, n |-> Absent, last |-> Absent, digest |-> Absent, mount |-> Absent, from |-> Absent]
QBroken == [Q0 EXCEPT !.ok = FALSE]
Q1 == <<Q0,
        [Q0 EXCEPT !.n = Val(<<120>>), !.digest = Val(D1)],                         \* n=x & digest ok
        [Q0 EXCEPT !.n = Val(<<50>>), !.last = Val(T_foo), !.digest = Val(Dbad)],   \* n=2 & last & digest bad
        [Q0 EXCEPT !.mount = Val(D1), !.from = Val(R_foobar), !.digest = Val(Dbad)],
        [Q0 EXCEPT !.mount = Val(D1), !.from = Val(T_Foo), !.digest = Val(D1)],
        [Q0 EXCEPT !.mount = Val(Dbad), !.from = Val(T_foo)],
        [Q0 EXCEPT !.mount = Val(D1), !.digest = Val(D1)],
        QBroken>>
NVals == {Absent, Val(<<>>), Val(<<50>>), Val(<<120>>)}
DVals == {Absent, Val(D1), Val(Dbad)}
FVals == {Absent, Val(R_foobar), Val(T_Foo)}
QProduct(NS, LS, DS, MS, FS) == {[ok |-> TRUE, n |-> a, last |-> b, digest |-> c, mount |-> d, from |-> e] :
                                   a \in NS, b \in LS, c \in DS, d \in MS, e \in FS}
QAllSet == QProduct(NVals, {Absent, Val(T_foo)}, DVals, DVals, FVals) \cup {QBroken}
QMid == QProduct({Absent, Val(<<50>>)}, {Absent}, {Absent, Val(D1)}, DVals, {Absent, Val(R_foobar)})
Q1Set == {Q1[i] : i \in 1..Len(Q1)}
Queries == IF QLevel = 1 THEN Q1Set ELSE IF QLevel = 2 THEN Q1Set \cup QMid ELSE QAllSet
\* a number per query, for the pseudo-random choice of exported cases
QHash(q) == Len(q.n.v) * 3 + Len(q.last.v) * 5 + Len(q.digest.v) * 7 + Len(q.mount.v) * 11 + Len(q.from.v) * 13
            + (IF q.n.has THEN 17 ELSE 0) + (IF q.last.has THEN 19 ELSE 0) + (IF q.digest.has THEN 23 ELSE 0)
            + (IF q.mount.has THEN 29 ELSE 0) + (IF q.from.has THEN 31 ELSE 0) + (IF q.ok THEN 0 ELSE 37)

\* ------------------------------------------------------- scripts, options
MT_test == <<97, 112, 112, 108, 105, 99, 97, 116, 105, 111, 110, 47, 120, 45, 116, 101, 115, 116>>   \* "application/x-test"
ID_plain == <<105, 100>>   \* "id"
ID_odd == <<97, 47, 98, 63, 99, 61, 100, 32, 101, 37>>   \* "a/b?c=d e%"
ID_uni == <<195, 169, 228, 184, 150>>   \* "é世"
H0 == [range |-> <<>>, crange |-> <<>>, ctype |-> <<>>, cl |-> 0]
Sc0 == [ans |-> "ok", size |-> 3, mt |-> MT_test, rdig |-> D2, id |-> ID_plain, chunk |-> 7, wsize |-> 5,
        werr |-> "ok", cerr |-> "ok", merr |-> "ok", items |-> <<>>, iterr |-> "ok", rfail |-> 0, rcerr |-> "ok", eshape |-> "bare", estatus |-> 0]
O0 == [noref |-> FALSE, nosingle |-> FALSE, maxpage |-> 0, omitdig |-> FALSE, omitlink |-> FALSE, locs |-> "nil"]
O1 == [noref |-> TRUE, nosingle |-> TRUE, maxpage |-> 2, omitdig |-> TRUE, omitlink |-> TRUE, locs |-> "nil"]
\* 3..6: LocationsForDescriptor set (one location, several, none, an error)
Opts == <<O0, O1, [O0 EXCEPT !.locs = "one"], [O0 EXCEPT !.locs = "many"], [O0 EXCEPT !.locs = "none"], [O0 EXCEPT !.locs = "err"]>>

Body1 == [bytes |-> <<>>,
          n |-> 0, json |-> "invalid", subj |-> <<>>,
          sha |-> <<115, 104, 97, 50, 53, 54, 58, 101, 51, 98, 48, 99, 52, 52, 50, 57, 56, 102, 99, 49, 99, 49, 52, 57, 97, 102, 98, 102, 52, 99, 56, 57, 57, 54, 102, 98, 57, 50, 52, 50, 55, 97, 101, 52, 49, 101, 52, 54, 52, 57, 98, 57, 51, 52, 99, 97, 52, 57, 53, 57, 57, 49, 98, 55, 56, 53, 50, 98, 56, 53, 53>>]
Body2 == [bytes |-> <<123, 34, 115, 99, 104, 101, 109, 97, 86, 101, 114, 115, 105, 111, 110, 34, 58, 50, 125>>,
          n |-> 19, json |-> "nosubject", subj |-> <<>>,
          sha |-> <<115, 104, 97, 50, 53, 54, 58, 98, 97, 102, 101, 98, 100, 51, 54, 49, 56, 57, 97, 100, 51, 54, 56, 56, 98, 55, 98, 51, 57, 49, 53, 101, 97, 53, 53, 100, 52, 54, 49, 101, 48, 98, 102, 99, 102, 98, 100, 100, 101, 49, 49, 101, 53, 52, 98, 48, 97, 49, 50, 51, 57, 57, 57, 102, 98, 54, 98, 101, 53, 48, 102>>]
Body3 == [bytes |-> <<123, 34, 115, 99, 104, 101, 109, 97, 86, 101, 114, 115, 105, 111, 110, 34, 58, 50, 44, 34, 115, 117, 98, 106, 101, 99, 116, 34, 58, 123, 34, 109, 101, 100, 105, 97, 84, 121, 112, 101, 34, 58, 34, 97, 112, 112, 108, 105, 99, 97, 116, 105, 111, 110, 47, 118, 110, 100, 46, 111, 99, 105, 46, 105, 109, 97, 103, 101, 46, 109, 97, 110, 105, 102, 101, 115, 116, 46, 118, 49, 43, 106, 115, 111, 110, 34, 44, 34, 100, 105, 103, 101, 115, 116, 34, 58, 34, 115, 104, 97, 50, 53, 54, 58, 101, 51, 98, 48, 99, 52, 52, 50, 57, 56, 102, 99, 49, 99, 49, 52, 57, 97, 102, 98, 102, 52, 99, 56, 57, 57, 54, 102, 98, 57, 50, 52, 50, 55, 97, 101, 52, 49, 101, 52, 54, 52, 57, 98, 57, 51, 52, 99, 97, 52, 57, 53, 57, 57, 49, 98, 55, 56, 53, 50, 98, 56, 53, 53, 34, 44, 34, 115, 105, 122, 101, 34, 58, 48, 125, 125>>,
          n |-> 180, json |-> "subject", subj |-> <<115, 104, 97, 50, 53, 54, 58, 101, 51, 98, 48, 99, 52, 52, 50, 57, 56, 102, 99, 49, 99, 49, 52, 57, 97, 102, 98, 102, 52, 99, 56, 57, 57, 54, 102, 98, 57, 50, 52, 50, 55, 97, 101, 52, 49, 101, 52, 54, 52, 57, 98, 57, 51, 52, 99, 97, 52, 57, 53, 57, 57, 49, 98, 55, 56, 53, 50, 98, 56, 53, 53>>,
          sha |-> <<115, 104, 97, 50, 53, 54, 58, 54, 51, 57, 97, 56, 56, 99, 100, 51, 99, 57, 97, 54, 48, 102, 102, 98, 49, 51, 99, 52, 54, 54, 48, 102, 98, 49, 99, 57, 101, 49, 55, 97, 54, 99, 102, 57, 50, 99, 102, 102, 100, 100, 52, 48, 97, 49, 49, 54, 54, 50, 55, 98, 52, 102, 101, 52, 55, 101, 52, 57, 97, 53, 53>>]
Body4 == [bytes |-> <<123, 34, 115, 99, 104, 101, 109, 97, 86, 101, 114, 115, 105, 111, 110, 34, 58>>,
          n |-> 17, json |-> "invalid", subj |-> <<>>,
          sha |-> <<115, 104, 97, 50, 53, 54, 58, 97, 101, 48, 98, 51, 102, 48, 48, 54, 51, 56, 99, 99, 53, 100, 53, 53, 98, 98, 53, 102, 98, 50, 50, 100, 101, 101, 100, 56, 55, 57, 48, 99, 54, 98, 50, 98, 56, 52, 48, 56, 48, 100, 100, 48, 49, 100, 100, 97, 100, 98, 50, 50, 101, 56, 102, 99, 102, 97, 98, 53, 53, 53, 55>>]
Body5 == [bytes |-> <<120, 121, 122>>,
          n |-> 3, json |-> "invalid", subj |-> <<>>,
          sha |-> <<115, 104, 97, 50, 53, 54, 58, 51, 54, 48, 56, 98, 99, 97, 49, 101, 52, 52, 101, 97, 54, 99, 52, 100, 50, 54, 56, 101, 98, 54, 100, 98, 48, 50, 50, 54, 48, 50, 54, 57, 56, 57, 50, 99, 48, 98, 52, 50, 98, 56, 54, 98, 98, 102, 49, 101, 55, 55, 97, 54, 102, 97, 49, 54, 99, 51, 99, 57, 50, 56, 50>>]
Body6 == [bytes |-> <<120>>,
          n |-> 1, json |-> "invalid", subj |-> <<>>,
          sha |-> <<115, 104, 97, 50, 53, 54, 58, 50, 100, 55, 49, 49, 54, 52, 50, 98, 55, 50, 54, 98, 48, 52, 52, 48, 49, 54, 50, 55, 99, 97, 57, 102, 98, 97, 99, 51, 50, 102, 53, 99, 56, 53, 51, 48, 102, 98, 49, 57, 48, 51, 99, 99, 52, 100, 98, 48, 50, 50, 53, 56, 55, 49, 55, 57, 50, 49, 97, 52, 56, 56, 49>>]
Bodies == <<Body1, Body2, Body3, Body4, Body5, Body6>>
\* the true sha512 / sha384 digests of the table bodies (a manifest pushed under one of them)
Sha512Of == <<<<115, 104, 97, 53, 49, 50, 58, 99, 102, 56, 51, 101, 49, 51, 53, 55, 101, 101, 102, 98, 56, 98, 100, 102, 49, 53, 52, 50, 56, 53, 48, 100, 54, 54, 100, 56, 48, 48, 55, 100, 54, 50, 48, 101, 52, 48, 53, 48, 98, 53, 55, 49, 53, 100, 99, 56, 51, 102, 52, 97, 57, 50, 49, 100, 51, 54, 99, 101, 57, 99, 101, 52, 55, 100, 48, 100, 49, 51, 99, 53, 100, 56, 53, 102, 50, 98, 48, 102, 102, 56, 51, 49, 56, 100, 50, 56, 55, 55, 101, 101, 99, 50, 102, 54, 51, 98, 57, 51, 49, 98, 100, 52, 55, 52, 49, 55, 97, 56, 49, 97, 53, 51, 56, 51, 50, 55, 97, 102, 57, 50, 55, 100, 97, 51, 101>>,
             <<115, 104, 97, 53, 49, 50, 58, 54, 51, 102, 56, 55, 97, 53, 98, 50, 49, 98, 55, 48, 48, 55, 49, 49, 102, 54, 100, 100, 49, 99, 97, 98, 97, 99, 102, 100, 101, 97, 50, 49, 101, 51, 51, 102, 98, 50, 102, 98, 50, 50, 48, 100, 48, 48, 98, 101, 48, 55, 100, 55, 102, 99, 100, 49, 100, 101, 51, 102, 48, 56, 53, 101, 53, 98, 55, 101, 101, 53, 49, 99, 50, 53, 98, 101, 54, 98, 57, 97, 53, 102, 48, 53, 52, 100, 57, 48, 52, 102, 51, 54, 100, 97, 57, 51, 101, 48, 102, 102, 102, 53, 51, 102, 100, 100, 53, 102, 98, 50, 50, 51, 97, 99, 100, 56, 48, 55, 53, 98, 99, 53, 102, 102, 52, 54, 53>>,
             <<115, 104, 97, 53, 49, 50, 58, 51, 52, 49, 57, 57, 50, 101, 97, 52, 50, 55, 53, 101, 99, 102, 51, 50, 99, 101, 101, 56, 97, 100, 52, 102, 55, 98, 100, 57, 49, 50, 53, 49, 101, 50, 51, 102, 100, 98, 98, 98, 49, 54, 99, 100, 100, 102, 101, 49, 51, 98, 56, 50, 50, 52, 50, 52, 57, 56, 53, 49, 102, 101, 99, 51, 55, 102, 101, 97, 55, 97, 52, 52, 54, 56, 52, 56, 101, 100, 48, 98, 56, 57, 49, 56, 53, 101, 48, 57, 98, 54, 97, 99, 57, 50, 53, 48, 97, 50, 98, 101, 57, 49, 54, 101, 98, 100, 56, 49, 53, 97, 99, 99, 48, 53, 50, 51, 55, 50, 52, 55, 52, 54, 48, 56, 56, 100, 49>>,
             <<115, 104, 97, 53, 49, 50, 58, 98, 99, 48, 102, 102, 49, 102, 99, 55, 56, 98, 52, 50, 52, 101, 99, 97, 99, 97, 50, 49, 97, 100, 49, 97, 49, 100, 57, 49, 57, 53, 52, 54, 99, 97, 101, 99, 98, 55, 54, 55, 97, 101, 57, 53, 52, 100, 48, 51, 48, 97, 54, 54, 55, 57, 55, 102, 56, 51, 101, 48, 99, 101, 55, 51, 49, 55, 48, 97, 100, 100, 50, 54, 57, 101, 50, 52, 57, 100, 57, 53, 51, 56, 48, 100, 50, 100, 57, 51, 102, 48, 55, 100, 48, 97, 54, 97, 57, 49, 52, 98, 51, 48, 55, 57, 55, 54, 52, 99, 50, 55, 102, 48, 102, 49, 51, 48, 102, 98, 57, 99, 53, 52, 99, 53, 53, 49, 102>>,
             <<115, 104, 97, 53, 49, 50, 58, 52, 97, 51, 101, 100, 56, 49, 52, 55, 101, 51, 55, 56, 55, 54, 97, 100, 99, 56, 102, 55, 54, 51, 50, 56, 101, 53, 97, 98, 99, 99, 49, 98, 52, 55, 48, 101, 54, 97, 99, 102, 99, 49, 56, 101, 102, 101, 97, 48, 49, 51, 53, 102, 57, 56, 51, 54, 48, 52, 57, 53, 51, 97, 53, 56, 101, 49, 56, 51, 99, 49, 97, 54, 48, 56, 54, 101, 57, 49, 98, 97, 51, 101, 56, 50, 49, 100, 57, 50, 54, 102, 53, 102, 100, 101, 98, 51, 55, 55, 54, 49, 99, 55, 99, 97, 48, 51, 50, 56, 97, 57, 54, 51, 102, 53, 101, 57, 50, 56, 55, 48, 54, 55, 53, 98, 55, 50, 56>>,
             <<115, 104, 97, 53, 49, 50, 58, 97, 52, 97, 98, 100, 52, 52, 52, 56, 99, 52, 57, 53, 54, 50, 100, 56, 50, 56, 49, 49, 53, 100, 49, 51, 97, 49, 102, 99, 99, 101, 97, 57, 50, 55, 102, 53, 50, 98, 52, 100, 53, 52, 53, 57, 50, 57, 55, 102, 56, 98, 52, 51, 101, 52, 50, 100, 97, 56, 57, 50, 51, 56, 98, 99, 49, 51, 54, 50, 54, 101, 52, 51, 100, 99, 98, 51, 56, 100, 100, 98, 48, 56, 50, 52, 56, 56, 57, 50, 55, 101, 99, 57, 48, 52, 102, 98, 52, 50, 48, 53, 55, 52, 52, 51, 57, 56, 51, 101, 56, 56, 53, 56, 53, 49, 55, 57, 100, 53, 48, 53, 53, 49, 97, 102, 101, 54, 50>>>>
Sha384Of == <<<<115, 104, 97, 51, 56, 52, 58, 51, 56, 98, 48, 54, 48, 97, 55, 53, 49, 97, 99, 57, 54, 51, 56, 52, 99, 100, 57, 51, 50, 55, 101, 98, 49, 98, 49, 101, 51, 54, 97, 50, 49, 102, 100, 98, 55, 49, 49, 49, 52, 98, 101, 48, 55, 52, 51, 52, 99, 48, 99, 99, 55, 98, 102, 54, 51, 102, 54, 101, 49, 100, 97, 50, 55, 52, 101, 100, 101, 98, 102, 101, 55, 54, 102, 54, 53, 102, 98, 100, 53, 49, 97, 100, 50, 102, 49, 52, 56, 57, 56, 98, 57, 53, 98>>,
             <<115, 104, 97, 51, 56, 52, 58, 97, 57, 55, 101, 101, 51, 53, 102, 102, 97, 99, 99, 55, 102, 101, 98, 97, 50, 53, 48, 53, 56, 101, 48, 97, 50, 102, 56, 48, 101, 53, 102, 98, 102, 54, 99, 51, 49, 102, 102, 54, 49, 98, 102, 98, 54, 51, 56, 99, 55, 53, 48, 49, 53, 53, 102, 99, 97, 56, 102, 102, 53, 102, 101, 100, 52, 48, 55, 50, 56, 101, 57, 49, 100, 54, 48, 53, 99, 54, 100, 57, 52, 57, 102, 99, 56, 99, 48, 56, 53, 99, 53, 53, 51, 101, 54>>,
             <<115, 104, 97, 51, 56, 52, 58, 49, 53, 50, 97, 56, 49, 48, 49, 53, 101, 100, 56, 100, 102, 50, 102, 52, 54, 97, 98, 101, 51, 52, 53, 48, 48, 50, 54, 51, 55, 101, 51, 57, 50, 97, 101, 57, 52, 102, 102, 54, 56, 100, 97, 53, 55, 48, 102, 102, 54, 54, 100, 55, 55, 49, 56, 102, 101, 51, 98, 48, 48, 51, 101, 55, 53, 51, 55, 102, 56, 99, 55, 52, 100, 53, 51, 99, 53, 102, 56, 57, 99, 54, 51, 53, 57, 99, 52, 99, 97, 98, 50, 50, 102, 100, 50>>,
             <<115, 104, 97, 51, 56, 52, 58, 49, 100, 49, 97, 99, 100, 98, 99, 50, 99, 98, 51, 102, 97, 100, 101, 52, 100, 101, 100, 52, 98, 97, 101, 99, 55, 100, 51, 51, 49, 99, 53, 98, 51, 100, 57, 102, 49, 50, 101, 48, 48, 99, 97, 57, 50, 55, 49, 48, 50, 57, 56, 57, 102, 54, 48, 101, 53, 57, 55, 49, 52, 52, 51, 51, 55, 51, 56, 97, 100, 102, 52, 54, 56, 51, 55, 102, 49, 49, 52, 52, 101, 102, 48, 100, 50, 51, 54, 99, 55, 49, 97, 98, 49, 57, 52>>,
             <<115, 104, 97, 51, 56, 52, 58, 101, 100, 99, 98, 48, 102, 52, 55, 50, 49, 101, 54, 53, 55, 56, 100, 57, 48, 48, 101, 52, 99, 50, 52, 97, 100, 52, 98, 49, 57, 101, 49, 57, 52, 97, 98, 54, 99, 56, 55, 102, 56, 50, 52, 51, 98, 102, 99, 54, 98, 49, 49, 55, 53, 52, 100, 100, 56, 98, 48, 98, 98, 100, 101, 52, 102, 51, 48, 98, 49, 100, 49, 56, 49, 57, 55, 57, 51, 50, 98, 54, 51, 55, 54, 100, 97, 48, 48, 52, 100, 99, 100, 57, 55, 99, 52>>,
             <<115, 104, 97, 51, 56, 52, 58, 100, 55, 53, 50, 99, 50, 99, 53, 49, 102, 98, 97, 48, 101, 50, 57, 97, 97, 49, 57, 48, 53, 55, 48, 97, 57, 100, 52, 50, 53, 51, 101, 52, 52, 48, 55, 55, 97, 48, 53, 56, 100, 51, 50, 57, 55, 102, 97, 51, 97, 53, 54, 51, 48, 100, 53, 98, 100, 48, 49, 50, 54, 50, 50, 102, 57, 55, 99, 50, 56, 97, 99, 97, 101, 100, 51, 49, 51, 98, 53, 99, 56, 51, 98, 98, 57, 57, 48, 99, 97, 97, 55, 100, 97, 56, 53>>>>
D384 == <<115, 104, 97, 51, 56, 52, 58, 101, 101, 56, 55, 102, 52, 53, 100, 56, 57, 50, 56, 48, 50, 52, 51, 51, 55, 54, 99, 48, 51, 100, 53, 48, 102, 55, 55, 100, 102, 54, 51, 51, 49, 56, 50, 51, 54, 52, 56, 98, 48, 98, 101, 56, 55, 51, 50, 101, 54, 52, 49, 102, 101, 98, 57, 49, 53, 55, 50, 51, 102, 97, 52, 101, 49, 54, 51, 56, 52, 55, 97, 53, 48, 97, 49, 56, 101, 99, 98, 101, 100, 54, 56, 55, 100, 54, 56, 51, 50, 102, 52, 49, 102, 51, 48>>   \* a well-formed sha384 digest of none of them
\* what the specification reads of a body
BodyFacts(b) == [n |-> b.n, sha |-> b.sha, json |-> b.json, subj |-> b.subj]

\* ------------------------------------------ memoised token classification
\* (cfg: CompOK <- MCCompOK etc.  The tables are computed by the recognisers themselves.)
\* (PathToks: every token that can appear in an enumerated path or query value; Bodies is defined below)
PathToks == {TokSeq[i] : i \in 1..NTok} \cup {T_v1, T_bar, D2, D512} \cup {Bodies[i].sha : i \in 1..Len(Bodies)}
            \cup {Sha512Of[i] : i \in 1..Len(Bodies)} \cup {Sha384Of[i] : i \in 1..Len(Bodies)} \cup {D384}
QueryVals == {}
CompTab == [x \in PathToks |-> Ref!IsRepository(x)]
TagTab == [x \in PathToks |-> Ref!IsTag(x)]
DigestTab == [x \in PathToks \cup QueryVals |-> Ref!IsDigest(x)]
IdTab == [x \in PathToks |-> LET d == B64Decode(x) IN [ok |-> d.ok /\ Utf8Valid(d.bytes), id |-> d.bytes]]
MCCompOK(x) == CompTab[x]
MCTagOK(x) == TagTab[x]
MCDigestOK(x) == DigestTab[x]
MCIdOf(x) == IdTab[x]
\* the alphabet really has one token of every class the design lists
ASSUME {TokSeq[i] : i \in Reduced} = {T_foo, T_Foo, T_empty, W_blobs, D1, T_dashx}
ASSUME /\ CompTab[T_foo] /\ ~CompTab[T_Foo] /\ ~CompTab[T_empty] /\ CompTab[W_blobs] /\ ~CompTab[W_catalog] /\ CompTab[T_v10]
       /\ TagTab[T_Foo] /\ TagTab[W_catalog] /\ ~TagTab[T_dashx] /\ ~TagTab[T_empty] /\ ~TagTab[D1]
       /\ DigestTab[D1] /\ DigestTab[D2] /\ DigestTab[D512] /\ ~DigestTab[Dbad] /\ ~DigestTab[T_foo]
       /\ IdTab[T_idok].ok /\ IdTab[T_idok].id = <<105, 100>> /\ ~IdTab[T_idbad].ok /\ ~IdTab[T_foo].ok

BasicRanges == <<<<>>,
           <<98, 121, 116, 101, 115, 61, 48, 45, 48>>,
           <<98, 121, 116, 101, 115, 61, 48, 45, 49>>,
           <<98, 121, 116, 101, 115, 61, 49, 45>>,
           <<98, 121, 116, 101, 115, 61, 50, 45, 57>>,
           <<98, 121, 116, 101, 115, 61, 51, 45>>,
           <<98, 121, 116, 101, 115, 61, 52, 45, 53>>,
           <<98, 121, 116, 101, 115, 61, 53, 45, 50>>,
           <<98, 121, 116, 101, 115, 61, 120>>,
           <<48, 45, 49>>,
           <<98, 121, 116, 101, 115, 61, 48, 45, 49, 44, 50, 45, 51>>,
           <<98, 121, 116, 101, 115, 61, 45, 50>>>>
\* (none), bytes=0-0, bytes=0-1, bytes=1-, bytes=2-9, bytes=3-, bytes=4-5, bytes=5-2, bytes=x, 0-1, bytes=0-1,2-3, bytes=-2
\* numerals at the integer boundaries (2^31-1, 2^31, 2^63-1, 2^63, 2^64, 20 digits), as last-byte-pos and as first-byte-pos:
\* not evaluated here (class "other": universal clauses only), but always exported for a backend that serves a reader
BoundaryRanges == <<
           <<98, 121, 116, 101, 115, 61, 48, 45, 50, 49, 52, 55, 52, 56, 51, 54, 52, 55>>,
           <<98, 121, 116, 101, 115, 61, 48, 45, 50, 49, 52, 55, 52, 56, 51, 54, 52, 56>>,
           <<98, 121, 116, 101, 115, 61, 48, 45, 57, 50, 50, 51, 51, 55, 50, 48, 51, 54, 56, 53, 52, 55, 55, 53, 56, 48, 55>>,
           <<98, 121, 116, 101, 115, 61, 51, 45, 57, 50, 50, 51, 51, 55, 50, 48, 51, 54, 56, 53, 52, 55, 55, 53, 56, 48, 55>>,
           <<98, 121, 116, 101, 115, 61, 48, 45, 57, 50, 50, 51, 51, 55, 50, 48, 51, 54, 56, 53, 52, 55, 55, 53, 56, 48, 56>>,
           <<98, 121, 116, 101, 115, 61, 48, 45, 49, 56, 52, 52, 54, 55, 52, 52, 48, 55, 51, 55, 48, 57, 53, 53, 49, 54, 49, 54>>,
           <<98, 121, 116, 101, 115, 61, 48, 45, 57, 57, 57, 57, 57, 57, 57, 57, 57, 57, 57, 57, 57, 57, 57, 57, 57, 57, 57, 57>>,
           <<98, 121, 116, 101, 115, 61, 50, 49, 52, 55, 52, 56, 51, 54, 52, 55, 45>>,
           <<98, 121, 116, 101, 115, 61, 50, 49, 52, 55, 52, 56, 51, 54, 52, 56, 45>>,
           <<98, 121, 116, 101, 115, 61, 57, 50, 50, 51, 51, 55, 50, 48, 51, 54, 56, 53, 52, 55, 55, 53, 56, 48, 55, 45>>,
           <<98, 121, 116, 101, 115, 61, 57, 50, 50, 51, 51, 55, 50, 48, 51, 54, 56, 53, 52, 55, 55, 53, 56, 48, 56, 45>>,
           <<98, 121, 116, 101, 115, 61, 57, 50, 50, 51, 51, 55, 50, 48, 51, 54, 56, 53, 52, 55, 55, 53, 56, 48, 55, 45, 57, 50, 50, 51, 51, 55, 50, 48, 51, 54, 56, 53, 52, 55, 55, 53, 56, 48, 55>>,
           <<98, 121, 116, 101, 115, 61, 49, 45, 57, 50, 50, 51, 51, 55, 50, 48, 51, 54, 56, 53, 52, 55, 55, 53, 56, 48, 54>>,
           <<98, 121, 116, 101, 115, 61, 49, 56, 52, 52, 54, 55, 52, 52, 48, 55, 51, 55, 48, 57, 53, 53, 49, 54, 49, 54, 45>>,
           <<98, 121, 116, 101, 115, 61, 57, 57, 57, 57, 57, 57, 57, 57, 57, 57, 57, 57, 57, 57, 57, 57, 57, 57, 57, 57, 45>>>>
\* bytes=0-2147483647, bytes=0-2147483648, bytes=0-9223372036854775807, bytes=3-9223372036854775807, bytes=0-9223372036854775808, bytes=0-18446744073709551616, bytes=0-99999999999999999999, bytes=2147483647-, bytes=2147483648-, bytes=9223372036854775807-, bytes=9223372036854775808-, bytes=9223372036854775807-9223372036854775807, bytes=1-9223372036854775806, bytes=18446744073709551616-, bytes=99999999999999999999-
\* degenerate headers: a bare dash, empty specs, only commas, blanks around the dash, suffix ranges, several specs one
\* of which is degenerate, a missing or lone unit (class "other" as well; always exported like the boundary ones)
DegenerateRanges == <<
           <<98, 121, 116, 101, 115, 61, 45>>,
           <<98, 121, 116, 101, 115, 61, 32, 45, 32>>,
           <<98, 121, 116, 101, 115, 61, 48, 45, 49, 44, 45>>,
           <<98, 121, 116, 101, 115, 61, 44, 45, 44>>,
           <<98, 121, 116, 101, 115, 61, 45, 44, 48, 45, 49>>,
           <<98, 121, 116, 101, 115, 61, 49, 45, 44, 45>>,
           <<98, 121, 116, 101, 115, 61, 9, 45, 9>>,
           <<98, 121, 116, 101, 115, 61>>,
           <<98, 121, 116, 101, 115, 61, 44>>,
           <<98, 121, 116, 101, 115, 61, 44, 44>>,
           <<98, 121, 116, 101, 115, 61, 32>>,
           <<98, 121, 116, 101, 115, 61, 45, 45>>,
           <<98, 121, 116, 101, 115, 61, 45, 45, 53>>,
           <<98, 121, 116, 101, 115, 61, 45, 53>>,
           <<98, 121, 116, 101, 115, 61, 45, 32, 53>>,
           <<98, 121, 116, 101, 115, 61, 48, 45, 49, 44, 45, 53>>,
           <<98, 121, 116, 101, 115, 61, 32, 48, 32, 45, 32, 49, 32>>,
           <<98, 121, 116, 101, 115, 61, 48, 32, 45, 49>>,
           <<98, 121, 116, 101, 115, 61, 48, 45, 49, 44, 32, 50, 45, 51>>,
           <<98, 121, 116, 101, 115, 61, 48, 45, 49, 44>>,
           <<98, 121, 116, 101, 115, 61, 44, 48, 45, 49>>,
           <<98, 121, 116, 101, 115, 61, 48, 45, 49, 44, 120>>,
           <<98, 121, 116, 101, 115, 61, 48, 45, 45, 49>>,
           <<98, 121, 116, 101, 115, 61, 48, 45, 49, 45, 50>>,
           <<98, 121, 116, 101, 115, 61, 48>>,
           <<44>>,
           <<45>>,
           <<48, 45>>,
           <<61, 48, 45, 49>>,
           <<98, 121, 116, 101, 115>>,
           <<98, 121, 116, 101, 115, 32, 48, 45, 49>>,
           <<66, 121, 116, 101, 115, 61, 48, 45, 49>>,
           <<105, 116, 101, 109, 115, 61, 48, 45, 49>>>>
\* bytes=- | bytes= -  | bytes=0-1,- | bytes=,-, | bytes=-,0-1 | bytes=1-,- | bytes=<TAB>-<TAB> | bytes= | bytes=, | bytes=,, | bytes=  | bytes=-- | bytes=--5 | bytes=-5 | bytes=- 5 | bytes=0-1,-5 | bytes= 0 - 1  | bytes=0 -1 | bytes=0-1, 2-3 | bytes=0-1, | bytes=,0-1 | bytes=0-1,x | bytes=0--1 | bytes=0-1-2 | bytes=0 | , | - | 0- | =0-1 | bytes | bytes 0-1 | Bytes=0-1 | items=0-1
Ranges == BasicRanges \o BoundaryRanges \o DegenerateRanges
CRanges == <<<<>>,
            <<48, 45, 48>>,
            <<48, 45, 50>>,
            <<51, 45, 53>>,
            <<53, 45, 52>>,
            <<53, 45, 50>>,
            <<97, 98, 99>>,
            <<49, 45, 120>>,
            <<43, 49, 45, 51>>>>
\* (none), 0-0, 0-2, 3-5, 5-4, 5-2, abc, 1-x, +1-3
NVs == <<Absent, Val(<<>>), Val(<<48>>), Val(<<49>>), Val(<<50>>), Val(<<51>>), Val(<<45, 49>>), Val(<<120>>), Val(<<43, 50>>), Val(<<49, 50, 51, 52, 53, 54, 55, 56, 57, 48, 49>>)>>
\* n: absent, "", "0", "1", "2", "3", "-1", "x", "+2", "12345678901"
ItemLists == << <<>>, << <<97>> >>, << <<97>>, <<98>> >>, << <<97>>, <<98>>, <<99>> >> >>     \* tags / repositories a, b, c
DigestLists == << <<>>, <<D1, D2>> >>

\* ------------------------------------------------------------ handle cases
AnsSeq == <<"ok", "uncoded", "custom", "BLOB_UNKNOWN", "BLOB_UPLOAD_INVALID", "BLOB_UPLOAD_UNKNOWN", "DIGEST_INVALID",
            "MANIFEST_BLOB_UNKNOWN", "MANIFEST_INVALID", "MANIFEST_UNKNOWN", "NAME_INVALID", "NAME_UNKNOWN", "SIZE_INVALID",
            "UNAUTHORIZED", "DENIED", "UNSUPPORTED", "TOOMANYREQUESTS", "RANGE_INVALID">>
ASSUME {AnsSeq[i] : i \in 1..Len(AnsSeq)} = Answers
AnsIdx(a) == CHOOSE i \in 1..Len(AnsSeq) : AnsSeq[i] = a
AnsFew == {"ok", "DENIED", "uncoded", "BLOB_UPLOAD_UNKNOWN", "RANGE_INVALID"}
AnsSec == {"ok", "DENIED", "uncoded", "RANGE_INVALID"}
ShapeSeq == <<"bare", "wrap", "http", "httpresp", "httprespbody">>
ASSUME {ShapeSeq[i] : i \in 1..Len(ShapeSeq)} = Shapes
Ids == <<ID_plain, ID_odd, ID_uni, <<>>, <<105, 255>>>>       \* the last two: empty, not UTF-8
CTypes == <<<<>>, MT_manifest, MT_index, MT_json>>

\* cl: Content-Length; -2 stands for "the length of the body"
D0 == [kind |-> "Ping", m |-> "GET", ans |-> "ok", rng |-> 1, size |-> 3, cr |-> 1, cl |-> -2, bi |-> 1, ct |-> 1,
       werr |-> "ok", cerr |-> "ok", merr |-> "ok", il |-> 1, iterr |-> "ok", nv |-> 1, lastv |-> FALSE, oi |-> 1,
       ref |-> "tag", sid |-> 1, wsize |-> 5, defect |-> "none", rf |-> 0, rcerr |-> "ok", es |-> 1, est |-> 418, rngx |-> <<>>]
K(kind, m) == [D0 EXCEPT !.kind = kind, !.m = m]
ChunkCases(kind, m) ==
     {[K(kind, m) EXCEPT !.ans = a, !.cr = r, !.cl = c, !.bi = b] : a \in AnsFew, r \in 1..Len(CRanges), c \in {-1, 0, 1, 3}, b \in {1, 5, 6}}
ListCases(kind) ==
     {[K(kind, "GET") EXCEPT !.iterr = a, !.il = i, !.nv = n, !.oi = o, !.lastv = l] :
        a \in AnsFew \cup {"NAME_UNKNOWN"}, i \in 1..Len(ItemLists), n \in 1..Len(NVs), o \in 1..2, l \in BOOLEAN}
\* every canonical request with exactly one defect injected: an invalid repository, an invalid
\* last segment (digest / tag / upload id), a method the route does not have, an invalid
\* from= repository, an invalid digest= / mount= value.  Each must be rejected.
Canon == {K("BlobGet", "GET"), K("BlobHead", "HEAD"), K("BlobDelete", "DELETE"), K("StartUpload", "POST"), K("UploadBlob", "POST"),
          K("Mount", "POST"), K("UploadInfo", "GET"), K("UploadChunk", "PATCH"), K("CompleteUpload", "PUT"),
          K("ManifestGet", "GET"), K("ManifestHead", "HEAD"), [K("ManifestPut", "PUT") EXCEPT !.bi = 2], K("ManifestDelete", "DELETE"),
          [K("ManifestGet", "GET") EXCEPT !.ref = "dmatch"], [K("ManifestPut", "PUT") EXCEPT !.ref = "dmatch", !.bi = 2],
          K("TagsList", "GET"), K("Catalog", "GET"), K("Referrers", "GET")}
DefectsOf(c) ==
  (IF c.kind = "Catalog" THEN {} ELSE {"repo"}) \cup {"method"}
  \cup (IF c.kind \in {"BlobGet", "BlobHead", "BlobDelete", "UploadInfo", "UploadChunk", "CompleteUpload", "ManifestGet", "ManifestHead",
                       "ManifestPut", "ManifestDelete", "Referrers", "TagsList"} THEN {"ref"} ELSE {})
  \cup (IF c.kind = "Mount" THEN {"from"} ELSE {})
  \cup (IF c.kind \in {"UploadBlob", "Mount", "CompleteUpload"} THEN {"qdigest"} ELSE {})
OneDefect == UNION {{[c EXCEPT !.defect = d] : d \in DefectsOf(c)} : c \in Canon}
\* error shapes: a standard code whose tabled status is 403 / 404 / 416, a custom code, an uncoded error, each wrapped
\* (fmt %w, HTTPError without and with a real response) with a status that agrees or disagrees with the table
ShapeAns == {"DENIED", "NAME_UNKNOWN", "BLOB_UPLOAD_INVALID", "custom", "uncoded"}
ShapeCases ==
  {[K(x[1], x[2]) EXCEPT !.ans = a, !.es = e, !.est = t, !.bi = 2] :
     x \in {<<"BlobGet", "GET">>, <<"ManifestHead", "HEAD">>, <<"BlobDelete", "DELETE">>, <<"Mount", "POST">>, <<"UploadInfo", "GET">>, <<"ManifestPut", "PUT">>},
     a \in ShapeAns, e \in 2..5, t \in {403, 404, 418}}
  \cup {[K("TagsList", "GET") EXCEPT !.iterr = a, !.es = e, !.est = t] : a \in ShapeAns, e \in 2..5, t \in {403, 404, 418}}
  \cup {[K("CompleteUpload", "PUT") EXCEPT !.merr = a, !.bi = 5, !.es = e, !.est = t] : a \in ShapeAns, e \in 2..5, t \in {403, 404, 418}}
  \cup {[K("UploadChunk", "PATCH") EXCEPT !.werr = a, !.bi = 5, !.es = e, !.est = t] : a \in ShapeAns, e \in 2..5, t \in {403, 404, 418}}
\* ranges at the edges of the blob: for each size, first-byte-pos 0, 1, size-1, size and last-byte-pos size-2 .. size+1
\* (rngx = <<first, last>>); the scripted range reader serves exactly the clamped slice.  Always exported.
EdgeRanges == {[K("BlobGet", "GET") EXCEPT !.size = z, !.rngx = <<x, y>>] :
                 z \in {0, 3, 11}, x \in {0, 1, 2, 3, 10, 11}, y \in {0, 1, 2, 3, 4, 9, 10, 11, 12}} \ {c \in
              {[K("BlobGet", "GET") EXCEPT !.size = z, !.rngx = <<x, y>>] :
                 z \in {0, 3, 11}, x \in {0, 1, 2, 3, 10, 11}, y \in {0, 1, 2, 3, 4, 9, 10, 11, 12}} :
              ~(/\ c.rngx[1] \in {0, 1, c.size - 1, c.size} /\ c.rngx[2] \in (c.size - 2)..(c.size + 1) /\ c.rngx[1] <= c.rngx[2])}
HandleCases ==
  {K("Ping", m) : m \in {"GET", "HEAD"}}
  \cup {[K("BlobHead", "HEAD") EXCEPT !.ans = a, !.size = z] : a \in Answers, z \in {0, 3}}
  \cup {[K("BlobGet", "GET") EXCEPT !.ans = a, !.rng = r, !.size = z] : a \in Answers, r \in 1..Len(Ranges), z \in {0, 3}}
  \* reader faults (size 3): fails after 0, 1, 2 bytes; rf = 4, 5: would fail at or after the end = never; Close failing
  \cup {[K("BlobGet", "GET") EXCEPT !.rng = r, !.rf = f, !.rcerr = e] : r \in 1..Len(BasicRanges), f \in 1..5, e \in {"ok", "DENIED"}}
  \cup {[K("ManifestGet", "GET") EXCEPT !.ref = x, !.oi = o, !.rf = f, !.rcerr = e] : x \in {"tag", "dmatch"}, o \in 1..2, f \in 0..5, e \in {"ok", "uncoded"}}
  \* LocationsForDescriptor: every handler that names a location, and the blob GET redirect
  \cup {[K(x[1], x[2]) EXCEPT !.ans = a, !.oi = o, !.bi = 2] :
          x \in {<<"UploadBlob", "POST">>, <<"CompleteUpload", "PUT">>, <<"Mount", "POST">>, <<"ManifestPut", "PUT">>, <<"StartUpload", "POST">>,
                  <<"UploadInfo", "GET">>, <<"ManifestGet", "GET">>, <<"BlobHead", "HEAD">>},
          a \in {"ok", "DENIED"}, o \in 3..6}
  \cup {[K("BlobGet", "GET") EXCEPT !.ans = a, !.oi = o, !.rng = r] : a \in {"ok", "BLOB_UNKNOWN"}, o \in 3..6, r \in {1, 3, 7, 8}}
  \* a manifest pushed under a digest of another registered algorithm: the true one of the body, and a wrong one
  \cup {[K("ManifestPut", "PUT") EXCEPT !.ref = f, !.bi = b, !.ct = c] :
          f \in {"true512", "true384", "d384", "d512"}, b \in 1..5, c \in {1, 2}}
  \cup {[K("BlobDelete", "DELETE") EXCEPT !.ans = a] : a \in Answers}
  \cup {[K("StartUpload", "POST") EXCEPT !.ans = a, !.sid = s, !.cerr = c] : a \in Answers, s \in 1..Len(Ids), c \in {"ok", "DENIED"}}
  \cup {[K("UploadBlob", "POST") EXCEPT !.ans = a, !.oi = o, !.cl = c, !.bi = b] : a \in Answers, o \in 1..2, c \in {-1, -2}, b \in {1, 5}}
  \cup {[K("Mount", "POST") EXCEPT !.ans = a] : a \in Answers}
  \cup {[K("UploadInfo", "GET") EXCEPT !.ans = a, !.wsize = w, !.sid = s] : a \in Answers, w \in {0, 1, 5}, s \in 1..Len(Ids)}
  \cup ChunkCases("UploadChunk", "PATCH")
  \cup {[K("UploadChunk", "PATCH") EXCEPT !.cr = r, !.cl = c, !.bi = 5, !.werr = w, !.cerr = e, !.wsize = z] :
          r \in {1, 3}, c \in {-1, -2}, w \in AnsSec, e \in AnsSec, z \in {0, 5}}
  \cup {[K("UploadChunk", "PATCH") EXCEPT !.sid = s, !.bi = b] : s \in 1..Len(Ids), b \in {1, 5}}
  \cup ChunkCases("CompleteUpload", "PUT")
  \cup {[K("CompleteUpload", "PUT") EXCEPT !.cr = r, !.cl = c, !.bi = 5, !.werr = w, !.merr = e, !.cerr = x] :
          r \in {1, 3}, c \in {-1, -2}, w \in AnsSec, e \in AnsSec \cup {"DIGEST_INVALID"}, x \in {"ok", "DENIED"}}
  \cup {[K("ManifestGet", "GET") EXCEPT !.ans = a, !.ref = f, !.oi = o, !.size = z] : a \in Answers, f \in {"tag", "dmatch"}, o \in 1..2, z \in {0, 3}}
  \cup {[K("ManifestHead", "HEAD") EXCEPT !.ans = a, !.ref = f, !.oi = o, !.size = z] : a \in Answers, f \in {"tag", "dmatch"}, o \in 1..2, z \in {0, 3}}
  \cup {[K("ManifestPut", "PUT") EXCEPT !.ans = a, !.ref = f, !.bi = b, !.ct = c] :
          a \in AnsFew \cup {"MANIFEST_INVALID"}, f \in {"tag", "dmatch", "dmis", "d512"}, b \in 1..5, c \in 1..Len(CTypes)}
  \cup {[K("ManifestDelete", "DELETE") EXCEPT !.ans = a, !.ref = f] : a \in Answers, f \in {"tag", "dmatch"}}
  \cup ListCases("TagsList") \cup ListCases("Catalog")
  \cup {[K("Referrers", "GET") EXCEPT !.iterr = a, !.il = i, !.oi = o] : a \in Answers, i \in 1..Len(DigestLists), o \in 1..2}
  \cup OneDefect \cup ShapeCases \cup EdgeRanges


Repo2 == <<T_foo, T_bar>>
RepoBad == <<T_Foo, T_bar>>
HcBody(c) == Bodies[c.bi]
HcRefTok(c) == CASE c.ref = "tag" -> T_v10
                 [] c.ref = "dmatch" -> (IF c.kind = "ManifestPut" THEN HcBody(c).sha ELSE D1)
                 [] c.ref = "dmis" -> (IF HcBody(c).sha = D2 THEN D1 ELSE D2)
                 [] c.ref = "d512" -> D512
                 [] c.ref = "d384" -> D384
                 [] c.ref = "true512" -> Sha512Of[c.bi]
                 [] c.ref = "true384" -> Sha384Of[c.bi]
\* the tokens after /v2/ of the request of a case
HcSegs(c) ==
  LET rp == IF c.defect = "repo" THEN RepoBad ELSE Repo2
      bad == c.defect = "ref"
  IN
  CASE c.kind = "Ping" -> <<T_empty>>
    [] c.kind \in {"BlobGet", "BlobHead", "BlobDelete"} -> rp \o <<W_blobs, IF bad THEN Dbad ELSE D1>>
    [] c.kind \in {"StartUpload", "UploadBlob", "Mount"} -> rp \o <<W_blobs, W_uploads, T_empty>>
    [] c.kind \in {"UploadInfo", "UploadChunk", "CompleteUpload"} -> rp \o <<W_blobs, W_uploads, IF bad THEN T_idbad ELSE T_idok>>
    [] c.kind \in {"ManifestGet", "ManifestHead", "ManifestPut", "ManifestDelete"} -> rp \o <<W_manifests, IF bad THEN T_dashx ELSE HcRefTok(c)>>
    [] c.kind = "TagsList" -> rp \o <<W_tags, IF bad THEN T_foo ELSE W_list>>
    [] c.kind = "Catalog" -> <<W_catalog>>
    [] c.kind = "Referrers" -> rp \o <<W_referrers, IF bad THEN Dbad ELSE D1>>
HcMethod(c) == IF c.defect # "method" THEN c.m          \* a standard method the route does not have
               ELSE IF c.kind \in {"UploadInfo", "UploadChunk", "CompleteUpload"} THEN "DELETE" ELSE "PATCH"
HcQuery(c) ==
  LET qd == IF c.defect = "qdigest" THEN Dbad ELSE D1 IN
  CASE c.kind = "UploadBlob" -> [Q0 EXCEPT !.digest = Val(qd)]
    [] c.kind = "Mount" -> [Q0 EXCEPT !.mount = Val(qd), !.from = Val(IF c.defect = "from" THEN T_Foo ELSE R_foobar)]
    [] c.kind = "CompleteUpload" -> [Q0 EXCEPT !.digest = Val(qd)]
    [] c.kind \in {"TagsList", "Catalog"} -> [Q0 EXCEPT !.n = NVs[c.nv], !.last = IF c.lastv THEN Val(T_foo) ELSE Absent]
    [] OTHER -> Q0
HcHeaders(c) == [range |-> IF c.rngx # <<>> THEN S_byteseq \o Dec(c.rngx[1]) \o <<ChDashC>> \o Dec(c.rngx[2]) ELSE Ranges[c.rng], crange |-> CRanges[c.cr], ctype |-> CTypes[c.ct],
                 cl |-> IF c.cl = -2 THEN HcBody(c).n ELSE c.cl]
HcSc(c) == [ans |-> c.ans, size |-> c.size, mt |-> MT_test, rdig |-> D2, id |-> Ids[c.sid], chunk |-> 7, wsize |-> c.wsize,
            werr |-> c.werr, cerr |-> c.cerr, merr |-> c.merr,
            items |-> IF c.kind = "Referrers" THEN DigestLists[c.il] ELSE ItemLists[c.il], iterr |-> c.iterr, rfail |-> c.rf, rcerr |-> c.rcerr, eshape |-> ShapeSeq[c.es], estatus |-> c.est]
HcHash(c) == c.rng * 7 + c.size * 3 + c.cr * 11 + (c.cl + 2) * 13 + c.bi * 17 + c.il * 19 + c.nv * 23 + c.oi * 29 + c.sid * 31
             + c.wsize * 37 + AnsIdx(c.ans) * 41 + AnsIdx(c.werr) * 43 + AnsIdx(c.cerr) * 47 + AnsIdx(c.merr) * 53
             + AnsIdx(c.iterr) * 59 + c.ct * 61 + c.es * 83 + Len(c.ref) * 67 + Len(c.kind) * 71 + (IF c.lastv THEN 73 ELSE 0)
HcExported(c) == \/ c.defect # "none"
                 \/ c.rf > 0 \/ c.rcerr # "ok" \/ c.oi > 2 \/ c.es > 1 \/ c.rngx # <<>>
                 \/ c.kind = "ManifestPut" /\ c.ans = "ok" /\ c.ref \in {"true512", "true384", "d384", "d512"}
                 \/ c.kind = "BlobGet" /\ c.ans = "ok" /\ c.rng > Len(BasicRanges)
                 \/ (HcHash(c) + Seed) % HandleK = 0

\* ------------------------------------------------------------ enumeration
Prefixes == {"v2", "none", "v1", "noslash"}
PrefixOf(x) == CASE x = "v2" -> << <<>>, W_v2 >> [] x = "none" -> << <<>> >> [] x = "v1" -> << <<>>, T_v1 >> [] x = "noslash" -> <<W_v2>>
\* (the handle cases are successors of one root state, not initial states: TLC evaluates
\* initial states on its main thread, whose stack is not governed by -Xss)
Init == \/ mode = "route" /\ pre \in Prefixes /\ si = <<>> /\ hc = D0
        \/ mode = "root" /\ pre = "v2" /\ si = <<>> /\ hc = D0
\* From ReduceAt tokens on, the first token is one of six class representatives (foo, Foo, "",
\* blobs, a digest, -x): with that many tokens it can only ever be a repository component.
Next == \/ /\ mode = "route" /\ Len(si) < (IF pre = "v2" THEN MaxSegs ELSE 2)
           /\ (Len(si) + 1 >= ReduceAt) => si[1] \in Reduced
           /\ \E i \in 1..NTok : si' = Append(si, i)
           /\ UNCHANGED <<mode, pre, hc>>
        \/ /\ mode = "root" /\ mode' = "handle" /\ hc' \in HandleCases
           /\ UNCHANGED <<pre, si>>
Spec == Init /\ [][Next]_vars

\* ------------------------------------------------ properties and export
Props(r, sc, o) == Total(r) /\ StatusAgreesWithCode(r) /\ SuccessHeaders(r, o) /\ BackendArgsValid(r) /\ AllClosed(r, sc)
Want(r) == [kind |-> r.kind, mode |-> r.mode, status |-> r.status]
Case(m, p, q, h, b, sc, o, r) ==
  LET path == Join(p) IN
  /\ Assert(Split(path) = p, <<"Split is not the inverse of Join on", p>>)
  /\ PrintT(<<"MBT", ToJson([rq |-> [m |-> m, path |-> path, q |-> q, h |-> h, body |-> b], sc |-> sc, o |-> o, want |-> Want(r)])>>)

Toks == [i \in 1..Len(si) |-> TokSeq[si[i]]]
SegHash == LET f[i \in 0..Len(si)] == IF i = 0 THEN 7 ELSE (f[i - 1] * 31 + si[i]) % 1000003 IN f[Len(si)]
RouteCheck ==
  LET p == PrefixOf(pre) \o Toks
      sh == SegHash
      b == BodyFacts(Body1)
  IN /\ (Len(si) >= 1 /\ Len(si) <= LawSegs) => RepoSegmentwise(Toks)
     /\ \A mi \in 1..Len(Methods), q \in Queries :
          LET m == Methods[mi]
              r == RespondSegs(p, [m |-> m, path |-> <<>>, q |-> q, h |-> H0, body |-> b], Sc0, O0)
              hv == (sh * 31 + mi) * 31 + QHash(q) + Seed
          IN /\ Props(r, Sc0, O0)
             /\ (\/ pre = "v2" /\ Len(si) <= AllSegs
                 \/ pre = "v2" /\ Len(si) <= GetSegs /\ mi = 1 /\ q = Q0          \* GET without a query
                 \/ (IF r.mode = "exact" THEN hv % KOk = 0 ELSE hv % KErr = 0))
                  => Case(m, p, q, H0, Body1, Sc0, O0, r)
HandleCheck ==
  LET p == << <<>>, W_v2 >> \o HcSegs(hc)
      q == HcQuery(hc)
      h == HcHeaders(hc)
      sc == HcSc(hc)
      o == Opts[hc.oi]
      m == HcMethod(hc)
      r == RespondSegs(p, [m |-> m, path |-> <<>>, q |-> q, h |-> h, body |-> BodyFacts(HcBody(hc))], sc, o)
  IN /\ Props(r, sc, o)
     /\ IF hc.defect # "none" THEN r.mode = "reject"      \* one defect: rejected
        ELSE \/ r.kind \in {hc.kind, "StartUpload"}      \* none: the canonical request is routed to its handler
             \/ hc.kind \in {"TagsList", "Catalog"} /\ NVs[hc.nv].v # <<>> /\ Atoi(NVs[hc.nv].v).cls # "int"
     /\ HcExported(hc) => Case(m, p, q, h, HcBody(hc), sc, o, r)
Check == CASE mode = "route" -> RouteCheck [] mode = "handle" -> HandleCheck [] OTHER -> TRUE
=============================================================================
