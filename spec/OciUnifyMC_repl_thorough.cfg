SPECIFICATION SpecRepl
CONSTANTS
  Repos = {"r1"}
  Tags = {"t1"}
  Cids = {"b1", "b2", "img", "sub"}
  BlobIds = {"b1", "b2"}
  ManIds = {"img", "sub"}
  Cat <- MCCat
  UploadIds = {"u1", "u2"}
  ImmChoices = {TRUE, FALSE}
  BlockSize = 8
  Pos <- MCPos
  Policies = {"seq", "conc"}
  ListFaults <- NoFaults
  MTs = {"image"}
  WriteFaults = FALSE
  Depth = 7
INVARIANTS TypeOK AlwaysEqual
PROPERTIES UnionView TagConflictNeverSilent WriteBoth ReadsChangeNothing PoliciesAgree EqualStaysEqual
ACTION_CONSTRAINT SameImplC
CONSTRAINT BufBound
VIEW MCView
CHECK_DEADLOCK FALSE
