SPECIFICATION Spec
CONSTANTS
  MaxSegs = 3
  ReduceAt = 99
  QLevel = 3
  LawSegs = 0
  AllSegs = 0
  GetSegs = 0
  KOk = 25
  KErr = 2000
  HandleK = 1000000
  Seed = 1
  CompOK <- MCCompOK
  TagOK <- MCTagOK
  DigestOK <- MCDigestOK
  IdOf <- MCIdOf
INVARIANT Check
CHECK_DEADLOCK FALSE
