SPECIFICATION GenSpec
CONSTANTS
  Repos = {"r1", "r2"}
  Tags = {"t1", "t2"}
  Cids <- MCCids
  BlobIds = {}
  ManIds = {}
  Cat <- MCCat
  UploadIds = {}
  ImmChoices = {FALSE}
  BlockSize = 8
  Pos <- MCPos
  TheRepo = "r1"
  SpaceSel = "gen"
INVARIANT Emit
CHECK_DEADLOCK FALSE
