------------------------------ MODULE OciAuthMC ------------------------------
(* Finite instances of OciAuth for exhaustive checking (C10, C11). *)
EXTENDS OciAuth

StatusFew == {200, 401, -1}
StatusAll == {200, 401, 403, 404, -1}
Cfg2(a, b) == [h \in {"h1", "h2"} |-> IF h = "h1" THEN a ELSE b]

\* quick: two two-host configurations (refresh+password / static token; refresh only / failing lookup)
CfgQuick == {Cfg2("both", "static"), Cfg2("refresh", "cfgerr")}
CfgMid == {Cfg2("refresh", "basic"), Cfg2("both", "static"), Cfg2("none", "cfgerr")}
\* thorough: every pairing that matters for confinement (distinct credentials on the two hosts)
CfgThorough == {Cfg2(a, b) : a \in {"refresh", "both"}, b \in {"basic", "static", "none", "cfgerr", "refresh"}}
                 \cup {Cfg2("basic", "static"), Cfg2("basic", "basic"), Cfg2("static", "none")}
CfgConc == {Cfg2("refresh", "basic"), Cfg2("both", "static")}
CfgWide == {Cfg2("both", "basic"), Cfg2("refresh", "static")}
CfgWide1 == {Cfg2("both", "static")}
CfgTime == {Cfg2("refresh", "static"), Cfg2("basic", "none")}

Bearers == {BearerChal(r, sc) : r \in Realms, sc \in ScopeSets}
Other == [scheme |-> "other", realm |-> "-", scope |-> {}]
\* a 401 carries: nothing usable; one challenge; Basic together with Bearer; a Bearer without realm
OffersAll == {{}, {Other}, {BasicChal}} \cup {{b} : b \in Bearers} \cup {{BasicChal, b} : b \in Bearers}
               \cup {{BearerChal("-", {})}} \cup {{Other, b} : b \in Bearers}
OffersSmall == {{}, {Other}, {BasicChal}, {BearerChal("-", {})}} \cup {{b} : b \in Bearers}
                 \cup {{BasicChal, BearerChal(CHOOSE r \in Realms : TRUE, {})}}
\* real-time configuration: offers kept small so that three calls fit
OffersTime == {{}, {BasicChal}} \cup {{b} : b \in Bearers}
CfgTime1 == {Cfg2("refresh", "none")}
\* Reachability witness (checked as an invariant it must be VIOLATED): a call is about to decide while, on its
\* host, a token issued later has expired, one issued earlier still has more than a second left, and only the
\* expired one covers the required scope - the shape the expiry purge must handle token by token.
ExpiredBehindLive == \E s \in Slots : calls[s].pc = "decide" /\ \E i, j \in 1..Len(issued) :
  /\ i < j /\ issued[i].host = calls[s].h /\ issued[j].host = calls[s].h
  /\ issued[j].at + issued[j].life <= clock /\ issued[i].at + issued[i].life - clock > TPS
  /\ Contains(issued[j].scope, calls[s].req) /\ ~Contains(issued[i].scope, calls[s].req)
NeverExpiredBehindLive == ~ExpiredBehindLive
==============================================================================
