------------------------- MODULE OciClientWriter -------------------------
(***************************************************************************)
(* The chunked-upload writer of the HTTP client (ociclient/writer.go       *)
(* blobWriter) in front of a registry whose upload sessions are            *)
(* OciRegistry's `ups` (ocimem Buffer behind ociserver's PATCH/PUT/GET      *)
(* handlers).  One action per BlobWriter call; a call that flushes is the   *)
(* composition of the client step with the server-side steps it causes     *)
(* (resume at the Content-Range start, write the body, close).             *)
(*                                                                         *)
(* cw[<<r, u>>] = [size    : bytes the caller has written (client view),   *)
(*                 flushed : bytes acknowledged by the server,             *)
(*                 chunk   : buffered, unsent data,                        *)
(*                 csize   : chunk size in force,                          *)
(*                 closed, closeOK]                                        *)
(***************************************************************************)
EXTENDS OciRegistry

VARIABLES cw,     \* client writers, keyed by <<repository, session>>
          sent    \* ghost: sent[<<r,u>>] = concatenation of everything the caller's successful Writes handed over
cwvars == <<cw, sent>>
allvars == <<vars, cw, sent>>

DefaultChunk == 65536
Hint(ch) == IF ch <= 0 THEN DefaultChunk ELSE ch
Max(a, b) == IF a > b THEN a ELSE b
K(r, u) == <<r, u>>
HasW(r, u) == K(r, u) \in DOMAIN cw

CWInit == cw = <<>> /\ sent = <<>>

\* Server side of one PATCH / PUT body: PushBlobChunkedResume(off), then Write(body) if there
\* is a body.  Returns the session afterwards and whether the write was accepted.
SrvWrite(s, off, body) ==
  IF body = <<>> THEN [ok |-> TRUE, s |-> [s EXCEPT !.expect = off]]
  ELSE IF off # SizeOf(s.buf) THEN [ok |-> FALSE, s |-> [s EXCEPT !.expect = off]]
  ELSE [ok |-> TRUE, s |-> [s EXCEPT !.buf = @ \o body, !.expect = -1]]

NewW(csize, off) == [size |-> off, flushed |-> off, chunk |-> <<>>, csize |-> csize, closed |-> FALSE, closeOK |-> TRUE]

\* POST: a new session; the chunk size is the hint raised to the registry's advertised minimum.
CPushBlobChunked(r, u, hint, minChunk) ==
  /\ PushBlobChunked(r, u)
  /\ cw' = Put(cw, K(r, u), NewW(Max(Hint(hint), minChunk), 0))
  /\ sent' = Put(sent, K(r, u), <<>>)

\* Write: buffer, or (when the buffer would exceed the chunk size) send buffer + data as one PATCH.
CWrite(r, u, data) ==
  /\ HasW(r, u) /\ Has(ups[r], u)
  /\ LET w == cw[K(r, u)]
         body == w.chunk \o data
         n == SizeOf(body) IN
     IF n > w.csize THEN
        LET sw == SrvWrite(ups[r][u], w.flushed, body) IN
        /\ ups' = [ups EXCEPT ![r][u] = sw.s]
        /\ IF sw.ok
             THEN /\ cw' = [cw EXCEPT ![K(r, u)] = [@ EXCEPT !.flushed = @ + n, !.chunk = <<>>, !.size = @ + SizeOf(data)]]
                  /\ sent' = [sent EXCEPT ![K(r, u)] = @ \o data]
                  /\ res' = OkN(SizeOf(data))
             ELSE /\ res' = ErrR("RANGE_INVALID") /\ UNCHANGED cwvars
     ELSE /\ cw' = [cw EXCEPT ![K(r, u)] = [@ EXCEPT !.chunk = body, !.size = @ + SizeOf(data)]]
          /\ sent' = [sent EXCEPT ![K(r, u)] = @ \o data]
          /\ res' = OkN(SizeOf(data))
          /\ UNCHANGED ups
  /\ UNCHANGED <<imm, blobs, mans, tags, touched>>

\* Close: send what is buffered (no request when nothing is).  A second Close repeats the outcome.
CClose(r, u) ==
  /\ HasW(r, u) /\ Has(ups[r], u)
  /\ LET w == cw[K(r, u)] IN
     IF w.closed THEN
        /\ res' = (IF w.closeOK THEN OkR ELSE ErrR("RANGE_INVALID")) /\ UNCHANGED <<ups, cwvars>>
     ELSE IF w.chunk = <<>> THEN
        /\ cw' = [cw EXCEPT ![K(r, u)].closed = TRUE] /\ res' = OkR /\ UNCHANGED <<ups, sent>>
     ELSE LET sw == SrvWrite(ups[r][u], w.flushed, w.chunk) IN
        /\ ups' = [ups EXCEPT ![r][u] = sw.s]
        /\ IF sw.ok
             THEN cw' = [cw EXCEPT ![K(r, u)] = [@ EXCEPT !.flushed = @ + SizeOf(w.chunk), !.chunk = <<>>, !.closed = TRUE]] /\ res' = OkR
             ELSE cw' = [cw EXCEPT ![K(r, u)] = [@ EXCEPT !.closed = TRUE, !.closeOK = FALSE]] /\ res' = ErrR("RANGE_INVALID")
        /\ UNCHANGED sent
  /\ UNCHANGED <<imm, blobs, mans, tags, touched>>

\* Resume.  off >= 0: no request, the new writer believes the caller.  off = -1: GET the status;
\* the Range header "0-(n-1)" cannot tell 0 bytes from 1 ("0-0"), so a session holding exactly
\* one byte is reported as empty (the case the property excludes).  The status request also
\* resets the session's pending offset check.
CResume(r, u, off, hint) ==
  /\ Has(ups[r], u) /\ off >= -1
  /\ IF off >= 0 THEN
        /\ cw' = Put(cw, K(r, u), NewW(Hint(hint), off)) /\ UNCHANGED ups
     ELSE LET n == SizeOf(ups[r][u].buf)
              seen == IF n = 1 THEN 0 ELSE n IN
        /\ cw' = Put(cw, K(r, u), NewW(Hint(hint), seen))
        /\ ups' = [ups EXCEPT ![r][u].expect = -1]
  /\ sent' = IF K(r, u) \in DOMAIN sent THEN sent ELSE Put(sent, K(r, u), <<>>)
  /\ res' = OkN(cw'[K(r, u)].size)
  /\ UNCHANGED <<imm, blobs, mans, tags, touched>>

CUpSize(r, u) == HasW(r, u) /\ res' = OkN(cw[K(r, u)].size) /\ UNCHANGED <<state, cwvars>>
\* the client's Cancel does nothing
CCancel(r, u) == HasW(r, u) /\ res' = OkR /\ UNCHANGED <<state, cwvars>>

\* Commit: one PUT carrying the buffered tail, then the registry's own commit.
CCommit(r, u, dd) ==
  /\ HasW(r, u) /\ Has(ups[r], u)
  /\ LET w == cw[K(r, u)]
         sw == SrvWrite(ups[r][u], w.flushed, w.chunk) IN
     IF ~sw.ok THEN
        /\ ups' = [ups EXCEPT ![r][u] = sw.s] /\ res' = ErrR("RANGE_INVALID") /\ UNCHANGED <<blobs, cwvars>>
     ELSE IF sw.s.dead THEN
        /\ ups' = [ups EXCEPT ![r][u] = sw.s] /\ res' = ErrR("FAIL") /\ UNCHANGED <<blobs, cwvars>>
     ELSE IF dd \in Cids /\ sw.s.buf = Cat[dd].bytes THEN
        /\ ups' = [ups EXCEPT ![r][u] = [sw.s EXCEPT !.done = TRUE]]
        /\ blobs' = [blobs EXCEPT ![r] = @ \cup {dd}]
        /\ cw' = [cw EXCEPT ![K(r, u)] = [@ EXCEPT !.flushed = @ + SizeOf(w.chunk), !.chunk = <<>>]]
        /\ res' = OkDescN(dd, w.size)     \* the size reported is the client's count
        /\ UNCHANGED sent
     ELSE
        /\ ups' = [ups EXCEPT ![r][u] = [sw.s EXCEPT !.dead = ~sw.s.done]]
        /\ res' = ErrR("DIGEST_INVALID") /\ UNCHANGED <<blobs, cwvars>>
  /\ UNCHANGED <<imm, mans, tags, touched>>

UploadOps == {"PushBlobChunked", "Write", "Close", "Resume", "UpSize", "Cancel", "Commit"}
\* caller-level upload call through one HTTP hop (o carries hint in o.chunk)
ClientApply(o, minChunk) ==
  CASE o.op = "PushBlobChunked" -> CPushBlobChunked(o.r, o.u, o.chunk, minChunk)
    [] o.op = "Write" -> CWrite(o.r, o.u, o.data)
    [] o.op = "Close" -> CClose(o.r, o.u)
    [] o.op = "Resume" -> CResume(o.r, o.u, o.off, o.chunk)
    [] o.op = "UpSize" -> CUpSize(o.r, o.u)
    [] o.op = "Cancel" -> CCancel(o.r, o.u)
    [] o.op = "Commit" -> CCommit(o.r, o.u, o.dd)

\* ------------------------------------------------------------- C04 ------
\* What a caller that follows the BlobWriter contract does next (used by the exhaustive
\* configuration "honest"; the "any" configuration allows every operation).
AtSize(r, u, off) == HasW(r, u) /\ cw[K(r, u)].closed /\ (off = cw[K(r, u)].size \/ (off = -1 /\ SizeOf(ups[r][u].buf) # 1))

\* a refused step (RANGE_INVALID) never changes what the session holds
WrongOffsetKeepsUpload ==
  [][res'.code = "RANGE_INVALID" => \A r \in Repos : \A u \in DOMAIN ups[r] : ups'[r][u].buf = ups[r][u].buf]_allvars
\* a failing call stores nothing
FailureStoresNothing == [][~res'.ok => blobs' = blobs]_allvars
\* whatever is committed is exactly what the session holds
CommitStoresBuffer ==
  [][\A r \in Repos : \A c \in blobs'[r] \ blobs[r] : \E u \in DOMAIN ups'[r] : ups'[r][u].buf = Cat[c].bytes]_allvars
=============================================================================
