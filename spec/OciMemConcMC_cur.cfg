SPECIFICATION Spec
CONSTANTS
  GetTagSteps = 1
  CommitSnapshots = TRUE
  CommitSerialized = TRUE
  TwoPhaseCommit = FALSE
  Prog <- ProgBase
INVARIANTS Linearizable StoredMatchesKey TagNeverFalselyMissing
VIEW ConcView
CHECK_DEADLOCK FALSE
