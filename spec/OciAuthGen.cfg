SPECIFICATION GSpec
CONSTANTS
  Hosts = {"h1", "h2"}
  Realms = {"ra", "rb"}
  RS = {"repository:a:pull", "repository:a:push", "repository:b:pull"}
  Slots = {1}
  CfgSet <- CfgAll
  OfferSets <- OffersGen
  Lives = {0, 2, 4, 6}
  TPS = 2
  MaxClock = 10
  MaxCalls = 5
  MaxTok = 100
  MaxRT = 100
  Bodies = {"none", "plain", "getbody"}
  Statuses <- StatusAll
  TickWhile = {"idle"}
INVARIANT Emit
INVARIANT Inv
CHECK_DEADLOCK FALSE
