---------------------- MODULE OciClientWriterGen ----------------------
(* Caller-level upload scenarios chosen by TLC from the client-writer model: random walks
   over one session (start, writes, close/resume at any offset, commits), printed as JSON. *)
EXTENDS OciClientWriterMC, Json

CONSTANT GenDepth
VARIABLE h
GInit == UInit /\ h = <<>>
Rec(o) == h' = Append(h, o)
GNext ==
  \/ /\ Len(h) < GenDepth
     /\ \/ \E hh \in Hints : ~Has(ups[R], U) /\ CPushBlobChunked(R, U, hh, MinChunk)
              /\ Rec([op |-> "PushBlobChunked", r |-> R, u |-> U, chunk |-> hh])
        \/ \E d \in Chunks : Total + Len(d) <= MaxSent /\ HasW(R, U) /\ CWrite(R, U, d)
              /\ Rec([op |-> "Write", r |-> R, u |-> U, data |-> d])
        \/ CClose(R, U) /\ Rec([op |-> "Close", r |-> R, u |-> U])
        \/ \E off \in -1..MaxSent, hh \in Hints :
              HasW(R, U) /\ cw[K(R, U)].closed /\ (Honest => AtSize(R, U, off)) /\ CResume(R, U, off, hh)
              /\ Rec([op |-> "Resume", r |-> R, u |-> U, off |-> off, chunk |-> hh])
        \/ CUpSize(R, U) /\ Rec([op |-> "UpSize", r |-> R, u |-> U])
        \/ \E dd \in BlobIds : HasW(R, U) /\ ~cw[K(R, U)].closed /\ Len(h) >= 3
              /\ (Cat[dd].bytes = sent[K(R, U)] \/ dd = "b1") /\ CCommit(R, U, dd)
              /\ h' = Append(h, [op |-> "Commit", r |-> R, u |-> U, dd |-> dd]) \o
                        [i \in 1..(GenDepth - Len(h) - 1) |-> [op |-> "GetBlob", r |-> R, c |-> dd]]
  \/ /\ Len(h) = GenDepth
     /\ PrintT(<<"MBT", ToJson([imm |-> FALSE, ops |-> h])>>)
     /\ h' = Append(h, [op |-> "end"])
     /\ UNCHANGED allvars
\* a walk ends at the first Commit; the rest of it reads the committed blob back
GSpec == GInit /\ [][GNext]_<<allvars, h>>
=======================================================================
