SPECIFICATION MCSpecQ
CONSTANTS
  DefaultN = 5
  Threshold = 4
  ErrLimit = 8192
  DefaultChunk = 50
  MaxAlloc = 100
  PageSizeRule = "le0"
  GuardLocation = TRUE
  GuardAlloc = TRUE
  StrictRangeTooLong = FALSE
  PageSizes <- PS4
  MaxResp = 3
  MaxCalls = 3
  Families <- AllFamilies
  SizesForAll = FALSE
  Level = "full"
INVARIANT Props
PROPERTY RankDecreases
