SPECIFICATION FSpec
CONSTANTS
  Repos = {"r1", "r2", "r3", "r4"}
  Tags = {"t1", "t2"}
  Cids = {"b0", "b1", "b2", "img", "idx", "idy", "sub", "bad"}
  BlobIds = {}
  ManIds = {}
  Cat <- FCat
  UploadIds = {"u1", "u2", "e1", "o1"}
  ImmChoices = {FALSE}
  BlockSize = 8
  Pos <- FPos
  Prefix = ""
  Chars <- MCChars
  MCKinds = {"checker", "select", "nest"}
  ErrIds = {"E_CUSTOM1"}
  MaxSteps = 1
  HostileSteps = 1
  AllScopes = FALSE
INVARIANTS FTypeOK
PROPERTIES RejectedNeverReachesBackend ListingFiltered ErrorIsPolicyError AllowedIsTransparent SelectErrorKinds ConsultationsExact FailedListingIsPrefix NestIsConjunction NestOfOne BackendFaultIsResult ScriptedListingFiltered
VIEW FView
CHECK_DEADLOCK FALSE
