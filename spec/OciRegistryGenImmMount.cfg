SPECIFICATION GSpec
CONSTANTS
  Repos = {"r1", "r2"}
  Tags = {"t1"}
  Cids = {"b0", "b1", "b2", "img", "idx", "idy", "sub", "bad"}
  BlobIds = {"b1", "b2"}
  ManIds = {"img", "idx"}
  Cat <- MCCat
  UploadIds = {}
  ImmChoices = {TRUE}
  BlockSize = 8192
  Pos <- MCPos
  GenDepth = 24
  GenKinds = {"PushBlob", "MountBlob", "PushManifest", "DeleteBlob", "DeleteManifest", "GetBlob"}
CHECK_DEADLOCK FALSE
