SPECIFICATION USpec
CONSTANTS
  Repos = {"r1"}
  Tags = {}
  Cids = {"b0", "b1", "b2", "b3"}
  BlobIds = {"b1", "b3"}
  ManIds = {}
  Cat <- UCat
  UploadIds = {"u1"}
  ImmChoices = {FALSE}
  BlockSize = 8
  Pos <- UPos
  Honest = FALSE
  MinChunk = 1
  Hints = {0, 2}
  MaxSent = 3
INVARIANTS NeverRefused ServerOffsetAgrees
PROPERTIES CommitIsConcatenation WrongOffsetKeepsUpload FailureStoresNothing CommitStoresBuffer
VIEW UView
CHECK_DEADLOCK FALSE
