--------------------------- MODULE OciFuncsTrace ---------------------------
(***************************************************************************)
(* Trace validation of recorded calls on real *ociregistry.Funcs values    *)
(* (harness command `funcs`) against OciFuncs.  The trace file (ndjson,    *)
(* env TRACE_FILE) starts with a header line (the Funcs fields and the     *)
(* Interface methods found by reflection; module TraceHdr is generated     *)
(* from it), then `reset` lines and one `call` line per case:              *)
(*   inputs   m, F (the fields that really are non-nil in the value        *)
(*            built), custom, nilrecv; av (abstract argument values) and   *)
(*            passed (the rendered arguments actually passed);             *)
(*            prog (what the stub in m's field is programmed to return)    *)
(*   outputs  calls (the stubs that ran, with the arguments they got),     *)
(*            ctor (the constructor's invocations and the tag of the       *)
(*            error each returned), got (non-error results), err (tag =    *)
(*            identity of a harness-made error, class, method name in the  *)
(*            message), yields / yields1 (pairs delivered to a consumer    *)
(*            that keeps asking / that declines after the first pair;      *)
(*            seqnil: the iterator returned is nil, and was not ranged).   *)
(* A panic of the code under test is logged as op "panic", for which there *)
(* is no step.                                                             *)
(***************************************************************************)
EXTENDS OciFuncs, Json, IOUtils, TLC, TraceHdr

CONSTANT StrictErrName   \* additionally require the reported method name to be the called method's
                         \* (beyond C20 as stated; used for a non-verdict observation pass)
VARIABLE l

Trace == ndJsonDeserialize(IOEnv.TRACE_FILE)
ToSet(s) == {s[i] : i \in 1..Len(s)}

\* The specification's method table is the real one: one field per Interface method.
ASSUME /\ ToSet(Hdr.fields) = InterfaceMethods
       /\ Len(Hdr.fields) = Cardinality(InterfaceMethods)
       /\ ToSet(Hdr.methods) = InterfaceMethods
       /\ ToSet(Hdr.iter) = InterfaceIterMethods

\* Is the observed error r of the class the specification prescribes?
ErrClass(r, class, e) ==
  CASE class = "ctor" -> IF e.ctor[1].ret = "nil" THEN r.nil        \* the constructor's result, nil included
                         ELSE ~r.nil /\ r.tag = e.ctor[1].ret       \* exactly the constructor's error value
    [] class = "unsupported" -> ~r.nil /\ r.unsupported           \* errors.Is(err, ErrUnsupported)
    [] OTHER -> FALSE

\* What a consumer is handed of the delegate's programmed pairs ys.
IsErrSeq(ys) == [i \in 1..Len(ys) |-> ~ys[i].e.nil]
Handed(consumer, ys) == SubSeq(ys, 1, Seen(consumer, IsErrSeq(ys)))

Observed(e, m, o) ==
  LET x == Effects(m, o) IN
  /\ e.pred \in {"-", o.kind}                                     \* the exported prediction survived the round trip
  \* which functions of the table ran, and with what
  /\ [i \in 1..Len(e.calls) |-> e.calls[i].field] = x.stubs
  /\ o.kind = "delegate" => e.calls[1].args = e.passed
  /\ Len(e.ctor) = x.ctors
  /\ o.kind = "custom" => ~CtorPanics(e.ck)                       \* a constructor's panic is not swallowed
  /\ x.ctors = 1 => e.ctor[1].ctx = e.passed[1]                   \* the constructor is handed the caller's context
  \* results
  /\ IF x.values = "stub" THEN e.got = e.prog.vals
     ELSE \A i \in 1..Len(e.got) : e.got[i] = "zero"
  /\ e.iter = x.iter
  /\ IF ~x.iter
     THEN /\ e.yields = <<>> /\ e.yields1 = <<>> /\ e.yieldsE = <<>> /\ e.yieldsA = <<>> /\ ~e.seqnil
          /\ IF x.error = "stub" THEN e.err = e.prog.err ELSE ErrClass(e.err, x.error, e)
     ELSE IF x.yields = "stub"
     THEN \* the delegate's iterator, verbatim: also when it is the nil iterator
          /\ e.seqnil = e.prog.seqnil
          /\ IF e.seqnil THEN e.yields = <<>> /\ e.yields1 = <<>> /\ e.yieldsE = <<>> /\ e.yieldsA = <<>>
             ELSE /\ Len(e.prog.yields) > 0
                  /\ e.yields = Handed("all", e.prog.yields)
                  /\ e.yields1 = Handed("first", e.prog.yields)
                  /\ e.yieldsE = Handed("aterr", e.prog.yields)
                  /\ e.yieldsA = Handed("aftererr", e.prog.yields)
     ELSE \* exactly one pair (zero value, error), whatever the consumer answers
          /\ ~e.seqnil
          /\ Len(e.yields) = 1
          /\ e.yields[1].v = "zero"
          /\ ErrClass(e.yields[1].e, x.error, e)
          /\ e.yields1 = e.yields /\ e.yieldsE = e.yields /\ e.yieldsA = e.yields
  \* the method name reported (observation only)
  /\ StrictErrName =>
       /\ x.ctors = 1 => e.ctor[1].name = ErrName(m)
       /\ x.error = "unsupported" =>
            (IF x.iter THEN e.yields[1].e.msgname ELSE e.err.msgname) = ErrName(m)

Step(e) ==
  /\ e.m \in Methods
  /\ ToSet(e.F) \subseteq Methods
  /\ e.nilrecv => (e.F = <<>> /\ ~e.custom)
  /\ e.cx \in CtxVals
  /\ e.ck \in CtorKinds \cup {"none"} /\ (e.custom <=> e.ck # "none")
  /\ OwnFieldOnlyAt(e.m, ToSet(e.F), e.custom, e.nilrecv)
  \* the outcome is judged whatever the arguments were (e.av: the abstract argument values, <<>> if generated;
  \* e.cx: the kind of context really passed)
  /\ Observed(e, e.m, CallWithArgs(e.m, ToSet(e.F), e.custom, e.nilrecv, e.av, e.cx))

\* The only panic the specification has: the constructor's own, propagated (no stub ran, the
\* constructor ran once, and the value the caller recovered is the value the constructor threw).
PanicStep(e) ==
  /\ e.m \in Methods /\ ToSet(e.F) \subseteq Methods
  /\ CallWithArgs(e.m, ToSet(e.F), e.custom, e.nilrecv, e.av, e.cx).kind = "custom"
  /\ CtorPanics(e.ck)
  /\ e.calls = <<>>
  /\ Len(e.ctor) = 1
  /\ e.pval # "-" /\ e.pval = e.ctor[1].ret
  /\ e.ctor[1].ctx = e.passed[1]

TInit == l = 2
TNext ==
  /\ l <= Len(Trace)
  /\ l' = l + 1
  /\ LET e == Trace[l] IN
     CASE e.op = "reset" -> TRUE
       [] e.op = "call" -> Step(e)
       [] e.op = "panic" -> PanicStep(e)   \* any other panic: no such behaviour in the specification
       [] OTHER -> FALSE
TSpec == TInit /\ [][TNext]_l

\* The whole trace was consumed: one state per line after the header.
Accepted == TLCGet("stats").diameter = Len(Trace)
=============================================================================
