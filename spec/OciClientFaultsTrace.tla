------------------------ MODULE OciClientFaultsTrace ------------------------
(***************************************************************************)
(* Trace validation of recorded ociclient operations against a scripted    *)
(* transport (harness command `faults`) against OciClientFaults.           *)
(* The trace file (ndjson, env TRACE_FILE) starts with a header line (the  *)
(* client's constants; module TraceHdr is generated from it), then per     *)
(* scenario:                                                               *)
(*   reset  ps (Options.ListPageSize of the client built for the scenario) *)
(*   call   the caller-level call (name and abstract arguments)            *)
(*   rt     one request/response exchange: q = the request the transport   *)
(*          saw (projected), r = the abstract response it answered with    *)
(*          (concrete numbers), consumed = bytes of the response body the  *)
(*          client had read when the call returned                         *)
(*   ret    the projected outcome of the call                              *)
(* A panic of the code under test and a call that does not return (the     *)
(* watchdog fired) are logged as op "panic" / "hang", for which there      *)
(* is no step.                                                             *)
(***************************************************************************)
EXTENDS OciClientFaults, Json, IOUtils, TraceHdr

VARIABLE l

Trace == ndJsonDeserialize(IOEnv.TRACE_FILE)

TrDefaultN == Hdr.defaultN
TrThreshold == Hdr.threshold
TrErrLimit == Hdr.errlimit
TrDefaultChunk == Hdr.defaultChunk
TrMaxAlloc == Hdr.maxalloc

CallOf(e) == [name |-> e.name, ref |-> e.ref, o0 |-> e.o0, o1 |-> e.o1, take |-> e.take, start |-> e.start, wlen |-> e.wlen,
              hint |-> e.hint, off |-> e.off, idform |-> e.idform, dg |-> e.dg, csize |-> e.csize, mt |-> e.mt]

ResetStep(e) ==
  /\ ps' = e.ps /\ pc' = "idle" /\ call' = C0 /\ m' = M0 /\ w' = W0 /\ rd' = RD0 /\ out' = OErr
  /\ nreq' = 0 /\ cq' = 0 /\ fl' = FL0

\* an error response is turned into an error from at most ErrLimit+1 bytes of its body
BoundedErrorBody(e) == m'.errpath => e.consumed <= ErrLimit + 1

\* C01, third sentence, on the logged values themselves: a complete read that ends in a clean
\* end-of-stream delivered what the reader's descriptor says
CleanEOFIsConsistent(e) ==
  /\ (call.name = "ReadAll" /\ e.ok /\ rd.verify) => (e.n = rd.size /\ e.cont = rd.cont)
  \* ... and, for any read (range reads included), not fewer bytes than the framed response announced
  /\ (call.name = "ReadAll" /\ e.ok /\ rd.framed /\ rd.acl >= 0) => e.n >= rd.acl

TInit == l = 2 /\ Init0(0)
TNext ==
  /\ l <= Len(Trace)
  /\ l' = l + 1
  /\ LET e == Trace[l] IN
     CASE e.op = "reset" -> ResetStep(e)
       [] e.op = "call" -> Begin(CallOf(e))
       [] e.op = "rt" -> Exchange(e.q, e.r) /\ BoundedErrorBody(e)
       [] e.op = "ret" -> Return(e) /\ CleanEOFIsConsistent(e)
       [] OTHER -> FALSE          \* "panic", "hang": no such behaviour in the specification
TSpec == TInit /\ [][TNext]_<<l, vars>>

\* The whole trace was consumed: one state per line after the header.
Accepted == TLCGet("stats").diameter = Len(Trace)
=============================================================================
