------------------------- MODULE OciUnifyConcGen -------------------------
(* Schedule generation for C16 (direction A).  TLC explores OciUnifyConc with the ghost
   history h switched on (Hist = TRUE); every quiescent state (both members have returned,
   main and both senders are finished) prints its configuration and the order in which the
   environment acted: "rel0"/"rel1" (a member in mode normal returns), "cancel" (the caller
   cancels), "close" (the caller closes the returned reader); the configuration includes whether Close of each
   member's reader returns an error.  The harness replays each
   printed schedule on the real code with gated fake members. *)
EXTENDS OciUnifyConc, Json

Emit == Quiescent =>
          PrintT(<<"MBT", ToJson([out |-> <<out[0], out[1]>>, mode |-> <<mode[0], mode[1]>>,
                                  style |-> style, closeerr |-> <<closeErr[0], closeErr[1]>>, acts |-> h])>>)
===========================================================================
