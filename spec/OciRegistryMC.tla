------------------------- MODULE OciRegistryMC -------------------------
(* Exhaustive configurations of OciRegistry: a small fixed catalogue. *)
EXTENDS OciRegistry

NoView == [wf |-> FALSE, blobs |-> {}, mans |-> {}, subject |-> None, subjectType |-> None]
EmptyIdx == [wf |-> TRUE, blobs |-> {}, mans |-> {}, subject |-> None, subjectType |-> None]
Blob(bytes) == [size |-> Len(bytes), bytes |-> bytes, as |-> [image |-> NoView, index |-> NoView]]
Img(sz, bs, sub) ==
  [size |-> sz, bytes |-> <<300 + sz>>,
   as |-> [image |-> [wf |-> TRUE, blobs |-> bs, mans |-> {}, subject |-> sub, subjectType |-> IF sub = None THEN None ELSE "image"],
           index |-> [EmptyIdx EXCEPT !.subject = sub, !.subjectType = IF sub = None THEN None ELSE "image"]]]
Idx(sz, ms) ==
  [size |-> sz, bytes |-> <<300 + sz>>,
   as |-> [image |-> NoView,
           index |-> [wf |-> TRUE, blobs |-> {}, mans |-> ms, subject |-> None, subjectType |-> None]]]
MCCat ==
  [c \in {"b0", "b1", "b2", "img", "idx", "idy", "sub", "bad", "idz", "imx", "idw", "sub2"} |->
     CASE c = "b0" -> Blob(<<>>)
       [] c = "b1" -> Blob(<<1>>)
       [] c = "b2" -> Blob(<<1, 2>>)
       [] c = "img" -> Img(40, {"b1"}, None)
       [] c = "idx" -> Idx(41, {<<"img", "image">>})
       [] c = "idy" -> Idx(44, {<<"img", "other">>})      \* child declared under an opaque type
       [] c = "sub" -> Img(42, {"b1", "b2"}, "img")
       [] c = "bad" -> [size |-> 43, bytes |-> <<343>>, as |-> [image |-> NoView, index |-> NoView]]
       \* an index naming the unreadable bytes as an image manifest, ahead of a real one
       [] c = "idz" -> Idx(45, {<<"bad", "image">>, <<"img", "image">>})
       \* the same bytes as a blob and as a manifest: imx has the bytes of sub as a layer, idw names imx and then sub
       [] c = "imx" -> Img(46, {"b1", "sub"}, None)
       [] c = "idw" -> Idx(47, {<<"imx", "image">>, <<"sub", "image">>})
       \* an image whose layer b2 is named by nothing else, with a subject (img) that can be stored beside it
       [] c = "sub2" -> Img(48, {"b1", "b2"}, "img")]
MCPos == [r |-> [x \in Repos |-> IF x = "r1" THEN 2 ELSE 4],
          t |-> [x \in Tags |-> IF x = "t1" THEN 2 ELSE 4],
          c |-> [x \in Cids |-> CASE x = "b0" -> 2 [] x = "b1" -> 4 [] x = "b2" -> 6 [] x = "img" -> 8
                                  [] x = "idx" -> 10 [] x = "sub" -> 12 [] x = "bad" -> 14 [] x = "idy" -> 16 [] x = "idz" -> 18 [] x = "imx" -> 20 [] x = "idw" -> 22 [] x = "sub2" -> 24]]
BufBound == \A r \in Repos : \A u \in DOMAIN ups[r] : Len(ups[r][u].buf) <= 2
========================================================================
