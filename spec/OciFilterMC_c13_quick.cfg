SPECIFICATION FSpec
CONSTANTS
  Repos = {"foo", "foo/a", "foo/b", "fooey"}
  Tags = {"t1", "t2"}
  Cids = {"b0", "b1", "b2", "img", "idx", "idy", "sub", "bad"}
  BlobIds = {}
  ManIds = {}
  Cat <- FCat
  UploadIds = {"u1", "u2", "e1", "o1"}
  ImmChoices = {FALSE}
  BlockSize = 8
  Pos <- FPos
  Prefix = "foo"
  Chars <- MCChars
  MCKinds = {"sub"}
  ErrIds = {}
  MaxSteps = 1
  HostileSteps = 1
  AllScopes = FALSE
INVARIANTS FTypeOK
PROPERTIES Confined EqualsRestriction ListingExact ScopesRewritten SubFailedListingIsPrefix BackendFaultIsResult
VIEW FView
CHECK_DEADLOCK FALSE
