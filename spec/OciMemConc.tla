---------------------------- MODULE OciMemConc ----------------------------
(***************************************************************************)
(* Implementation-shaped concurrent model of ocimem with an embedded       *)
(* linearizability monitor.  Goroutines run small programs; every          *)
(* Interface method is one step under the registry lock, except those the  *)
(* code splits:                                                            *)
(*   Buffer.Commit  = Commit1 (under Buffer.mu: check digest, snapshot)    *)
(*                    ; Commit2 (under Registry.mu: store the blob)        *)
(*   GetTag         = one step (GetTagSteps = 1, the repaired code) or     *)
(*                    ResolveTag ; GetManifest (GetTagSteps = 2)           *)
(* The constants let the module describe the code before and after the     *)
(* repairs recorded in KNOWN_FINDINGS.jsonl (F10, F11); the configuration  *)
(* matching the current tree is the one that is checked and bound.         *)
(* One repository, one tag, manifests {m1, m2}, one upload session.        *)
(* The monitor `poss` is the set of all configurations (abstract state +   *)
(* per goroutine: call in flight, linearized or not, its result) that are  *)
(* consistent with the history so far; the history is linearizable iff     *)
(* poss is never empty.  With TwoPhaseCommit the sequential specification  *)
(* itself lets Commit take effect in two steps (known finding K3).         *)
(***************************************************************************)
EXTENDS Integers, Sequences, FiniteSets, TLC

CONSTANTS GetTagSteps,      \* 1 | 2
          CommitSnapshots,  \* TRUE: the checked content is snapshotted under Buffer.mu
          TwoPhaseCommit,   \* TRUE: the reference lets Commit check and store in two steps (K3)
          CommitSerialized, \* TRUE: Commit calls on the upload hold a commit lock across both steps (F23 repair)
          Prog              \* Prog[g] = sequence of [op, a]

G == DOMAIN Prog

VARIABLES mans, tag, blobs, buf, snap, pc, idx, loc, poss, resp, sched, clock
vars == <<mans, tag, blobs, buf, snap, pc, idx, loc, poss, resp, sched, clock>>

\* ---------------- sequential reference (restriction of OciRegistry) ----------------
\* abstract state = [mans, tag, blobs, buf]; results are records
AbsApply(st, o) ==
  CASE o.op = "PushTag" -> <<[st EXCEPT !.mans = @ \cup {o.a}, !.tag = o.a], [s |-> "ok"]>>
    [] o.op = "DelMan"  -> IF o.a \in st.mans THEN <<[st EXCEPT !.mans = @ \ {o.a}], [s |-> "ok"]>> ELSE <<st, [s |-> "unknown"]>>
    [] o.op = "GetTag"  -> IF st.tag \in st.mans THEN <<st, [s |-> st.tag]>> ELSE <<st, [s |-> "unknown"]>>
    [] o.op = "Write"   -> <<[st EXCEPT !.buf = @ \o o.a], [s |-> "ok"]>>
    [] o.op = "Commit"  -> IF st.buf = o.a THEN <<[st EXCEPT !.blobs = @ \cup {[key |-> o.a, data |-> st.buf]}], [s |-> "ok"]>>
                           ELSE <<st, [s |-> "digest-invalid"]>>
    [] o.op = "GetBlob" -> IF \E b \in st.blobs : b.key = o.a THEN <<st, [d |-> (CHOOSE b \in st.blobs : b.key = o.a).data]>>
                           ELSE <<st, [s |-> "unknown"]>>

NoCall == [op |-> "none"]
LinOne(c, g) == LET r == AbsApply(c.st, c.fl[g].o) IN
                [st |-> r[1], fl |-> [c.fl EXCEPT ![g] = [o |-> c.fl[g].o, done |-> TRUE, res |-> r[2], half |-> FALSE]]]
CanLin(c, g) == c.fl[g] # NoCall /\ ~c.fl[g].done /\ ~c.fl[g].half
\* K3: the check half of a two-phase commit (no effect yet), then the store half
CanHalf(c, g) == TwoPhaseCommit /\ CanLin(c, g) /\ c.fl[g].o.op = "Commit" /\ c.st.buf = c.fl[g].o.a
HalfOne(c, g) == [c EXCEPT !.fl[g].half = TRUE]
CanStore(c, g) == c.fl[g] # NoCall /\ ~c.fl[g].done /\ c.fl[g].half
StoreOne(c, g) == [st |-> [c.st EXCEPT !.blobs = @ \cup {[key |-> c.fl[g].o.a, data |-> c.fl[g].o.a]}],
                   fl |-> [c.fl EXCEPT ![g] = [o |-> c.fl[g].o, done |-> TRUE, res |-> [s |-> "ok"], half |-> FALSE]]]
RECURSIVE Close(_)
Close(S) == LET more == UNION {{LinOne(c, g) : g \in {x \in G : CanLin(c, x)}}
                               \cup {HalfOne(c, g) : g \in {x \in G : CanHalf(c, x)}}
                               \cup {StoreOne(c, g) : g \in {x \in G : CanStore(c, x)}} : c \in S} IN
            IF more \subseteq S THEN S ELSE Close(S \cup more)
OnInvoke(g, o) == Close({[c EXCEPT !.fl[g] = [o |-> o, done |-> FALSE, res |-> [s |-> "-"], half |-> FALSE]] : c \in poss})
OnReturn(g, v) == Close({[c EXCEPT !.fl[g] = NoCall] : c \in {d \in poss : d.fl[g] # NoCall /\ d.fl[g].done /\ d.fl[g].res = v}})

\* ---------------- implementation-shaped steps ----------------
CurOp(g) == Prog[g][idx[g]]
Init ==
  /\ mans = {"m1"} /\ tag = "m1" /\ blobs = {} /\ buf = <<1>> /\ snap = <<>>
  /\ pc = [g \in G |-> "idle"] /\ idx = [g \in G |-> 1] /\ loc = [g \in G |-> "-"]
  /\ resp = [g \in G |-> [s |-> "-"]]
  /\ poss = {[st |-> [mans |-> {"m1"}, tag |-> "m1", blobs |-> {}, buf |-> <<1>>], fl |-> [g \in G |-> NoCall]]}
  /\ sched = <<>>
  /\ clock = "-"          \* holder of the upload's commit lock

\* A scheduling step runs goroutine g from where it is to its next yield point or return
\* (invocation and the first critical section happen in the same step: the harness cannot
\* separate them, and nothing is observable in between).
Finish(g, v, ps) == /\ pc' = [pc EXCEPT ![g] = "idle"] /\ idx' = [idx EXCEPT ![g] = @ + 1]
                    /\ resp' = [resp EXCEPT ![g] = v]
                    /\ poss' = Close({[c EXCEPT !.fl[g] = NoCall] : c \in {d \in ps : d.fl[g] # NoCall /\ d.fl[g].done /\ d.fl[g].res = v}})

Start(g) ==
  /\ pc[g] = "idle" /\ idx[g] <= Len(Prog[g])
  /\ (CurOp(g).op = "Commit" /\ CommitSerialized) => clock = "-"
  /\ clock' = IF CurOp(g).op = "Commit" /\ CommitSerialized /\ buf = CurOp(g).a THEN g ELSE clock
  /\ LET o == CurOp(g)
         ps == OnInvoke(g, o) IN
     CASE o.op = "PushTag" -> mans' = mans \cup {o.a} /\ tag' = o.a /\ Finish(g, [s |-> "ok"], ps) /\ UNCHANGED <<blobs, buf, snap, loc>>
       [] o.op = "DelMan"  -> (IF o.a \in mans THEN mans' = mans \ {o.a} /\ Finish(g, [s |-> "ok"], ps)
                               ELSE UNCHANGED mans /\ Finish(g, [s |-> "unknown"], ps)) /\ UNCHANGED <<tag, blobs, buf, snap, loc>>
       [] o.op = "Write"   -> buf' = buf \o o.a /\ Finish(g, [s |-> "ok"], ps) /\ UNCHANGED <<mans, tag, blobs, snap, loc>>
       [] o.op = "GetBlob" -> (IF \E b \in blobs : b.key = o.a THEN Finish(g, [d |-> (CHOOSE b \in blobs : b.key = o.a).data], ps)
                               ELSE Finish(g, [s |-> "unknown"], ps)) /\ UNCHANGED <<mans, tag, blobs, buf, snap, loc>>
       [] o.op = "GetTag"  ->
            IF GetTagSteps = 1
              THEN (IF tag \in mans THEN Finish(g, [s |-> tag], ps) ELSE Finish(g, [s |-> "unknown"], ps)) /\ UNCHANGED <<mans, tag, blobs, buf, snap, loc>>
              ELSE /\ loc' = [loc EXCEPT ![g] = tag] /\ pc' = [pc EXCEPT ![g] = "s2"] /\ poss' = ps
                   /\ UNCHANGED <<mans, tag, blobs, buf, snap, idx, resp>>
       [] o.op = "Commit"  ->
            IF buf = o.a
              THEN snap' = buf /\ pc' = [pc EXCEPT ![g] = "s2"] /\ poss' = ps /\ UNCHANGED <<mans, tag, blobs, buf, loc, idx, resp>>
              ELSE Finish(g, [s |-> "digest-invalid"], ps) /\ UNCHANGED <<mans, tag, blobs, buf, snap, loc>>

Continue(g) ==
  /\ pc[g] = "s2"
  /\ clock' = IF CurOp(g).op = "Commit" /\ CommitSerialized THEN "-" ELSE clock
  /\ LET o == CurOp(g) IN
     CASE o.op = "GetTag" -> (IF loc[g] \in mans THEN Finish(g, [s |-> loc[g]], poss) ELSE Finish(g, [s |-> "unknown"], poss))
                             /\ UNCHANGED <<mans, tag, blobs, buf, snap, loc>>
       [] o.op = "Commit" -> /\ blobs' = blobs \cup {[key |-> o.a, data |-> IF CommitSnapshots THEN snap ELSE buf]}
                             /\ Finish(g, [s |-> "ok"], poss)
                             /\ UNCHANGED <<mans, tag, buf, snap, loc>>

Next == \E g \in G : (Start(g) \/ Continue(g)) /\ sched' = Append(sched, g)
Spec == Init /\ [][Next]_vars

\* ---------------- properties ----------------
Linearizable == poss # {}
StoredMatchesKey == \A b \in blobs : b.data = b.key
\* in these programs the tag points at a stored manifest at every instant
TagNeverFalselyMissing == \A g \in G : (idx[g] > 1 /\ Prog[g][idx[g] - 1].op = "GetTag") => resp[g] # [s |-> "unknown"]
Done == \A g \in G : pc[g] = "idle" /\ idx[g] > Len(Prog[g])
ConcView == <<mans, tag, blobs, buf, snap, pc, idx, loc, poss, resp, clock>>
=============================================================================
