------------------------ MODULE OciUnifyConcTrace ------------------------
(***************************************************************************)
(* Trace validation for C16: recorded runs of the real ociunify (policy    *)
(* ReadConcurrent) over gated fake members against OciUnifyConc.            *)
(*                                                                         *)
(* Per run: a `reset` line (configuration), then `act` lines - what the     *)
(* environment did, in order: rel0/rel1 (a member in mode normal returns),  *)
(* cancel, close - each followed by `tau` lines, at each of which the model *)
(* may take one internal step (main, a sender, a member in mode             *)
(* untilCancelled) or none; and observation lines, which must hold of the   *)
(* model state reached: `ret` (the call returned: which answer; contexts of *)
(* the members whose answer main received; the winner's reader not closed), *)
(* `readobs` (after the caller read a piece / everything: context of the   *)
(* chosen member unchanged, its reader not closed),                        *)
(* `closed` (after the caller's Close: reader closed once, the reader's own  *)
(* Close error - if scripted - passed through, context cancelled either way),*)
(* `final` (at quiescence: every reader, every context, the     *)
(* number of goroutines still inside ociunify).  Go's select may take any   *)
(* ready case, so may the model: the run is accepted iff SOME behaviour of  *)
(* OciUnifyConc with this order of environment actions shows exactly these  *)
(* observations.  One step per line: acceptance is by diameter.             *)
(***************************************************************************)
EXTENDS OciUnifyConc, Json, IOUtils, TraceHdr

VARIABLES l,
          clen      \* clen[i]: how many bytes the reader member i hands out holds (0, 1 or 4): a
                    \* concretisation of the run, outside the model (the winner's context is live
                    \* from the return until Close whatever the content is); only the byte counts
                    \* of the caller's reads are judged with it
Trace == ndJsonDeserialize(IOEnv.TRACE_FILE)

Fn(s) == [i \in M |-> s[i + 1]]       \* JSON array -> function on {0, 1}
B2I(b) == IF b THEN 1 ELSE 0

TInit == Init /\ l = 2 /\ clen = [i \in M |-> 0]
Min(a, b) == IF a < b THEN a ELSE b

ResetStep(e) ==
  /\ out' = Fn(e.out) /\ mode' = Fn(e.mode) /\ style' = e.style
  /\ closeErr' = Fn(e.closeerr) /\ closeRet' = "-" /\ readState' = "none"
  /\ parentCancelled' = FALSE
  /\ ctxCancelled' = [q \in M |-> FALSE]
  /\ doneClosed' = FALSE
  /\ taken' = [q \in M |-> FALSE]
  /\ memberReturned' = [q \in M |-> FALSE]
  /\ opened' = [q \in M |-> FALSE]
  /\ closed' = [q \in M |-> FALSE]
  /\ ret' = "pending" /\ retOwner' = -1 /\ parentAtRet' = FALSE /\ readerClosed' = FALSE
  /\ h' = <<>>
  /\ me' = [self \in {10, 11} |-> self - 10]
  /\ sm' = [self \in {20, 21} |-> self - 20]
  /\ got' = -1
  /\ pc' = [self \in ProcSet |-> CASE self \in {10, 11} -> "MRun"
                                   [] self \in {20, 21} -> "SSelect"
                                   [] self = 1 -> "MSel1"
                                   [] self = 2 -> "CCancel"
                                   [] self = 3 -> "CUse"]

\* what the environment does
Act(a) ==
  CASE a = "rel0" -> mode[0] = "normal" /\ member(10)
    [] a = "rel1" -> mode[1] = "normal" /\ member(11)
    [] a = "cancel" -> canceller
    [] a = "close" -> closer /\ readerClosed'
    [] a = "read" -> closer /\ readState' = "eof" /\ ~readerClosed'
    [] a = "readpart" -> closer /\ readState' = "part" /\ ~readerClosed'
    [] OTHER -> FALSE
\* what the system may do by itself
Internal ==
  \/ main
  \/ \E s \in {20, 21} : sender(s)
  \/ \E i \in M : mode[i] = "untilCancelled" /\ member(10 + i)
InternalEnabled == ENABLED Internal

\* ---- observations ----
\* the call has returned e.ret; of the contexts only those are settled whose member's answer
\* main received (the others are cancelled by their sender in its own time)
RetObs(e) ==
  /\ MainDone
  /\ e.ret = ret
  /\ (ret \in Oks \/ ret = "err") => e.from = retOwner
  /\ ret = "cancelled" => e.from = -1
  /\ \A k \in M : taken[k] => (e.ctxdone[k + 1] = CtxDone(k))
  \* the reader handed to the caller has not been closed by anybody else
  /\ (Winner # -1 /\ style = "reader") => e.closes[Winner + 1] = B2I(closed[Winner])
\* after the caller has read from the returned reader (a piece, or all of it up to io.EOF):
\* the read went well, nobody closed the member's reader, and the context given to the
\* chosen member is as live as it was (WinnerCtxLiveUntilClose: reading is not closing)
ReadObs(e) ==
  /\ ~readerClosed /\ Winner # -1
  /\ readState = (IF e.kind = "read" THEN "eof" ELSE "part")
  /\ ~e.rderr
  /\ LET len == clen[Winner]
         piece == Min(1, len) IN
     e.n = (IF e.kind = "read" THEN (IF e.partbefore THEN len - piece ELSE len) ELSE piece)
  /\ e.closes[Winner + 1] = 0 /\ ~closed[Winner]
  /\ e.ctxdone[Winner + 1] = CtxDone(Winner)
\* right after the caller's Close: the member reader was closed once; its error, if it gave
\* one, is what the caller got (errors.Is), no error otherwise; and whatever Close returned,
\* the context given to the chosen member is cancelled now
ClosedObs(e) ==
  /\ readerClosed
  \* inside the member reader's Close its context was still live (unless the caller itself
  \* had cancelled): the unifier cancels after closing, not before
  /\ e.ctxinclose = B2I(parentCancelled)
  /\ e.closeerr = (closeRet = "err")
  /\ e.closeerr => e.closeerrfrom = Winner
  /\ e.closes[Winner + 1] = 1 /\ closed[Winner]
  /\ e.ctxdone[Winner + 1] = CtxDone(Winner)
\* at quiescence: nothing internal is left to do, and everything observable agrees
FinalObs(e) ==
  /\ ~InternalEnabled
  /\ \A k \in M :
        /\ e.returned[k + 1] = B2I(memberReturned[k])
        /\ (memberReturned[k] \/ parentCancelled) => e.ctxdone[k + 1] = CtxDone(k)
        /\ style = "reader" => (e.opened[k + 1] = B2I(opened[k]) /\ e.closes[k + 1] = B2I(closed[k]))
  \* goroutines still inside ociunify: main if it has not returned, senders not finished
  /\ e.leaked = B2I(~MainDone) + Cardinality({s \in {20, 21} : pc[s] # "Done"})

TNext ==
  /\ l <= Len(Trace)
  /\ l' = l + 1
  /\ clen' = IF Trace[l].op = "reset" THEN Fn(Trace[l].clen) ELSE clen
  /\ LET e == Trace[l] IN
     CASE e.op = "reset" -> ResetStep(e)
       [] e.op = "act" -> Act(e.a)
       [] e.op = "tau" -> Internal \/ UNCHANGED vars
       [] e.op = "ret" -> RetObs(e) /\ UNCHANGED vars
       [] e.op = "closed" -> ClosedObs(e) /\ UNCHANGED vars
       [] e.op = "readobs" -> ReadObs(e) /\ UNCHANGED vars
       [] e.op = "final" -> FinalObs(e) /\ UNCHANGED vars
       [] OTHER -> FALSE
TSpec == TInit /\ [][TNext]_<<vars, l, clen>>

Accepted == TLCGet("stats").diameter = Len(Trace)
==========================================================================
