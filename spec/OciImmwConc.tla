--------------------------- MODULE OciImmwConc ---------------------------
(***************************************************************************)
(* Two callers push a manifest under the same tag through                  *)
(* ocifilter.Immutable at the same time.  The wrapper's tagged             *)
(* PushManifest is three calls on the registry behind it - resolve the     *)
(* tag, push, resolve again ("did we lose the race?") - and each of them   *)
(* is atomic there (C08), so a concurrent history is an interleaving of    *)
(* these steps.  The registry behind is OciRegistry in mutable mode.       *)
(*                                                                         *)
(* The wrapper cannot keep a tag from moving inside that window (its own   *)
(* comment says so, and C14 claims tag stability under concurrency only    *)
(* for the registry's immutable-tags mode).  What every interleaving must  *)
(* still satisfy: nothing is ever deleted or replaced through the wrapper  *)
(* (NothingDeleted), a push reported as successful leaves the tag on the   *)
(* pushed content at the moment it returns (OkMeansTagged), and a refused  *)
(* push is refused as DENIED.                                              *)
(*                                                                         *)
(* Every complete interleaving is exported (h) and replayed step by step   *)
(* on the real wrapper over a gated in-memory registry; the recorded       *)
(* backend calls and returns are validated by RegTrace (ViaProps, WretOK). *)
(***************************************************************************)
EXTENDS OciRegistryMC, Json

Procs == {"A", "B"}
PB(c) == [op |-> "PushBlob", r |-> "r1", c |-> c, dd |-> c, ds |-> Cat[c].size]
PM(t, c, mt) == [op |-> "PushManifest", r |-> "r1", t |-> t, c |-> c, mt |-> mt]
Push(t, c, mt) == [r |-> "r1", t |-> t, c |-> c, mt |-> mt]
\* scenario = what is there before (Pre) and the push each caller makes (Arg)
Scens == <<
  \* the content of one caller is already stored and tagged elsewhere
  [pre |-> <<PB("b1"), PM("t2", "img", "image")>>, arg |-> [A |-> Push("t1", "img", "image"), B |-> Push("t1", "idx", "index")]],
  \* both fresh
  [pre |-> <<PB("b1"), PB("b2"), PM(None, "img", "image")>>, arg |-> [A |-> Push("t1", "idx", "index"), B |-> Push("t1", "sub", "image")]],
  \* the same content twice
  [pre |-> <<PB("b1")>>, arg |-> [A |-> Push("t1", "img", "image"), B |-> Push("t1", "img", "image")]],
  \* the tag exists already
  [pre |-> <<PB("b1"), PM("t1", "img", "image")>>, arg |-> [A |-> Push("t1", "img", "image"), B |-> Push("t1", "idx", "index")]],
  \* one push is refused by the registry (unreadable bytes as an image manifest)
  [pre |-> <<PB("b1"), PM("t2", "img", "image")>>, arg |-> [A |-> Push("t1", "bad", "image"), B |-> Push("t1", "img", "image")]],
  \* different tags
  [pre |-> <<PB("b1"), PM(None, "img", "image")>>, arg |-> [A |-> Push("t1", "img", "image"), B |-> Push("t2", "idx", "index")]]
>>

VARIABLES sc, pc, out, h, k
cvars == <<sc, pc, out, h, k>>
Arg == Scens[sc].arg
Pre == Scens[sc].pre

CInit ==
  /\ Init /\ imm = FALSE
  /\ sc \in 1..Len(Scens)
  /\ pc = [p \in Procs |-> "pre"] /\ out = [p \in Procs |-> "none"] /\ h = <<>> /\ k = 1

\* pre-population, one operation per step
PreStep ==
  /\ k <= Len(Pre)
  /\ Apply(Pre[k]) /\ k' = k + 1
  /\ UNCHANGED <<sc, pc, out, h>>

Ready == k > Len(Pre)
Fin(p, o) == pc' = [pc EXCEPT ![p] = "done"] /\ out' = [out EXCEPT ![p] = o]

Step(p) ==
  LET a == Arg[p] IN
  /\ Ready /\ pc[p] # "done"
  /\ h' = Append(h, p) /\ k' = k /\ sc' = sc
  /\ CASE pc[p] = "pre" ->          \* ResolveTag
            /\ UNCHANGED vars
            /\ IF Has(tags[a.r], a.t)
                 THEN Fin(p, IF tags[a.r][a.t].c = a.c THEN "ok" ELSE "denied")
                 ELSE pc' = [pc EXCEPT ![p] = "push"] /\ UNCHANGED out
       [] pc[p] = "push" ->
            /\ PushManifest(a.r, a.t, a.c, a.mt)
            /\ IF res'.ok THEN pc' = [pc EXCEPT ![p] = "check"] /\ UNCHANGED out
                          ELSE Fin(p, "failed")
       [] pc[p] = "check" ->        \* ResolveTag again
            /\ UNCHANGED vars
            /\ Fin(p, IF Has(tags[a.r], a.t) /\ tags[a.r][a.t].c = a.c THEN "ok" ELSE "denied")

AllDone == \A p \in Procs : pc[p] = "done"
Export ==
  /\ Ready /\ AllDone /\ k = Len(Pre) + 1
  /\ PrintT(<<"MBT", ToJson([pre |-> Pre, arg |-> Arg, sched |-> h, out |-> out])>>)
  /\ k' = k + 1 /\ UNCHANGED <<vars, sc, pc, out, h>>

CNext == PreStep \/ (\E p \in Procs : Step(p)) \/ Export
CSpec == CInit /\ [][CNext]_<<vars, cvars>>

\* ------------------------------------------------------------------------
NothingDeleted ==
  [][Ready => \A r \in Repos : /\ blobs[r] \subseteq blobs'[r]
                              /\ \A c \in DOMAIN mans[r] : Has(mans'[r], c) /\ mans'[r][c] = mans[r][c]]_<<vars, cvars>>
OkMeansTagged ==
  [][\A p \in Procs : (out'[p] = "ok" /\ out[p] # "ok") =>
        (Has(tags'[Arg[p].r], Arg[p].t) /\ tags'[Arg[p].r][Arg[p].t].c = Arg[p].c)]_<<vars, cvars>>
\* what the window costs (not claimed): a tag seen by a successful caller may move afterwards
TagNeverMoves ==
  [][Ready => \A r \in Repos : \A t \in DOMAIN tags[r] : tags'[r][t].c = tags[r][t].c]_<<vars, cvars>>
CView == <<state, sc, pc, out, h, k>>
=========================================================================
