SPECIFICATION TSpec
CONSTANTS
  Hist = FALSE
POSTCONDITION Accepted
CHECK_DEADLOCK FALSE
