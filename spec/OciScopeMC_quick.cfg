SPECIFICATION Spec
CONSTANTS
  Strs <- MCStrs
  Cls <- MCCls
  U <- MCU9
  PairIdx <- Idx6
INVARIANT Laws
INVARIANT ParsePermutedRepeated
CHECK_DEADLOCK FALSE
