SPECIFICATION TSpec
CONSTANTS
  DefaultN <- TrDefaultN
  Fuel = 100000
POSTCONDITION Accepted
CHECK_DEADLOCK FALSE
