----------------------- MODULE OciClientWriterMC -----------------------
(* Exhaustive configurations of the client writer over one repository and one session:
   all partitions of the content into writes, chunk-size hints, close/resume patterns.
   Honest = TRUE: the caller resumes only at the size the closed writer reported or by asking
   the registry (not when exactly one byte has been received: the excluded case). *)
EXTENDS OciClientWriter

CONSTANTS Honest, MinChunk, Hints, MaxSent

Blob(bytes) == [size |-> Len(bytes), bytes |-> bytes,
                as |-> [image |-> [wf |-> FALSE, blobs |-> {}, mans |-> {}, subject |-> None, subjectType |-> None],
                        index |-> [wf |-> FALSE, blobs |-> {}, mans |-> {}, subject |-> None, subjectType |-> None]]]
UCat == [c \in {"b0", "b1", "b2", "b3", "b4"} |->
           CASE c = "b0" -> Blob(<<>>) [] c = "b1" -> Blob(<<1>>) [] c = "b2" -> Blob(<<1, 2>>)
             [] c = "b3" -> Blob(<<1, 2, 1>>) [] c = "b4" -> Blob(<<1, 2, 1, 2>>)]
UPos == [r |-> [x \in Repos |-> 2], t |-> [x \in Tags |-> 2], c |-> [x \in Cids |-> 2]]

R == "r1"
U == "u1"
UInit == Init /\ CWInit
Total == IF K(R, U) \in DOMAIN sent THEN Len(sent[K(R, U)]) ELSE 0
Alive == Has(ups[R], U) => (~ups[R][U].dead /\ ~ups[R][U].done)    \* a caller following the contract commits once
UStep ==
  \/ \E h \in Hints : ~Has(ups[R], U) /\ CPushBlobChunked(R, U, h, MinChunk)
  \/ \E d \in Chunks : Total + Len(d) <= MaxSent /\ HasW(R, U) /\ (Honest => ~cw[K(R, U)].closed) /\ CWrite(R, U, d)
  \/ CClose(R, U)
  \/ \E off \in -1..MaxSent, h \in Hints : (Honest => AtSize(R, U, off)) /\ CResume(R, U, off, h)
  \/ CUpSize(R, U)
  \/ \E dd \in BlobIds : (Honest => HasW(R, U) /\ ~cw[K(R, U)].closed) /\ CCommit(R, U, dd)
UNext == (Honest => Alive) /\ UStep
USpec == UInit /\ [][UNext]_allvars

\* C04 for a caller that follows the contract
NeverRefused == Honest => res.code # "RANGE_INVALID"
CommitIsConcatenation ==
  [][Honest /\ res'.kind = "descn" => Cat[res'.d].bytes = sent'[K(R, U)] /\ res'.n = Len(sent'[K(R, U)])]_allvars
ServerOffsetAgrees ==
  Honest => \A k \in DOMAIN cw : (Has(ups[k[1]], k[2]) /\ cw[k].chunk = <<>>) => SizeOf(ups[k[1]][k[2]].buf) = cw[k].flushed
\* the right digest is always accepted when everything has been written
RightDigestAccepted ==
  [][Honest /\ res'.code = "DIGEST_INVALID" => \A c \in BlobIds : Cat[c].bytes # sent[K(R, U)]]_allvars
UView == <<state, cw, sent>>
=========================================================================
