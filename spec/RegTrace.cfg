SPECIFICATION TSpec
CONSTANTS
  Repos <- TrRepos
  Tags <- TrTags
  Cids <- TrCids
  BlobIds = {}
  ManIds = {}
  Cat <- TrCat
  UploadIds <- TrUploads
  ImmChoices = {FALSE}
  BlockSize <- TrBlockSize
  Pos <- TrPos
  K1_DeclaredTypeGoverns = FALSE
  F12_PushBlobUncoded = TRUE
POSTCONDITION Accepted
CHECK_DEADLOCK FALSE
