------------------------------ MODULE OciList ------------------------------
(***************************************************************************)
(* C05: listings (repositories, tags, referrers) through any stack of      *)
(* ocimem | ociclient+ociserver hop | ocifilter.Select | ocifilter.Sub |   *)
(* ociunify | ocidebug.                                                    *)
(*                                                                         *)
(* Items are the elements 1..N of a universe whose byte order is the       *)
(* numeric order (the harness ranks the real strings).  A start point is   *)
(* a POSITION: element x sits at position 2x, a string strictly between    *)
(* x and x+1 at 2x+1, the absent start point ("") at 0.                    *)
(*                                                                         *)
(* A stack is a tree of nodes:                                             *)
(*   [t |-> "mem",    s, absent]           ocimem holding the set s (absent:*)
(*                                         the listed repository does not   *)
(*                                         exist: tags/referrers only)      *)
(*   [t |-> "http",   hop, n, max, link, x] ociclient (ListPageSize n) over  *)
(*                                         ociserver (MaxListPageSize max,  *)
(*                                         0 = none; link = Link headers on) *)
(*   [t |-> "select", p, x]                ocifilter.Select admitting p     *)
(*   [t |-> "sub",    lo, cnt, x]          ocifilter.Sub: elements          *)
(*                                         lo+1..lo+cnt of the universe      *)
(*                                         underneath carry the prefix       *)
(*   [t |-> "unify",  x, y]                ociunify of two members          *)
(*   [t |-> "debug",  x]                   ocidebug                         *)
(*   [t |-> "fail",   at, x]               a registry (harness-made) whose  *)
(*                                         listings fail with DENIED when   *)
(*                                         they reach an element >= at      *)
(*                                                                         *)
(* The meaning of a stack is the STREAM of what happens when its listing   *)
(* iterator is run by a consumer that never declines: page requests seen   *)
(* at each HTTP hop (in the order the responses are produced) and calls of *)
(* the consumer (items, or one final error).  All iterators of the code    *)
(* are lazy and deterministic, so the behaviour against a consumer that    *)
(* declines at its k-th call is the prefix of that stream up to the k-th   *)
(* call (Observed); an ociserver is such a consumer of its backend: it     *)
(* declines at call n+1.                                                   *)
(***************************************************************************)
EXTENDS Integers, Sequences, FiniteSets, TLC, SequencesExt

CONSTANTS DefaultN,  \* ociclient.DefaultListPageSize
          Fuel       \* bound on the page requests of one pager run (keeps Stream total)

Pos(x) == 2 * x
Sorted(S) == SetToSortSeq(S, <)

\* The reference semantics of every listing: ascending, strictly after the start point.
ListAfter(S, a) == Sorted({x \in S : Pos(x) > a})

\* ------------------------------------------------------------------------
\* stream elements (one record shape, so that sequences are homogeneous)
El(e, x, code, hop, n, last, cnt, link, linklast) ==
  [e |-> e, x |-> x, code |-> code, hop |-> hop, n |-> n, last |-> last, cnt |-> cnt, link |-> link, linklast |-> linklast]
Item(x) == El("item", x, "", 0, 0, 0, 0, FALSE, 0)
Err(code) == El("err", 0, code, 0, 0, 0, 0, FALSE, 0)
\* a page request as the recording handler of hop `hop` sees it: query n (-1: none) and
\* last (a position), number of items in the response, Link header present and the
\* position of its `last` parameter, error code of a failure response ("" = 200)
Req(hop, n, last, cnt, link, linklast, code) == El("req", 0, code, hop, n, last, cnt, link, linklast)
Diverge == El("diverge", 0, "", 0, 0, 0, 0, FALSE, 0)

IsYield(el) == el.e \in {"item", "err"}
IsReq(el) == el.e = "req"
Yields(s) == SelectSeq(s, IsYield)
Reqs(s) == SelectSeq(s, IsReq)
Items(s) == LET ys == SelectSeq(s, LAMBDA el : el.e = "item") IN [i \in 1..Len(ys) |-> ys[i].x]
ErrOf(s) == LET ys == SelectSeq(s, LAMBDA el : el.e = "err") IN IF ys = <<>> THEN "" ELSE ys[1].code
ItemEls(xs) == [i \in 1..Len(xs) |-> Item(xs[i])]

\* The behaviour against a consumer that declines at its m-th call (m = 0: never):
\* everything up to and including that call, nothing after it.
Observed(s, m) ==
  LET yi == {i \in 1..Len(s) : IsYield(s[i])} IN
  IF m <= 0 \/ Cardinality(yi) < m THEN s
  ELSE SubSeq(s, 1, CHOOSE j \in yi : Cardinality({i \in yi : i <= j}) = m)

\* effective page size of a client (documented: <= 0 means the default)
EffN(n) == IF n <= 0 THEN DefaultN ELSE n

\* ------------------------------------------------------------------------
\* The server side of one page request (ociserver.nextListResults) given the backend
\* iterator's stream from `last`: it refuses n > max (the backend iterator has been
\* created by then: `eager` is what that alone causes), otherwise consumes up to n+1
\* backend calls; an error among them fails the request; the page is the first n items;
\* a Link is sent iff an (n+1)-th item was seen and links are enabled.
Page(nd, inner, eager, n) ==
  IF nd.max > 0 /\ n > nd.max
  THEN [seen |-> eager, items |-> <<>>, err |-> "UNSUPPORTED", link |-> FALSE]
  ELSE LET got == Observed(inner, n + 1)
           xs == Items(got)
           page == IF Len(xs) > n THEN SubSeq(xs, 1, n) ELSE xs
       IN [seen |-> Reqs(got), items |-> page, err |-> ErrOf(got),
           link |-> Len(xs) > n /\ nd.link]

RECURSIVE Stream(_, _, _), Pager(_, _, _, _), Eager(_, _, _)

\* A source that fails part-way: everything before the first item >= at, then the error.
FailAt(s, at) ==
  LET bad == {j \in 1..Len(s) : s[j].e = "item" /\ s[j].x >= at} IN
  IF bad = {} THEN s
  ELSE SubSeq(s, 1, (CHOOSE j \in bad : \A q \in bad : j <= q) - 1) \o <<Err("DENIED")>>

\* The client side (ociclient.pager): request, yield the page, stop on a short page,
\* otherwise continue after the final item (Link header or last=: the same target).
Pager(nd, last, kind, fuel) ==
  IF fuel = 0 THEN <<Diverge>> ELSE
  LET n == EffN(nd.n)
      p == Page(nd, Stream(nd.x, last, kind), Eager(nd.x, last, kind), n)
  IN IF p.err # ""
     THEN p.seen \o <<Req(nd.hop, n, last, 0, FALSE, -1, p.err), Err(p.err)>>
     ELSE LET fin == IF p.items = <<>> THEN 0 ELSE Pos(p.items[Len(p.items)]) IN
          p.seen \o <<Req(nd.hop, n, last, Len(p.items), p.link, IF p.link THEN fin ELSE -1, "")>>
                 \o ItemEls(p.items)
                 \o (IF Len(p.items) < n THEN <<>> ELSE Pager(nd, fin, kind, fuel - 1))

\* ociclient.Referrers does not page: one request without n or last, the server
\* (handleReferrersList) returns everything its backend yields, no page-size check.
Single(nd, kind) ==
  LET inner == Stream(nd.x, 0, kind)
      e == ErrOf(inner)
  IN Reqs(inner) \o <<Req(nd.hop, -1, 0, IF e = "" THEN Len(Items(inner)) ELSE 0, FALSE, -1, e)>>
                 \o (IF e = "" THEN ItemEls(Items(inner)) ELSE <<Err(e)>>)

\* ocifilter.Sub: only repository names are rewritten.  A non-empty start point is a
\* name of the view and is translated into the universe underneath.
SubStart(nd, a) == IF a = 0 THEN 0 ELSE a + 2 * nd.lo
InSub(nd, x) == nd.lo < x /\ x <= nd.lo + nd.cnt

\* ociunify.mergeIter: both members are drained first (member 0, then member 1), "name
\* unknown" of one member counts as empty, the items are merged and de-duplicated, any
\* other error is delivered after the items.
Merge(s0, s1) ==
  LET e0 == ErrOf(s0)  e1 == ErrOf(s1)
      nf0 == e0 = "NAME_UNKNOWN"  nf1 == e1 = "NAME_UNKNOWN"
      f0 == IF nf0 THEN "" ELSE e0
      f1 == IF nf1 THEN "" ELSE e1
      err == IF f0 # "" THEN f0 ELSE f1
  IN Reqs(s0) \o Reqs(s1) \o
     (IF nf0 /\ nf1 THEN <<Err(e0)>>
      ELSE ItemEls(Sorted(ToSet(Items(s0)) \cup ToSet(Items(s1)))) \o (IF err # "" THEN <<Err(err)>> ELSE <<>>))

Stream(nd, a, kind) ==
  CASE nd.t = "mem" ->
         IF nd.absent /\ kind # "repos" THEN <<Err("NAME_UNKNOWN")>>
         ELSE ItemEls(ListAfter(nd.s, IF kind = "refs" THEN 0 ELSE a))
    [] nd.t = "debug" -> Stream(nd.x, a, kind)
    [] nd.t = "select" ->
         IF kind = "repos"
         THEN SelectSeq(Stream(nd.x, a, kind), LAMBDA el : el.e # "item" \/ el.x \in nd.p)
         ELSE Stream(nd.x, a, kind)
    [] nd.t = "sub" ->
         IF kind = "repos"
         THEN LET s == SelectSeq(Stream(nd.x, SubStart(nd, a), kind), LAMBDA el : el.e # "item" \/ InSub(nd, el.x))
              IN [i \in 1..Len(s) |-> IF s[i].e = "item" THEN Item(s[i].x - nd.lo) ELSE s[i]]
         ELSE Stream(nd.x, a, kind)
    [] nd.t = "unify" -> Merge(Stream(nd.x, a, kind), Stream(nd.y, a, kind))
    [] nd.t = "http" -> IF kind = "refs" THEN Single(nd, kind) ELSE Pager(nd, a, kind, Fuel)
    [] nd.t = "fail" -> FailAt(Stream(nd.x, a, kind), nd.at)

\* Most iterators do nothing until they are run.  These do their work when they are
\* created: ociunify (drains both members), ociclient.Referrers (sends its request),
\* and what merely forwards the call: ocidebug, and Select / Sub for tags and referrers.
Eager(nd, a, kind) ==
  CASE nd.t = "mem" -> <<>>
    [] nd.t = "unify" -> Reqs(Stream(nd, a, kind))
    [] nd.t = "http" -> IF kind = "refs" THEN Reqs(Stream(nd, a, kind)) ELSE <<>>
    [] nd.t = "debug" -> Eager(nd.x, a, kind)
    [] nd.t \in {"select", "sub"} -> IF kind = "repos" THEN <<>> ELSE Eager(nd.x, a, kind)
    [] nd.t = "fail" -> <<>>

\* A listing is a VALUE (ociregistry.Seq) that may be run more than once.  What was done
\* when it was created is not done again; everything else is - from the beginning.
Again(nd, a, kind) == LET s == Stream(nd, a, kind) IN SubSeq(s, Len(Eager(nd, a, kind)) + 1, Len(s))
\* The consumer's context is done (cancelled, past its deadline) from the moment the
\* consumer has received `cut` items (0: before the listing is created; -1: never).  Only a
\* request made with that context notices - the next page request of the outermost hop
\* (everything behind a server runs under the server's own request context; an in-memory
\* registry does not look at it): it is not sent, and the listing ends with that error.  After
\* a call of the consumer the next request element of the stream, if any, opens such a
\* request.  (cut = 0 is only used on stacks without a unifier.)
Cut(s, cut) ==
  IF cut < 0 THEN s ELSE
  LET yi == {j \in 1..Len(s) : IsYield(s[j])}
      p == IF cut = 0 THEN 0
           ELSE IF Cardinality(yi) < cut THEN Len(s)
           ELSE CHOOSE j \in yi : Cardinality({q \in yi : q <= j}) = cut
      later == {j \in p + 1..Len(s) : IsReq(s[j])}
  IN IF later = {} THEN s
     ELSE SubSeq(s, 1, (CHOOSE j \in later : \A q \in later : j <= q) - 1) \o <<Err("CONTEXT")>>
Run(c) == Cut(Stream(c.node, c.a, c.kind), c.cut)
\* (well-formedness of that reading: the work of creation comes first and yields nothing)
EagerFirst(nd, a, kind) ==
  LET s == Stream(nd, a, kind)  g == Eager(nd, a, kind)
  IN Len(g) <= Len(s) /\ SubSeq(s, 1, Len(g)) = g /\ Yields(Again(nd, a, kind)) = Yields(s)

\* ------------------------------------------------------------------------
\* One hop over an in-memory registry holding ALL of 1..m, in closed form (for universes
\* too large to enumerate: 10^4 items).  Calls are described by their maximal runs of
\* consecutive ranks <<lo, hi>>.  OciListMC checks that this agrees with Stream.
Min2(x, y) == IF x < y THEN x ELSE y
RECURSIVE BigReqs(_, _, _, _, _, _, _, _)
BigReqs(hop, f, t, a, n, link, k, j) ==
  LET r == t - j * n                      \* items still to come when page j is requested
      cnt == Min2(n, r)
      lk == r > n /\ link
      rq == Req(hop, n, IF j = 0 THEN a ELSE Pos(f + j * n - 1), cnt, lk, IF lk THEN Pos(f + j * n + cnt - 1) ELSE -1, "")
  IN <<rq>> \o (IF cnt = n /\ (k = 0 \/ k > (j + 1) * n) THEN BigReqs(hop, f, t, a, n, link, k, j + 1) ELSE <<>>)
Big(nd, m, a, k) ==
  LET n == EffN(nd.n)
      f == a \div 2 + 1                   \* the first rank strictly after the start point
      t == IF m >= f THEN m - f + 1 ELSE 0
      d == IF k = 0 THEN t ELSE Min2(k, t)
  IN IF nd.max > 0 /\ n > nd.max
     THEN [reqs |-> <<Req(nd.hop, n, a, 0, FALSE, -1, "UNSUPPORTED")>>, runs |-> <<>>, err |-> "UNSUPPORTED"]
     ELSE [reqs |-> BigReqs(nd.hop, f, t, a, n, nd.link, k, 0), runs |-> IF d = 0 THEN <<>> ELSE <<(<<f, f + d - 1>>)>>, err |-> ""]
RECURSIVE RunsOf(_)
RunsOf(xs) ==
  IF xs = <<>> THEN <<>>
  ELSE LET rest == RunsOf(Tail(xs)) IN
       IF rest # <<>> /\ rest[1][1] = xs[1] + 1 THEN <<(<<xs[1], rest[1][2]>>)>> \o Tail(rest)
       ELSE <<(<<xs[1], xs[1]>>)>> \o rest
BigAgrees(nd, a, kind, k) ==
  (nd.t = "http" /\ kind # "refs" /\ nd.x.t = "mem" /\ ~nd.x.absent /\ nd.x.s = 1..Cardinality(nd.x.s)) =>
    LET o == Observed(Stream(nd, a, kind), k)
        b == Big(nd, Cardinality(nd.x.s), a, k)
    IN Reqs(o) = b.reqs /\ RunsOf(Items(o)) = b.runs /\ ErrOf(o) = b.err

\* ------------------------------------------------------------------------
\* What a stack exposes, independently of how it pages.
RECURSIVE View(_, _), MayFail(_, _), Hops(_)
View(nd, kind) ==
  CASE nd.t = "mem" -> IF nd.absent /\ kind # "repos" THEN {} ELSE nd.s
    [] nd.t \in {"debug", "http"} -> View(nd.x, kind)
    \* what a failing source can list at all (a listing that has to go beyond fails)
    [] nd.t = "fail" -> {x \in View(nd.x, kind) : x < nd.at}
    [] nd.t = "select" -> IF kind = "repos" THEN View(nd.x, kind) \cap nd.p ELSE View(nd.x, kind)
    [] nd.t = "sub" -> IF kind = "repos" THEN {x - nd.lo : x \in {y \in View(nd.x, kind) : InSub(nd, y)}} ELSE View(nd.x, kind)
    [] nd.t = "unify" -> View(nd.x, kind) \cup View(nd.y, kind)
\* Is there a reason for which the listing may end in an error?
MayFail(nd, kind) ==
  CASE nd.t = "mem" -> nd.absent /\ kind # "repos"
    [] nd.t = "http" -> (kind # "refs" /\ nd.max > 0 /\ EffN(nd.n) > nd.max) \/ MayFail(nd.x, kind)
    [] nd.t = "unify" -> MayFail(nd.x, kind) \/ MayFail(nd.y, kind)
    [] nd.t = "fail" -> TRUE
    [] OTHER -> MayFail(nd.x, kind)
Hops(nd) ==
  CASE nd.t = "mem" -> 0
    [] nd.t = "http" -> 1 + Hops(nd.x)
    [] nd.t = "unify" -> Hops(nd.x) + Hops(nd.y)
    [] OTHER -> Hops(nd.x)
RECURSIVE Weight(_)
Weight(nd) == CASE nd.t = "mem" -> Cardinality(nd.s)
                [] nd.t = "unify" -> Weight(nd.x) + Weight(nd.y)
                [] OTHER -> Weight(nd.x)
Expected(cfg) == ListAfter(View(cfg.node, cfg.kind), IF cfg.kind = "refs" THEN 0 ELSE cfg.a)

\* ------------------------------------------------------------------------
\* One listing run step by step against a consumer that declines at its k-th call
\* (k = 0: never).  cfg = [node, kind, a, k, cut] is fixed in the initial state.
VARIABLES cfg,    \* the configuration
          stream, \* Run(cfg)
          i,      \* elements of the stream that have happened
          calls,  \* consumer calls so far (stream elements)
          nreq,   \* page requests so far
          st      \* "start" | "run" | "declined" | "failed" | "done" | "diverged"
vars == <<cfg, stream, i, calls, nreq, st>>

Start ==
  /\ st = "start"
  /\ stream' = Run(cfg)
  /\ st' = "run"
  /\ UNCHANGED <<cfg, i, calls, nreq>>

Step ==
  /\ st = "run" /\ i < Len(stream)
  /\ LET el == stream[i + 1] IN
     /\ i' = i + 1
     /\ nreq' = IF IsReq(el) THEN nreq + 1 ELSE nreq
     /\ calls' = IF IsYield(el) THEN Append(calls, el) ELSE calls
     /\ st' = CASE el.e = "diverge" -> "diverged"
                [] el.e = "err" -> "failed"                             \* delivered last
                [] el.e = "item" /\ Len(calls) + 1 = cfg.k -> "declined" \* the consumer returns false
                [] OTHER -> "run"
  /\ UNCHANGED <<cfg, stream>>

Finish ==
  /\ st = "run" /\ i = Len(stream)
  /\ st' = "done"
  /\ UNCHANGED <<cfg, stream, i, calls, nreq>>

Next == Start \/ Step \/ Finish    \* (the initial states - the configurations - are chosen by OciListMC)

\* ------------------------------------------------------------------------
\* The properties, as operators over a configuration c, the consumer calls cs so far, the
\* number of page requests nr and the run state s (the trace specification evaluates them
\* on recorded values), and as invariants of the run above.
\* At termination the complete sequence was delivered - or an error was delivered last.
LosslessOf(c, cs, s) == s = "done" => Items(cs) = Expected(c)
\* While running / when declined: what was delivered is the beginning of the listing -
\* unless an error is still to come (a unifier delivers what its healthy member has and
\* then the other member's error: not a prefix, but never without the error).
PrefixOf(c, cs, s) == (s \in {"run", "declined", "done", "failed"} /\ ~MayFail(c.node, c.kind)) => IsPrefix(Items(cs), Expected(c))
OnlyListedOf(c, cs) == LET ci == Items(cs)  ex == ToSet(Expected(c)) IN \A p \in 1..Len(ci) : ci[p] \in ex
AscendingOf(cs) == LET ci == Items(cs) IN \A p \in 1..Len(ci) - 1 : ci[p] < ci[p + 1]
NoDuplicatesOf(cs) == LET ci == Items(cs) IN Cardinality(ToSet(ci)) = Len(ci)
AfterStartOf(c, cs) == LET ci == Items(cs) IN \A p \in 1..Len(ci) : c.kind # "refs" => Pos(ci[p]) > c.a
\* An error is delivered only when some layer has a reason to fail, and it is the last call.
ErrorCauseOf(c, cs, s) == s = "failed" => /\ (MayFail(c.node, c.kind) \/ c.cut >= 0) /\ cs[Len(cs)].e = "err"
                                          /\ \A p \in 1..Len(cs) - 1 : cs[p].e = "item"
DeclinedAtKOf(c, cs, s) == s = "declined" => Len(cs) = c.k
\* Every hop asks at most one page per item underneath plus one, per request of the hop
\* above (the power saturates: TLC integers are 32 bits).
RECURSIVE SatPow(_, _)
SatPow(b, e) == IF e = 0 THEN 1 ELSE LET q == SatPow(b, e - 1) IN IF q >= 1000000 THEN q ELSE b * q
BoundedOf(c, nr, s) == /\ s # "diverged"
                       /\ nr <= SatPow(Weight(c.node) + 2, Hops(c.node)) * 2 + 2

PagingLossless == LosslessOf(cfg, calls, st)
PrefixDelivered == PrefixOf(cfg, calls, st)
OnlyListed == OnlyListedOf(cfg, calls)
Ascending == AscendingOf(calls)
NoDuplicates == NoDuplicatesOf(calls)
StrictlyAfterStart == AfterStartOf(cfg, calls)
ErrorOnlyWithCause == ErrorCauseOf(cfg, calls, st)
DeclinedAtK == DeclinedAtKOf(cfg, calls, st)
BoundedRequests == BoundedOf(cfg, nreq, st)
\* A second run of the same listing value delivers the same; the closed form agrees.
Reiterable == (st = "run" /\ i = 0) => EagerFirst(cfg.node, cfg.a, cfg.kind)
ClosedFormAgrees == (st = "run" /\ i = 0) => BigAgrees(cfg.node, cfg.a, cfg.kind, cfg.k)
\* No call of the consumer (and no request) after it declined or after an error.
StopsWhenDeclined == [][(st \in {"declined", "failed", "done"} => UNCHANGED <<calls, nreq, i>>)]_vars
Terminates == <>(st \in {"declined", "failed", "done", "diverged"})
=============================================================================
