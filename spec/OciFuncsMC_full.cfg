SPECIFICATION TableSpec
CONSTANTS
  Methods <- InterfaceMethods
  IterMethods <- InterfaceIterMethods
INVARIANT TableProps
CHECK_DEADLOCK FALSE
