SPECIFICATION TSpec
CONSTANTS
  Strs <- TrStrs
  Cls <- TrCls
  Diagnose = FALSE
POSTCONDITION Accepted
CHECK_DEADLOCK FALSE
