SPECIFICATION TSpec
CONSTANTS
  Strs <- TrStrs
  Cls <- TrCls
POSTCONDITION Accepted
CHECK_DEADLOCK FALSE
