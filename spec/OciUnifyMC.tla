---------------------------- MODULE OciUnifyMC ----------------------------
(* Exhaustive configurations of OciUnify over a small fixed catalogue.

   View half (NextView): the two members are written directly and independently, so every
   pair of member states over the universe is reached (equal, disjoint, overlapping, tag
   conflicts, repository known to none / one / both, a manifest stored under different
   media types); in every pair state every read and listing, and every write, is made
   through the unifier under both policies and with a faulty lister on either side.

   Replication half (NextRepl): only calls through the unifier, from equal (empty) members,
   including chunked uploads with close / resume at right and wrong offsets / cancel /
   commit, to a bounded depth; the members are copies of one deterministic implementation
   (ACTION_CONSTRAINT SameImplC). *)
EXTENDS OciUnify

CONSTANTS MTs,        \* media types manifests are pushed under
          WriteFaults, \* TRUE: writes through the unifier are also made with either member failing by itself
          Depth       \* bound on the number of steps of the replication half

VARIABLE depth
mcvars == <<vars, depth>>

NoView == [wf |-> FALSE, blobs |-> {}, mans |-> {}, subject |-> None, subjectType |-> None]
EmptyIdx == [wf |-> TRUE, blobs |-> {}, mans |-> {}, subject |-> None, subjectType |-> None]
Blob(bytes) == [size |-> Len(bytes), bytes |-> bytes, as |-> [image |-> NoView, index |-> NoView]]
Img(sz, bs, sub) ==
  [size |-> sz, bytes |-> <<300 + sz>>,
   as |-> [image |-> [wf |-> TRUE, blobs |-> bs, mans |-> {}, subject |-> sub, subjectType |-> IF sub = None THEN None ELSE "image"],
           index |-> [EmptyIdx EXCEPT !.subject = sub, !.subjectType = IF sub = None THEN None ELSE "image"]]]
MCCat ==
  [c \in {"b1", "b2", "img", "sub"} |->
     CASE c = "b1" -> Blob(<<1>>)
       [] c = "b2" -> Blob(<<1, 2>>)
       [] c = "img" -> Img(40, {"b1"}, None)
       [] c = "sub" -> Img(42, {"b2"}, "img")]
MCPos == [r |-> [x \in Repos |-> IF x = "r1" THEN 2 ELSE 4],
          t |-> [x \in Tags |-> IF x = "t1" THEN 2 ELSE 4],
          c |-> [x \in Cids |-> CASE x = "b1" -> 2 [] x = "b2" -> 4 [] x = "img" -> 6 [] x = "sub" -> 8]]
MCFaults == {NoFault, [k |-> 1, code |-> "DENIED"], [k |-> 0, code |-> "NAME_UNKNOWN"]}
NoFaults == {NoFault}

\* the policy only matters to digest-addressed reads, the lister faults only to listings:
\* both are chosen per call (a unifier is stateless, so this is the same as building one
\* unifier per combination over the same members)
PolsFor(o) == IF o.op \in DigestReads THEN Policies ELSE {"seq"}
FaultsFor(o) == IF o.op \in Lists THEN [{0, 1} -> ListFaults] ELSE {[i \in {0, 1} |-> NoFault]}

\* a member failing by itself: the replicated writes, either member
FaultedWrites == {"PushBlob", "PushManifest", "MountBlob", "DeleteBlob", "DeleteManifest", "DeleteTag",
                  \* one call of one member's upload writer (the caller may repeat the call)
                  "Write", "Close", "Commit", "Cancel"}
WFsFor(o) == IF WriteFaults /\ o.op \in FaultedWrites
             THEN {NoWF, [i \in {0, 1} |-> i = 0], [i \in {0, 1} |-> i = 1]} ELSE {NoWF}

MCInit == Init /\ depth = 0

DirectOps == ContentWrites(MTs) \cup (IF Cardinality(Repos) > 1 THEN MountOps ELSE {})
UnifierOpsView == ReadOpsSet \cup ContentWrites(MTs) \cup BadPushes \cup (IF Cardinality(Repos) > 1 THEN MountOps ELSE {})
NextView ==
  /\ UNCHANGED depth
  /\ \/ \E i \in {0, 1} : \E o \in DirectOps : Direct(i, o)
     \/ \E o \in UnifierOpsView : \E p \in PolsFor(o) : \E f \in FaultsFor(o) : \E w \in WFsFor(o) : ViaUnifierWF(o, p, f, w)
SpecView == MCInit /\ [][NextView]_mcvars

UnifierOpsRepl == ReadOpsSet \cup ContentWrites(MTs) \cup BadPushes \cup UploadOpsSet
NextRepl ==
  /\ depth < Depth
  /\ \E o \in UnifierOpsRepl : \E p \in PolsFor(o) : \E f \in FaultsFor(o) :
        /\ \E w \in WFsFor(o) : ViaUnifierWF(o, p, f, w)
        \* reads do not count towards the depth (they change nothing)
        /\ depth' = IF o.op \in ReadOps THEN depth ELSE depth + 1
SpecRepl == MCInit /\ [][NextRepl]_mcvars
SameImplC == SameImpl
BufBound == \A r \in Repos : \A u \in DOMAIN ups0[r] : Len(ups0[r][u].buf) <= 2

\* in the replication half the members ARE equal in every reachable state
AlwaysEqual == MemEq
MCView == <<MemView, depth>>
===========================================================================
