------------------------------ MODULE OciError ------------------------------
(***************************************************************************)
(* C07 - error identity across the wire.                                   *)
(*                                                                         *)
(* An error value is a finite tree, shaped like the Go values it stands    *)
(* for:                                                                    *)
(*   std(c)            one of the 15 standard values (ErrBlobUnknown ...)   *)
(*   new(c, m, d)      NewError(m, c, d); c may be a custom code or ""      *)
(*   plain(m)          errors.New(m): no OCI code at all                    *)
(*   fmt(m, kids)      fmt.Errorf("<m>: %w: %w ...", kids...)               *)
(*   http(s, kids)     NewHTTPError(kid or nil, s, nil, nil), or with a     *)
(*                     response and body when the node's resp is TRUE       *)
(* Messages are not strings but sequences of tokens, rendered by joining   *)
(* the token texts with ": ":                                              *)
(*   S(n)  the status prefix "<n> <StatusText(n)>"                          *)
(*   C(c)  the code prefix of c ("blob unknown", "(no code)" for "")        *)
(*   M(c)  the message of the standard value of c                           *)
(*   B(x)  an opaque base text (never equal to another token's text, never  *)
(*         containing ": ")                                                 *)
(*   E     the empty text                                                   *)
(* so the empty string is <<E>>, and TrimPrefix(msg, text(T) + ": ") is    *)
(* "drop the first token if it is T and another token follows".            *)
(*                                                                         *)
(* Marshal / Unmarshal / Hop follow ociregistry.MarshalError and            *)
(* ociclient.makeError.  Two switches select between the behaviour of the  *)
(* current code and a design in which the laws hold without exception:     *)
(*   Impl416   TRUE : any HTTP error with status 416 anywhere in the tree   *)
(*                    matches ErrRangeInvalid (httpError.Is as written)     *)
(*             FALSE: status 416 gives that identity only when it is the    *)
(*                    error's own wire status (no table code governs)       *)
(*   TrimExact FALSE: a code prefix is trimmed only when ": " follows       *)
(*             TRUE : a message that is exactly the code prefix is trimmed  *)
(*                    to the empty message                                  *)
(***************************************************************************)
EXTENDS Naturals, Sequences, FiniteSets, TLC

CONSTANT StdMsg   \* [standard code -> token sequence of the standard value's message]

StdCodes == {"BLOB_UNKNOWN", "BLOB_UPLOAD_INVALID", "BLOB_UPLOAD_UNKNOWN", "DIGEST_INVALID",
             "MANIFEST_BLOB_UNKNOWN", "MANIFEST_INVALID", "MANIFEST_UNKNOWN", "NAME_INVALID",
             "NAME_UNKNOWN", "SIZE_INVALID", "UNAUTHORIZED", "DENIED", "UNSUPPORTED",
             "TOOMANYREQUESTS", "RANGE_INVALID"}

\* The status each standard code owns (the table documented in ociregistry/error.go).
Table == [c \in StdCodes |->
  CASE c \in {"BLOB_UNKNOWN", "BLOB_UPLOAD_UNKNOWN", "MANIFEST_BLOB_UNKNOWN", "MANIFEST_UNKNOWN", "NAME_UNKNOWN"} -> 404
    [] c \in {"DIGEST_INVALID", "MANIFEST_INVALID", "NAME_INVALID", "SIZE_INVALID", "UNSUPPORTED"} -> 400
    [] c = "UNAUTHORIZED" -> 401
    [] c = "DENIED" -> 403
    [] c = "TOOMANYREQUESTS" -> 429
    [] c \in {"BLOB_UPLOAD_INVALID", "RANGE_INVALID"} -> 416]

\* What a client makes of a body-less (HEAD) response: the code that stands for the status.
HeadRep == (404 :> "NAME_UNKNOWN") @@ (401 :> "UNAUTHORIZED") @@ (403 :> "DENIED") @@
           (429 :> "TOOMANYREQUESTS") @@ (400 :> "UNSUPPORTED")

\* ------------------------------------------------------------------ tokens
S(n) == [t |-> "S", v |-> ToString(n)]
\* Custom codes that differ from a tabled code (or from UNKNOWN) only by case: they own no status
\* and match no standard value, but their code prefix TEXT is that of the tabled code, so the
\* prefix token is the same (the harness uses the same list).
CaseVariants == ("denied" :> "DENIED") @@ ("Blob_Unknown" :> "BLOB_UNKNOWN") @@
                ("blob_upload_invalid" :> "BLOB_UPLOAD_INVALID") @@ ("Range_Invalid" :> "RANGE_INVALID") @@
                ("name_unknown" :> "NAME_UNKNOWN") @@ ("Unsupported" :> "UNSUPPORTED") @@ ("unknown" :> "UNKNOWN")
C(c) == [t |-> "C", v |-> IF c \in DOMAIN CaseVariants THEN CaseVariants[c] ELSE c]
M(c) == [t |-> "M", v |-> c]
B(x) == [t |-> "B", v |-> x]
E == [t |-> "E", v |-> ""]

\* ------------------------------------------------------------------- trees
\* `resp` (HTTP wrappers only): the wrapper was made from an actual *http.Response (what ociclient
\* returns, or NewHTTPError with a non-nil response and body) rather than with a nil response.  No
\* law depends on it: MarshalError answers a tabled code with its tabled status either way.
Std(c) == [k |-> "std", code |-> c, status |-> 0, msg |-> <<>>, detail |-> "none", kids |-> <<>>, resp |-> FALSE]
New(c, m, d) == [k |-> "new", code |-> c, status |-> 0, msg |-> m, detail |-> d, kids |-> <<>>, resp |-> FALSE]
Plain(m) == [k |-> "plain", code |-> "", status |-> 0, msg |-> m, detail |-> "none", kids |-> <<>>, resp |-> FALSE]
Fmt(m, ks) == [k |-> "fmt", code |-> "", status |-> 0, msg |-> m, detail |-> "none", kids |-> ks, resp |-> FALSE]
Http(s, ks) == [k |-> "http", code |-> "", status |-> s, msg |-> <<>>, detail |-> "none", kids |-> ks, resp |-> FALSE]
HttpR(s, ks) == [k |-> "http", code |-> "", status |-> s, msg |-> <<>>, detail |-> "none", kids |-> ks, resp |-> TRUE]

Range(s) == {s[i] : i \in 1..Len(s)}

\* Pre-order walk: the order in which errors.As / errors.Is visit a tree.
RECURSIVE Pre(_), PreSeq(_)
Pre(t) == <<t>> \o PreSeq(t.kids)
PreSeq(ks) == IF ks = <<>> THEN <<>> ELSE Pre(Head(ks)) \o PreSeq(Tail(ks))

IsErrNode(n) == n.k \in {"std", "new"}
IsHttpNode(n) == n.k = "http"
ErrNodes(t) == SelectSeq(Pre(t), IsErrNode)
HttpNodes(t) == SelectSeq(Pre(t), IsHttpNode)
HasErr(t) == ErrNodes(t) # <<>>
HasHttp(t) == HttpNodes(t) # <<>>
FirstErr(t) == Head(ErrNodes(t))         \* errors.As(err, &ociregistry.Error)
FirstHttp(t) == Head(HttpNodes(t))       \* errors.As(err, &ociregistry.HTTPError)

\* Error() as a token sequence.
RECURSIVE Msg(_), MsgSeq(_)
Msg(t) == CASE t.k = "std" -> <<C(t.code)>> \o StdMsg[t.code]
            [] t.k = "new" -> IF t.msg = <<E>> THEN <<C(t.code)>> ELSE <<C(t.code)>> \o t.msg
            [] t.k = "plain" -> t.msg
            [] t.k = "fmt" -> t.msg \o MsgSeq(t.kids)
            [] t.k = "http" -> <<S(t.status)>> \o MsgSeq(t.kids)
MsgSeq(ks) == IF ks = <<>> THEN <<>> ELSE Msg(Head(ks)) \o MsgSeq(Tail(ks))

\* ----------------------------------------------------------------- marshal
WireCode(t) == IF HasErr(t) /\ FirstErr(t).code # "" THEN FirstErr(t).code ELSE "UNKNOWN"
WireDetail(t) == IF HasErr(t) THEN FirstErr(t).detail ELSE "none"
\* StatusPerTable: the code's status, else the error's own status, else 500.
Status(t) == IF WireCode(t) \in StdCodes THEN Table[WireCode(t)]
             ELSE IF HasHttp(t) THEN FirstHttp(t).status ELSE 500

Trim(m, tok) == IF Len(m) >= 2 /\ m[1] = tok THEN Tail(m) ELSE m
TrimX(m, tok, exact) == IF exact /\ m = <<tok>> THEN <<E>> ELSE Trim(m, tok)
\* the message put on the wire: Error() minus one status prefix minus one code prefix
WireMsg(t, exact) == TrimX(Trim(Msg(t), S(Status(t))), C(WireCode(t)), exact)

\* --------------------------------------------------------------- unmarshal
BodyErr(st, code, m, d) == HttpR(st, <<New(code, m, d)>>)
HeadErr(st) == HttpR(st, IF st \in DOMAIN HeadRep THEN <<Std(HeadRep[st])>> ELSE <<>>)
Hop(t, kind, exact) ==
  IF kind = "HEAD" THEN HeadErr(Status(t))
  ELSE BodyErr(Status(t), WireCode(t), WireMsg(t, exact), WireDetail(t))

\* ------------------------------------------------- listings that fail after items
\* A backend iterator yields n items and THEN the error.  The server gathers a page: if more than
\* p items remain it answers p items and a link, otherwise it meets the error and answers the
\* error alone.  So a paging client (page size p at every hop) hands over p * ((n-1) div p) items
\* and then the error - the error always arrives.
PageDelivered(n, p) == IF n = 0 THEN 0 ELSE p * ((n - 1) \div p)
RECURSIVE Delivered(_, _, _)
Delivered(n, p, j) == IF j = 0 THEN n ELSE PageDelivered(Delivered(n, p, j - 1), p)

\* -------------------------------------------------------------- errors.Is
CodeIds(t) == {n.code : n \in Range(ErrNodes(t))} \cap StdCodes
Has416(t) == \E n \in Range(HttpNodes(t)) : n.status = 416
Own416(t) == WireCode(t) \notin StdCodes /\ HasHttp(t) /\ FirstHttp(t).status = 416
\* the set of standard values s with errors.Is(t, s)
IsSet(t, impl416) ==
  CodeIds(t) \cup (IF (IF impl416 THEN Has416(t) ELSE Own416(t)) THEN {"RANGE_INVALID"} ELSE {})
\* identities the single wire error cannot carry (MarshalError documents that it picks one)
Secondary(t) == CodeIds(t) \ {WireCode(t)}

\* ------------------------------------------ the named cells of the current code
\* K2: the table gives BLOB_UPLOAD_INVALID status 416, so after a hop the 416 rule adds
\* ErrRangeInvalid to an error that did not match it before.
K2Cell(t) == WireCode(t) = "BLOB_UPLOAD_INVALID" /\ "RANGE_INVALID" \notin IsSet(t, TRUE)
\* K2b: a 416 wrapper makes the original match ErrRangeInvalid, but a table code (or an
\* outer wrapper) decides the wire status, so the match is gone after a hop.
K2bCell(t) == /\ "RANGE_INVALID" \in IsSet(t, TRUE) /\ "RANGE_INVALID" \notin CodeIds(t)
              /\ Status(t) # 416
\* the wire message of the first hop is empty, so the second hop cannot trim the code prefix
StutterCell(t) == WireMsg(t, FALSE) = <<E>>
=============================================================================
