------------------------------ MODULE OciScope ------------------------------
(***************************************************************************)
(* Authorization scopes (ociauth.Scope) as finite sets of                   *)
(* <<type, resource, action>> triples.  The three-way representation of the *)
(* implementation (sorted repositories + action bitmasks, a catalog         *)
(* sentinel, a sorted list of "others") is deliberately NOT modelled: the   *)
(* naive set algebra below is the oracle.                                   *)
(*                                                                          *)
(* Strings are opaque to TLC (no `<` on strings), so the byte order of the  *)
(* strings in play (Go strings.Compare) and their lexical class are given   *)
(* as data: Strs is the strictly ascending sequence of all field strings,   *)
(* Cls the aligned sequence of classes                                      *)
(*   "empty"  the empty string                                              *)
(*   "clean"  non-empty, free of whitespace, colons and commas              *)
(*   "comma"  non-empty, no whitespace, no colon, at least one comma        *)
(*   "word"   no whitespace, at least one colon but not exactly two         *)
(*   "dirty"  anything else (whitespace, or exactly two colons).            *)
(***************************************************************************)
EXTENDS Integers, Sequences, FiniteSets, TLC

CONSTANTS Strs, Cls

ToSet(q) == {q[i] : i \in 1..Len(q)}
Reverse(q) == [i \in 1..Len(q) |-> q[Len(q) + 1 - i]]
StrSet == ToSet(Strs)
Rank == [s \in StrSet |-> CHOOSE i \in 1..Len(Strs) : Strs[i] = s]
ClassOf == [s \in StrSet |-> Cls[Rank[s]]]

\* The header data is usable: an injective enumeration, "" (if present) first.
OrderDataOK ==
  /\ Len(Cls) = Len(Strs)
  /\ \A i, j \in 1..Len(Strs) : i # j => Strs[i] # Strs[j]
  /\ \A i \in 1..Len(Strs) : (Strs[i] = "") = (Cls[i] = "empty")
  /\ \A i \in 1..Len(Strs) : Cls[i] = "empty" => i = 1
  /\ \A i \in 1..Len(Strs) : Cls[i] \in {"empty", "clean", "comma", "word", "dirty"}

\* ------------------------------------------------------------------ triples
\* ResourceScope.Compare: ResourceType, then Resource, then Action, each by byte order.
Less3(x, y) ==
  \/ Rank[x[1]] < Rank[y[1]]
  \/ x[1] = y[1] /\ Rank[x[2]] < Rank[y[2]]
  \/ x[1] = y[1] /\ x[2] = y[2] /\ Rank[x[3]] < Rank[y[3]]

CatalogT == <<"registry", "catalog", "*">>
IsRepositoryT(t) == t[1] = "repository"

\* ------------------------------------------------------------------- scopes
\* A scope is [unlimited : BOOLEAN, set : SUBSET Triple]; the unlimited scope is one value.
Empty == [unlimited |-> FALSE, set |-> {}]
Unlimited == [unlimited |-> TRUE, set |-> {}]

\* NewScope(list...): order and repetitions are immaterial.
New(list) == [unlimited |-> FALSE, set |-> ToSet(list)]

\* A scope string is a sequence of fields separated by whitespace.  A field is either an
\* opaque word w (any word that does not split into exactly three colon-parts), standing for
\* the triple <<w, "", "">>, or t:r:a1,a2,...,an (n >= 1) standing for n triples.
FieldTriples(f) == IF f.opaque THEN {<<f.w, "", "">>}
                   ELSE {<<f.t, f.r, f.acts[i]>> : i \in 1..Len(f.acts)}
Parse(fields) == [unlimited |-> FALSE, set |-> UNION {FieldTriples(fields[i]) : i \in 1..Len(fields)}]

\* The structure really is a scope string: no part contains a separator of its level.
WellFormedField(f) ==
  IF f.opaque THEN ClassOf[f.w] \in {"clean", "comma", "word"}
  ELSE /\ ClassOf[f.t] \in {"empty", "clean", "comma"}
       /\ ClassOf[f.r] \in {"empty", "clean", "comma"}
       /\ Len(f.acts) >= 1
       /\ \A i \in 1..Len(f.acts) : ClassOf[f.acts[i]] \in {"empty", "clean"}

\* Concrete syntax (TLC concatenates strings with \o).
RECURSIVE JoinActs(_, _)
JoinActs(acts, i) == IF i = Len(acts) THEN acts[i] ELSE acts[i] \o "," \o JoinActs(acts, i + 1)
FieldText(f) == IF f.opaque THEN f.w ELSE f.t \o ":" \o f.r \o ":" \o JoinActs(f.acts, 1)
WhiteSpace == {" ", "  ", "\t", "\n", " \t ", "\n ", "   "}
RECURSIVE RenderFrom(_, _, _)
RenderFrom(fields, seps, i) ==
  IF i > Len(fields) THEN seps[i] ELSE seps[i] \o FieldText(fields[i]) \o RenderFrom(fields, seps, i + 1)
Render(fields, seps) == RenderFrom(fields, seps, 1)
WellFormedText(fields, seps) ==
  /\ Len(seps) = Len(fields) + 1
  /\ \A i \in 1..Len(fields) : WellFormedField(fields[i])
  /\ \A i \in 1..Len(seps) : IF 1 < i /\ i < Len(seps) THEN seps[i] \in WhiteSpace
                                                        ELSE seps[i] \in WhiteSpace \cup {""}

Union(s1, s2) == IF s1.unlimited \/ s2.unlimited THEN Unlimited
                 ELSE [unlimited |-> FALSE, set |-> s1.set \cup s2.set]
Contains(s1, s2) == IF s1.unlimited THEN TRUE ELSE IF s2.unlimited THEN FALSE ELSE s2.set \subseteq s1.set
Holds(s, t) == IF s.unlimited THEN TRUE ELSE t \in s.set
Equal(s1, s2) == s1 = s2
ScopeLen(s) == Cardinality(s.set)                \* Len: documented to panic on the unlimited scope
IsEmpty(s) == ~s.unlimited /\ s.set = {}
\* Iter: every element exactly once, ascending by Less3; the unlimited scope yields nothing.
RECURSIVE Ascending(_)
Ascending(S) == IF S = {} THEN <<>>
                ELSE LET m == CHOOSE x \in S : \A y \in S : y = x \/ Less3(x, y)
                     IN <<m>> \o Ascending(S \ {m})
Iter(s) == IF s.unlimited THEN <<>> ELSE Ascending(s.set)

\* Does a union add nothing to its receiver?  (Then the receiver, text included, is returned.)
UnionIsNoop(s1, s2) == Union(s1, s2) = s1

\* One rendering of a limited scope as fields: ascending, the actions of one repository
\* grouped in one field, <<w, "", "">> as the opaque word w.
RECURSIVE GroupFrom(_, _)
GroupFrom(q, i) ==
  IF i > Len(q) THEN <<>>
  ELSE LET t == q[i]
           same == {j \in i..Len(q) : q[j][1] = t[1] /\ q[j][2] = t[2]}
           n == IF IsRepositoryT(t) THEN Cardinality(same) ELSE 1      \* q ascending: `same` is a run
       IN <<IF t[2] = "" /\ t[3] = ""
              THEN [opaque |-> TRUE, w |-> t[1], t |-> "", r |-> "", acts |-> <<>>]
              ELSE [opaque |-> FALSE, w |-> "", t |-> t[1], r |-> t[2], acts |-> [k \in 1..n |-> q[i + k - 1][3]]]>>
          \o GroupFrom(q, i + n)
CanonFields(s) == GroupFrom(Iter(s), 1)

\* The domain on which print-then-parse is claimed to be the identity.
TripleInDomain(t) ==
  /\ ClassOf[t[1]] = "clean"
  /\ \/ t[2] = "" /\ t[3] = ""
     \/ ClassOf[t[2]] = "clean" /\ ClassOf[t[3]] = "clean"
InDomain(s) == ~s.unlimited /\ \A t \in s.set : TripleInDomain(t)

\* ---------------------------------------------------------------------------
\* The laws (predicates over scopes a, b and a universe U of triples), checked by TLC on
\* the model in OciScopeMC and, through OciScopeTrace, on every recorded call of the code.
Less3IsStrictTotalOrder(U) ==
  /\ \A x \in U : ~Less3(x, x)
  /\ \A x, y \in U : x # y => (Less3(x, y) /\ ~Less3(y, x)) \/ (Less3(y, x) /\ ~Less3(x, y))
  /\ \A x, y, z \in U : Less3(x, y) /\ Less3(y, z) => Less3(x, z)

IterAscendingExact(a) ==
  LET q == Iter(a) IN
  /\ \A i \in 1..Len(q) - 1 : Less3(q[i], q[i + 1])
  /\ ToSet(q) = a.set
  /\ Len(q) = IF a.unlimited THEN 0 ELSE ScopeLen(a)

UnionIsSetUnion(a, b, U) ==
  /\ Union(a, b) = Union(b, a)
  /\ Union(a, a) = a
  /\ Union(a, Empty) = a /\ Union(Empty, a) = a
  /\ Union(Union(a, b), b) = Union(a, b)
  /\ \A t \in U : Holds(Union(a, b), t) <=> Holds(a, t) \/ Holds(b, t)
  /\ Contains(Union(a, b), a) /\ Contains(Union(a, b), b)
  /\ \A c \in {a, b, Empty, Unlimited, Union(a, b)} :        \* least upper bound
        Contains(c, a) /\ Contains(c, b) => Contains(c, Union(a, b))

ContainsIsSubset(a, b, U) ==
  /\ Contains(a, a)
  /\ Contains(a, b) /\ Contains(b, a) <=> Equal(a, b)
  /\ Contains(a, b) <=> Equal(Union(a, b), a)
  /\ (~a.unlimited /\ ~b.unlimited) => (Contains(a, b) <=> \A t \in U : Holds(b, t) => Holds(a, t))
  /\ Contains(a, Empty)

HoldsIsMembership(a, U) ==
  \A t \in U : /\ Holds(a, t) <=> Contains(a, New(<<t>>))
               /\ Holds(New(<<t>>), t)
               /\ \A u \in U : Holds(New(<<t>>), u) <=> u = t

LenIsCardinality(a, b) ==
  (~a.unlimited /\ ~b.unlimited) =>
     /\ ScopeLen(Union(a, b)) + Cardinality(a.set \cap b.set) = ScopeLen(a) + ScopeLen(b)
     /\ ScopeLen(a) = Len(Iter(a))
     /\ (ScopeLen(a) = 0) = IsEmpty(a)
     /\ Contains(a, b) => ScopeLen(b) <= ScopeLen(a)

UnlimitedTop(a, U) ==
  /\ Contains(Unlimited, a)
  /\ Contains(a, Unlimited) <=> a.unlimited
  /\ Union(a, Unlimited) = Unlimited /\ Union(Unlimited, a) = Unlimited
  /\ \A t \in U : Holds(Unlimited, t)
  /\ Iter(Unlimited) = <<>> /\ ~IsEmpty(Unlimited)

\* A repository scope (whatever its name, the empty name included) never confers the
\* catalog scope, and the catalog scope confers no repository scope.
CatalogIndependentOfRepository(a, U) ==
  /\ (~a.unlimited /\ \A t \in a.set : IsRepositoryT(t)) => ~Holds(a, CatalogT)
  /\ \A t \in U : IsRepositoryT(t) => ~Holds(New(<<CatalogT>>), t)
  /\ (~a.unlimited /\ CatalogT \notin a.set) => ~Holds(a, CatalogT)

NewIgnoresOrderAndRepetition(a, b) ==
  (~a.unlimited /\ ~b.unlimited) =>
     /\ New(Iter(a)) = a
     /\ New(Iter(a) \o Iter(b)) = Union(a, b)
     /\ New(Iter(b) \o Iter(a) \o Iter(b)) = Union(a, b)
     /\ New(Reverse(Iter(a))) = a

\* print . parse on the claimed domain, for the grouped rendering (the trace spec states
\* it for whatever text the code prints).
RoundTrip(a) ==
  ~a.unlimited =>
     /\ Parse(CanonFields(a)) = a
     /\ InDomain(a) => \A i \in 1..Len(CanonFields(a)) : WellFormedField(CanonFields(a)[i])

\* Text: a value-with-text is [v : scope, known : BOOLEAN, text : STRING]; the text of a
\* freshly built scope is not pinned (known = FALSE), that of a parsed one is its source.
UnionT(x, y) == IF UnionIsNoop(x.v, y.v) THEN x
                ELSE [v |-> Union(x.v, y.v), known |-> Union(x.v, y.v).unlimited,
                      text |-> IF Union(x.v, y.v).unlimited THEN "*" ELSE ""]
UnionNoopKeepsText(x, y) ==
  /\ Contains(x.v, y.v) => UnionT(x, y) = x
  /\ UnionT(x, y).v = Union(x.v, y.v)
=============================================================================
