SPECIFICATION GSpec
CONSTANTS
  Repos = {"r1"}
  Tags = {}
  Cids = {"b0", "b1", "b2", "img", "idx", "idy", "sub", "bad"}
  BlobIds = {"b0", "b1", "b2"}
  ManIds = {}
  Cat <- MCCat
  UploadIds = {}
  ImmChoices = {FALSE}
  BlockSize = 8192
  Pos <- MCPos
  GenDepth = 18
  GenKinds = {"PushBlob", "GetBlobRange", "GetBlob", "DeleteBlob"}
CHECK_DEADLOCK FALSE
