SPECIFICATION CSpec
CONSTANTS
  Repos = {"r1"}
  Tags = {"t1"}
  Cids = {"b0", "b1", "b2", "img", "idx", "idy", "sub", "bad"}
  BlobIds = {"b1", "b2"}
  ManIds = {"img", "idx", "sub"}
  Cat <- MCCat
  UploadIds = {}
  ImmChoices = {TRUE, FALSE}
  BlockSize = 8192
  Pos <- MCPos
  CoverKinds = {}
  PrintKinds = {}
  PrintMinMans = 0
VIEW CoverView
CHECK_DEADLOCK FALSE
