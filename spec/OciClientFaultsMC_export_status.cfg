SPECIFICATION MCSpec
CONSTANTS
  DefaultN = 5
  Threshold = 4
  ErrLimit = 8192
  DefaultChunk = 50
  MaxAlloc = 100
  PageSizeRule = "le0"
  GuardLocation = TRUE
  GuardAlloc = TRUE
  StrictRangeTooLong = FALSE
  PageSizes <- PS1
  MaxResp = 3
  MaxCalls = 4
  Families = {"status"}
  SizesForAll = FALSE
  Level = "lite"
INVARIANT Props
