"""Common machinery of the /verif checks: scratch directories, harness build, TLC runs
(model checking, scenario generation, trace validation), verdicts, evidence files.

Verdict discipline: a VIOLATION comes only from a recorded execution of the real code that
the specification rejects (and that is not an instance of a listed known finding).  Anything
else that goes wrong - TLC crash, timeout, build failure, an invariant violated in the
design model itself - is a machinery failure: exit 2, never a violation."""
import concurrent.futures as cf
import hashlib
import json
import os
import re
import shutil
import subprocess
import sys
import tempfile
import threading
import time

sys.path.insert(0, os.path.dirname(__file__))
import tlaval

VERIF = os.path.dirname(os.path.dirname(os.path.abspath(__file__)))
SPEC = os.path.join(VERIF, 'spec')
HARNESS = os.path.join(VERIF, 'harness')
REPO = os.environ.get('VERIF_REPO', '/repo')
NCPU = os.cpu_count() or 4

GOENV = dict(GOFLAGS='-mod=mod', GOPROXY='off', GOSUMDB='off', GOTOOLCHAIN='local', GOWORK='off')


class Machinery(Exception):
    """The check itself could not run properly (exit 2)."""


class Ctx:
    def __init__(self, pid, tier):
        self.pid = pid
        self.tier = tier
        self.seed = int(os.environ.get('VERIF_SEED', '1'))
        self.t0 = time.time()
        base = os.path.join(VERIF, '.work')
        os.makedirs(base, exist_ok=True)
        self.work = tempfile.mkdtemp(prefix='%s-%s-' % (pid, tier), dir=base)
        self.cov = dict(states=0, transitions=0, traces_validated_against_impl=0, samples=[],
                        model_runs=[], events_validated=0, per_op={}, seeds=[self.seed])
        self.assumptions = []
        self.violations = []
        self.known = []
        self.notes = []
        self._specdir = None
        self._n = 0
        self._lock = threading.Lock()

    # ------------------------------------------------------------------ scratch
    def sub(self, name):
        with self._lock:
            self._n += 1
            n = self._n
        d = os.path.join(self.work, '%03d-%s' % (n, name))
        os.makedirs(d, exist_ok=True)
        return d

    def specdir(self):
        """A scratch copy of spec/ (TLC litters its working directory)."""
        d = self.sub('spec')
        for f in os.listdir(SPEC):
            if f.endswith('.tla') or f.endswith('.cfg'):
                shutil.copy(os.path.join(SPEC, f), d)
        return d

    def cleanup(self):
        shutil.rmtree(self.work, ignore_errors=True)

    def log(self, *a):
        print('[%s %6.1fs]' % (self.pid, time.time() - self.t0), *a, flush=True)


# ---------------------------------------------------------------------- harness
def build_harness(ctx, race=False):
    """Builds harness/ against /repo's current working tree with the verif tag."""
    out = os.path.join(ctx.work, 'vh-race' if race else 'vh')
    if os.path.exists(out):
        return out
    env = dict(os.environ, **GOENV)
    if REPO != '/repo':
        # a scratch copy of the repository: point the replace directive at it
        hd = os.path.join(ctx.work, 'harness-src')
        shutil.copytree(HARNESS, hd, dirs_exist_ok=True)
        gm = open(os.path.join(hd, 'go.mod')).read().replace('/repo/ociregistry', REPO + '/ociregistry')
        open(os.path.join(hd, 'go.mod'), 'w').write(gm)
        src = hd
    else:
        src = HARNESS
    cmd = ['go', 'build', '-tags', 'verif'] + (['-race'] if race else []) + ['-o', out, '.']
    p = subprocess.run(cmd, cwd=src, env=env, capture_output=True, text=True)
    if p.returncode != 0:
        raise Machinery('harness build failed:\n' + p.stdout + p.stderr)
    return out


def run_harness(ctx, vh, args, timeout=1800, env=None):
    e = dict(os.environ)
    if env:
        e.update(env)
    p = subprocess.run([vh] + args, capture_output=True, text=True, timeout=timeout, env=e)
    if p.returncode != 0:
        raise Machinery('harness %s failed (exit %d):\n%s%s' % (' '.join(args[:2]), p.returncode, p.stdout[-2000:], p.stderr[-4000:]))
    return p.stdout


# -------------------------------------------------------------------------- TLC
TLC_NOISE = re.compile(r'^(Parsing file|Semantic processing|Linting of|Warning: The field name|line \d+, col \d+ to line \d+, col \d+ of module|The field name|named \w+, located|The field in the record|In TLA\+, field names|Therefore, DOMAIN)')


def run_tlc(ctx, cwd, module, cfg, workers=NCPU, timeout=900, extra=(), env=None, simulate=None):
    md = tempfile.mkdtemp(prefix='md-', dir=ctx.work)
    tmp = tempfile.mkdtemp(prefix='jt-', dir=ctx.work)
    cmd = ['timeout', str(timeout), 'tlc', '-workers', str(workers), '-metadir', md, '-config', cfg]
    if simulate:
        cmd += ['-simulate', simulate]
    cmd += list(extra) + [module]
    e = dict(os.environ)
    e['JAVA_TOOL_OPTIONS'] = (e.get('JAVA_TOOL_OPTIONS', '') + ' -Djava.io.tmpdir=' + tmp + ' -Xss64m').strip()
    if env:
        e.update(env)
    t = time.time()
    p = subprocess.run(cmd, cwd=cwd, capture_output=True, text=True, env=e)
    out = p.stdout + p.stderr
    shutil.rmtree(md, ignore_errors=True)
    shutil.rmtree(tmp, ignore_errors=True)
    for f in os.listdir(cwd):
        if '_TTrace_' in f:
            os.unlink(os.path.join(cwd, f))
    res = dict(rc=p.returncode, out=out, wall=time.time() - t, ok='No error has been found' in out)
    m = re.search(r'(\d+) states generated, (\d+) distinct states found', out)
    if m:
        res['generated'] = int(m.group(1))
        res['distinct'] = int(m.group(2))
    m = re.search(r'The depth of the complete state graph search is (\d+)', out)
    if m:
        res['depth'] = int(m.group(1))
    if p.returncode == 124:
        res['timeout'] = True
    return res


def tlc_errors(out, n=40):
    lines = [l for l in out.splitlines() if l.strip() and not TLC_NOISE.match(l)]
    keep = []
    on = False
    for l in lines:
        if l.startswith('Error') or 'xception' in l or 'violated' in l or 'Attempted' in l or 'nonexistent' in l:
            on = True
        if on:
            keep.append(l)
    if not keep:
        keep = lines[-25:]
    return '\n'.join(keep[:n])


def model_check(ctx, module, cfg, workers=NCPU, timeout=900, what=''):
    """Exhaustive check of a design model.  Failure here is a machinery failure."""
    d = ctx.specdir()
    r = run_tlc(ctx, d, module, cfg, workers=workers, timeout=timeout)
    if not r['ok'] or 'distinct' not in r:
        raise Machinery('model check %s/%s did not pass:\n%s' % (module, cfg, tlc_errors(r['out'])))
    ctx.cov['states'] += r['distinct']
    ctx.cov['transitions'] += r['generated']
    ctx.cov['model_runs'].append(dict(module=module, cfg=cfg, distinct=r['distinct'], generated=r['generated'],
                                      depth=r.get('depth'), wall_s=round(r['wall'], 1), what=what))
    ctx.log('model %s %s: %d distinct / %d generated, depth %s, %.1fs' % (module, cfg, r['distinct'], r['generated'], r.get('depth'), r['wall']))
    return r


def unquote_tla(s):
    """TLA+ string literal body -> python string."""
    out = []
    i = 0
    while i < len(s):
        c = s[i]
        if c == '\\' and i + 1 < len(s):
            n = s[i + 1]
            out.append({'n': '\n', 't': '\t', '"': '"', '\\': '\\'}.get(n, n))
            i += 2
        else:
            out.append(c)
            i += 1
    return ''.join(out)


MBT = re.compile(r'^<<"MBT", "(.*)">>$')


def generate(ctx, module, cfg, simulate=None, workers=1, timeout=600, limit=None, extra=()):
    """Runs a generation config: the model prints PrintT(<<"MBT", ToJson(h)>>) lines; returns
    the decoded JSON values (de-duplicated, order preserved)."""
    d = ctx.specdir()
    r = run_tlc(ctx, d, module, cfg, workers=workers, timeout=timeout, simulate=simulate, extra=extra)
    if r['rc'] not in (0,) and not r.get('generated'):
        raise Machinery('generation %s/%s failed:\n%s' % (module, cfg, tlc_errors(r['out'])))
    if 'rror' in tlc_errors(r['out']) and not r['ok'] and simulate is None:
        raise Machinery('generation %s/%s failed:\n%s' % (module, cfg, tlc_errors(r['out'])))
    seen = set()
    out = []
    for line in r['out'].splitlines():
        m = MBT.match(line.strip())
        if not m:
            continue
        js = unquote_tla(m.group(1))
        if js in seen:
            continue
        seen.add(js)
        out.append(json.loads(js))
        if limit and len(out) >= limit:
            break
    ctx.log('generated %d scenarios from %s %s (%.1fs)' % (len(out), module, cfg, r['wall']))
    return out, r


# ------------------------------------------------------------- trace validation
def cfg_with(ctx, d, cfg, consts):
    """Writes a variant of cfg with boolean constants set as given."""
    text = open(os.path.join(d, cfg)).read()
    for k, v in consts.items():
        text, n = re.subn(r'(\b%s\s*=\s*)(TRUE|FALSE)' % re.escape(k), r'\g<1>%s' % ('TRUE' if v else 'FALSE'), text)
        if n != 1:
            raise Machinery('constant %s not found in %s' % (k, cfg))
    name = cfg.replace('.cfg', '') + '_' + hashlib.sha1(json.dumps(consts, sort_keys=True).encode()).hexdigest()[:8] + '.cfg'
    open(os.path.join(d, name), 'w').write(text)
    return name


def validate_trace(ctx, module, cfg, trace, consts=None, timeout=900, first_line=2):
    """Validates one trace file.  Returns dict(accepted, line, states): `line` is the
    1-based line that could not be consumed when rejected."""
    last = None
    for attempt in range(2):
        d = ctx.specdir()
        with open(trace) as f:
            hdr = json.loads(f.readline())
        open(os.path.join(d, 'TraceHdr.tla'), 'w').write(tlaval.header_module('TraceHdr', hdr))
        c = cfg_with(ctx, d, cfg, consts) if consts else cfg
        r = run_tlc(ctx, d, module + '.tla', c, workers=1, timeout=timeout, env={'TRACE_FILE': os.path.abspath(trace)})
        shutil.rmtree(d, ignore_errors=True)
        if r['ok']:
            return dict(accepted=True, states=r.get('distinct', 0), generated=r.get('generated', 0))
        out = r['out']
        m = re.search(r'<<"HW", (\d+)>>', out)
        if m and 'Postcondition' in out:
            # specs with silent steps report the highest line index reached themselves
            return dict(accepted=False, line=int(m.group(1)), states=r.get('distinct', 0))
        if 'Postcondition' in out and 'is false' in out and 'depth' in r:
            # depth = number of lines consumed + 1 (initial state); the next line is first_line + consumed
            return dict(accepted=False, line=first_line + r['depth'] - 1, states=r.get('distinct', 0))
        last = out
        try:
            with open(os.path.join(VERIF, '.work', 'last_tlc_failure.log'), 'w') as f:
                f.write(out)
        except OSError:
            pass
        if 'Attempted' in out or 'nonexistent' in out or 'Parse Error' in out or 'semantic' in out.lower():
            break  # deterministic failure of the specification on this trace: no point retrying
    raise Machinery('trace validation %s on %s broke:\n%s' % (module, trace, tlc_errors(last)))


def split_scenarios(trace):
    """-> header line, list of scenarios (each a list of lines starting with its reset line)."""
    with open(trace) as f:
        lines = f.read().splitlines()
    hdr, rest = lines[0], lines[1:]
    scen = []
    for l in rest:
        if l.startswith('{"') and '"op":"reset"' in l:
            scen.append([l])
        elif scen:
            scen[-1].append(l)
        else:
            scen.append([l])
    return hdr, scen


def write_trace(path, hdr, scenarios):
    with open(path, 'w') as f:
        f.write(hdr + '\n')
        for s in scenarios:
            for l in s:
                f.write(l + '\n')


def load_known(pid):
    """KNOWN_FINDINGS.jsonl -> entries for this property that name a relaxation."""
    path = os.path.join(VERIF, 'KNOWN_FINDINGS.jsonl')
    out = []
    if os.path.exists(path):
        for l in open(path):
            l = l.strip()
            if not l or l.startswith('#'):
                continue
            e = json.loads(l)
            if e.get('kind') == 'known' and pid in e.get('properties', [e.get('property')]):
                out.append(e)
    return out


def judge_traces(ctx, module, cfg, traces, strict=None, shard_lines=6000, label=''):
    """Validates the scenarios of the given trace files, sharded over the cores.  Rejected
    scenarios are isolated; each is re-validated under each listed known-finding relaxation
    (exactly one switched on); what remains rejected is a violation."""
    strict = dict(strict or {})
    cfg_text = open(os.path.join(SPEC, cfg)).read()
    # only the relaxations this trace specification knows about apply to it
    known = [k for k in load_known(ctx.pid) if re.search(r'\b%s\s*=' % re.escape(k['relaxation']), cfg_text)]
    shards = []
    sd = ctx.sub('shards')
    for t in traces:
        hdr, scen = split_scenarios(t)
        cur, n = [], 0
        for s in scen:
            cur.append(s)
            n += len(s)
            if n >= shard_lines:
                shards.append((hdr, cur))
                cur, n = [], 0
        if cur:
            shards.append((hdr, cur))
    files = []
    for i, (hdr, scen) in enumerate(shards):
        p = os.path.join(sd, 'shard%03d.ndjson' % i)
        write_trace(p, hdr, scen)
        files.append((p, hdr, scen))

    def work(item):
        p, hdr, scen = item
        bad = []
        scen = list(scen)
        accepted = 0
        states = 0
        rounds = 0
        while scen:
            rounds += 1
            write_trace(p, hdr, scen)
            r = validate_trace(ctx, module, cfg, p, consts=strict)
            states += r.get('states', 0)
            if r['accepted']:
                accepted += len(scen)
                break
            if rounds == 1 and known:
                # fast path: if the whole shard is accepted once the listed known-finding relaxations are
                # switched on, every rejection in it is an instance of one of them; find out which
                allon = dict(strict)
                for k in known:
                    allon[k['relaxation']] = True
                if validate_trace(ctx, module, cfg, p, consts=allon)['accepted']:
                    hit = []
                    if len(known) == 1:
                        hit = list(known)
                    else:
                        for k in known:
                            one = dict(strict)
                            one[k['relaxation']] = True
                            if validate_trace(ctx, module, cfg, p, consts=one)['accepted']:
                                hit = [k]
                                break
                        if not hit:
                            hit = list(known)
                    for k in hit:
                        if k['id'] not in [x['id'] for x in ctx.known]:
                            ctx.known.append(k)
                    accepted += len(scen)
                    break
            # locate the scenario holding the rejected line
            line = r['line'] - 1  # index among lines after the header, 1-based
            k = 0
            acc = 0
            while k < len(scen) and acc + len(scen[k]) < line:
                acc += len(scen[k])
                k += 1
            if k >= len(scen):
                raise Machinery('rejected line %d beyond trace %s' % (r['line'], p))
            bad.append((scen[k], line - acc))
            accepted += k
            scen = scen[k + 1:]
            if len(bad) >= 12:
                break
        return accepted, bad, states, hdr

    total_acc = 0
    with cf.ThreadPoolExecutor(max_workers=NCPU) as ex:
        results = list(ex.map(work, files))
    rejected = []
    for accepted, bad, states, hdr in results:
        total_acc += accepted
        ctx.cov['events_validated'] += states
        for scen, at in bad:
            rejected.append((hdr, scen, at))
    with cf.ThreadPoolExecutor(max_workers=NCPU) as ex:
        list(ex.map(lambda x: classify(ctx, module, cfg, x[0], x[1], x[2], strict, known), rejected))
    ctx.cov['traces_validated_against_impl'] += total_acc
    ctx.log('%s: %d scenarios accepted, %d rejected' % (label or module, total_acc, sum(len(b) for _, b, _, _ in results)))
    return total_acc


def classify(ctx, module, cfg, hdr, scen, at, strict, known):
    """scen was rejected at its line `at` (1-based within the scenario)."""
    sd = ctx.sub('reject')
    p = os.path.join(sd, 'scenario.ndjson')
    write_trace(p, hdr, [scen])
    bad_event = scen[at - 1] if at - 1 < len(scen) else ''
    for k in known:
        consts = dict(strict)
        consts[k['relaxation']] = True
        r = validate_trace(ctx, module, cfg, p, consts=consts)
        if r['accepted']:
            if k['id'] not in [x['id'] for x in ctx.known]:
                ctx.known.append(k)
            return
    if len(known) > 1:
        consts = dict(strict)
        for k in known:
            consts[k['relaxation']] = True
        r = validate_trace(ctx, module, cfg, p, consts=consts)
        if r['accepted']:
            for k in known:
                if k['id'] not in [x['id'] for x in ctx.known]:
                    ctx.known.append(k)
            return
    # a violation: keep the scenario up to and including the rejected event
    os.makedirs(os.path.join(VERIF, 'replays'), exist_ok=True)
    body = '\n'.join(scen[:at])
    name = '%s-%s.ndjson' % (ctx.pid, hashlib.sha1(body.encode()).hexdigest()[:10])
    rp = os.path.join(VERIF, 'replays', name)
    write_trace(rp, hdr, [scen[:at]])
    try:
        be = json.loads(bad_event)
        msg = str(be.get('msg', be.get('panic', '')))
        msg = re.sub(r'https?://\S+', 'URL', msg)
        msg = re.sub(r'[0-9a-fA-F]{8,}|\d+', '#', msg)
        sig = '%s|%s|%s|%s' % (be.get('op'), be.get('ok'), be.get('code'), msg[:50])
    except Exception:
        sig = bad_event[:60]
    ctx.violations.append(dict(replay=rp, event=bad_event[:400], module=module, sig=sig))


# --------------------------------------------------------------------- verdicts
def report_violations(ctx, start=0):
    """One VIOLATION line per distinct kind of rejected event (at most 10)."""
    seen = {}
    for v in ctx.violations[start:]:
        seen.setdefault(v.get('sig', v['replay']), []).append(v)
    for sig, vs in list(seen.items())[:10]:
        print('VIOLATION property=%s replay=%s' % (ctx.pid, vs[0]['replay']))
        print('  rejected event (%d scenario(s) rejected this way): %s' % (len(vs), vs[0]['event']))
    if len(seen) > 10:
        print('  ... and %d more kinds of rejected event' % (len(seen) - 10))


def finish(ctx, level='model_checking', rule='', extra=None):
    cov = ctx.cov
    cov['rule'] = rule
    cov['known_findings_seen'] = [k['id'] for k in ctx.known]
    if ctx.notes:
        cov['notes'] = ctx.notes
    if extra:
        cov.update(extra)
    if not cov['samples']:
        cov['samples'] = ['(no sample recorded)']
    cov['states'] = max(1, cov['states'])
    cov['transitions'] = max(1, cov['transitions'])
    ev = dict(property_id=ctx.pid, tier=ctx.tier, seed=ctx.seed, level=level, coverage=cov,
              assumptions=ctx.assumptions, wall_s=round(time.time() - ctx.t0, 1), violations=len(ctx.violations))
    # trial runs against a scratch tree (tools/trymutant.sh) must not overwrite the evidence of the real tree
    evdir = os.environ.get('VERIF_EVIDENCE_DIR') or (os.path.join(VERIF, '.work', 'evidence-trials') if os.environ.get('VERIF_REPO') else os.path.join(VERIF, 'evidence'))
    os.makedirs(evdir, exist_ok=True)
    with open(os.path.join(evdir, ctx.pid + '.json'), 'w') as f:
        json.dump(ev, f, indent=1, sort_keys=True)
    for k in ctx.known:
        print('KNOWN-FINDING: property=%s %s: %s' % (ctx.pid, k['id'], k['what']))
    report_violations(ctx)
    ctx.log('done: %d violations, %d known findings, %d traces validated, %d model states' % (
        len(ctx.violations), len(ctx.known), cov['traces_validated_against_impl'], cov['states']))
    ctx.cleanup()
    return 1 if ctx.violations else 0
