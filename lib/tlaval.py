"""JSON value -> TLA+ expression text (used to turn a trace's catalogue line into a module of
plain constant definitions, which TLC evaluates once)."""
import json

def tla_str(s):
    out = []
    for ch in s:
        if ch == '\\': out.append('\\\\')
        elif ch == '"': out.append('\\"')
        elif ch == '\n': out.append('\\n')
        elif ch == '\t': out.append('\\t')
        elif ord(ch) < 32 or ord(ch) > 126: out.append('?')
        else: out.append(ch)
    return '"' + ''.join(out) + '"'

def tla(v):
    if isinstance(v, bool): return 'TRUE' if v else 'FALSE'
    if isinstance(v, int): return str(v)
    if isinstance(v, str): return tla_str(v)
    if isinstance(v, list): return '<<' + ', '.join(tla(x) for x in v) + '>>'
    if isinstance(v, dict):
        if not v: return '<<>>'
        return '(' + ' @@ '.join('%s :> %s' % (tla_str(k), tla(x)) for k, x in v.items()) + ')'
    raise ValueError('cannot render %r' % (v,))

def header_module(name, hdr):
    return '---- MODULE %s ----\nEXTENDS TLC\nHdr == %s\n====\n' % (name, tla(hdr))
