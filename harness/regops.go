package main

import (
	"bytes"
	"context"
	"encoding/base64"
	"encoding/json"
	"errors"
	"fmt"
	"io"
	"net/http"
	"net/url"
	"sort"
	"strconv"
	"strings"
	"sync"
	"time"

	"cuelabs.dev/go/oci/ociregistry"
	"github.com/opencontainers/go-digest"
)

// Op is one abstract registry call of a scenario.  The same record (plus result fields) is
// the trace event, and the same field names are used by spec/OciRegistry.tla's Apply.
type Op struct {
	Op       string `json:"op"`
	R        string `json:"r,omitempty"`
	From     string `json:"from,omitempty"`
	C        string `json:"c,omitempty"`   // content id
	DD       string `json:"dd,omitempty"`  // content whose digest is declared ("?" = unknown digest)
	DS       int    `json:"ds"`            // declared size
	T        string `json:"t,omitempty"`   // tag ("-" = none)
	MT       string `json:"mt,omitempty"`  // abstract media type
	BMT      string `json:"bmt,omitempty"` // abstract media type a blob is pushed under ("" = octet-stream)
	U        string `json:"u,omitempty"`   // upload session
	Off      int    `json:"off"`
	Chunk    int    `json:"chunk"`
	Data     []int  `json:"data,omitempty"`
	O0       int    `json:"o0"`
	O1       int    `json:"o1"`
	Start    string `json:"start,omitempty"` // concrete start string for listings
	StartPos int    `json:"startpos"`        // abstract start position (TLC-generated scenarios)
}

type Scenario struct {
	Pre   int    `json:"pre"` // the first Pre ops are applied to the in-memory registry underneath the stack (0: the -pre flag decides)
	Cat   string `json:"cat"` // "mc" or "rand"
	Imm   bool   `json:"imm"`
	Stack string `json:"stack"`
	Ops   []Op   `json:"ops"`
}

type ev = map[string]any

var stdErrors = []ociregistry.Error{
	ociregistry.ErrBlobUnknown, ociregistry.ErrBlobUploadInvalid, ociregistry.ErrBlobUploadUnknown,
	ociregistry.ErrDigestInvalid, ociregistry.ErrManifestBlobUnknown, ociregistry.ErrManifestInvalid,
	ociregistry.ErrManifestUnknown, ociregistry.ErrNameInvalid, ociregistry.ErrNameUnknown,
	ociregistry.ErrSizeInvalid, ociregistry.ErrUnauthorized, ociregistry.ErrDenied,
	ociregistry.ErrUnsupported, ociregistry.ErrTooManyRequests, ociregistry.ErrRangeInvalid,
}

// observeErr projects an error to what the specifications talk about: the vector of
// errors.Is answers against the standard values, the error's own code, its HTTP status.
func observeErr(e ev, err error) {
	e["ok"] = err == nil
	is := []string{}
	code := ""
	status := 0
	if err != nil {
		for _, s := range stdErrors {
			if errors.Is(err, s) {
				is = append(is, s.Code())
			}
		}
		var oe ociregistry.Error
		if errors.As(err, &oe) {
			code = oe.Code()
		}
		var he ociregistry.HTTPError
		if errors.As(err, &he) {
			status = he.StatusCode()
		}
		e["msg"] = err.Error()
	}
	e["is"] = is
	e["code"] = code
	e["status"] = status
}

// world is a stack under test together with what the harness needs to drive and observe it.
type world struct {
	mu      sync.Mutex
	cat     *Catalog
	top     ociregistry.Interface
	snapOf  ociregistry.Interface // registry whose state the snap events project (nil: none)
	snapAll []ociregistry.Interface
	prefix  string // repository name prefix underneath a sub() view
	close   func()
	writers map[string]ociregistry.BlobWriter
	ids     map[string]string
	out     *json.Encoder
	nEvents int
	rec     *recorder // backend call log, if the stack has one
	quiesce func()
	// resetConns drops pooled connections (after a transport-level failure)
	resetConns func()
	opNo       int64
	setOp      func(int64)
	direct     bool   // the current op bypasses the stack (pre-population)
	rewalk     bool   // every listing value is run a second time
	blobTypes  bool   // blobs may be pushed under media types other than application/octet-stream
	rawURL     string // outermost HTTP server when the stack is one HTTP hop (wire-level upload requests)
	serverURL  string // outermost HTTP server of the stack ("" if none or single POST disabled)
	// noFreshIDs: resuming a session the stack has not issued an id for is skipped
	noFreshIDs bool
}

func (w *world) emit(e ev) {
	w.nEvents++
	if e["op"] != "snap" && e["op"] != "reset" {
		e["direct"] = w.direct
	}
	if w.quiesce != nil {
		w.quiesce()
	}
	if w.resetConns != nil {
		if msg, _ := e["msg"].(string); strings.Contains(msg, "cannot do HTTP request") {
			w.resetConns()
		}
	}
	if w.rec != nil && e["op"] != "snap" && e["op"] != "reset" && !w.direct {
		e["backend"] = w.rec.take(w.opNo)
	}
	if err := w.out.Encode(e); err != nil {
		panic(err)
	}
}

func (w *world) digestOf(id string) digest.Digest {
	if c := w.cat.byID[id]; c != nil {
		return c.Digest
	}
	return digest.FromString("no such content: " + id)
}

func opEvent(op Op) ev {
	b, _ := json.Marshal(op)
	var e ev
	json.Unmarshal(b, &e)
	if op.Data != nil || op.Op == "Write" || op.Op == "RawPatch" || op.Op == "RawPut" {
		d := op.Data
		if d == nil {
			d = []int{}
		}
		e["data"] = d
	}
	return e
}

// scribble overwrites a buffer the harness has handed to the code under test and got back.
func scribble(b []byte) {
	for i := range b {
		b[i] ^= 0x5a
	}
}

func (w *world) descFields(e ev, desc ociregistry.Descriptor) {
	e["d"] = w.cat.cidOfDigest(desc.Digest)
	e["dsize"] = desc.Size
	e["mt"] = mtAbstract(desc.MediaType)
}

func (w *world) readFields(e ev, r ociregistry.BlobReader, wantSlice bool) {
	data, err := io.ReadAll(r)
	w.descFields(e, r.Descriptor())
	e["rderr"] = err != nil
	if err != nil {
		e["rdmsg"] = err.Error()
	}
	e["n"] = len(data)
	e["vid"] = w.cat.cidOfBytes(data)
	if wantSlice {
		e["slice"] = bytesToElems(data, w.cat.blocks())
	}
	if cerr := r.Close(); cerr != nil {
		e["closeerr"] = cerr.Error()
	}
}

// step executes one op against the top of the stack and records the event.  A panic in
// the code under test is recorded as an event of its own (no specification has such an
// action, so the trace is rejected there).
// hangTimeout: a call that has not returned after this long is recorded as hung (nothing in these
// harnesses blocks on anything but the code under test; the longest honest call takes a few seconds on a
// loaded machine).
const hangTimeout = 120 * time.Second

// step reports false when the call did not return: a "hang" event is recorded (no specification has such
// an action) and the world must not be used any more.
func (w *world) step(ctx context.Context, op Op) bool {
	w.opNo++
	if w.setOp != nil {
		w.setOp(w.opNo)
	}
	done := make(chan ev, 1)
	go func() { done <- w.exec(ctx, op) }()
	select {
	case e := <-done:
		w.emit(e)
		return true
	case <-time.After(hangTimeout):
		e := opEvent(op)
		e["op"] = "hang"
		e["inop"] = op.Op
		e["direct"] = w.direct
		w.out.Encode(e)
		return false
	}
}

// getWriter / setWriter guard the handle tables (concurrent drivers share them).
func (w *world) getWriter(key string) ociregistry.BlobWriter {
	w.mu.Lock()
	defer w.mu.Unlock()
	return w.writers[key]
}

// Sessions are identified by repository and session name (the same name may be in use in two
// repositories at once); key is "<repo>|<name>".
func (w *world) setWriter(key, u, id string, bw ociregistry.BlobWriter) {
	w.mu.Lock()
	defer w.mu.Unlock()
	if bw != nil {
		w.writers[key] = bw
	}
	w.ids[key] = id
	if i := strings.Index(key, "|"); i >= 0 {
		w.ids["*|"+key[i+1:]] = id
	}
}

// rawLocation is the URL of the upload session u of repository r for a plain HTTP request: the
// location the client was given for it, or (for a name no session has been given anywhere) a
// location with a fresh id.  A name in use in another repository only is not resolved.
func (w *world) rawLocation(r, u string) (string, bool) {
	w.mu.Lock()
	defer w.mu.Unlock()
	id, ok := w.ids[r+"|"+u]
	if !ok {
		if _, elsewhere := w.ids["*|"+u]; elsewhere {
			return "", false
		}
		id = "fresh-" + r + "-" + u
	}
	switch {
	case strings.HasPrefix(id, "http://"), strings.HasPrefix(id, "https://"):
		return id, true
	case strings.HasPrefix(id, "/"):
		return w.rawURL + id, true
	}
	return w.rawURL + "/v2/" + r + "/blobs/uploads/" + base64.RawURLEncoding.EncodeToString([]byte(id)), true
}

func (w *world) idOf(key string) (string, bool) {
	w.mu.Lock()
	defer w.mu.Unlock()
	if id, ok := w.ids[key]; ok {
		return id, true
	}
	// a session name not yet used in this repository: hand over the id the name has elsewhere (to the
	// registry it is just an id it has not seen in this repository)
	if i := strings.Index(key, "|"); i >= 0 {
		id, ok := w.ids["*|"+key[i+1:]]
		return id, ok
	}
	return "", false
}

// exec executes one op against the top of the stack and returns the event describing it.
func (w *world) exec(ctx context.Context, op Op) (e ev) {
	e = opEvent(op)
	defer func() {
		if p := recover(); p != nil {
			e["op"] = "panic"
			e["inop"] = op.Op
			e["panic"] = fmt.Sprint(p)
		}
	}()
	reg := w.top
	cat := w.cat
	if op.Start == "" && op.StartPos > 0 {
		universe := cat.Repos
		if op.Op == "ListTags" {
			universe = cat.Tags
		}
		op.Start = startAt(universe, op.StartPos)
		e["start"] = op.Start
	}
	switch op.Op {
	case "PushBlob":
		c := cat.byID[op.C]
		// the media type a blob is pushed with is part of what the registry stores; the upload protocol
		// has no place for it, so it is only varied where no HTTP hop is in the way
		bmt := "octet"
		if op.BMT != "" && w.blobTypes {
			bmt = op.BMT
		}
		e["bmt"] = bmt
		desc := ociregistry.Descriptor{MediaType: mtConcrete[bmt], Digest: w.digestOf(op.DD), Size: int64(op.DS)}
		pbuf := append([]byte(nil), c.Data...)
		defer scribble(pbuf)
		var content io.Reader = bytes.NewReader(pbuf)
		if op.Chunk == 1 {
			// slow content: the registry sees the bytes one at a time with pauses in between,
			// which keeps the call in flight while other goroutines look at the registry
			content = &slowReader{data: c.Data}
		}
		got, err := reg.PushBlob(ctx, op.R, desc, content)
		observeErr(e, err)
		if err == nil {
			w.descFields(e, got)
		}
	case "PostBlob":
		// single-POST upload (POST .../blobs/uploads/?digest=...): the client library never uses this
		// path, so it is driven with a plain HTTP request against the stack's outermost server
		if w.serverURL == "" || w.direct {
			e["op"] = "skip"
			break
		}
		c := cat.byID[op.C]
		u := w.serverURL + "/v2/" + op.R + "/blobs/uploads/?digest=" + url.QueryEscape(string(w.digestOf(op.DD)))
		req, _ := http.NewRequestWithContext(ctx, "POST", u, bytes.NewReader(c.Data))
		req.Header.Set("Content-Type", "application/octet-stream")
		req.Header.Set("X-Verif-Op", fmt.Sprint(w.opNo))
		resp, err := http.DefaultClient.Do(req)
		if err != nil {
			observeErr(e, err)
			break
		}
		body, _ := io.ReadAll(resp.Body)
		resp.Body.Close()
		if resp.StatusCode == http.StatusCreated {
			observeErr(e, nil)
			e["d"] = cat.cidOfDigest(digest.Digest(resp.Header.Get("Docker-Content-Digest")))
			e["dsize"] = len(c.Data)
			e["mt"] = "octet"
			e["status"] = resp.StatusCode
			break
		}
		var werrs ociregistry.WireErrors
		if json.Unmarshal(body, &werrs) == nil && len(werrs.Errors) > 0 {
			observeErr(e, ociregistry.NewHTTPError(&werrs, resp.StatusCode, nil, nil))
		} else {
			observeErr(e, fmt.Errorf("status %d with no OCI error body", resp.StatusCode))
			e["status"] = resp.StatusCode
		}
	case "RawPatch", "RawPut", "RawStatus":
		// the upload requests as any HTTP client may send them (the client library always sends a
		// Content-Range that continues where its own writer stands): plain requests against the stack's
		// outermost server.  Off = -2: no Content-Range header.
		if w.rawURL == "" || w.direct {
			e["op"] = "skip"
			break
		}
		loc, ok := w.rawLocation(op.R, op.U)
		if !ok {
			e["op"] = "skip"
			break
		}
		data := elemsToBytes(op.Data)
		// Chunk = 1: the body is streamed (Transfer-Encoding: chunked, no Content-Length)
		var reqBody io.Reader = bytes.NewReader(data)
		if op.Chunk == 1 {
			reqBody = struct{ io.Reader }{bytes.NewReader(data)}
		}
		var req *http.Request
		switch op.Op {
		case "RawPatch":
			req, _ = http.NewRequestWithContext(ctx, "PATCH", loc, reqBody)
		case "RawPut":
			u, err := url.Parse(loc)
			if err != nil {
				e["op"] = "skip"
				break
			}
			q := u.Query()
			q.Set("digest", string(w.digestOf(op.DD)))
			u.RawQuery = q.Encode()
			req, _ = http.NewRequestWithContext(ctx, "PUT", u.String(), reqBody)
		default:
			req, _ = http.NewRequestWithContext(ctx, "GET", loc, nil)
		}
		if req == nil {
			break
		}
		if op.Op != "RawStatus" {
			req.Header.Set("Content-Type", "application/octet-stream")
			if op.Off != -2 {
				end := op.Off + len(data) - 1
				if end < 0 {
					end = 0
				}
				req.Header.Set("Content-Range", fmt.Sprintf("%d-%d", op.Off, end))
			}
		}
		req.Header.Set("X-Verif-Op", fmt.Sprint(w.opNo))
		resp, err := http.DefaultClient.Do(req)
		if err != nil {
			observeErr(e, err)
			break
		}
		body, _ := io.ReadAll(resp.Body)
		resp.Body.Close()
		e["status"] = resp.StatusCode
		if resp.StatusCode/100 == 2 {
			observeErr(e, nil)
			e["status"] = resp.StatusCode
			if op.Op == "RawPut" {
				d := w.cat.cidOfDigest(digest.Digest(resp.Header.Get("Docker-Content-Digest")))
				e["d"] = d
				e["dsize"] = 0
				if c := w.cat.byID[d]; c != nil {
					e["dsize"] = len(c.Data)
				}
				e["mt"] = "octet"
				break
			}
			// "0-<end>"
			e["n"] = -1
			if _, end, ok := strings.Cut(resp.Header.Get("Range"), "-"); ok {
				if n, err := strconv.Atoi(end); err == nil {
					e["n"] = n
				}
			}
			e["range"] = resp.Header.Get("Range")
			if l, err := resp.Location(); err == nil {
				w.setWriter(op.R+"|"+op.U, op.U, l.String(), nil)
			}
			break
		}
		var werrs ociregistry.WireErrors
		if json.Unmarshal(body, &werrs) == nil && len(werrs.Errors) > 0 {
			observeErr(e, ociregistry.NewHTTPError(&werrs, resp.StatusCode, nil, nil))
		} else {
			observeErr(e, fmt.Errorf("status %d with no OCI error body", resp.StatusCode))
			e["status"] = resp.StatusCode
		}
	case "MountBlob":
		got, err := reg.MountBlob(ctx, op.From, op.R, w.digestOf(op.C))
		observeErr(e, err)
		if err == nil {
			w.descFields(e, got)
		}
	case "PushManifest":
		c := cat.byID[op.C]
		tag := op.T
		if tag == "-" {
			tag = ""
		}
		buf := append([]byte(nil), c.Data...)
		got, err := reg.PushManifest(ctx, op.R, tag, buf, mtConcrete[op.MT])
		// the contents belong to the caller again once the call has returned
		scribble(buf)
		observeErr(e, err)
		if err == nil {
			w.descFields(e, got)
		}
	case "PushBlobChunked":
		bw, err := reg.PushBlobChunked(ctx, op.R, op.Chunk)
		observeErr(e, err)
		if err == nil {
			w.setWriter(op.R+"|"+op.U, op.U, bw.ID(), bw)
			e["chunksize"] = bw.ChunkSize()
		}
	case "Resume":
		id, ok := w.idOf(op.R + "|" + op.U)
		if !ok {
			if w.noFreshIDs {
				// a session id only means something to the layer that issued it
				e["op"] = "skip"
				break
			}
			id = "fresh-" + op.U
		}
		bw, err := reg.PushBlobChunkedResume(ctx, op.R, id, int64(op.Off), op.Chunk)
		observeErr(e, err)
		if err == nil {
			w.setWriter(op.R+"|"+op.U, op.U, id, bw)
			e["n"] = bw.Size()
		}
	case "Write":
		bw := w.getWriter(op.R + "|" + op.U)
		if bw == nil {
			e["op"] = "skip"
			break
		}
		buf := elemsToBytes(op.Data)
		n, err := bw.Write(buf)
		// a Write must not retain its argument: the caller reuses the buffer at once
		scribble(buf)
		observeErr(e, err)
		e["n"] = n
	case "UpSize":
		bw := w.getWriter(op.R + "|" + op.U)
		if bw == nil {
			e["op"] = "skip"
			break
		}
		observeErr(e, nil)
		e["n"] = bw.Size()
	case "Close":
		bw := w.getWriter(op.R + "|" + op.U)
		if bw == nil {
			e["op"] = "skip"
			break
		}
		observeErr(e, bw.Close())
		w.setWriter(op.R+"|"+op.U, op.U, bw.ID(), nil)
	case "Cancel":
		bw := w.getWriter(op.R + "|" + op.U)
		if bw == nil {
			e["op"] = "skip"
			break
		}
		observeErr(e, bw.Cancel())
	case "Commit":
		bw := w.getWriter(op.R + "|" + op.U)
		if bw == nil {
			e["op"] = "skip"
			break
		}
		got, err := bw.Commit(w.digestOf(op.DD))
		observeErr(e, err)
		if err == nil {
			w.descFields(e, got)
		}
	case "GetBlob":
		r, err := reg.GetBlob(ctx, op.R, w.digestOf(op.C))
		observeErr(e, err)
		if err == nil {
			w.readFields(e, r, false)
		}
	case "GetBlobRange":
		r, err := reg.GetBlobRange(ctx, op.R, w.digestOf(op.C), int64(op.O0), int64(op.O1))
		observeErr(e, err)
		if err == nil {
			w.readFields(e, r, true)
		}
	case "GetManifest":
		r, err := reg.GetManifest(ctx, op.R, w.digestOf(op.C))
		observeErr(e, err)
		if err == nil {
			w.readFields(e, r, false)
		}
	case "GetTag":
		r, err := reg.GetTag(ctx, op.R, op.T)
		observeErr(e, err)
		if err == nil {
			w.readFields(e, r, false)
		}
	case "ResolveBlob":
		d, err := reg.ResolveBlob(ctx, op.R, w.digestOf(op.C))
		observeErr(e, err)
		if err == nil {
			w.descFields(e, d)
		}
	case "ResolveManifest":
		d, err := reg.ResolveManifest(ctx, op.R, w.digestOf(op.C))
		observeErr(e, err)
		if err == nil {
			w.descFields(e, d)
		}
	case "ResolveTag":
		d, err := reg.ResolveTag(ctx, op.R, op.T)
		observeErr(e, err)
		if err == nil {
			w.descFields(e, d)
		}
	case "DeleteBlob":
		observeErr(e, reg.DeleteBlob(ctx, op.R, w.digestOf(op.C)))
	case "DeleteManifest":
		observeErr(e, reg.DeleteManifest(ctx, op.R, w.digestOf(op.C)))
	case "DeleteTag":
		observeErr(e, reg.DeleteTag(ctx, op.R, op.T))
	case "ListRepos":
		it := reg.Repositories(ctx, op.Start)
		items, n, err := collect(it)
		observeErr(e, err)
		e["items"] = items
		e["calls"] = n
		e["startpos"] = listPos(cat.Repos, op.Start)
		if w.rewalk {
			rewalk(e, it, func(x string) string { return x })
		}
	case "ListTags":
		it := reg.Tags(ctx, op.R, op.Start)
		items, n, err := collect(it)
		observeErr(e, err)
		e["items"] = items
		e["calls"] = n
		e["startpos"] = listPos(cat.Tags, op.Start)
		if w.rewalk {
			rewalk(e, it, func(x string) string { return x })
		}
	case "Referrers":
		it := reg.Referrers(ctx, op.R, w.digestOf(op.C), "")
		descs, n, err := collect(it)
		if w.rewalk {
			rewalk(e, it, func(d ociregistry.Descriptor) string { return cat.cidOfDigest(d.Digest) })
		}
		observeErr(e, err)
		items := []string{}
		full := []ev{}
		for _, d := range descs {
			items = append(items, cat.cidOfDigest(d.Digest))
			full = append(full, ev{"d": cat.cidOfDigest(d.Digest), "dsize": d.Size, "mt": mtAbstract(d.MediaType)})
		}
		e["items"] = items
		e["descs"] = full
		e["calls"] = n
	default:
		panic("unknown op " + op.Op)
	}
	return e
}

// rewalk runs the same listing value again - first declining after one item, then completely - and
// records what the complete second run delivered: a listing value can be run any number of times.
func rewalk[T any](e ev, it ociregistry.Seq[T], name func(T) string) {
	it(func(T, error) bool { return false })
	items, _, err := collect(it)
	names := []string{}
	for _, x := range items {
		names = append(names, name(x))
	}
	e["items2"] = names
	e["ok2"] = err == nil
}

// collect drains an iterator, counting how often the consumer was called, so that the
// "stops after an error" clause is observable: a well-behaved iterator calls at most
// len(items)+1 times.
func collect[T any](it ociregistry.Seq[T]) (items []T, calls int, err error) {
	items = []T{}
	it(func(x T, e error) bool {
		calls++
		if err != nil {
			// called again after an error was delivered
			calls += 1000
			return false
		}
		if e != nil {
			err = e
			return true // keep accepting: a conforming iterator stops by itself
		}
		items = append(items, x)
		return true
	})
	return items, calls, err
}

// snap projects the complete state of a registry over the catalogue's universe, using
// only the Interface.  Used on the in-memory registry underneath the stack.
func (w *world) snap(ctx context.Context) {
	for _, reg := range w.snapAll {
		w.snap1(ctx, reg)
	}
}

func (w *world) snap1(ctx context.Context, reg ociregistry.Interface) {
	blobs := ev{}
	mans := ev{}
	tags := ev{}
	for _, r0 := range w.cat.Repos {
		r := r0
		if w.prefix != "" {
			r = w.prefix + "/" + r0
		}
		bl := []string{}
		ml := ev{}
		tl := ev{}
		for _, c := range w.cat.Contents {
			if _, err := reg.ResolveBlob(ctx, r, c.Digest); err == nil {
				bl = append(bl, c.ID)
			}
			if d, err := reg.ResolveManifest(ctx, r, c.Digest); err == nil {
				ml[c.ID] = mtAbstract(d.MediaType)
			}
		}
		for _, t := range w.cat.Tags {
			if d, err := reg.ResolveTag(ctx, r, t); err == nil {
				tl[t] = ev{"c": w.cat.cidOfDigest(d.Digest), "mt": mtAbstract(d.MediaType)}
			}
		}
		sort.Strings(bl)
		blobs[r0] = bl
		mans[r0] = ml
		tags[r0] = tl
	}
	w.emit(ev{"op": "snap", "blobs": blobs, "mans": mans, "tags": tags})
}

// startAt is the inverse of listPos for the positions TLC scenarios use.
func startAt(sorted []string, pos int) string {
	if pos <= 0 {
		return ""
	}
	i := pos / 2
	if pos%2 == 0 {
		if i-1 < len(sorted) {
			return sorted[i-1]
		}
		return sorted[len(sorted)-1] + "~"
	}
	if i == 0 {
		return "0"
	}
	if i-1 < len(sorted) {
		return sorted[i-1] + "0"
	}
	return sorted[len(sorted)-1] + "~~"
}

type slowReader struct {
	data []byte
	n    int
}

func (r *slowReader) Read(p []byte) (int, error) {
	time.Sleep(300 * time.Microsecond)
	if r.n >= len(r.data) {
		return 0, io.EOF
	}
	if len(p) == 0 {
		return 0, nil
	}
	p[0] = r.data[r.n]
	r.n++
	return 1, nil
}
