package main

import (
	"context"
	"io"
	"sync"

	"cuelabs.dev/go/oci/ociregistry"
)

// recorder is a backend wrapper that logs every Interface call made on it (method and
// abstract arguments) and delegates.  It sits directly in front of the in-memory registry
// so that a trace can show which backend operations a client-side call turned into.
type recorder struct {
	ociregistry.Interface
	cat   *Catalog
	mu    sync.Mutex
	calls []ev
}

func (r *recorder) logc(ctx context.Context, e ev) {
	e["#"] = tagOf(ctx)
	r.log(e)
}

func (r *recorder) log(e ev) {
	r.mu.Lock()
	r.calls = append(r.calls, e)
	r.mu.Unlock()
}

// take returns the calls made on behalf of client-side call n and forgets everything logged
// so far (calls of earlier client-side calls that arrived late are dropped).
func (r *recorder) take(n int64) []ev {
	r.mu.Lock()
	defer r.mu.Unlock()
	c := []ev{}
	for _, e := range r.calls {
		if e["#"] == n {
			delete(e, "#")
			c = append(c, e)
		}
	}
	r.calls = nil
	return c
}

func (r *recorder) cid(d ociregistry.Digest) string { return r.cat.cidOfDigest(d) }

func (r *recorder) GetBlob(ctx context.Context, repo string, d ociregistry.Digest) (ociregistry.BlobReader, error) {
	r.logc(ctx, ev{"m": "GetBlob", "r": repo, "c": r.cid(d)})
	return r.Interface.GetBlob(ctx, repo, d)
}
func (r *recorder) GetBlobRange(ctx context.Context, repo string, d ociregistry.Digest, o0, o1 int64) (ociregistry.BlobReader, error) {
	r.logc(ctx, ev{"m": "GetBlobRange", "r": repo, "c": r.cid(d), "o0": o0, "o1": o1})
	return r.Interface.GetBlobRange(ctx, repo, d, o0, o1)
}
func (r *recorder) GetManifest(ctx context.Context, repo string, d ociregistry.Digest) (ociregistry.BlobReader, error) {
	r.logc(ctx, ev{"m": "GetManifest", "r": repo, "c": r.cid(d)})
	return r.Interface.GetManifest(ctx, repo, d)
}
func (r *recorder) GetTag(ctx context.Context, repo string, tag string) (ociregistry.BlobReader, error) {
	r.logc(ctx, ev{"m": "GetTag", "r": repo, "t": tag})
	return r.Interface.GetTag(ctx, repo, tag)
}
func (r *recorder) ResolveBlob(ctx context.Context, repo string, d ociregistry.Digest) (ociregistry.Descriptor, error) {
	r.logc(ctx, ev{"m": "ResolveBlob", "r": repo, "c": r.cid(d)})
	return r.Interface.ResolveBlob(ctx, repo, d)
}
func (r *recorder) ResolveManifest(ctx context.Context, repo string, d ociregistry.Digest) (ociregistry.Descriptor, error) {
	r.logc(ctx, ev{"m": "ResolveManifest", "r": repo, "c": r.cid(d)})
	return r.Interface.ResolveManifest(ctx, repo, d)
}
func (r *recorder) ResolveTag(ctx context.Context, repo string, tag string) (ociregistry.Descriptor, error) {
	r.logc(ctx, ev{"m": "ResolveTag", "r": repo, "t": tag})
	return r.Interface.ResolveTag(ctx, repo, tag)
}
func (r *recorder) PushBlob(ctx context.Context, repo string, desc ociregistry.Descriptor, content io.Reader) (ociregistry.Descriptor, error) {
	r.logc(ctx, ev{"m": "PushBlob", "r": repo, "c": r.cid(desc.Digest), "ds": desc.Size})
	return r.Interface.PushBlob(ctx, repo, desc, content)
}
func (r *recorder) PushBlobChunked(ctx context.Context, repo string, chunkSize int) (ociregistry.BlobWriter, error) {
	r.logc(ctx, ev{"m": "PushBlobChunked", "r": repo})
	w, err := r.Interface.PushBlobChunked(ctx, repo, chunkSize)
	if err != nil {
		return nil, err
	}
	return &recWriter{BlobWriter: w, rec: r, repo: repo, tag: tagOf(ctx)}, nil
}
func (r *recorder) PushBlobChunkedResume(ctx context.Context, repo, id string, offset int64, chunkSize int) (ociregistry.BlobWriter, error) {
	r.logc(ctx, ev{"m": "Resume", "r": repo, "off": offset})
	w, err := r.Interface.PushBlobChunkedResume(ctx, repo, id, offset, chunkSize)
	if err != nil {
		return nil, err
	}
	return &recWriter{BlobWriter: w, rec: r, repo: repo, tag: tagOf(ctx)}, nil
}
func (r *recorder) MountBlob(ctx context.Context, from, to string, d ociregistry.Digest) (ociregistry.Descriptor, error) {
	r.logc(ctx, ev{"m": "MountBlob", "from": from, "r": to, "c": r.cid(d)})
	return r.Interface.MountBlob(ctx, from, to, d)
}
func (r *recorder) PushManifest(ctx context.Context, repo string, tag string, contents []byte, mediaType string) (ociregistry.Descriptor, error) {
	t := tag
	if t == "" {
		t = "-"
	}
	r.logc(ctx, ev{"m": "PushManifest", "r": repo, "t": t, "c": r.cat.cidOfBytes(contents), "mt": mtAbstract(mediaType)})
	return r.Interface.PushManifest(ctx, repo, tag, contents, mediaType)
}
func (r *recorder) DeleteBlob(ctx context.Context, repo string, d ociregistry.Digest) error {
	r.logc(ctx, ev{"m": "DeleteBlob", "r": repo, "c": r.cid(d)})
	return r.Interface.DeleteBlob(ctx, repo, d)
}
func (r *recorder) DeleteManifest(ctx context.Context, repo string, d ociregistry.Digest) error {
	r.logc(ctx, ev{"m": "DeleteManifest", "r": repo, "c": r.cid(d)})
	return r.Interface.DeleteManifest(ctx, repo, d)
}
func (r *recorder) DeleteTag(ctx context.Context, repo string, tag string) error {
	r.logc(ctx, ev{"m": "DeleteTag", "r": repo, "t": tag})
	return r.Interface.DeleteTag(ctx, repo, tag)
}
func (r *recorder) Repositories(ctx context.Context, startAfter string) ociregistry.Seq[string] {
	r.logc(ctx, ev{"m": "ListRepos", "startpos": listPos(r.cat.Repos, startAfter)})
	return r.Interface.Repositories(ctx, startAfter)
}
func (r *recorder) Tags(ctx context.Context, repo string, startAfter string) ociregistry.Seq[string] {
	r.logc(ctx, ev{"m": "ListTags", "r": repo, "startpos": listPos(r.cat.Tags, startAfter)})
	return r.Interface.Tags(ctx, repo, startAfter)
}
func (r *recorder) Referrers(ctx context.Context, repo string, d ociregistry.Digest, artifactType string) ociregistry.Seq[ociregistry.Descriptor] {
	r.logc(ctx, ev{"m": "Referrers", "r": repo, "c": r.cid(d)})
	return r.Interface.Referrers(ctx, repo, d, artifactType)
}

type recWriter struct {
	ociregistry.BlobWriter
	rec  *recorder
	repo string
	tag  int64
}

func (w *recWriter) Write(data []byte) (int, error) {
	w.rec.log(ev{"m": "Write", "r": w.repo, "n": len(data), "#": w.tag})
	return w.BlobWriter.Write(data)
}
func (w *recWriter) Commit(d ociregistry.Digest) (ociregistry.Descriptor, error) {
	w.rec.log(ev{"m": "Commit", "r": w.repo, "c": w.rec.cid(d), "#": w.tag})
	return w.BlobWriter.Commit(d)
}
func (w *recWriter) Cancel() error {
	w.rec.log(ev{"m": "Cancel", "r": w.repo, "#": w.tag})
	return w.BlobWriter.Cancel()
}
