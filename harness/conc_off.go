//go:build !verif

package main

import "fmt"

func init() {
	commands["conc"] = func([]string) error {
		return fmt.Errorf("the conc command needs the harness built with -tags verif (ocimem yield hooks)")
	}
}
