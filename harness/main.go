// Command vh is the conformance harness binding the TLA+ specifications in ../spec to
// the real cue-labs/oci packages built from /repo's working tree.  It contains no oracle
// logic: it concretises abstract scenario values, drives the real code, and records one
// ndjson event per completed step with the projected observable result.
package main

import (
	"fmt"
	"os"
)

var commands = map[string]func(args []string) error{}

func main() {
	if len(os.Args) < 2 {
		fmt.Fprintln(os.Stderr, "usage: vh <command> [flags]")
		os.Exit(2)
	}
	cmd := commands[os.Args[1]]
	if cmd == nil {
		fmt.Fprintf(os.Stderr, "vh: unknown command %q\n", os.Args[1])
		os.Exit(2)
	}
	if err := cmd(os.Args[2:]); err != nil {
		fmt.Fprintf(os.Stderr, "vh %s: %v\n", os.Args[1], err)
		os.Exit(2)
	}
}
